import PgFdr.Proofs.C18
import PgFdr.Proofs.PipelineC18
import PgFdr.Proofs.Cli
import PgFdr.Proofs.PipelineComplete

/-!
# C18 — every shipped method configuration is usable from the command line

Property text (properties.jsonl): "For every method configuration shipped with the tool and
selectable by name, running it from the command line on valid input of the matching type completes
and writes a protein-group table for which the ranking, q-value and row-consistency guarantees
above hold; combinations the tool does not support are refused with its own explanatory error
(missing input file, rescue not possible for this score) instead of an internal error."

The theorems are about the executable model `PgFdr.C18` (`parseMethod`, `runMethod`, `runLoop`,
`runCli` — the functions the driver op "method" runs) over the table `Generated.methods`, which
`harness/tables.py` re-translates from `picked_group_fdr/methods/*.toml` on every run: a shipped
file that is not supported breaks `shipped_methods_supported` at build time.  The model is tied to
`parse_method_toml` / `ProteinScoringStrategy.__init__` / `get_protein_group_results` and to the
real command line by the correspondence of `harness/props/C18.py`; the guarantees of the written
tables are checked there directly on every table (and are the subject of C01/C02/C06).
-/
namespace PgFdr.C18
open PgFdr.Generated (MethodToml)

/-- the generated-table obligation, evaluated by the kernel on the current TOML files -/
theorem shipped_methods_ok : ∀ m ∈ Generated.methods, shippedOk Generated.methods m = true := by
  decide +kernel

/-- Bool form of the naming obligation, so that the kernel can evaluate it over the table -/
def noRemapNameOk (m : MethodToml) : Bool :=
  !has m.name "no_remap" ||
    (match parseMethod false m with
     | .ok cfg => !cfg.origin.remaps
     | .error _ => true)

theorem no_remap_table : ∀ m ∈ Generated.methods, noRemapNameOk m = true := by decide +kernel

/-- the name of a shipped method does not lie about remapping: a method whose file name says `no_remap` reads the
    proteins from the input file (so it runs without a FASTA file).  The code decides "remap" by the substring test
    `"remap" in score_description`, which `no_remap` also satisfies for Percolator input (DESIGN.md §16) — a shipped
    file spelling its Percolator score type `Perc no_remap …` would silently become a remapping method and be
    refused without a FASTA file; this obligation is evaluated by the kernel on the current TOML files. -/
theorem no_remap_named_methods_do_not_remap :
    ∀ m ∈ Generated.methods, has m.name "no_remap" = true →
      ∀ cfg, parseMethod false m = .ok cfg → cfg.origin.remaps = false := by
  intro m hm hname cfg hcfg
  have h := no_remap_table m hm
  simp only [noRemapNameOk, hname, hcfg, Bool.not_true, Bool.false_or, Bool.not_eq_true'] at h
  exact h

/-- non-vacuity: some shipped method is named `no_remap`, and the obligation is not trivially true of every
    spelling — a Percolator score type spelled `Perc no_remap bestPEP` does parse to a remapping origin -/
example : ∃ m ∈ Generated.methods, has m.name "no_remap" = true := by decide +kernel
example : (parseOrigin "Perc no_remap bestPEP").remaps = true := by decide +kernel

/-- "For every method configuration shipped with the tool and selectable by name, running it from
    the command line on valid input of the matching type completes and writes a protein-group
    table": every shipped file parses, configures a rescue step only for a score that can rescue,
    reads one of the five supported inputs, is found under its own name, and the run selecting it
    by name with its own input type and a FASTA file ends with a table -/
theorem shipped_methods_supported :
    ∀ m ∈ Generated.methods, ∃ cfg,
      parseMethod false m = .ok cfg ∧
      (cfg.grouping.rescues = true → cfg.score.canRescue = true) ∧
      cfg.input ∈ [Input.mq, Input.perc, Input.fragpipe, Input.sage, Input.diann] ∧
      findMethod Generated.methods m.name = .ok m ∧
      runCli Generated.methods false (matching cfg) [.builtin m.name] = .ok ([cfg], [Outcome.table]) := by
  intro m hm
  obtain ⟨cfg, h1, h2, h3, h4, _⟩ := shippedOk_spec _ m (shipped_methods_ok m hm)
  refine ⟨cfg, h1, h2, ?_, h4, h3⟩
  cases cfg.input <;> simp

/-- "(and several given at once)": any list of shipped method names given at once, with all five
    inputs and a FASTA file supplied, is parsed completely and every method writes a table -/
theorem several_shipped_methods (names : List String)
    (h : ∀ n ∈ names, n ∈ Generated.methods.map (·.name)) :
    ∃ cfgs, runCli Generated.methods false everything (names.map .builtin) =
        .ok (cfgs, cfgs.map (fun _ => Outcome.table)) ∧ cfgs.length = names.length := by
  have key : ∀ names : List String, (∀ n ∈ names, n ∈ Generated.methods.map (·.name)) →
      ∃ cfgs, parseAll Generated.methods false (names.map .builtin) = .ok cfgs ∧
        runLoop everything cfgs = cfgs.map (fun _ => Outcome.table) ∧ cfgs.length = names.length := by
    intro names
    induction names with
    | nil => intro _; exact ⟨[], rfl, rfl, rfl⟩
    | cons n r ih =>
      intro h
      obtain ⟨cs, hcs, hrun, hlen⟩ := ih (fun x hx => h x (List.mem_cons_of_mem _ hx))
      obtain ⟨m, hm, hn⟩ := List.mem_map.mp (h n List.mem_cons_self)
      obtain ⟨cfg, h1, _, _, h4, h5⟩ := shippedOk_spec _ m (shipped_methods_ok m hm)
      subst hn
      refine ⟨cfg :: cs, ?_, ?_, by simp [hlen]⟩
      · simp only [List.map_cons, parseAll, resolve, h4, h1, hcs]
      · simp only [runLoop, h5, hrun, List.map_cons]
  obtain ⟨cfgs, hp, hr, hl⟩ := key names h
  refine ⟨cfgs, ?_, hl⟩
  unfold runCli
  have : (cfgs.any Cfg.needsMap && !everything.map) = false := by simp [everything]
  simp only [hp, this, hr]
  rfl

/-- "combinations the tool does not support are refused with its own explanatory error (missing
    input file, rescue not possible for this score) instead of an internal error": on a
    well-typed configuration (all five keys present) the model has no failure other than the
    named ones — parsing fails only with unknown_picked / unknown_score / unknown_grouping, and
    a parsed method either writes a table or is refused with missing_input, no_score_column,
    missing_mq_protein_groups, no_protein_score_file (the REPAIRED refusal of `MQ_protein` outside MaxQuant input;
    the shipped code dies there with `FileNotFoundError ''` — the C18 finding, see `no_protein_score_file_iff`)
    or rescue_unsupported -/
theorem unsupported_is_refused (useGenes : Bool) (s : Supplied) (t : MethodToml)
    (hp : t.pickedStrategy.isSome = true) (hs : t.scoreType.isSome = true)
    (hsh : t.sharedPeptides.isSome = true) (hg : t.grouping.isSome = true)
    (hl : t.label.isSome = true) :
    (∃ e, parseMethod useGenes t = .error e ∧
        (e = .unknownPicked ∨ e = .unknownScore ∨ e = .unknownGrouping)) ∨
    (∃ cfg, parseMethod useGenes t = .ok cfg ∧
        (runMethod s cfg = .ok () ∨
         ∃ e, runMethod s cfg = .error e ∧
           (e = .missingInput ∨ e = .noScoreColumn ∨ e = .missingMqProteinGroups ∨
            e = .noProteinScoreFile ∨ e = .rescueUnsupported))) := by
  obtain ⟨pk, hpk⟩ := Option.isSome_iff_exists.mp hp
  obtain ⟨st, hst⟩ := Option.isSome_iff_exists.mp hs
  obtain ⟨sh, hsh'⟩ := Option.isSome_iff_exists.mp hsh
  obtain ⟨g, hg'⟩ := Option.isSome_iff_exists.mp hg
  obtain ⟨lb, hl'⟩ := Option.isSome_iff_exists.mp hl
  have run : ∀ cfg, (runMethod s cfg = .ok () ∨
         ∃ e, runMethod s cfg = .error e ∧
           (e = .missingInput ∨ e = .noScoreColumn ∨ e = .missingMqProteinGroups ∨
            e = .noProteinScoreFile ∨ e = .rescueUnsupported)) := by
    intro cfg
    cases hr : runMethod s cfg with
    | ok u => exact Or.inl rfl
    | error e => exact Or.inr ⟨e, rfl, runMethod_error_cases s cfg e hr⟩
  unfold parseMethod
  simp only [hpk, hst, hsh', hg', hl']
  cases h1 : parsePicked pk with
  | none => left; exact ⟨.unknownPicked, rfl, Or.inl rfl⟩
  | some p =>
    cases h2 : parseScore (scoreDescription st sh) with
    | none => left; exact ⟨.unknownScore, rfl, Or.inr (Or.inl rfl)⟩
    | some sc =>
      have hgn : ∃ gn, (if useGenes = true then some "pseudo_gene" else some g) = some gn := by
        cases useGenes <;> simp
      obtain ⟨gn, hgn⟩ := hgn
      simp only [hgn]
      cases h3 : parseGrouping gn with
      | none => left; exact ⟨.unknownGrouping, rfl, Or.inr (Or.inr rfl)⟩
      | some gr => right; exact ⟨_, rfl, run _⟩

/-- "refused with its own explanatory error (missing input file …)": a parsed method is skipped
    with the missing-input warning exactly when no file of the type it reads was given -/
theorem missing_input_iff (s : Supplied) (c : Cfg) :
    runMethod s c = .error .missingInput ↔ s.has c.input = false := by
  unfold runMethod
  cases h : s.has c.input
  · simp
  · simp only [Bool.not_true, Bool.false_eq_true, if_false]
    constructor
    · intro h'
      split at h'
      · cases h'
      · split at h'
        · cases h'
        · split at h'
          · cases h'
          · split at h' <;> cases h'
    · intro h'; cases h'

/-- "(… rescue not possible for this score)": the rescue refusal is raised exactly for a method
    whose grouping has a rescue step and whose score cannot rescue (only bestPEP and multPEP can),
    once its input is there -/
theorem rescue_unsupported_iff (s : Supplied) (c : Cfg) :
    runMethod s c = .error .rescueUnsupported ↔
      s.has c.input = true ∧ c.scoreColumn.isSome = true ∧
      (c.grouping.needsMqGroups = true → s.mqGroups = true) ∧
      c.grouping.rescues = true ∧ c.score.canRescue = false := by
  unfold runMethod
  cases h0 : (c.input == Input.mq) <;>
  cases h1 : s.has c.input <;> cases h2 : c.scoreColumn.isNone <;>
    cases h3 : c.grouping.needsMqGroups <;> cases h4 : s.mqGroups <;>
    cases h5 : c.grouping.rescues <;> cases h6 : c.score.canRescue <;>
    simp [isSome_eq_not_isNone', h2]

/-- a table is written exactly under the four preconditions (input present, a score column,
    a proteinGroups file if the grouping reads one, rescue only for a score that can rescue) -/
theorem table_iff (s : Supplied) (c : Cfg) :
    runMethod s c = .ok () ↔
      s.has c.input = true ∧ c.scoreColumn.isSome = true ∧
      (c.grouping.needsMqGroups = true → s.mqGroups = true) ∧
      (c.grouping.rescues = true → c.score.canRescue = true) :=
  runMethod_ok_iff s c

/-- only bestPEP and multPEP scores can rescue -/
theorem canRescue_iff (sc : Score) : sc.canRescue = true ↔ sc = .bestPEP ∨ sc = .multPEP := by
  cases sc <;> simp [Score.canRescue]

/-- a skipped method does not end the run; a refusal does, and nothing after it is run -/
theorem runLoop_stops_at_refusal (s : Supplied) (pre : List Cfg) (c : Cfg) (post : List Cfg) (e : Err)
    (hpre : ∀ x ∈ pre, runMethod s x = .ok () ∨ runMethod s x = .error .missingInput)
    (hc : runMethod s c = .error e) (he : e ≠ .missingInput) :
    runLoop s (pre ++ c :: post) =
      pre.map (fun x => match runMethod s x with | .ok () => Outcome.table | .error _ => Outcome.skipped)
        ++ [.abort e] := by
  induction pre with
  | nil =>
    cases e <;> first | exact absurd rfl he | simp [runLoop, hc]
  | cons x r ih =>
    have hx := hpre x List.mem_cons_self
    have ih' := ih (fun y hy => hpre y (List.mem_cons_of_mem _ hy))
    rcases hx with hx | hx
    · simp [runLoop, hx, ih']
    · simp [runLoop, hx, ih']

/-- the score-description logic tests `"remap" in d`, and `remap` is a substring of `no_remap`:
    a Percolator description is REMAPPED whenever it says `no_remap` (no shipped file does — the
    shipped no-remap Percolator methods simply omit the word; a file that tried would be read
    against its author's intent, and this is the statement that tells) -/
theorem perc_no_remap_is_remapped (d : String) (hp : has d "Perc" = true) (hn : has d "no_remap" = true) :
    parseOrigin d = .percRemap := by
  unfold parseOrigin
  simp [hp, has_remap_of_no_remap d hn]

/-- `sharedPeptides = "razor"` makes the parsed method a razor method whatever the score
    description says (the code appends `" razor"` to it) -/
theorem razor_method_is_razor (useGenes : Bool) (t : MethodToml) (cfg : Cfg)
    (hr : t.sharedPeptides = some "razor") (hp : parseMethod useGenes t = .ok cfg) : cfg.razor = true := by
  unfold parseMethod at hp
  rw [hr] at hp
  repeat (split at hp <;> try cases hp)
  rename_i sh hsh _ _ _ _ _ _ _ _ _ _ _ _
  have : sh = "razor" := (Option.some.inj hsh).symm
  subst this
  simp [scoreDescription, has_razor_appended]

/-- the evidence flag a method reads is decided by the first of `Perc`, `FragPipe`, `Sage`,
    `DIA-NN` found in the description, MaxQuant evidence otherwise -/
theorem input_selection (d : String) :
    (parseOrigin d).input =
      if has d "Perc" then .perc else if has d "FragPipe" then .fragpipe
      else if has d "Sage" then .sage else if has d "DIA-NN" then .diann else .mq := by
  unfold parseOrigin
  repeat' split
  all_goals rfl

/-! Non-vacuity: the table is not empty; a deliberately bad TOML row (a rescue step with the
Andromeda score, which cannot rescue) parses but fails the obligation and is refused with the
rescue error; a row with a misspelt competition name and one with an unknown score are refused
while parsing; a shipped method without its input is skipped. -/

private def badRescue : MethodToml :=
  { name := "bad", label := some "Bad", scoreType := some "Andromeda", grouping := some "rescued_subset",
    sharedPeptides := some "discard", pickedStrategy := some "picked_group" }

example : Generated.methods ≠ [] := by decide +kernel

example : shippedOk (badRescue :: Generated.methods) badRescue = false := by decide +kernel

example : ∃ cfg, parseMethod false badRescue = .ok cfg ∧
    runMethod (matching cfg) cfg = .error .rescueUnsupported := by
  refine ⟨{ score := .andromeda, origin := .mq, razor := false, withShared := false,
            grouping := .rescuedSubset, picked := .pickedGroup, label := "Bad" }, ?_, ?_⟩ <;>
    decide +kernel

example : parseMethod false { badRescue with pickedStrategy := some "pickedgroup" } = .error .unknownPicked := by
  decide +kernel

example : parseMethod false { badRescue with scoreType := some "bestpep" } = .error .unknownScore := by
  decide +kernel

example : parseMethod false { badRescue with grouping := some "rescued" } = .error .unknownGrouping := by
  decide +kernel

example : runCli Generated.methods false { everything with mq := false } [.builtin "maxquant", .builtin "sage"]
    = .ok ([{ score := .multPEP, origin := .mq, razor := true, withShared := false, grouping := .subset,
              picked := .classic, label := "MaxQuant" },
            { score := .bestPEP, origin := .sage, razor := false, withShared := false, grouping := .rescuedSubset,
              picked := .pickedGroup, label := "Picked Protein Group FDR" }], [.skipped, .table]) := by
  decide +kernel

example : runCli Generated.methods false everything [.builtin "no_such_method"] = .error .unknownMethod := by
  decide +kernel

example : has "Perc no_remap bestPEP" "Perc" = true ∧ has "Perc no_remap bestPEP" "no_remap" = true := by
  decide +kernel

/-! ## "… for which the ranking, q-value and row-consistency guarantees above hold"

`toPipelineConfig` (`Model/C18Pipeline.lean`) maps a parsed method to the configuration
`PgFdr.Pipeline.Config` with which the composed model `Pipeline.run` of `get_protein_group_results` is run
(grouping, razor flag, competition mode; `picked_group` is `PickedGroupStrategy()` with its default
`"leading"`).  `PipelineGuarantees pc` (`Proofs/PipelineC18.lean`) is, word for word, the conjunction of the
end-to-end theorems `C01.pipeline_ranked_nonincreasing`, `C01.pipeline_qvals_spec`,
`C01.pipeline_threshold_sound`, `C01.pipeline_report_alignment`, `C06.pipeline_rows_consistent`,
`C06.pipeline_rows_disjoint` for the configuration `pc`, for every input and every recorded parameter. -/

/-- the generated-table obligation: every shipped TOML file, also when run gene-level with the pseudo-gene
    fallback, parses to a configuration the composed pipeline model covers (no shipped method uses the
    MaxQuant-native groupings, which the model does not compose) — evaluated by the kernel on the current
    TOML files -/
theorem shipped_methods_have_pipeline_config :
    ∀ useGenes : Bool, ∀ m ∈ Generated.methods, (pipelineConfigOf useGenes m).isSome = true := by
  decide +kernel

/-- "For every method configuration shipped with the tool … writes a protein-group table for which the
    ranking, q-value and row-consistency guarantees above hold": every shipped method (run protein-level,
    or gene-level with the pseudo-gene fallback) parses to a configuration `cfg` whose pipeline
    configuration `pc` — same razor flag, its competition strategy, its grouping — satisfies all three
    groups of end-to-end guarantees: whatever the input and whatever the shuffles, cuts and float scores,
    if the inference function returns a table then its ranking is the competition's, non-increasing in
    score; its q-values are the monotone decoy-based estimate; its rows carry the score and q-value of
    their rank; and (the peptide list being a dict) every row is consistent with its group's evidence and
    no protein occurs in two rows. -/
theorem shipped_methods_guarantees :
    ∀ useGenes : Bool, ∀ m ∈ Generated.methods, ∃ (cfg : Cfg) (pc : Pipeline.Config),
      parseMethod useGenes m = .ok cfg ∧ toPipelineConfig cfg = some pc ∧
      pc.razor = cfg.razor ∧ pc.mode = cfg.picked.toMode ∧ cfg.grouping.toPipeline = some pc.grouping ∧
      PipelineGuarantees pc := by
  intro useGenes m hm
  have h := shipped_methods_have_pipeline_config useGenes m hm
  unfold pipelineConfigOf at h
  cases hp : parseMethod useGenes m with
  | error e => rw [hp] at h; simp at h
  | ok cfg =>
    rw [hp] at h
    simp only at h
    obtain ⟨pc, hpc⟩ := Option.isSome_iff_exists.mp h
    refine ⟨cfg, pc, rfl, hpc, ?_, ?_, ?_, pipelineGuarantees pc⟩
    all_goals
      unfold toPipelineConfig at hpc
      cases hg : cfg.grouping.toPipeline with
      | none => rw [hg] at hpc; simp at hpc
      | some g =>
        rw [hg] at hpc
        simp only [Option.some.injEq] at hpc
        subst hpc
        rfl

/-! Non-vacuity: the flagship method `picked_protein_group` maps to the configuration of the two-pass
demonstration call `Pipeline.demo_run2`, `savitski` to that of the one-pass call `Pipeline.demo_run1`
(`Proofs/Pipeline.lean`): calls with these configurations that succeed on a dict input. -/

example : ∃ m ∈ Generated.methods, m.name = "picked_protein_group" ∧
    (pipelineConfigOf false m).map (fun c => (c.grouping, c.razor, c.mode)) =
      some (Pipeline.demoCfg2.grouping, Pipeline.demoCfg2.razor, Pipeline.demoCfg2.mode) := by
  decide +kernel

example : ∃ m ∈ Generated.methods, m.name = "savitski" ∧
    (pipelineConfigOf false m).map (fun c => (c.grouping, c.razor, c.mode)) =
      some (Pipeline.demoCfg1.grouping, Pipeline.demoCfg1.razor, Pipeline.demoCfg1.mode) := by
  decide +kernel

example : ∃ r, Pipeline.run Pipeline.demoCfg2 Pipeline.demoInp2 = .ok r ∧
    Pipeline.distinctPeptides Pipeline.demoInp2.pil := by
  obtain ⟨r, h, -⟩ := Pipeline.demo_run2
  exact ⟨r, h, Pipeline.demo_distinct.2⟩

/-- a configuration the composed model does not cover (not shipped): native MaxQuant grouping -/
example : pipelineConfigOf false { badRescue with grouping := some "mq_native" } = none := by
  decide +kernel

/-! ## The named refusals, each characterised exactly

The tool's refusals are `Err` values.  Three of them can only arise while the methods are located and parsed
(`unknownMethod`, `unknownPicked`/`unknownScore`/`unknownGrouping`), one between parsing and the method loop
(`missingFasta`), five inside the loop (`missingInput`, which is a warning and does not stop the run, and
`noScoreColumn`, `missingMqProteinGroups`, `noProteinScoreFile`, `rescueUnsupported`, which end it: the entry
`Outcome.abort e`).  For the
executable `runCli` the first two groups are its `.error` results, the last group the entries of its outcome list. -/

/-- "(… with and without a FASTA file)": the run is refused for the missing FASTA file / peptide → protein map
    exactly when every method was found and parsed, some parsed method needs the map — it groups by pseudo-genes or
    its score origin re-maps peptides to proteins — and neither `--fasta` nor `--peptide_protein_map` was given.
    (`parseAll` itself never returns this error.) -/
theorem missing_fasta_iff (tbl : List MethodToml) (g : Bool) (s : Supplied) (ms : List MethodRef) :
    runCli tbl g s ms = .error .missingFasta ↔
      ∃ cfgs, parseAll tbl g ms = .ok cfgs ∧
        (∃ c ∈ cfgs, c.grouping = .pseudoGene ∨ c.origin.remaps = true) ∧ s.map = false := by
  have hany : ∀ cfgs : List Cfg, cfgs.any Cfg.needsMap = true ↔
      ∃ c ∈ cfgs, c.grouping = .pseudoGene ∨ c.origin.remaps = true := by
    intro cfgs
    simp [List.any_eq_true, Cfg.needsMap]
  unfold runCli
  cases hp : parseAll tbl g ms with
  | error e =>
    simp only [Except.error.injEq, reduceCtorEq, false_and, exists_false, iff_false]
    intro he
    subst he
    obtain ⟨pre, m, post, -, -, hm⟩ := (parseAll_error_iff tbl g ms _).mp hp
    rcases RefusedAt_cases tbl g m _ hm with ⟨h, -⟩ | ⟨t, -, h⟩
    · cases h
    · have := parseMethod_error_cases g t _ h
      simp at this
  | ok cfgs =>
    simp only [Except.ok.injEq, exists_eq_left']
    rw [← hany]
    cases h1 : cfgs.any Cfg.needsMap <;> cases h2 : s.map <;> simp

/-- "completes and writes a table … without a FASTA file": the run reaches the method loop exactly when every
    method is found and parses and the map is there or no parsed method needs it; its outcome list is then the
    loop's.  With `s.map = false` this is the "without a FASTA file" half of the quantifier. -/
theorem runCli_ok_iff (tbl : List MethodToml) (g : Bool) (s : Supplied) (ms : List MethodRef)
    (cfgs : List Cfg) (os : List Outcome) :
    runCli tbl g s ms = .ok (cfgs, os) ↔
      parseAll tbl g ms = .ok cfgs ∧ (s.map = true ∨ ∀ c ∈ cfgs, c.needsMap = false) ∧ os = runLoop s cfgs := by
  unfold runCli
  cases hp : parseAll tbl g ms with
  | error e => simp
  | ok cs =>
    simp only [Except.ok.injEq]
    cases h1 : cs.any Cfg.needsMap <;> cases h2 : s.map
    all_goals simp only [Bool.not_false, Bool.not_true, Bool.and_true, Bool.and_false, Bool.false_eq_true,
      if_false, if_true, Except.ok.injEq, Prod.mk.injEq, reduceCtorEq, false_iff, true_or, false_or, true_and]
    · constructor
      · rintro ⟨rfl, rfl⟩
        refine ⟨rfl, ?_, rfl⟩
        intro c hc
        cases hn : c.needsMap
        · rfl
        · have : cs.any Cfg.needsMap = true := List.any_eq_true.mpr ⟨c, hc, hn⟩
          rw [h1] at this; cases this
      · rintro ⟨rfl, -, rfl⟩; exact ⟨rfl, rfl⟩
    · constructor
      · rintro ⟨rfl, rfl⟩; exact ⟨rfl, rfl⟩
      · rintro ⟨rfl, rfl⟩; exact ⟨rfl, rfl⟩
    · rintro ⟨rfl, hall, -⟩
      obtain ⟨c, hc, hn⟩ := List.any_eq_true.mp h1
      rw [hall c hc] at hn; cases hn
    · constructor
      · rintro ⟨rfl, rfl⟩; exact ⟨rfl, rfl⟩
      · rintro ⟨rfl, rfl⟩; exact ⟨rfl, rfl⟩

/-- "unknown names" (1): the run is refused with `Could not find method` exactly when some method given by name is
    not the name of a built-in file and every method before it was found and parsed (methods are located and parsed
    in the order given; the first failure ends the run) -/
theorem unknown_method_iff (tbl : List MethodToml) (g : Bool) (s : Supplied) (ms : List MethodRef) :
    runCli tbl g s ms = .error .unknownMethod ↔
      ∃ pre n post, ms = pre ++ MethodRef.builtin n :: post ∧ n ∉ tbl.map (·.name) ∧
        ∀ x ∈ pre, ∃ t c, resolve tbl x = .ok t ∧ parseMethod g t = .ok c := by
  have hcli : runCli tbl g s ms = .error .unknownMethod ↔ parseAll tbl g ms = .error .unknownMethod := by
    unfold runCli
    cases hp : parseAll tbl g ms with
    | error e => simp
    | ok cs =>
      simp only [reduceCtorEq, iff_false]
      split <;> simp
  rw [hcli, parseAll_error_iff]
  constructor
  · rintro ⟨pre, m, post, hms, hpre, hm⟩
    rcases RefusedAt_cases tbl g m _ hm with ⟨-, n, rfl, hn⟩ | ⟨t, -, h⟩
    · exact ⟨pre, n, post, hms, hn, fun x hx => by obtain ⟨c, t, h1, h2⟩ := hpre x hx; exact ⟨t, c, h1, h2⟩⟩
    · exact absurd h (parseMethod_ne_unknownMethod g t)
  · rintro ⟨pre, n, post, hms, hn, hpre⟩
    refine ⟨pre, .builtin n, post, hms, ?_, Or.inl ?_⟩
    · intro x hx; obtain ⟨t, c, h1, h2⟩ := hpre x hx; exact ⟨c, t, h1, h2⟩
    · exact (findMethod_error_iff tbl n _).mpr ⟨rfl, hn⟩

/-- the same for the shipped table, where every file parses (protein-level and with the pseudo-gene fallback):
    a list of names is refused with `Could not find method` exactly when one of them is not a shipped name -/
theorem unknown_method_iff_shipped (g : Bool) (s : Supplied) (names : List String) :
    runCli Generated.methods g s (names.map .builtin) = .error .unknownMethod ↔
      ∃ n ∈ names, n ∉ Generated.methods.map (·.name) := by
  rw [unknown_method_iff]
  constructor
  · rintro ⟨pre, n, post, hms, hn, -⟩
    refine ⟨n, ?_, hn⟩
    have : MethodRef.builtin n ∈ names.map MethodRef.builtin := by rw [hms]; simp
    obtain ⟨n', hn', he⟩ := List.mem_map.mp this
    cases he; exact hn'
  · rintro ⟨n, hn, hnot⟩
    -- the first name that is not shipped
    have key : ∀ names : List String, (∃ n ∈ names, n ∉ Generated.methods.map (·.name)) →
        ∃ pre n post, names = pre ++ n :: post ∧ n ∉ Generated.methods.map (·.name) ∧
          ∀ x ∈ pre, x ∈ Generated.methods.map (·.name) := by
      intro names
      induction names with
      | nil => rintro ⟨n, hn, -⟩; cases hn
      | cons a r ih =>
        rintro ⟨n, hn, hnot⟩
        by_cases ha : a ∈ Generated.methods.map (·.name)
        · have hr : ∃ n ∈ r, n ∉ Generated.methods.map (·.name) := by
            rcases List.mem_cons.mp hn with h | h
            · subst h; exact absurd ha hnot
            · exact ⟨n, h, hnot⟩
          obtain ⟨pre, n', post, h1, h2, h3⟩ := ih hr
          refine ⟨a :: pre, n', post, by simp [h1], h2, ?_⟩
          intro x hx
          rcases List.mem_cons.mp hx with h | h
          · subst h; exact ha
          · exact h3 x h
        · exact ⟨[], a, r, rfl, ha, by simp⟩
    obtain ⟨pre, n', post, h1, h2, h3⟩ := key names ⟨n, hn, hnot⟩
    refine ⟨pre.map .builtin, n', post.map .builtin, by simp [h1], h2, ?_⟩
    intro x hx
    obtain ⟨a, ha, rfl⟩ := List.mem_map.mp hx
    obtain ⟨m, hm, hname⟩ := List.mem_map.mp (h3 a ha)
    have hfind : ∃ m', findMethod Generated.methods a = .ok m' := by
      cases hf : findMethod Generated.methods a with
      | ok m' => exact ⟨m', rfl⟩
      | error e =>
        have := ((findMethod_error_iff _ _ _).mp hf).2
        exact absurd (h3 a ha) this
    obtain ⟨m', hm'⟩ := hfind
    obtain ⟨hmem, -⟩ := findMethod_ok_mem _ _ _ hm'
    obtain ⟨cfg, -, hp, -⟩ := shipped_methods_guarantees g m' hmem
    exact ⟨m', cfg, hm', hp⟩

/-- "unknown names" (2): on a configuration with all five keys the three parse refusals are raised exactly for a
    competition name outside `picked`/`picked_group`/`classic`, else for a score description naming none of
    `multPEP`/`bestPEP`/`Andromeda`/`MQ_protein`, else for a grouping name outside the six known ones (never in a
    gene-level run with the pseudo-gene fallback, which overrides the grouping); otherwise it parses -/
theorem parse_refusals_iff (g : Bool) (t : MethodToml) (pk st sh gr lb : String)
    (hpk : t.pickedStrategy = some pk) (hst : t.scoreType = some st) (hsh : t.sharedPeptides = some sh)
    (hgr : t.grouping = some gr) (hlb : t.label = some lb) :
    (parseMethod g t = .error .unknownPicked ↔ pk ∉ ["picked", "picked_group", "classic"]) ∧
    (parseMethod g t = .error .unknownScore ↔
      pk ∈ ["picked", "picked_group", "classic"] ∧
      ∀ w ∈ ["multPEP", "bestPEP", "Andromeda", "MQ_protein"], has (scoreDescription st sh) w = false) ∧
    (parseMethod g t = .error .unknownGrouping ↔
      pk ∈ ["picked", "picked_group", "classic"] ∧
      (∃ w ∈ ["multPEP", "bestPEP", "Andromeda", "MQ_protein"], has (scoreDescription st sh) w = true) ∧
      g = false ∧ gr ∉ ["no", "subset", "rescued_subset", "mq_native", "rescued_mq_native", "pseudo_gene"]) ∧
    ((∃ c, parseMethod g t = .ok c) ↔
      pk ∈ ["picked", "picked_group", "classic"] ∧
      (∃ w ∈ ["multPEP", "bestPEP", "Andromeda", "MQ_protein"], has (scoreDescription st sh) w = true) ∧
      (g = true ∨ gr ∈ ["no", "subset", "rescued_subset", "mq_native", "rescued_mq_native", "pseudo_gene"])) := by
  have hP : parsePicked pk = none ↔ pk ∉ ["picked", "picked_group", "classic"] := by
    unfold parsePicked
    simp only [beq_iff_eq, List.mem_cons, List.not_mem_nil, or_false, not_or]
    repeat' split
    all_goals simp_all
  have hS : parseScore (scoreDescription st sh) = none ↔
      ∀ w ∈ ["multPEP", "bestPEP", "Andromeda", "MQ_protein"], has (scoreDescription st sh) w = false := by
    unfold parseScore
    simp only [List.mem_cons, List.not_mem_nil, or_false, forall_eq_or_imp, forall_eq]
    repeat' split
    all_goals simp_all
  have hG : parseGrouping (if g then "pseudo_gene" else gr) = none ↔
      g = false ∧ gr ∉ ["no", "subset", "rescued_subset", "mq_native", "rescued_mq_native", "pseudo_gene"] := by
    cases g
    · unfold parseGrouping
      simp only [Bool.false_eq_true, if_false, beq_iff_eq, List.mem_cons, List.not_mem_nil, or_false, not_or,
        true_and]
      repeat' split
      all_goals simp_all
    · simp only [if_true, reduceCtorEq, false_and, iff_false]
      decide
  obtain ⟨h1, h2, h3, h4⟩ := parseMethod_refusals g t pk st sh gr lb hpk hst hsh hgr hlb
  have hS' : parseScore (scoreDescription st sh) ≠ none ↔
      ∃ w ∈ ["multPEP", "bestPEP", "Andromeda", "MQ_protein"], has (scoreDescription st sh) w = true := by
    rw [Ne, hS]
    constructor
    · intro h
      apply Classical.byContradiction
      intro hne
      apply h
      intro w hw
      cases hh : has (scoreDescription st sh) w
      · rfl
      · exact absurd ⟨w, hw, hh⟩ hne
    · rintro ⟨w, hw, hh⟩ h
      rw [h w hw] at hh; cases hh
  have hP' : parsePicked pk ≠ none ↔ pk ∈ ["picked", "picked_group", "classic"] := by
    rw [Ne, hP, Classical.not_not]
  have hG' : parseGrouping (if g then "pseudo_gene" else gr) ≠ none ↔
      (g = true ∨ gr ∈ ["no", "subset", "rescued_subset", "mq_native", "rescued_mq_native", "pseudo_gene"]) := by
    rw [Ne, hG]
    cases g
    · simp only [true_and, Classical.not_not, Bool.false_eq_true, false_or]
    · simp
  refine ⟨h1.trans hP, ?_, ?_, ?_⟩
  · rw [h2, hP', hS]
  · rw [h3, hP', hS', hG]
  · rw [h4, hP', hS', hG']

/-- the score `MQ_protein` is the one without an evidence score column (`get_score_column()` is `None`) -/
theorem scoreColumn_isNone_iff (c : Cfg) : c.scoreColumn.isNone = true ↔ c.score = .mqProtein := by
  unfold Cfg.scoreColumn
  cases c.score <;> simp <;> split <;> simp

/-- "no score column": a parsed method is refused for lack of an evidence score column exactly when its input
    file was given, it reads MaxQuant evidence (the only parser that demands the column named by
    `get_score_column()`: `parsers/maxquant.py`, `required=True`) and its score is MaxQuant's protein score
    (`MQ_protein`: `get_score_column()` is `None`).  For the other four input types the same score gets past the
    parser: see `no_protein_score_file_iff`. -/
theorem no_score_column_iff (s : Supplied) (c : Cfg) :
    runMethod s c = .error .noScoreColumn ↔
      s.has c.input = true ∧ c.input = .mq ∧ c.score = .mqProtein := by
  rw [← scoreColumn_isNone_iff]
  unfold runMethod
  cases h0 : (c.input == Input.mq) <;>
  cases h1 : s.has c.input <;> cases h2 : c.scoreColumn.isNone <;>
    cases h3 : c.grouping.needsMqGroups <;> cases h4 : s.mqGroups <;>
    cases h5 : c.grouping.rescues <;> cases h6 : c.score.canRescue <;>
    simp_all

/-- the C18 FINDING, as the model states the repaired behaviour: the score `MQ_protein` on Percolator, FragPipe,
    Sage or DIA-NN input (whose parsers do not demand the score column) is refused — after the grouping's own test
    for `--mq_protein_groups`, before the rescue test — when the first pass asks the score object for its
    proteinGroups file, which `parse_method_toml` never supplies.  This holds whether or not `--mq_protein_groups`
    was given.  The shipped code raises `FileNotFoundError: [Errno 2] No such file or directory: ''` from
    `MQProteinScore.get_protein_scores_from_file` at exactly these configurations (an internal error where the
    property demands the tool's own explanatory one); `fixes/C18-mq-protein-score-without-file.diff` makes it the
    `ValueError` this constructor stands for. -/
theorem no_protein_score_file_iff (s : Supplied) (c : Cfg) :
    runMethod s c = .error .noProteinScoreFile ↔
      s.has c.input = true ∧ c.input ≠ .mq ∧ c.score = .mqProtein ∧
      (c.grouping.needsMqGroups = true → s.mqGroups = true) := by
  rw [← scoreColumn_isNone_iff]
  unfold runMethod
  cases h0 : (c.input == Input.mq) <;>
  cases h1 : s.has c.input <;> cases h2 : c.scoreColumn.isNone <;>
    cases h3 : c.grouping.needsMqGroups <;> cases h4 : s.mqGroups <;>
    cases h5 : c.grouping.rescues <;> cases h6 : c.score.canRescue <;>
    simp_all

/-- "missing proteinGroups file": a parsed method is refused for the missing `--mq_protein_groups` exactly when
    its input file was given, its grouping is MaxQuant's own (`mq_native`, `rescued_mq_native`), no proteinGroups
    file was given, and it got past its evidence parser — i.e. it is NOT the score `MQ_protein` on MaxQuant input
    (refused earlier, `no_score_column_iff`).  `MQ_protein` on one of the other four inputs with MaxQuant's
    grouping IS refused with this error (the grouping comes before the first pass). -/
theorem missing_mq_protein_groups_iff (s : Supplied) (c : Cfg) :
    runMethod s c = .error .missingMqProteinGroups ↔
      s.has c.input = true ∧ ¬ (c.input = .mq ∧ c.score = .mqProtein) ∧
      (c.grouping = .mqNative ∨ c.grouping = .rescuedMqNative) ∧ s.mqGroups = false := by
  have hg : c.grouping.needsMqGroups = true ↔ (c.grouping = .mqNative ∨ c.grouping = .rescuedMqNative) := by
    cases c.grouping <;> simp [Grouping.needsMqGroups]
  rw [← hg, ← scoreColumn_isNone_iff]
  unfold runMethod
  cases h0 : (c.input == Input.mq) <;>
  cases h1 : s.has c.input <;> cases h2 : c.scoreColumn.isNone <;>
    cases h3 : c.grouping.needsMqGroups <;> cases h4 : s.mqGroups <;>
    cases h5 : c.grouping.rescues <;> cases h6 : c.score.canRescue <;>
    simp_all

/-- the refusals inside the method loop, for the executable `runCli`: the outcome list of a run that reaches the
    loop has one entry per method up to the first refusal — `table` where `runMethod` succeeds, `skipped` where the
    input file is missing — and ends with `abort e` exactly at the first method that `runMethod` refuses with an
    error `e` other than the missing-input warning; `e` is then one of the four refusals characterised by
    `no_score_column_iff`, `missing_mq_protein_groups_iff`, `no_protein_score_file_iff`, `rescue_unsupported_iff` -/
theorem runCli_abort_iff (tbl : List MethodToml) (g : Bool) (s : Supplied) (ms : List MethodRef)
    (cfgs : List Cfg) (os : List Outcome) (h : runCli tbl g s ms = .ok (cfgs, os)) (e : Err) :
    Outcome.abort e ∈ os ↔
      ∃ pre c post, cfgs = pre ++ c :: post ∧
        (∀ x ∈ pre, runMethod s x = .ok () ∨ runMethod s x = .error .missingInput) ∧
        runMethod s c = .error e ∧ e ≠ .missingInput ∧
        os = pre.map (fun x => match runMethod s x with | .ok () => Outcome.table | .error _ => Outcome.skipped)
              ++ [.abort e] ∧
        (e = .noScoreColumn ∨ e = .missingMqProteinGroups ∨ e = .noProteinScoreFile ∨ e = .rescueUnsupported) := by
  obtain ⟨-, -, hos⟩ := (runCli_ok_iff tbl g s ms cfgs os).mp h
  subst hos
  constructor
  · intro hmem
    rcases runLoop_spec s cfgs with ⟨-, h2⟩ | ⟨pre, c, post, e', h1, h2, h3, h4, h5⟩
    · rw [h2] at hmem
      obtain ⟨x, -, hx⟩ := List.mem_map.mp hmem
      split at hx <;> cases hx
    · have he : e = e' := by
        rw [h5] at hmem
        rcases List.mem_append.mp hmem with hm | hm
        · obtain ⟨x, -, hx⟩ := List.mem_map.mp hm
          split at hx <;> cases hx
        · simpa using hm
      subst he
      refine ⟨pre, c, post, h1, h2, h3, h4, h5, ?_⟩
      rcases runMethod_error_cases s c e h3 with h | h
      · exact absurd h h4
      · exact h
  · rintro ⟨pre, c, post, -, -, -, -, hos, -⟩
    rw [hos]; simp

/-- Bool form of "the five keys are present in every shipped file", evaluated by the kernel -/
theorem shipped_methods_well_typed : ∀ m ∈ Generated.methods, wellTyped m = true := by decide +kernel

/-- "combinations the tool does not support are refused with its own explanatory error … instead of an internal
    error", for the executable `runCli`: on a well-typed input — every file of the table and every custom file has
    the five keys (the Bool side conditions `tbl.all wellTyped`, `ms.all MethodRef.wellTyped`) — the ONLY errors
    `runCli` can return are the named refusals `unknownMethod`, `unknownPicked`, `unknownScore`, `unknownGrouping`
    and `missingFasta`; and when it reaches the method loop every outcome is a table, the missing-input warning,
    or a final `abort` with `noScoreColumn`, `missingMqProteinGroups`, `noProteinScoreFile` (repaired behaviour, see
    `no_protein_score_file_iff`) or `rescueUnsupported`.  No `missingKey`, and no other value of `Err`, is
    reachable. -/
theorem runCli_error_set (tbl : List MethodToml) (g : Bool) (s : Supplied) (ms : List MethodRef)
    (htbl : tbl.all wellTyped = true) (hms : ms.all MethodRef.wellTyped = true) :
    (∀ e, runCli tbl g s ms = .error e →
      e = .unknownMethod ∨ e = .unknownPicked ∨ e = .unknownScore ∨ e = .unknownGrouping ∨ e = .missingFasta) ∧
    (∀ cfgs os, runCli tbl g s ms = .ok (cfgs, os) → ∀ o ∈ os,
      o = .table ∨ o = .skipped ∨ o = .abort .noScoreColumn ∨ o = .abort .missingMqProteinGroups ∨
        o = .abort .noProteinScoreFile ∨ o = .abort .rescueUnsupported) := by
  constructor
  · intro e he
    unfold runCli at he
    cases hp : parseAll tbl g ms with
    | ok cs =>
      rw [hp] at he
      simp only at he
      split at he
      · injection he with he; subst he; simp
      · cases he
    | error e' =>
      rw [hp] at he
      injection he with he
      subst he
      obtain ⟨pre, m, post, hms', -, hm⟩ := (parseAll_error_iff tbl g ms _).mp hp
      rcases RefusedAt_cases tbl g m _ hm with ⟨h, -⟩ | ⟨t, hr, h⟩
      · exact Or.inl h
      · have hw : wellTyped t = true := by
          cases m with
          | builtin n =>
            obtain ⟨hmem, -⟩ := findMethod_ok_mem tbl n t hr
            exact List.all_eq_true.mp htbl t hmem
          | custom t' =>
            injection hr with hr
            subst hr
            exact List.all_eq_true.mp hms (.custom t') (by rw [hms']; simp)
        rcases parseMethod_error_wellTyped g t _ hw h with h | h | h
        · exact Or.inr (Or.inl h)
        · exact Or.inr (Or.inr (Or.inl h))
        · exact Or.inr (Or.inr (Or.inr (Or.inl h)))
  · intro cfgs os h o ho
    obtain ⟨-, -, hos⟩ := (runCli_ok_iff tbl g s ms cfgs os).mp h
    cases o with
    | table => simp
    | skipped => simp
    | abort e =>
      obtain ⟨-, -, -, -, -, -, -, -, he⟩ := (runCli_abort_iff tbl g s ms cfgs os h e).mp ho
      rcases he with he | he | he | he <;> subst he <;> simp

/-- for the shipped methods selected by name — protein-level or gene-level — the only errors are an unknown name and
    the missing FASTA file (every shipped file parses, with and without the pseudo-gene fallback) -/
theorem runCli_shipped_error_set (g : Bool) (s : Supplied) (names : List String) (e : Err)
    (he : runCli Generated.methods g s (names.map .builtin) = .error e) :
    e = .unknownMethod ∨ e = .missingFasta := by
  unfold runCli at he
  cases hp : parseAll Generated.methods g (names.map .builtin) with
  | ok cs =>
    rw [hp] at he
    simp only at he
    split at he
    · injection he with he; exact Or.inr he.symm
    · cases he
  | error e' =>
    rw [hp] at he
    injection he with he
    subst he
    left
    obtain ⟨pre, m, post, hms, -, hm⟩ := (parseAll_error_iff _ _ _ _).mp hp
    rcases RefusedAt_cases _ g m _ hm with ⟨h, -⟩ | ⟨t, hr, h⟩
    · exact h
    · exfalso
      have hmem' : m ∈ names.map MethodRef.builtin := by rw [hms]; simp
      obtain ⟨n, -, rfl⟩ := List.mem_map.mp hmem'
      obtain ⟨hmem, -⟩ := findMethod_ok_mem _ n t hr
      obtain ⟨cfg, -, hp', -⟩ := shipped_methods_guarantees g t hmem
      rw [hp'] at h; cases h

/-- "(… with and without a FASTA file)" for the shipped table: every shipped method, selected by name with its own
    input type and NO FASTA file, writes its table if it does not need the peptide → protein map and is refused with
    the missing-FASTA error if it does -/
theorem shipped_methods_without_fasta :
    ∀ m ∈ Generated.methods, ∃ cfg, parseMethod false m = .ok cfg ∧
      runCli Generated.methods false { matching cfg with map := false } [.builtin m.name] =
        if cfg.needsMap then .error .missingFasta else .ok ([cfg], [Outcome.table]) := by
  intro m hm
  obtain ⟨cfg, hp, -, -, -, hrun⟩ := shipped_methods_supported m hm
  refine ⟨cfg, hp, ?_⟩
  obtain ⟨hpa, -, hos⟩ := (runCli_ok_iff _ _ _ _ _ _).mp hrun
  unfold runCli
  rw [hpa]
  simp only [List.any_cons, List.any_nil, Bool.or_false, Bool.not_false, Bool.and_true]
  cases cfg.needsMap
  · simp only [Bool.false_eq_true, if_false]
    rw [runLoop_map_irrelevant (matching cfg) false [cfg], ← hos]
  · simp

/-! Non-vacuity for the refusal theorems: shipped methods of both kinds (needing / not needing the map); the
missing-FASTA refusal protein-level and gene-level; a run without a FASTA file that writes its table; custom files
refused for the missing score column and the missing proteinGroups file (no shipped file is); an unknown name after
a known one; the side conditions of `runCli_error_set` hold for the shipped table and cannot be dropped. -/

private def noFasta : Supplied := { everything with map := false }

private def mqProteinScore : MethodToml :=
  { name := "custom", label := some "MQ protein", scoreType := some "MQ_protein", grouping := some "subset",
    sharedPeptides := some "razor", pickedStrategy := some "classic" }

private def mqNativeGrouping : MethodToml :=
  { name := "custom", label := some "MQ native", scoreType := some "bestPEP", grouping := some "mq_native",
    sharedPeptides := some "razor", pickedStrategy := some "classic" }

example : ∃ m ∈ Generated.methods, (match parseMethod false m with | .ok c => c.needsMap | .error _ => false) = true := by
  decide +kernel
example : ∃ m ∈ Generated.methods, (match parseMethod false m with | .ok c => !c.needsMap | .error _ => false) = true := by
  decide +kernel

example : runCli Generated.methods false noFasta [.builtin "picked_protein_group"] = .error .missingFasta := by
  decide +kernel
example : runCli Generated.methods false everything [.builtin "picked_protein_group"] =
    .ok ([{ score := .bestPEP, origin := .percRemap, razor := false, withShared := false, grouping := .rescuedSubset,
            picked := .pickedGroup, label := "Picked Protein Group FDR" }], [.table]) := by decide +kernel
example : runCli Generated.methods false noFasta [.builtin "picked_protein_group_no_remap"] =
    .ok ([{ score := .bestPEP, origin := .perc, razor := false, withShared := false, grouping := .rescuedSubset,
            picked := .pickedGroup, label := "Picked Protein Group FDR" }], [.table]) := by decide +kernel
/-- gene-level with the pseudo-gene fallback every method needs the map -/
example : runCli Generated.methods true noFasta [.builtin "picked_protein_group_no_remap"] = .error .missingFasta := by
  decide +kernel
/-- the refusal comes after parsing: an unknown name wins over the missing FASTA file -/
example : runCli Generated.methods false noFasta [.builtin "picked_protein_group", .builtin "nope"] =
    .error .unknownMethod := by decide +kernel
example : "nope" ∉ Generated.methods.map (·.name) := by decide +kernel

example : (runCli Generated.methods false everything [.builtin "sage", .custom mqProteinScore, .builtin "diann"]).toOption.map
    (·.2) = some [.table, .abort .noScoreColumn] := by decide +kernel
example : (runCli Generated.methods false everything [.custom mqNativeGrouping]).toOption.map (·.2) =
    some [.abort .missingMqProteinGroups] := by decide +kernel
/-- `MQ_protein` outside MaxQuant input gets past the parser: refused at the first pass (repaired behaviour; the
    shipped code dies with `FileNotFoundError ''` here), after the grouping's own refusal, before the rescue test,
    and also when `--mq_protein_groups` is given -/
example : (runCli Generated.methods false everything
    [.builtin "sage", .custom { mqProteinScore with scoreType := some "Perc MQ_protein" }, .builtin "diann"]).toOption.map
    (·.2) = some [.table, .abort .noProteinScoreFile] := by decide +kernel
example : (runCli Generated.methods false everything
    [.custom { mqProteinScore with scoreType := some "Sage MQ_protein", grouping := some "rescued_subset" }]).toOption.map
    (·.2) = some [.abort .noProteinScoreFile] := by decide +kernel
example : (runCli Generated.methods false everything
    [.custom { mqProteinScore with scoreType := some "DIA-NN MQ_protein", grouping := some "mq_native" }]).toOption.map
    (·.2) = some [.abort .missingMqProteinGroups] := by decide +kernel
example : (runCli Generated.methods false { everything with mqGroups := true }
    [.custom { mqProteinScore with scoreType := some "FragPipe MQ_protein", grouping := some "mq_native" }]).toOption.map
    (·.2) = some [.abort .noProteinScoreFile] := by decide +kernel
example : (runCli Generated.methods false { everything with mqGroups := true }
    [.custom { mqProteinScore with scoreType := some "no_remap MQ_protein", grouping := some "mq_native" }]).toOption.map
    (·.2) = some [.abort .noScoreColumn] := by decide +kernel
/-- `Andromeda` (column `"score"`) is read from every input type -/
example : (runCli Generated.methods false everything
    [.custom { mqProteinScore with scoreType := some "Perc Andromeda" },
     .custom { mqProteinScore with scoreType := some "Sage Andromeda" },
     .custom { mqProteinScore with scoreType := some "DIA-NN Andromeda" }]).toOption.map
    (·.2) = some [.table, .table, .table] := by decide +kernel
example : (runCli Generated.methods false { everything with mqGroups := true } [.custom mqNativeGrouping]).toOption.map
    (·.2) = some [.table] := by decide +kernel
example : (runCli Generated.methods false { everything with mq := false } [.custom mqNativeGrouping]).toOption.map
    (·.2) = some [.skipped] := by decide +kernel

example : Generated.methods.all wellTyped = true ∧
    [MethodRef.builtin "sage", .custom mqProteinScore].all MethodRef.wellTyped = true := by decide +kernel
/-- without the side condition another error is reachable: a custom file that lacks a key -/
example : runCli Generated.methods false everything [.custom { mqProteinScore with label := none }] =
    .error (.missingKey "label") := by decide +kernel

end PgFdr.C18

/-! ## The command line as a whole

`PgFdr.Cli.cliRun` (`Model/Cli.lean`) composes the stage models exactly as `run_picked_group_fdr` / `run_method` /
`writers.finalize_output` do: annotations (C19; empty without `--fasta`) → method list (this file's `parseAll`) → if some
method needs one, the peptide → protein maps: one per digestion parameter set from `--fasta`, or one per
`--peptide_protein_map` file when `--fasta` is absent (C09) → per method: evidence files of its input type — MaxQuant,
Percolator (native or mokapot header, per file), FragPipe, Sage, DIA-NN — ingestion with the matching map (C10),
`Pipeline.run` with the thresholds of the command line, the minimal writer (C13, C19 columns).
It is tied to the real `main(argv)` by the correspondence of `harness/cli_model.py`. -/
namespace PgFdr.C18
open PgFdr.Cli
open PgFdr.Generated (MethodToml)

/-- "running it from the command line on valid input of the matching type completes and writes a protein-group
    table for which the ranking, q-value and row-consistency guarantees above hold": for every run of the command
    line that completes, every written table belongs to a method given in `--methods` (position `i`), which is a
    shipped method whose TOML parses (under the run's pseudo-gene decision) to `cfg`, whose input was given, and whose
    pipeline configuration is `pc`; the table's peptide list is that method's evidence ingested through the run's
    peptide → protein maps (the maps of `--fasta` and the digestion flags, or of the `--peptide_protein_map` files, if
    the method needs one) and is a dict; its
    rows are the rows of `Pipeline.run pc` on that list with the thresholds of the command line and the method's own
    recorded parameters; the written records are the header line and, per row, the nine base cells and the three
    annotation cells rendered from the run's annotations; hence all six end-to-end guarantees
    (`PipelineGuarantees pc`: `C01.pipeline_ranked_nonincreasing`, `C01.pipeline_qvals_spec`,
    `C01.pipeline_threshold_sound`, `C01.pipeline_report_alignment`, `C06.pipeline_rows_consistent`,
    `C06.pipeline_rows_disjoint`) hold for the run that produced the table. -/
theorem cli_tables_satisfy_guarantees (inp : CliInput) (ts : List CliTable) (h : cliRun inp = .ok ts) :
    ∃ (ann : C19.Dict) (usePseudo : Bool),
      C19.getAnnotations inp.fasta inp.containsDecoys inp.geneLevel inp.useUniprot = .ok (ann, usePseudo) ∧
      ∀ t ∈ ts, ∃ (i : Nat) (m : MethodToml) (cfg : Cfg) (pc : Pipeline.Config) (maps : List C10.DMap)
          (r : Pipeline.Result),
        inp.methods[i]? = some t.method ∧
        findMethod Generated.methods t.method = .ok m ∧ parseMethod usePseudo m = .ok cfg ∧
        runMethod (supplied inp) cfg = .ok () ∧
        toPipelineConfig cfg = some pc ∧
        (cfg.needsMap = true →
          pepMaps inp.fasta inp.pepMapFiles inp.containsDecoys inp.geneLevel inp.useUniprot inp.dig usePseudo = .ok maps) ∧
        t.pil = ingest inp maps cfg ∧ Pipeline.distinctPeptides t.pil ∧
        Pipeline.run pc (pipelineInput inp t.pil (inp.recs.getD i default)) = .ok r ∧
        t.run = r ∧ t.rows = r.rows ∧
        renderTable ann r.rows = .ok t.records ∧
        t.records = tableHeader :: r.rows.map (fun d => (cliRow ann d).toList) ∧
        PipelineGuarantees pc := by
  unfold cliRun at h
  cases hos : cliOutcomes inp with
  | error e => rw [hos] at h; simp at h
  | ok os =>
    rw [hos] at h
    simp only [Except.ok.injEq] at h
    subst h
    unfold cliOutcomes at hos
    have hco : cliOutcome inp = (os, none) := by
      rcases hc : cliOutcome inp with ⟨os', e⟩
      rw [hc] at hos
      cases e with
      | none => simp only [Except.ok.injEq] at hos; rw [hos]
      | some e => simp at hos
    unfold cliOutcome at hco
    cases hs : setup inp with
    | error e => rw [hs] at hco; simp at hco
    | ok ec =>
      obtain ⟨env, cfgs⟩ := ec
      rw [hs] at hco
      simp only at hco
      obtain ⟨ha, hp, hm1, hm0⟩ := setup_spec inp env cfgs hs
      refine ⟨env.ann, env.usePseudo, ha, ?_⟩
      intro t ht
      have hmem : some t ∈ os := by
        obtain ⟨o, ho, hid⟩ := List.mem_filterMap.mp ht
        simp only [id] at hid
        subst hid
        exact ho
      obtain ⟨i, hi⟩ := List.getElem?_of_mem hmem
      obtain ⟨hlen, hall⟩ := loop_ok inp env _ _ _ hco
      have hilt : i < (items inp cfgs).length := by
        rw [← hlen]
        rcases Nat.lt_or_ge i os.length with h | h
        · exact h
        · rw [List.getElem?_eq_none_iff.mpr h] at hi; cases hi
      obtain ⟨o, hrun, hoi⟩ := hall i _ (List.getElem?_eq_getElem hilt)
      rw [hi] at hoi
      have ho : o = some t := (Option.some.inj hoi).symm
      subst ho
      obtain ⟨hname, hcfg, hrec⟩ := items_getElem?_inv inp cfgs i _ (List.getElem?_eq_getElem hilt)
      obtain ⟨pc, r, op, h1, h2, h3, h4, h5, h6, h7, h8, -, -, -⟩ := runMethod_table inp env _ _ _ _ t hrun
      obtain ⟨-, hpa⟩ := parseAll_spec _ _ _ _ hp
      have hmi : (inp.methods.map MethodRef.builtin)[i]? = some (.builtin (items inp cfgs)[i].1) := by
        simp [hname]
      obtain ⟨m, c, hres, hpm, hci⟩ := hpa i _ hmi
      rw [hcfg] at hci
      have hc : c = (items inp cfgs)[i].2.1 := (Option.some.inj hci).symm
      subst hc
      refine ⟨i, m, _, pc, env.maps, r, ?_, ?_, hpm, h1, h2, ?_, h3, ?_, ?_, h5, h6, h7, ?_, pipelineGuarantees pc⟩
      · rw [h8]; exact hname
      · rw [h8]; exact hres
      · intro hn
        exact hm1 (List.any_eq_true.mpr ⟨_, List.mem_of_getElem? hcfg, hn⟩)
      · rw [h3]; exact ingest_distinct inp env.maps _
      · rw [← hrec]; exact h4
      · have := renderTable_eq env.ann r.rows
        rw [h7] at this
        exact Except.ok.inj this

/-- what that means for the table as written: further down the table the score does not increase and the q-value
    does not decrease, no protein is listed in two rows and none twice in a row — the observable guarantees the
    oracle of `harness/cli_model.py` checks on every written file -/
theorem cli_tables_sorted_disjoint (inp : CliInput) (ts : List CliTable) (h : cliRun inp = .ok ts) :
    ∀ t ∈ ts,
      (∀ (k l : Nat) (a b : C06.RowData), k < l → t.rows[k]? = some a → t.rows[l]? = some b →
        b.score ≤ a.score ∧ a.qValue ≤ b.qValue) ∧
      t.rows.Pairwise (fun a b => ∀ p, p ∈ a.proteins → p ∉ b.proteins) ∧
      (∀ row ∈ t.rows, row.proteins.Nodup) := by
  obtain ⟨ann, u, -, hall⟩ := cli_tables_satisfy_guarantees inp ts h
  intro t ht
  obtain ⟨i, m, cfg, pc, maps, r, -, -, -, -, -, -, -, hd, hrun, -, hrows, -, -, G⟩ := hall t ht
  rw [hrows]
  obtain ⟨hdis, hnd⟩ := G.disjoint _ r hrun hd
  exact ⟨rows_sorted_of_guarantees pc G _ r hrun, hdis, hnd⟩

/-- "(and several given at once)": the table of a method in a run with several methods is the table of that method
    run alone with the same recorded parameters — same peptide list, same rows, same written records; only the file
    name differs (the label suffix).  No method's outcome depends on which other methods were given, on their
    order, or on what they did with the shared peptide → protein maps.  `cliOutcomes` holds one entry per method
    (`none`: the method wrote nothing — no input file of its type). -/
theorem cli_methods_independent (inp : CliInput) (os : List (Option CliTable)) (h : cliOutcomes inp = .ok os)
    (i : Nat) (name : String) (hn : inp.methods[i]? = some name) :
    ∃ (o o' : Option CliTable), os[i]? = some o ∧ cliOutcomes (inp.alone i) = .ok [o'] ∧
      o'.map CliTable.content = o.map CliTable.content := by
  unfold cliOutcomes at h
  have hco : cliOutcome inp = (os, none) := by
    rcases hc : cliOutcome inp with ⟨os', e⟩
    rw [hc] at h
    cases e with
    | none => simp only [Except.ok.injEq] at h; rw [h]
    | some e => simp at h
  unfold cliOutcome at hco
  cases hs : setup inp with
  | error e => rw [hs] at hco; simp at hco
  | ok ec =>
    obtain ⟨env, cfgs⟩ := ec
    rw [hs] at hco
    simp only at hco
    obtain ⟨-, hp, -, -⟩ := setup_spec inp env cfgs hs
    obtain ⟨hlenp, hpa⟩ := parseAll_spec _ _ _ _ hp
    have hmi : (inp.methods.map MethodRef.builtin)[i]? = some (.builtin name) := by simp [hn]
    obtain ⟨m, c, -, -, hci⟩ := hpa i _ hmi
    obtain ⟨env', hs', hann, -, hmaps⟩ := setup_alone inp env cfgs hs i name c hn hci
    have hit := items_getElem? inp cfgs i name c hn hci
    obtain ⟨-, hall⟩ := loop_ok inp env _ _ _ hco
    obtain ⟨o, hrun, hoi⟩ := hall i _ hit
    simp only at hrun
    -- the same method, alone: one method given, so no suffix
    obtain ⟨o', hrun', hcontent⟩ := runMethod_several inp env _ (decide ([c].length > 1)) name c _ o hrun
    have hrun'' : Cli.runMethod (inp.alone i) env' (decide ([c].length > 1)) name c (inp.recs.getD i default) = .ok o' := by
      rw [runMethod_alone, runMethod_env inp env env' _ name c _ hann hmaps]
      exact hrun'
    have hitems : items (inp.alone i) [c] = [(name, c, inp.recs.getD i default)] := by
      simp [items, CliInput.alone, hn, recsFor]
    refine ⟨o, o', hoi, ?_, hcontent⟩
    unfold cliOutcomes cliOutcome
    rw [hs']
    simp only
    rw [hitems, loop_single (inp.alone i) env' _ (name, c, inp.recs.getD i default) o' hrun'']

/-- the same for the tables of a completed run: every written table is, up to its file name, the one table of the
    run in which only its method is given -/
theorem cli_table_alone (inp : CliInput) (ts : List CliTable) (h : cliRun inp = .ok ts) :
    ∀ t ∈ ts, ∃ (i : Nat) (t' : CliTable), inp.methods[i]? = some t.method ∧
      cliRun (inp.alone i) = .ok [t'] ∧ t'.content = t.content := by
  intro t ht
  unfold cliRun at h
  cases hos : cliOutcomes inp with
  | error e => rw [hos] at h; simp at h
  | ok os =>
    rw [hos] at h
    simp only [Except.ok.injEq] at h
    subst h
    have hmem : some t ∈ os := by
      obtain ⟨o, ho, hid⟩ := List.mem_filterMap.mp ht
      simp only [id] at hid
      subst hid
      exact ho
    obtain ⟨i, hi⟩ := List.getElem?_of_mem hmem
    -- the method name at position i, through the loop
    unfold cliOutcomes at hos
    have hco : cliOutcome inp = (os, none) := by
      rcases hc : cliOutcome inp with ⟨os', e⟩
      rw [hc] at hos
      cases e with
      | none => simp only [Except.ok.injEq] at hos; rw [hos]
      | some e => simp at hos
    unfold cliOutcome at hco
    cases hs : setup inp with
    | error e => rw [hs] at hco; simp at hco
    | ok ec =>
      obtain ⟨env, cfgs⟩ := ec
      rw [hs] at hco
      simp only at hco
      obtain ⟨hlen, hloop⟩ := loop_ok inp env _ _ _ hco
      have hilt : i < (items inp cfgs).length := by
        rw [← hlen]
        rcases Nat.lt_or_ge i os.length with h | h
        · exact h
        · rw [List.getElem?_eq_none_iff.mpr h] at hi; cases hi
      obtain ⟨hname, -, -⟩ := items_getElem?_inv inp cfgs i _ (List.getElem?_eq_getElem hilt)
      obtain ⟨o, hrun, hoi⟩ := hloop i _ (List.getElem?_eq_getElem hilt)
      rw [hi] at hoi
      have ho : o = some t := (Option.some.inj hoi).symm
      subst ho
      obtain ⟨-, -, -, -, -, -, -, -, -, -, hmeth, -, -, -⟩ := runMethod_table inp env _ _ _ _ t hrun
      have hos' : cliOutcomes inp = .ok os := by
        unfold cliOutcomes cliOutcome
        rw [hs]
        simp only
        rw [hco]
      obtain ⟨o, o', h1, h2, h3⟩ := cli_methods_independent inp os hos' i _ hname
      rw [hi] at h1
      have : o = some t := (Option.some.inj h1).symm
      subst this
      cases o' with
      | none => simp at h3
      | some t' =>
        simp only [Option.map_some, Option.some.injEq] at h3
        refine ⟨i, t', ?_, ?_, h3⟩
        · rw [hmeth]; exact hname
        · unfold cliRun
          rw [h2]
          simp

/-! Non-vacuity: a concrete command line — FASTA with one protein, default digestion, one MaxQuant evidence file
with one PSM, the non-remapping method `picked_protein_group_mq_input_no_remap` next to `savitski_mq_best` — on
which `setup` succeeds with two parsed methods, one of which needs the peptide → protein map. -/

private def demoCli : CliInput :=
  { fasta := some [[">P1".toList, "AAAAAAAKCCCCCCCR".toList]], containsDecoys := false, geneLevel := false,
    useUniprot := false, dig := {}, methods := ["picked_protein_group_mq_input_no_remap", "savitski_mq_best"],
    mq := some [[{ raw := { pep := "_AAAAAAAK_", mod := "", score := some (1 / 1000), prot := ["P1"], decoy := false },
                   razorProt := "P1" }]],
    perc := none, fragpipe := none, sage := none, diann := none, mokapot := false,
    thr := 1 / 100, psm := 1 / 100, keepAll := false, out := some { dir := "d", stem := "out", suffix := ".txt" },
    recs := [] }

example : (methodsOfArg "a,b") = ["a", "b"] ∧ methodsOfArg "" = ["picked_protein_group"] := by decide +kernel

example : ∃ cfgs, parseAll Generated.methods false (demoCli.methods.map MethodRef.builtin) = .ok cfgs ∧
    cfgs.length = 2 ∧ cfgs.map Cfg.needsMap = [false, true] := by
  refine ⟨[{ score := .bestPEP, origin := .mqNoRemap, razor := false, withShared := false, grouping := .rescuedSubset,
             picked := .pickedGroup, label := "Picked Protein Group FDR" },
           { score := .bestPEP, origin := .mq, razor := false, withShared := false, grouping := .no,
             picked := .picked, label := "Savitski + MQ best PEP" }], ?_, rfl, ?_⟩ <;> decide +kernel

example : (digestionParamsList { cleavages := [0, 2], enzyme := ["trypsin", "lys-c"] } false).toOption.map List.length
    = some 2 := by decide +kernel

example : (digestionParamsList { cleavages := [0, 2], minLength := [6, 7, 8] } false).toOption = none := by
  decide +kernel

private def demoCfg : Cfg :=
  { score := .bestPEP, origin := .mqNoRemap, razor := false, withShared := false, grouping := .rescuedSubset,
    picked := .pickedGroup, label := "x" }

example : ingest demoCli [] demoCfg = [{ peptide := "AAAAAAAK", pep := 1 / 1000, proteins := ["P1"] }] := by
  decide +kernel

/-- a command line that completes (`Proofs/Cli.lean`, `demo_cli_run`): two Percolator methods given at once, no FASTA,
    one evidence file; two tables with the label suffixes, the second from a two-pass (rescue) run — so the
    hypotheses `cliRun inp = .ok ts` / `cliOutcomes inp = .ok os` of the theorems above are satisfiable with
    `ts ≠ []` and a method list of length two -/
example : ∃ t1 t2, cliRun demoRun = .ok [t1, t2] ∧ t1.file = "out_savitski.txt" ∧
    t2.file = "out_picked_protein_group_fdr.txt" ∧ t1.rows = Pipeline.demoRows (1/2) 1 ∧
    t2.run.pass2.isSome = true ∧ demoRun.methods.length = 2 := by
  obtain ⟨t1, t2, h, -, h1, -, -, h2, -, -, h3, -, h4⟩ := demo_cli_run
  exact ⟨t1, t2, h, h1, h2, h3, h4, rfl⟩

/-! ## Every shipped method, on input of its own type

The decision model's `matching` supply (this file, `shipped_methods_supported`: "its own evidence type and a FASTA
file") carried over to the composed model: for each of the shipped methods there is ONE evidence flag — `--mq_evidence`,
`--perc_evidence` (native or mokapot files), `--fragpipe_psm`, `--sage_results` or `--diann_reports` — such that every
command line naming the method and giving files under that flag gets through every configuration check; what is left
are the failures of the data (a FASTA / map file the readers refuse, a peptide list without a ranked group, …). -/

/-- Bool form of the per-method obligation, so that the kernel can evaluate it over the generated table: the TOML file
    parses protein-level and with the pseudo-gene fall-back, both configurations read the same evidence flag, and
    the decision model writes a table on the matching supply -/
def cliReady (g : Bool) (m : MethodToml) : Bool :=
  match parseMethod g m, parseMethod false m with
  | .ok c, .ok c0 =>
    (match runMethod (matching c) c with
     | .ok _ => true
     | .error _ => false) && c.input == c0.input
  | _, _ => false

/-- the generated-table obligation, evaluated by the kernel on the current TOML files -/
theorem cli_ready_table : ∀ g : Bool, ∀ m ∈ Generated.methods, cliReady g m = true := by decide +kernel

/-- the evidence flag a shipped method reads (`ScoreOrigin.get_evidence_file` of its parsed score type) -/
def kindOf (m : MethodToml) : Input :=
  match parseMethod false m with
  | .ok c => c.input
  | .error _ => .mq

/-- "For every method configuration shipped with the tool and selectable by name, running it from the command line on
    valid input of the matching type completes and writes a protein-group table …": for every shipped method `m` there
    is an input kind (namely `kindOf m`, the flag its parsed score type reads) such that EVERY command line that names `m` alone, gives `--protein_groups_out` and
    supplies files of that kind — whatever else it supplies, with `--fasta`, with `--peptide_protein_map` files or
    with neither — is not refused for a reason of configuration:

    * whatever the annotations of its FASTA files are (`ann`, and the pseudo-gene decision `usePseudo`), the method's
      TOML parses under that decision to a configuration `cfg` reading that kind; the decision model writes a table
      both on its `matching` supply and on what this command line supplies; `cfg` has a pipeline configuration `pc`
      (with all six end-to-end guarantees);
    * if the method needs the peptide → protein maps and building them fails, the run ends with exactly that error,
      and with `--fasta` or `--peptide_protein_map` given that error is never the missing-map refusal;
    * otherwise the run IS the method's inference call: it ends with the error of
      `Pipeline.run pc` on the evidence ingested through those maps (thresholds of the command line, the method's
      recorded parameters) if that call fails — errors of the data such as `no_ranked_groups` — and else writes
      exactly one table, to the path given, holding the call's rows under the minimal writer's header.

    So the only ways such a run does not write its table are: the FASTA files are refused by the annotation reader
    (no `ann`), the map cannot be built from the files given, or the inference call fails on the data. -/
theorem cli_every_shipped_method_runs :
    ∀ m ∈ Generated.methods, ∃ kind : Input, kind = kindOf m ∧
      ∀ (inp : CliInput) (op : OutPath) (ann : C19.Dict) (usePseudo : Bool),
        inp.methods = [m.name] → inp.out = some op → (supplied inp).has kind = true →
        C19.getAnnotations inp.fasta inp.containsDecoys inp.geneLevel inp.useUniprot = .ok (ann, usePseudo) →
        ∃ (cfg : Cfg) (pc : Pipeline.Config),
          parseMethod usePseudo m = .ok cfg ∧ cfg.input = kind ∧
          runMethod (matching cfg) cfg = .ok () ∧ runMethod (supplied inp) cfg = .ok () ∧
          toPipelineConfig cfg = some pc ∧ PipelineGuarantees pc ∧
          (cfg.needsMap = true → ∀ e,
            pepMaps inp.fasta inp.pepMapFiles inp.containsDecoys inp.geneLevel inp.useUniprot inp.dig usePseudo = .error e →
            cliRun inp = .error e ∧ ((supplied inp).map = true → e ≠ Err.missingFasta.tag)) ∧
          ∀ maps : List C10.DMap,
            (cfg.needsMap = true →
              pepMaps inp.fasta inp.pepMapFiles inp.containsDecoys inp.geneLevel inp.useUniprot inp.dig usePseudo = .ok maps) →
            (∀ e, Pipeline.run pc (pipelineInput inp (ingest inp maps cfg) (inp.recs.getD 0 default)) = .error e →
              cliRun inp = .error e) ∧
            (∀ r, Pipeline.run pc (pipelineInput inp (ingest inp maps cfg) (inp.recs.getD 0 default)) = .ok r →
              cliRun inp = .ok [{ method := m.name, file := op.stem ++ op.suffix, dir := op.dir,
                                  pil := ingest inp maps cfg, run := r, rows := r.rows,
                                  records := tableHeader :: r.rows.map (fun d => (cliRow ann d).toList) }]) := by
  intro m hm
  refine ⟨kindOf m, rfl, ?_⟩
  intro inp op ann u hmeth hout hhas ha
  obtain ⟨cfg, pc, hp, hpc, -, -, -, G⟩ := shipped_methods_guarantees u m hm
  obtain ⟨_, -, -, -, hfind, -⟩ := shipped_methods_supported m hm
  -- the table entry: same evidence flag as protein-level, and a table on the matching supply
  have hready := cli_ready_table u m hm
  unfold cliReady at hready
  rw [hp] at hready
  cases hp0 : parseMethod false m with
  | error e => rw [hp0] at hready; simp at hready
  | ok c0 =>
    rw [hp0] at hready
    simp only [Bool.and_eq_true, beq_iff_eq] at hready
    obtain ⟨hrm, hin⟩ := hready
    have hkind : cfg.input = kindOf m := by unfold kindOf; rw [hp0]; exact hin
    have hmatch : runMethod (matching cfg) cfg = .ok () := by
      cases hr : runMethod (matching cfg) cfg with
      | error e => rw [hr] at hrm; simp at hrm
      | ok u => rfl
    obtain ⟨-, h2, h3, h4⟩ := (runMethod_ok_iff _ _).mp hmatch
    have hsup : runMethod (supplied inp) cfg = .ok () :=
      (runMethod_ok_iff _ _).mpr ⟨hkind ▸ hhas, h2, fun hn => h3 hn, h4⟩
    have hsetup := setup_single inp m.name ann u m cfg hmeth ha hfind hp
    have hname : C18.outputName false op.stem op.suffix cfg = op.stem ++ op.suffix := by simp [outputName]
    refine ⟨cfg, pc, hp, hkind, hmatch, hsup, hpc, G, ?_, ?_⟩
    · intro hn e he
      refine ⟨?_, fun hmap => pepMaps_error_ne_missing _ _ _ _ _ _ _ e hmap he⟩
      apply cliRun_setup_error
      rw [hsetup, hn]
      simp only [if_true]
      rw [he]
    · intro maps hmaps
      -- the environment of the run, and the method's ingestion in it
      have henv : ∃ env : Env, setup inp = .ok (env, [cfg]) ∧ env.ann = ann ∧
          ingest inp env.maps cfg = ingest inp maps cfg := by
        cases hn : cfg.needsMap with
        | true =>
          refine ⟨{ ann := ann, usePseudo := u, maps := maps }, ?_, rfl, rfl⟩
          rw [hsetup, hn]
          simp only [if_true]
          rw [hmaps hn]
        | false =>
          refine ⟨{ ann := ann, usePseudo := u, maps := [] }, ?_, rfl,
            ingest_noremap inp _ _ cfg (needsMap_false_remaps cfg hn)⟩
          rw [hsetup, hn]
          simp
      obtain ⟨env, hs, hann, hing⟩ := henv
      have hout1 := cliOutcomes_single inp m.name env cfg hmeth hs
      constructor
      · intro e he
        have hrun := runMethod_pipeline_error inp env false m.name cfg (inp.recs.getD 0 default) pc e hsup hpc
          (by rw [hing]; exact he)
        unfold cliRun
        rw [hout1, hrun]
      · intro r hr
        have hrun := runMethod_ok inp env false m.name cfg (inp.recs.getD 0 default) pc r op hsup hpc
          (by rw [hing]; exact hr) hout
        unfold cliRun
        rw [hout1, hrun]
        simp [hing, hann, hname]

/-! Non-vacuity of `cli_every_shipped_method_runs`: the shipped methods read all five evidence flags between them; two
command lines of the newly composed kinds satisfy its hypotheses and complete with the table it names —
`--methods diann --diann_reports report.tsv` without FASTA (the decoy row's protein gets the `REV__` prefix from its
`Decoy` cell), and `--methods picked_protein_group --perc_evidence mokapot.psms.txt --peptide_protein_map map.tsv`
(a mokapot-style Percolator file, proteins remapped through the map FILE).  Both ingest `Pipeline.demoPil`, so the
inference call is `Pipeline.demo_run2`.  Sage and FragPipe rows are ingested with the parsers' double arithmetic. -/

example : (Generated.methods.map kindOf).eraseDups.length = 5 ∧ Generated.methods.length = 27 := by decide +kernel

private def demoOut : OutPath := { dir := "d", stem := "out", suffix := ".txt" }

private def demoBase : CliInput :=
  { fasta := none, containsDecoys := false, geneLevel := false, useUniprot := false, dig := {}, methods := [],
    mq := none, perc := none, fragpipe := none, sage := none, diann := none, mokapot := false,
    thr := 1/100, psm := 1/100, keepAll := false, out := some demoOut, recs := [demoRec2] }

private def demoDiann : CliInput :=
  { demoBase with
    methods := ["diann"],
    diann := some [[{ raw := { pep := "PEPA", mod := "", score := some (1/1000), prot := ["A"], decoy := false } },
                    { raw := { pep := "PEP(UniMod:4)B", mod := "", score := some (1/100), prot := ["B"], decoy := true } }]] }

private def demoMapRun : CliInput :=
  { demoBase with
    methods := ["picked_protein_group"], mokapotFiles := [true],
    perc := some [[{ raw := { pep := "-.PEPA.-", mod := "", score := some (1/1000), prot := ["X\tY"], decoy := false } },
                   { raw := { pep := "-.PEPB.-", mod := "", score := some (1/100), prot := ["X"], decoy := false } }]],
    pepMapFiles := some ["PEPA\tA\r\nPEPB\tREV__B\r\n".toList] }

private def demoMDiann : MethodToml :=
  { name := "diann", label := some "Picked Protein Group FDR", scoreType := some "DIA-NN bestPEP",
    grouping := some "rescued_subset", sharedPeptides := some "discard", pickedStrategy := some "picked_group" }

private def demoMPpg : MethodToml :=
  { name := "picked_protein_group", label := some "Picked Protein Group FDR", scoreType := some "Perc remap bestPEP",
    grouping := some "rescued_subset", sharedPeptides := some "discard", pickedStrategy := some "picked_group" }

private def demoCfgDiann : Cfg :=
  { score := .bestPEP, origin := .diann, razor := false, withShared := false, grouping := .rescuedSubset,
    picked := .pickedGroup, label := "Picked Protein Group FDR" }

private def demoCfgPpg : Cfg := { demoCfgDiann with origin := .percRemap }

example : ∃ t, cliRun demoDiann = .ok [t] ∧ t.file = "out.txt" ∧ t.dir = "d" ∧ t.pil = Pipeline.demoPil ∧
    t.rows = Pipeline.demoRows (1/2) 1 ∧ kindOf demoMDiann = .diann ∧ (supplied demoDiann).map = false := by
  have hm : demoMDiann ∈ Generated.methods := by decide +kernel
  obtain ⟨kind, hk, H⟩ := cli_every_shipped_method_runs demoMDiann hm
  have hkd : kindOf demoMDiann = .diann := by decide +kernel
  rw [hkd] at hk
  subst hk
  obtain ⟨cfg, pc, hp, -, -, -, hpc, -, -, hrun⟩ := H demoDiann demoOut [] false rfl rfl (by decide +kernel) rfl
  have hp' : parseMethod false demoMDiann = .ok demoCfgDiann := by decide +kernel
  rw [hp'] at hp
  cases hp
  have hpc' : toPipelineConfig demoCfgDiann = some Pipeline.demoCfg2 := rfl
  rw [hpc'] at hpc
  cases hpc
  have hpil : ingest demoDiann [] demoCfgDiann = Pipeline.demoPil := by decide +kernel
  obtain ⟨r2, hr2, -, -, hrows2, -, -⟩ := Pipeline.demo_run2
  obtain ⟨-, hok⟩ := hrun [] (by intro h; exact absurd h (by decide +kernel))
  have := hok r2 (by rw [hpil]; exact hr2)
  exact ⟨_, this, by show ("out" ++ ".txt" : String) = "out.txt"; decide +kernel, rfl, hpil, hrows2, hkd, by decide +kernel⟩

example : ∃ t, cliRun demoMapRun = .ok [t] ∧ t.pil = Pipeline.demoPil ∧ t.rows = Pipeline.demoRows (1/2) 1 ∧
    kindOf demoMPpg = .perc ∧ demoCfgPpg.needsMap = true ∧ (supplied demoMapRun).map = true := by
  have hm : demoMPpg ∈ Generated.methods := by decide +kernel
  obtain ⟨kind, hk, H⟩ := cli_every_shipped_method_runs demoMPpg hm
  have hkd : kindOf demoMPpg = .perc := by decide +kernel
  rw [hkd] at hk
  subst hk
  obtain ⟨cfg, pc, hp, -, -, -, hpc, -, -, hrun⟩ := H demoMapRun demoOut [] false rfl rfl (by decide +kernel) rfl
  have hp' : parseMethod false demoMPpg = .ok demoCfgPpg := by decide +kernel
  rw [hp'] at hp
  cases hp
  have hpc' : toPipelineConfig demoCfgPpg = some Pipeline.demoCfg2 := rfl
  rw [hpc'] at hpc
  cases hpc
  have hmaps : pepMaps demoMapRun.fasta demoMapRun.pepMapFiles demoMapRun.containsDecoys demoMapRun.geneLevel
      demoMapRun.useUniprot demoMapRun.dig false = .ok [[("PEPA", ["A"]), ("PEPB", ["REV__B"])]] := by decide +kernel
  have hpil : ingest demoMapRun [[("PEPA", ["A"]), ("PEPB", ["REV__B"])]] demoCfgPpg = Pipeline.demoPil := by
    decide +kernel
  obtain ⟨r2, hr2, -, -, hrows2, -, -⟩ := Pipeline.demo_run2
  obtain ⟨-, hok⟩ := hrun _ (fun _ => hmaps)
  have := hok r2 (by rw [hpil]; exact hr2)
  exact ⟨_, this, hpil, hrows2, hkd, by decide +kernel, by decide +kernel⟩

/-- the same two PSMs as a Sage file (`posterior_error` holds log10 of the PEP; the peptide list holds the DOUBLES
    `10 ** -3`, `10 ** -2`, as the code does — `Cli.roundD`) and a FragPipe PSM (`PeptideProphet Probability`;
    PEP = `1 - p + 1e-16` in doubles, the protein list from `Protein` + `Mapped Proteins`, decoys purged) -/
example : ingest { demoBase with
      methods := ["sage"],
      sage := some [[{ raw := { pep := "PEPA", mod := "", score := some (-3), prot := ["A"], decoy := false } },
                     { raw := { pep := "PEPB", mod := "", score := some (-2), prot := ["REV__B"], decoy := false } }]] }
    [] { demoCfgDiann with origin := .sage } =
    [{ peptide := "PEPA", pep := 1152921504606847 / 1152921504606846976, proteins := ["A"] },
     { peptide := "PEPB", pep := 5764607523034235 / 576460752303423488, proteins := ["REV__B"] }] := by decide +kernel

example : Cli.doubleT.fragpipe (8998192055486251 / 9007199254740992) = 4611686018427853 / 4611686018427387904 ∧
    Cli.roundD (1 / 1000) ≠ 1 / 1000 := by decide +kernel

example : ingest { demoBase with
      methods := ["fragpipe"],
      fragpipe := some [[{ raw := { pep := "PEPA", mod := "PEP[147]A", score := some 1, prot := ["A", "REV__A2, C"], decoy := false } }]] }
    [] { demoCfgDiann with origin := .fragpipe } = [{ peptide := "PEPA", pep := C10.eps16, proteins := ["A", "C"] }] := by
  decide +kernel

/-- without `--fasta` and without `--peptide_protein_map` the remapping method of the second run is refused with the
    tool's missing-map error (`pepMaps_missing`) — the hypothesis "a map can be built" of the theorem is not for free -/
example : cliRun { demoMapRun with pepMapFiles := none } = .error Err.missingFasta.tag := by
  apply cliRun_setup_error
  have hs := setup_single { demoMapRun with pepMapFiles := none } "picked_protein_group" [] false demoMPpg demoCfgPpg
    rfl rfl (by decide +kernel) (by decide +kernel)
  rw [hs]
  have hn : demoCfgPpg.needsMap = true := by decide +kernel
  rw [hn]
  simp only [if_true]
  have hm : pepMaps demoMapRun.fasta none demoMapRun.containsDecoys demoMapRun.geneLevel demoMapRun.useUniprot
      demoMapRun.dig false = .error Err.missingFasta.tag := by decide +kernel
  rw [hm]

end PgFdr.C18

/-! ## Completion of the inference call: when does a shipped method, on valid input of its type, write its table?

`cli_every_shipped_method_runs` leaves one way open in which a run that got through every configuration check does
not write its table: "the inference call fails on the data".  `Proofs/PipelineComplete.lean` characterises the
failures of the composed model `Pipeline.run` exactly:

* `Pipeline.run_error_tags`, `Pipeline.run_error_data_or_misfit`: the call fails only with one of four DATA errors
  (`unknown_protein` / `razor_no_proteins`, `no_ranked_groups`, `no_rows` — the real tool ends with an exception at
  the mirrored line) or with one of five PROTOCOL errors, and a protocol error means that the RECORDED parameters of
  the replay (float scores, shuffles, rescue cutoff, cut map) do not fit the run — the real tool has no such failure;
* with fitting records, a single-pass call completes iff every peptide maps to a protein and some non-contaminant
  group has evidence (`Pipeline.run_single_pass_ok_iff`), a two-pass call iff moreover the first pass ranks a group
  that is not placeholder-named and some non-contaminant group has evidence in the second pass
  (`Pipeline.run_rescue_ok_iff`); otherwise it ends with the named data error (`…_error_iff`).

The theorems below carry this over to the command line. -/
namespace PgFdr.C18
open PgFdr.Cli
open PgFdr.Generated (MethodToml)

/-- the table the command line writes for the one method `name` of a run whose inference call returns `r` -/
def tableOf (name : String) (op : OutPath) (ann : C19.Dict) (pil : List PepInfo) (r : Pipeline.Result) : CliTable :=
  { method := name, file := op.stem ++ op.suffix, dir := op.dir, pil := pil, run := r, rows := r.rows,
    records := tableHeader :: r.rows.map (fun d => (cliRow ann d).toList) }

/-- "running it from the command line on valid input of the matching type completes and writes a protein-group
    table": for every shipped method `m`, on a command line as in `cli_every_shipped_method_runs` (the method alone,
    `--protein_groups_out`, files of the method's own kind, annotations that read, maps that build), the run IS the
    method's inference call `Pipeline.run pc pin` on the ingested peptide list `pin.pil` (a dict) with the thresholds
    of the command line and the method's recorded parameters: it ends with error `e` exactly when the call does, and
    writes exactly one table — `tableOf …`, holding the call's rows — exactly when the call completes. -/
theorem cli_shipped_method_is_inference_call :
    ∀ m ∈ Generated.methods,
      ∀ (inp : CliInput) (op : OutPath) (ann : C19.Dict) (usePseudo : Bool),
        inp.methods = [m.name] → inp.out = some op → (supplied inp).has (kindOf m) = true →
        C19.getAnnotations inp.fasta inp.containsDecoys inp.geneLevel inp.useUniprot = .ok (ann, usePseudo) →
        ∃ (cfg : Cfg) (pc : Pipeline.Config),
          parseMethod usePseudo m = .ok cfg ∧ toPipelineConfig cfg = some pc ∧
          ∀ (maps : List C10.DMap) (pin : Pipeline.Input),
            (cfg.needsMap = true →
              pepMaps inp.fasta inp.pepMapFiles inp.containsDecoys inp.geneLevel inp.useUniprot inp.dig usePseudo = .ok maps) →
            pin = pipelineInput inp (ingest inp maps cfg) (inp.recs.getD 0 default) →
            Pipeline.distinctPeptides pin.pil ∧
            (∀ e, cliRun inp = .error e ↔ Pipeline.run pc pin = .error e) ∧
            (∀ r, Pipeline.run pc pin = .ok r → cliRun inp = .ok [tableOf m.name op ann pin.pil r]) ∧
            ((∃ t, cliRun inp = .ok [t]) ↔ ∃ r, Pipeline.run pc pin = .ok r) := by
  intro m hm inp op ann u hmeth hout hhas ha
  obtain ⟨kind, hk, H⟩ := cli_every_shipped_method_runs m hm
  subst hk
  obtain ⟨cfg, pc, hp, -, -, -, hpc, -, -, hrun⟩ := H inp op ann u hmeth hout hhas ha
  refine ⟨cfg, pc, hp, hpc, ?_⟩
  intro maps pin hmaps hpin
  obtain ⟨herr, hok⟩ := hrun maps hmaps
  rw [← hpin] at herr hok
  have hd : Pipeline.distinctPeptides pin.pil := by rw [hpin]; exact ingest_distinct inp maps cfg
  have hpil : pin.pil = ingest inp maps cfg := by rw [hpin]; rfl
  have hok' : ∀ r, Pipeline.run pc pin = .ok r → cliRun inp = .ok [tableOf m.name op ann pin.pil r] := by
    intro r hr; rw [hpil]; exact hok r hr
  refine ⟨hd, ?_, hok', ?_⟩
  · intro e
    constructor
    · intro he
      cases hr : Pipeline.run pc pin with
      | error e' => have := herr e' hr; rw [he] at this; rw [Except.error.inj this]
      | ok r => have := hok' r hr; rw [he] at this; cases this
    · exact herr e
  · constructor
    · rintro ⟨t, ht⟩
      cases hr : Pipeline.run pc pin with
      | error e' => have := herr e' hr; rw [ht] at this; cases this
      | ok r => exact ⟨r, rfl⟩
    · rintro ⟨r, hr⟩; exact ⟨_, hok' r hr⟩

/-- "For every method configuration shipped with the tool and selectable by name, running it from the command line
    on valid input of the matching type completes and writes a protein-group table …" — for the shipped methods
    WITHOUT a rescue step (`pc.grouping ≠ .rescuedSubset`): on a command line as in `cli_every_shipped_method_runs`
    whose recorded parameters fit the run (`Pipeline.Fits1`: one float score per first-pass group, the two recorded
    shuffles are permutations of the right lengths; `Pipeline.NoSentinel1`: no group with evidence was scored with
    the sentinel `-100.0`), the run completes with exactly one table IF AND ONLY IF the ingested peptide list is
    valid input for the inference: every peptide maps to at least one protein (`HasProteins`) and some
    non-contaminant group of the method's grouping has evidence (`Rankable1`; for a discard method: some peptide's
    proteins all lie in one non-contaminant group, `Pipeline.rankable1_discard_iff`).  The table is then the one of
    the single pass `run_spec` describes.  Otherwise the run ends with the named data error, and with no other:
    `unknown_protein` (`razor_no_proteins` for a razor method) iff some peptide maps to no protein,
    `no_ranked_groups` iff all peptides map to proteins but no non-contaminant group has evidence. -/
theorem cli_shipped_single_pass_completes_iff :
    ∀ m ∈ Generated.methods,
      ∀ (inp : CliInput) (op : OutPath) (ann : C19.Dict) (usePseudo : Bool),
        inp.methods = [m.name] → inp.out = some op → (supplied inp).has (kindOf m) = true →
        C19.getAnnotations inp.fasta inp.containsDecoys inp.geneLevel inp.useUniprot = .ok (ann, usePseudo) →
        ∃ (cfg : Cfg) (pc : Pipeline.Config),
          parseMethod usePseudo m = .ok cfg ∧ toPipelineConfig cfg = some pc ∧
          ∀ (maps : List C10.DMap) (pin : Pipeline.Input),
            (cfg.needsMap = true →
              pepMaps inp.fasta inp.pepMapFiles inp.containsDecoys inp.geneLevel inp.useUniprot inp.dig usePseudo = .ok maps) →
            pin = pipelineInput inp (ingest inp maps cfg) (inp.recs.getD 0 default) →
            pc.grouping ≠ .rescuedSubset → Pipeline.Fits1 pc pin → Pipeline.NoSentinel1 pc pin →
            ((∃ t, cliRun inp = .ok [t]) ↔ Pipeline.HasProteins pin.pil ∧ Pipeline.Rankable1 pc pin) ∧
            (Pipeline.HasProteins pin.pil → Pipeline.Rankable1 pc pin →
              ∃ r, Pipeline.run pc pin = .ok r ∧ Pipeline.RunSpec pc pin r ∧ r.pass2 = none ∧
                cliRun inp = .ok [tableOf m.name op ann pin.pil r]) ∧
            (∀ e, cliRun inp = .error e ↔
              (e = Pipeline.noProteinsTag pc ∧ ¬ Pipeline.HasProteins pin.pil) ∨
              (e = "no_ranked_groups" ∧ Pipeline.HasProteins pin.pil ∧ ¬ Pipeline.Rankable1 pc pin)) := by
  intro m hm inp op ann u hmeth hout hhas ha
  obtain ⟨cfg, pc, hp, hpc, H⟩ := cli_shipped_method_is_inference_call m hm inp op ann u hmeth hout hhas ha
  refine ⟨cfg, pc, hp, hpc, ?_⟩
  intro maps pin hmaps hpin hg hfit hsent
  obtain ⟨hd, herr, hok, hiff⟩ := H maps pin hmaps hpin
  refine ⟨hiff.trans (Pipeline.run_single_pass_ok_iff pc pin hg hd hfit hsent), ?_, ?_⟩
  · intro h1 h2
    obtain ⟨r, hr⟩ := (Pipeline.run_single_pass_ok_iff pc pin hg hd hfit hsent).mpr ⟨h1, h2⟩
    have hspec := Pipeline.run_spec pc pin r hr
    rcases hspec.cases with ⟨-, h2', -⟩ | ⟨hgr, -⟩
    · exact ⟨r, hr, hspec, h2', hok r hr⟩
    · exact absurd hgr hg
  · intro e
    exact (herr e).trans (Pipeline.run_single_pass_error_iff pc pin hg hd hfit hsent e)

/-- "… running it from the command line on valid input of the matching type completes and writes a protein-group
    table …" — for the shipped methods WITH a rescue step (`pc.grouping = .rescuedSubset`, the flagship
    `picked_protein_group` family): on a command line as in `cli_every_shipped_method_runs` whose recorded
    parameters fit the run — first pass (`Fits1`, `NoSentinel1`), a recorded rescue cutoff `c`, a recorded cut map
    that answers the rescue stage (`Pipeline.rescueOut pc pin c = .ok out`), second pass (`Fits2`, `NoSentinel2`) —
    the run completes with exactly one table IF AND ONLY IF every peptide maps to a protein, some non-contaminant
    first-pass group has evidence, the first pass ranks some group that is not `OBSOLETE__`-named (its table is not
    empty), and some non-contaminant group handed to the second competition has evidence.  The table is then the one
    of the rescue pass on `out`.  Otherwise the run ends with the named data error, and with no other:
    the no-proteins error, `no_ranked_groups` (first or second pass), or `no_rows` (empty first table). -/
theorem cli_shipped_rescue_completes_iff :
    ∀ m ∈ Generated.methods,
      ∀ (inp : CliInput) (op : OutPath) (ann : C19.Dict) (usePseudo : Bool),
        inp.methods = [m.name] → inp.out = some op → (supplied inp).has (kindOf m) = true →
        C19.getAnnotations inp.fasta inp.containsDecoys inp.geneLevel inp.useUniprot = .ok (ann, usePseudo) →
        ∃ (cfg : Cfg) (pc : Pipeline.Config),
          parseMethod usePseudo m = .ok cfg ∧ toPipelineConfig cfg = some pc ∧
          ∀ (maps : List C10.DMap) (pin : Pipeline.Input) (c : Rat) (out : C04.RescueOut (List Evidence)),
            (cfg.needsMap = true →
              pepMaps inp.fasta inp.pepMapFiles inp.containsDecoys inp.geneLevel inp.useUniprot inp.dig usePseudo = .ok maps) →
            pin = pipelineInput inp (ingest inp maps cfg) (inp.recs.getD 0 default) →
            pc.grouping = .rescuedSubset → Pipeline.Fits1 pc pin → Pipeline.NoSentinel1 pc pin →
            pin.rescueCutoff = some c → Pipeline.rescueOut pc pin c = .ok out →
            Pipeline.Fits2 pc pin out → Pipeline.NoSentinel2 pc pin out →
            ((∃ t, cliRun inp = .ok [t]) ↔
              Pipeline.HasProteins pin.pil ∧ Pipeline.Rankable1 pc pin ∧ ¬ Pipeline.NoRows1 pc pin ∧
                Pipeline.Rankable2 pc pin out) ∧
            (Pipeline.HasProteins pin.pil → Pipeline.Rankable1 pc pin → ¬ Pipeline.NoRows1 pc pin →
              Pipeline.Rankable2 pc pin out →
              ∃ r, Pipeline.run pc pin = .ok r ∧ Pipeline.RunSpec pc pin r ∧ r.rescue = some out ∧
                r.pass2.isSome = true ∧ cliRun inp = .ok [tableOf m.name op ann pin.pil r]) ∧
            (∀ e, cliRun inp = .error e ↔
              (e = Pipeline.noProteinsTag pc ∧ ¬ Pipeline.HasProteins pin.pil) ∨
              (e = "no_ranked_groups" ∧ Pipeline.HasProteins pin.pil ∧
                (¬ Pipeline.Rankable1 pc pin ∨
                  (Pipeline.Rankable1 pc pin ∧ ¬ Pipeline.NoRows1 pc pin ∧ ¬ Pipeline.Rankable2 pc pin out))) ∨
              (e = "no_rows" ∧ Pipeline.HasProteins pin.pil ∧ Pipeline.Rankable1 pc pin ∧ Pipeline.NoRows1 pc pin)) := by
  intro m hm inp op ann u hmeth hout hhas ha
  obtain ⟨cfg, pc, hp, hpc, H⟩ := cli_shipped_method_is_inference_call m hm inp op ann u hmeth hout hhas ha
  refine ⟨cfg, pc, hp, hpc, ?_⟩
  intro maps pin c out hmaps hpin hg hfit hsent hc hout' hfit2 hsent2
  obtain ⟨hd, herr, hok, hiff⟩ := H maps pin hmaps hpin
  have hokiff := Pipeline.run_rescue_ok_iff pc pin hg hd hfit hsent c hc out hout' hfit2 hsent2
  refine ⟨hiff.trans hokiff, ?_, ?_⟩
  · intro h1 h2 h3 h4
    obtain ⟨r, hr⟩ := hokiff.mpr ⟨h1, h2, h3, h4⟩
    have hspec := Pipeline.run_spec pc pin r hr
    obtain ⟨c', out', hc', ho', -, hresc⟩ := Pipeline.fits2_of_run_ok pc pin r hr hg
    rw [hc] at hc'
    obtain rfl := Option.some.inj hc'
    rw [hout'] at ho'
    obtain rfl := Except.ok.inj ho'
    rcases hspec.cases with ⟨hne, -⟩ | ⟨-, p2, -, -, -, h2', -⟩
    · exact absurd hg hne
    · exact ⟨r, hr, hspec, hresc, by rw [h2']; rfl, hok r hr⟩
  · intro e
    exact (herr e).trans (Pipeline.run_rescue_error_iff pc pin hg hd hfit hsent c hc out hout' hfit2 hsent2 e)

/-- "… completes and writes a protein-group table": the converse bound, for EVERY shipped method and whatever the
    data and the records — if a run as in `cli_every_shipped_method_runs` fails in the inference call, the error is one
    of the four data errors (`unknown_protein`, `razor_no_proteins`, `no_ranked_groups`, `no_rows`), or the recorded
    parameters of the replay do not fit the run: the first-pass records (`¬ Fits1`), or — rescue methods — a missing
    rescue cutoff, a cut map that does not answer the rescue stage, second-pass records that do not fit. -/
theorem cli_shipped_failure_is_data_or_misfit :
    ∀ m ∈ Generated.methods,
      ∀ (inp : CliInput) (op : OutPath) (ann : C19.Dict) (usePseudo : Bool),
        inp.methods = [m.name] → inp.out = some op → (supplied inp).has (kindOf m) = true →
        C19.getAnnotations inp.fasta inp.containsDecoys inp.geneLevel inp.useUniprot = .ok (ann, usePseudo) →
        ∃ (cfg : Cfg) (pc : Pipeline.Config),
          parseMethod usePseudo m = .ok cfg ∧ toPipelineConfig cfg = some pc ∧
          ∀ (maps : List C10.DMap) (pin : Pipeline.Input) (e : String),
            (cfg.needsMap = true →
              pepMaps inp.fasta inp.pepMapFiles inp.containsDecoys inp.geneLevel inp.useUniprot inp.dig usePseudo = .ok maps) →
            pin = pipelineInput inp (ingest inp maps cfg) (inp.recs.getD 0 default) →
            cliRun inp = .error e →
            e ∈ Pipeline.dataErrors ∨ ¬ Pipeline.Fits1 pc pin ∨
            (pc.grouping = .rescuedSubset ∧
              (pin.rescueCutoff = none ∨ ∃ c, pin.rescueCutoff = some c ∧
                ((∃ e', Pipeline.rescueOut pc pin c = .error e') ∨
                 ∃ out, Pipeline.rescueOut pc pin c = .ok out ∧ ¬ Pipeline.Fits2 pc pin out))) := by
  intro m hm inp op ann u hmeth hout hhas ha
  obtain ⟨cfg, pc, hp, hpc, H⟩ := cli_shipped_method_is_inference_call m hm inp op ann u hmeth hout hhas ha
  refine ⟨cfg, pc, hp, hpc, ?_⟩
  intro maps pin e hmaps hpin he
  obtain ⟨-, herr, -, -⟩ := H maps pin hmaps hpin
  exact Pipeline.run_error_data_or_misfit pc pin e ((herr e).mp he)

/-! Non-vacuity.  Of the shipped methods some have a rescue step and some do not.  `--methods savitski_no_remap` and
`--methods picked_protein_group_no_remap` on the Percolator file of `Proofs/Cli.lean: demoRun` (target peptide PEPA of
protein `A`, decoy peptide PEPB of `REV__B`) satisfy every hypothesis of the two completion theorems — their
inference calls are `Pipeline.demo_run1` / `Pipeline.demo_run2` (`Pipeline.demo1_hypotheses`,
`Pipeline.demo2_hypotheses`) — and complete with one table; the same command line on a file whose only peptide is
shared between two proteins satisfies the hypotheses but not the data condition, and ends with `no_ranked_groups`. -/

example : (Generated.methods.filter (fun m => (pipelineConfigOf false m).map (·.grouping) == some .rescuedSubset)).length = 9 ∧
    (Generated.methods.filter (fun m => (pipelineConfigOf false m).map (·.grouping) != some .rescuedSubset)).length = 18 := by
  decide +kernel

private def demoMSav : MethodToml :=
  { name := "savitski_no_remap", label := some "Savitski", scoreType := some "Perc bestPEP", grouping := some "no",
    sharedPeptides := some "discard", pickedStrategy := some "picked" }

private def demoMPpgNr : MethodToml :=
  { name := "picked_protein_group_no_remap", label := some "Picked Protein Group FDR", scoreType := some "Perc bestPEP",
    grouping := some "rescued_subset", sharedPeptides := some "discard", pickedStrategy := some "picked_group" }

private def demoSingle : CliInput := { demoRun with methods := ["savitski_no_remap"], recs := [demoRec1] }
private def demoRescue : CliInput := { demoRun with methods := ["picked_protein_group_no_remap"], recs := [demoRec2] }

/-- the single-pass theorem applies to `--methods savitski_no_remap` and yields its table -/
example : ∃ t, cliRun demoSingle = .ok [t] ∧ t.rows = Pipeline.demoRows (1/2) 1 := by
  have hm : demoMSav ∈ Generated.methods := by decide +kernel
  obtain ⟨cfg, pc, hp, hpc, H⟩ := cli_shipped_single_pass_completes_iff demoMSav hm demoSingle
    { dir := "d", stem := "out", suffix := ".txt" } [] false rfl rfl (by decide +kernel) rfl
  have hp' : parseMethod false demoMSav = .ok demoCfgA := by decide +kernel
  rw [hp'] at hp
  cases hp
  have hpc' : toPipelineConfig demoCfgA = some Pipeline.demoCfg1 := rfl
  rw [hpc'] at hpc
  cases hpc
  have hpil : ingest demoSingle [] demoCfgA = Pipeline.demoPil := by decide +kernel
  have hpin : Pipeline.demoInp1 = pipelineInput demoSingle (ingest demoSingle [] demoCfgA) (demoSingle.recs.getD 0 default) := by
    rw [hpil]; rfl
  obtain ⟨hg, -, hf, hs, h1, h2⟩ := Pipeline.demo1_hypotheses
  obtain ⟨-, hok, -⟩ := H [] Pipeline.demoInp1 (by intro h; exact absurd h (by decide +kernel)) hpin hg hf hs
  obtain ⟨r, hr, -, -, hcli⟩ := hok h1 h2
  obtain ⟨r', hr', -, -, hrows, -⟩ := Pipeline.demo_run1
  rw [hr] at hr'
  cases hr'
  exact ⟨_, hcli, hrows⟩

/-- the rescue theorem applies to `--methods picked_protein_group_no_remap` and yields its table -/
example : ∃ t, cliRun demoRescue = .ok [t] ∧ t.rows = Pipeline.demoRows (1/2) 1 ∧ t.run.pass2.isSome = true := by
  have hm : demoMPpgNr ∈ Generated.methods := by decide +kernel
  obtain ⟨cfg, pc, hp, hpc, H⟩ := cli_shipped_rescue_completes_iff demoMPpgNr hm demoRescue
    { dir := "d", stem := "out", suffix := ".txt" } [] false rfl rfl (by decide +kernel) rfl
  have hp' : parseMethod false demoMPpgNr = .ok demoCfgB := by decide +kernel
  rw [hp'] at hp
  cases hp
  have hpc' : toPipelineConfig demoCfgB = some Pipeline.demoCfg2 := rfl
  rw [hpc'] at hpc
  cases hpc
  have hpil : ingest demoRescue [] demoCfgB = Pipeline.demoPil := by decide +kernel
  have hpin : Pipeline.demoInp2 = pipelineInput demoRescue (ingest demoRescue [] demoCfgB) (demoRescue.recs.getD 0 default) := by
    rw [hpil]; rfl
  obtain ⟨hg, -, hf, hs, c, out, hc, hout, hf2, hs2, h1, h2, h3, h4⟩ := Pipeline.demo2_hypotheses
  obtain ⟨-, hok, -⟩ := H [] Pipeline.demoInp2 c out (by intro h; exact absurd h (by decide +kernel)) hpin hg hf hs hc
    hout hf2 hs2
  obtain ⟨r, hr, -, -, hp2, hcli⟩ := hok h1 h2 h3 h4
  obtain ⟨r', hr', -, -, hrows, -⟩ := Pipeline.demo_run2
  rw [hr] at hr'
  cases hr'
  exact ⟨_, hcli, hrows, hp2⟩

private def demoSharedRun : CliInput :=
  { demoSingle with
    perc := some [[{ raw := { pep := "PEPA", mod := "", score := some (1/1000), prot := ["A", "B"], decoy := false } }]],
    recs := [{ shuffles := [[], []], scores1 := [-100, -100] }] }

/-- the data condition is not for free: a Percolator file whose only peptide is shared between the ungrouped proteins
    `A` and `B` satisfies every hypothesis of the single-pass theorem, gives no group any evidence, and the run ends
    with `no_ranked_groups` -/
example : cliRun demoSharedRun = .error "no_ranked_groups" := by
  have hm : demoMSav ∈ Generated.methods := by decide +kernel
  obtain ⟨cfg, pc, hp, hpc, H⟩ := cli_shipped_single_pass_completes_iff demoMSav hm demoSharedRun
    { dir := "d", stem := "out", suffix := ".txt" } [] false rfl rfl (by decide +kernel) rfl
  have hp' : parseMethod false demoMSav = .ok demoCfgA := by decide +kernel
  rw [hp'] at hp
  cases hp
  have hpc' : toPipelineConfig demoCfgA = some Pipeline.demoCfg1 := rfl
  rw [hpc'] at hpc
  cases hpc
  have hpil : ingest demoSharedRun [] demoCfgA = Pipeline.demoInpShared.pil := by decide +kernel
  have hpin : Pipeline.demoInpShared =
      pipelineInput demoSharedRun (ingest demoSharedRun [] demoCfgA) (demoSharedRun.recs.getD 0 default) := by
    rw [hpil]; rfl
  obtain ⟨-, hf, hs, h1, h2, -⟩ := Pipeline.demo_no_ranked
  obtain ⟨-, -, herr⟩ := H [] Pipeline.demoInpShared (by intro h; exact absurd h (by decide +kernel)) hpin (by decide) hf hs
  exact (herr _).mpr (Or.inr ⟨rfl, h1, h2⟩)

end PgFdr.C18
