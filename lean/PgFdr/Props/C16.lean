import PgFdr.Proofs.C16

/-!
# C16 — skip-if-present pipeline outputs are published atomically

Property text (properties.jsonl): "Pipeline steps that skip their work when their output file
already exists (rescoring merge into evidence files, conversion of evidence to Percolator input)
never expose a partially written file under the final name: if the process dies at any point, the
final path either does not exist or holds the complete output. Re-running after such a crash
completes and yields the same bytes as an uninterrupted run, and an existing final output is never
modified."

The theorems are about the file-system machine of `PgFdr/Model/C16.lean` (`runJob`, `runHistory`:
what the driver op `fsrun` executes).  They hold for every chunking of every output, every kill
point (any number of complete operations plus any number of bytes of the append in flight) and
every history of killed and complete invocations.  The machine is tied to the two real steps by
trace conformance and fault enumeration (harness/props/C16.py, harness/crash_runner.py).
Assumptions outside the proof: `rename(2)` replaces the destination atomically and the machine
does not lose power (what was written before the kill is what a later run sees).
-/
namespace PgFdr.C16

/-- "never expose a partially written file under the final name: if the process dies at any
    point, the final path either does not exist or holds the complete output" — for every
    pipeline loop over independent outputs, starting without the final files, after any history
    of invocations each killed anywhere (or not at all). -/
theorem atomic_publish (outs : List Output) (hind : Indep outs) (fs0 : FS)
    (h0 : ∀ o ∈ outs, fs0 o.final = none) (hist : List (Option Crash)) :
    ∀ o ∈ outs, runHistory fs0 outs hist o.final = none ∨
                runHistory fs0 outs hist o.final = some o.chunks.flatten := by
  apply runHistory_preserves (fun fs => ∀ o ∈ outs, fs o.final = none ∨ fs o.final = some o.chunks.flatten)
  · apply runJob_preserves
    intro o' ho' fs c hinv o ho
    rcases hind o ho o' ho' with heq | ⟨h1, h2⟩
    · subst heq; exact runStep_inv fs _ _ c (hinv o ho)
    · rw [runStep_frame _ _ _ _ _ h1 h2]; exact hinv o ho
  · intro o ho; exact Or.inl (h0 o ho)

/-- "Re-running after such a crash completes and yields the same bytes as an uninterrupted run":
    after any history of killed invocations, one uninterrupted invocation leaves every output
    complete — the bytes an uninterrupted first run produces (`hist = []`). -/
theorem rerun_completes_same_bytes (outs : List Output) (hind : Indep outs) (fs0 : FS)
    (h0 : ∀ o ∈ outs, fs0 o.final = none) (hist : List (Option Crash)) :
    ∀ o ∈ outs, runJob (runHistory fs0 outs hist) outs none o.final = some o.chunks.flatten := by
  intro o ho
  apply runJob_completes o outs (fun o' ho' => hind o ho o' ho')
  rcases atomic_publish outs hind fs0 h0 hist o ho with h | h
  · exact Or.inr ⟨h, ho⟩
  · exact Or.inl h

/-- "an existing final output is never modified": whatever a path holds — complete output or not —
    it holds the same after any history of invocations, provided it is not the temporary name of
    one of the outputs.  In particular this covers the final path of every output that exists. -/
theorem existing_final_untouched (outs : List Output) (fs0 : FS) (f : Path) (c : Bytes)
    (hf : fs0 f = some c) (htmp : ∀ o ∈ outs, f ≠ tmpOf o.final) (hist : List (Option Crash)) :
    runHistory fs0 outs hist f = some c := by
  apply runHistory_preserves (fun fs => fs f = some c)
  · apply runJob_preserves
    intro o ho fs cr h
    by_cases he : f = o.final
    · rw [runStep_existing fs o.final o.chunks cr (by rw [← he, h]; rfl)]; exact h
    · rw [runStep_frame _ _ _ _ _ he (htmp o ho)]; exact h
  · exact hf

/-- a step whose final output exists does nothing at all (the whole file system is unchanged) -/
theorem existing_final_skips_step (fs : FS) (final : Path) (chunks : List Bytes) (c : Bytes) (cr : Option Crash)
    (hf : fs final = some c) : runJob fs [⟨final, chunks⟩] cr = fs := by
  rw [runJob_cons]
  have : stepOps fs final chunks = [] := stepOps_of_some _ _ _ (by rw [hf]; rfl)
  cases cr with
  | none => simp only; rw [runJob_nil, runStep_existing _ _ _ _ (by rw [hf]; rfl)]
  | some cr =>
    simp only [this, List.length_nil, Nat.not_lt_zero, if_false]
    rw [runJob_nil, runStep_existing _ _ _ _ (by rw [hf]; rfl)]

/-- nothing but the final and temporary paths of the outputs is ever written -/
theorem only_final_and_tmp_written (outs : List Output) (fs0 : FS) (q : Path)
    (hq : ∀ o ∈ outs, q ≠ o.final ∧ q ≠ tmpOf o.final) (hist : List (Option Crash)) :
    runHistory fs0 outs hist q = fs0 q := by
  apply runHistory_preserves (fun fs => fs q = fs0 q)
  · apply runJob_preserves
    intro o ho fs cr h
    rw [runStep_frame _ _ _ _ _ (hq o ho).1 (hq o ho).2]; exact h
  · rfl

/-- the shape the trace conformance checks: the only operation of a step that names the final
    path is the closing `rename tmp final` -/
theorem final_named_only_by_rename (final : Path) (chunks : List Bytes) :
    (∀ o ∈ program final chunks, final ∈ writes o → o = .rename (tmpOf final) final) ∧
    (program final chunks).getLast? = some (.rename (tmpOf final) final) := by
  constructor
  · intro o ho hw
    unfold program at ho
    simp only [List.mem_append, List.mem_map, List.mem_cons, List.not_mem_nil, or_false] at ho
    rcases ho with (h | ⟨b, _, h⟩) | h | h <;> subst h <;> simp [writes] at hw
    · exact absurd hw.symm (tmpOf_ne final)
    · exact absurd hw.symm (tmpOf_ne final)
    · rfl
  · have : program final chunks =
        ([FOp.openTrunc (tmpOf final)] ++ chunks.map (FOp.append (tmpOf final)) ++ [FOp.close (tmpOf final)]) ++
          [FOp.rename (tmpOf final) final] := by simp [program]
    rw [this, List.getLast?_append]
    simp

/-! ### Non-vacuity: two independent outputs; the first invocation dies in the middle of the second
    row of the first output, the second one after the close of the second output's temporary file,
    the third one runs through. -/

private def exOuts : List Output :=
  [⟨"out/evidence_0.txt", [[1, 2], [3, 4, 5]]⟩, ⟨"out/evidence_1.txt", [[6], [7]]⟩]

example : Indep exOuts := by
  intro a ha b hb
  simp only [exOuts, List.mem_cons, List.not_mem_nil, or_false] at ha hb
  rcases ha with rfl | rfl <;> rcases hb with rfl | rfl
  · exact Or.inl rfl
  · right; constructor <;> decide
  · right; constructor <;> decide
  · exact Or.inl rfl

private def exHist : List (Option Crash) := [some ⟨2, 1⟩, some ⟨9, 0⟩, none]

example : (runHistory (fun _ => none) exOuts (exHist.take 1)) "out/evidence_0.txt" = none ∧
          (runHistory (fun _ => none) exOuts (exHist.take 1)) "out/evidence_0.txt.tmp" = some [1, 2, 3] := by
  constructor <;> decide +kernel

example : (runHistory (fun _ => none) exOuts (exHist.take 2)) "out/evidence_0.txt" = some [1, 2, 3, 4, 5] ∧
          (runHistory (fun _ => none) exOuts (exHist.take 2)) "out/evidence_1.txt" = none ∧
          (runHistory (fun _ => none) exOuts (exHist.take 2)) "out/evidence_1.txt.tmp" = some [6, 7] := by
  refine ⟨?_, ?_, ?_⟩ <;> decide +kernel

example : (runHistory (fun _ => none) exOuts exHist) "out/evidence_1.txt" = some [6, 7] ∧
          (runHistory (fun _ => none) exOuts exHist) "out/evidence_1.txt.tmp" = none := by
  constructor <;> decide +kernel

end PgFdr.C16
