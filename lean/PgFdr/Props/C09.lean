import PgFdr.Proofs.C09
import PgFdr.Proofs.C09File
import PgFdr.Proofs.C09Maps
import PgFdr.Props.C08

/-!
# C09 — peptide-to-protein map, decoy database and iBAQ peptide numbers are exact

Property text (properties.jsonl): "For FASTA files with distinct identifiers, the peptide-to-protein
map lists for each peptide exactly the target proteins and generated decoy proteins (reversed sequence
with every special residue swapped with its predecessor, prefixed identifier) whose digestion yields
that peptide, each once and in database order, with multi-line records joined and identifiers parsed by
the chosen rule; for non-specific searches the lookup returns exactly the proteins whose sequence
contains the peptide. The theoretical peptide number used for iBAQ is the number of distinct fully
specific peptides of length 6-30 (or the narrower configured window) without missed cleavages and
without initiator-methionine removal, and a map written to a file reads back unchanged."

Model: `PgFdr/Model/C09.lean` (`readFasta`, `decoySeq`, `pepMapFile`, `fromParams`, `getProteins`,
`numIbaqPeptides`, `writeMap`/`readMap`), run by the driver ops `pepmap`, `pepmap1`, `fasta`, `ibaq`,
`mapfile` against the real functions.  Helper lemmas: `PgFdr/Proofs/C09.lean`.  Digestion is C08's
`digestPeptides`; `keysOf a seq` are the (hash keys of the) peptides `seq` yields under the arguments `a`.
-/
namespace PgFdr.C09
open PgFdr.Generated PgFdr.C08

/-- "the peptide-to-protein map lists for each peptide exactly the target proteins and generated decoy
    proteins … whose digestion yields that peptide … in database order": the entry of `k` is the list of
    identifiers of the database records (as `read_fasta_maxquant` yields them: targets and decoys in file
    order) whose digest contains `k`, in that order. -/
theorem map_exact (a : MapArgs) (lines : List Str) (res : PMap × SeqMap) (h : pepMapFile a lines = .ok res)
    (k : Str) :
    get res.1 k =
      ((readFasta a.db a.special a.parse lines).1.filter (fun r => decide (k ∈ keysOf a r.2))).map (·.1) := by
  obtain ⟨hm, _⟩ := pepMapFile_ok a lines res h
  simpa [get] using (mapRecords_spec a _ _ _ _ hm).1 k

/-- the same, unfolded for fully specific digestion without hash keys through C08: a protein is listed for a
    peptide iff the peptide is a substring of its sequence allowed by the declarative cleavage rule -/
theorem map_exact_full (a : MapArgs) (lines : List Str) (res : PMap × SeqMap) (h : pepMapFile a lines = .ok res)
    (hmode : a.mode = .full) (hhash : a.useHash = false) (hmin : 1 ≤ a.minL)
    (hne : ∀ r ∈ (readFasta a.db a.special a.parse lines).1, r.2 ≠ []) (pep pid : Str) :
    pid ∈ get res.1 pep ↔
      ∃ r ∈ (readFasta a.db a.special a.parse lines).1, r.1 = pid ∧
        ∃ i j, Valid .full a.rule a.minL a.maxL a.mc a.met r.2 i j ∧ pep = slice r.2 i j := by
  rw [map_exact a lines res h]
  simp only [List.mem_map, List.mem_filter, decide_eq_true_eq]
  have key : ∀ r ∈ (readFasta a.db a.special a.parse lines).1,
      (pep ∈ keysOf a r.2 ↔ ∃ i j, Valid .full a.rule a.minL a.maxL a.mc a.met r.2 i j ∧ pep = slice r.2 i j) := by
    intro r hr
    obtain ⟨l, hl, hmem⟩ := full_digest_set_eq a.rule r.2 a.minL a.maxL a.mc a.met (hne r hr) hmin
    have : keysOf a r.2 = l := by
      simp [keysOf, hmode, digestPeptides, hl, hhash, hashKey_false]
    rw [this, hmem]
  constructor
  · rintro ⟨r, ⟨hr, hk⟩, rfl⟩
    exact ⟨r, hr, rfl, (key r hr).mp hk⟩
  · rintro ⟨r, hr, rfl, hv⟩
    exact ⟨r, ⟨hr, (key r hr).mpr hv⟩, rfl⟩

/-- "For FASTA files with distinct identifiers … each once and in database order": with distinct identifiers
    no protein is listed twice for a peptide, and every entry is a sub-sequence of the database's identifier
    list (so the order is the database order) -/
theorem map_nodup_db_order (a : MapArgs) (lines : List Str) (res : PMap × SeqMap) (h : pepMapFile a lines = .ok res)
    (hd : ((readFasta a.db a.special a.parse lines).1.map (·.1)).Nodup) (k : Str) :
    (get res.1 k).Nodup ∧ (get res.1 k).Sublist ((readFasta a.db a.special a.parse lines).1.map (·.1)) := by
  rw [map_exact a lines res h]
  have hs : (((readFasta a.db a.special a.parse lines).1.filter (fun r => decide (k ∈ keysOf a r.2))).map (·.1)).Sublist
      ((readFasta a.db a.special a.parse lines).1.map (·.1)) := (List.filter_sublist).map _
  exact ⟨hs.nodup hd, hs⟩

/-- several files and several parameter sets ("every digestion parameter set including several proteases"):
    the merged entry is the concatenation, in loop order (file-major, parameter sets inside), of what each
    (file, parameter set) pair lists — this is the behaviour of the code; with two parameter sets that both
    yield the peptide the protein is listed twice (the recorded known finding) -/
theorem from_params_merge (parse : ParseId) (files : List (List Str)) (ps : List Params) (res : PMap × SeqMap)
    (h : fromParams parse files ps = .ok res) (k : Str) :
    get res.1 k = (jobs files ps).flatMap (fun j => jobEntry parse j k) := by
  simpa [get] using fromParamsGo_spec parse (jobs files ps) [] [] res h k

/-- "generated decoy proteins (reversed sequence with every special residue swapped with its predecessor,
    prefixed identifier)": what one completed entry yields under the three database modes -/
theorem decoy_def (special : List Char) (name seq : Str) :
    yieldRecords .target special name seq = [(name, seq)] ∧
    yieldRecords .decoy special name seq = [("REV__".toList ++ name, decoySeq special seq)] ∧
    yieldRecords .concat special name seq = [(name, seq), ("REV__".toList ++ name, decoySeq special seq)] ∧
    decoySeq [] seq = seq.reverse ∧
    (special ≠ [] → decoySeq special seq = swapSpecial special seq.reverse) := by
  refine ⟨by simp [yieldRecords], by simp [yieldRecords, decoyPrefix], by simp [yieldRecords, decoyPrefix],
    by simp [decoySeq], ?_⟩
  intro h
  cases special with
  | nil => exact absurd rfl h
  | cons _ _ => simp [decoySeq]

/-- "every special residue swapped with its predecessor": the sequential swap moves every maximal run `R` of
    special residues in front of the residue `x` that preceded it (`x R c …  ↦  R x …`, continuing at the
    next non-special residue `c`); at the end of the sequence `x R ↦ R x` -/
theorem swap_runs (special : List Char) (x c : Char) (R t : Str) (hR : ∀ y ∈ R, special.contains y = true)
    (hc : special.contains c = false) :
    swapSpecial special (x :: (R ++ c :: t)) = R ++ x :: swapSpecial special (c :: t) ∧
    swapSpecial special (x :: R) = R ++ [x] := by
  simp only [swapSpecial]
  exact ⟨swapGo_run special R x c t hR hc, swapGo_end special R x hR⟩

/-- the decoy sequence has the same residues (hence the same length and composition) as the target -/
theorem swap_perm (special : List Char) (seq : Str) :
    (decoySeq special seq).Perm seq ∧ (decoySeq special seq).length = seq.length :=
  ⟨decoySeq_perm special seq, (decoySeq_perm special seq).length_eq⟩

/-- "with multi-line records joined and identifiers parsed by the chosen rule": a file whose records are a
    header line `>h` (with an identifier under the chosen rule) followed by any sequence lines (none of which
    starts with `>`; trailing white space, blank lines and any wrapping allowed) is read as exactly those
    records, in order, each sequence being the concatenation of its right-stripped lines -/
theorem read_fasta_joined (db : Db) (special : List Char) (parse : ParseId) (recs : List (Str × List Str))
    (hwf : ∀ r ∈ recs, rstrip r.1 ≠ [] ∧ (∃ c t, applyParse parse (rstrip r.1) = some (c :: t)) ∧
        ∀ l ∈ r.2, (rstrip l).head? ≠ some '>') :
    readFasta db special parse (renderFasta recs) =
      (recs.flatMap (fun r => yieldRecords db special (idOf parse r.1) (r.2.map rstrip).flatten), none) := by
  unfold readFasta
  rw [readGo_wellformed db special parse recs _ hwf]
  simp [pendingOut, truthy]

/-- "for non-specific searches the lookup returns exactly the proteins whose sequence contains the peptide":
    for a map built with non-specific digestion and hash keys over a database with distinct identifiers, the
    lookup of a peptide whose length lies within the window succeeds and returns (sorted, so: a permutation
    of) the identifiers of exactly the database records whose sequence contains the peptide as a substring -/
theorem get_proteins_nonspecific (a : MapArgs) (lines : List Str) (res : PMap × SeqMap)
    (h : pepMapFile a lines = .ok res) (hmode : a.mode = .none) (hhash : a.useHash = true)
    (hd : ((readFasta a.db a.special a.parse lines).1.map (·.1)).Nodup)
    (pep : Str) (hlo : a.minL ≤ pep.length) (hhi : pep.length ≤ a.maxL) :
    ∃ l, getProteins res pep = .ok l ∧
      l.Perm (((readFasta a.db a.special a.parse lines).1.filter (fun r => containsSub pep r.2)).map (·.1)) ∧
      ∀ pid, pid ∈ l ↔ ∃ seq, (pid, seq) ∈ (readFasta a.db a.special a.parse lines).1 ∧
        ∃ pre suf, seq = pre ++ pep ++ suf := by
  obtain ⟨hm, _⟩ := pepMapFile_ok a lines res h
  generalize (readFasta a.db a.special a.parse lines).1 = recs at hm hd
  have hget := (mapRecords_spec a _ _ _ _ hm).1 (pep.take 6)
  obtain ⟨hs1, _, hs3, hs4⟩ := mapRecords_seqs a _ _ _ _ hm hd
  -- a record containing the peptide lists its hash key
  have hkey : ∀ r : Str × Str, containsSub pep r.2 = true → pep.take 6 ∈ keysOf a r.2 := by
    intro r hr
    obtain ⟨pre, suf, hseq⟩ := (containsSub_iff pep r.2).mp hr
    have hk : keysOf a r.2 = (nonSpecific r.2 a.minL a.maxL).map (hashKey true) := by
      simp [keysOf, digestPeptides, hmode, hhash]
    rw [hk, List.mem_map]
    refine ⟨pep, ?_, by simp [hashKey]⟩
    rw [mem_nonSpecific]
    refine ⟨pre.length, pre.length + pep.length, by omega, by omega, ?_, ?_⟩
    · rw [hseq]; simp
    · rw [hseq]; exact (slice_of_append pre pep suf).symm
  have hfilter : ((recs.filter (fun r => decide (pep.take 6 ∈ keysOf a r.2))).filter (fun r => containsSub pep r.2)) =
      recs.filter (fun r => containsSub pep r.2) := by
    rw [List.filter_filter]
    apply List.filter_congr
    intro r _
    cases hc : containsSub pep r.2
    · simp
    · simp [hkey r hc]
  have hconf : confirm res.2 pep (get res.1 (pep.take 6)) =
      .ok ((recs.filter (fun r => containsSub pep r.2)).map (·.1)) := by
    rw [hget]
    simp only [get, List.nil_append]
    rw [confirm_spec res.2 pep _ (fun r hr => hs1 r (List.mem_filter.mp hr).1), hfilter]
  have hmemchar : ∀ pid, pid ∈ (recs.filter (fun r => containsSub pep r.2)).map (·.1) ↔
      ∃ seq, (pid, seq) ∈ recs ∧ ∃ pre suf, seq = pre ++ pep ++ suf := by
    intro pid
    simp only [List.mem_map, List.mem_filter]
    constructor
    · rintro ⟨r, ⟨hr, hc⟩, rfl⟩
      exact ⟨r.2, hr, (containsSub_iff pep r.2).mp hc⟩
    · rintro ⟨seq, hr, hc⟩
      exact ⟨(pid, seq), ⟨hr, (containsSub_iff pep seq).mpr hc⟩, rfl⟩
  cases hrecs : recs with
  | nil =>
    subst hrecs
    have h2 : res.2 = [] := hs4 rfl
    have h1 : get res.1 pep = [] := by
      have := (mapRecords_spec a _ _ _ _ hm).1 pep
      simpa [get] using this
    refine ⟨[], ?_, by simp, by simp⟩
    simp [getProteins, h2, h1]
  | cons r0 rest =>
    have hne : res.2 ≠ [] := hs3 (by rw [hrecs]; simp)
    refine ⟨sortStrs ((recs.filter (fun r => containsSub pep r.2)).map (·.1)), ?_, ?_, ?_⟩
    · unfold getProteins
      cases h2 : res.2 with
      | nil => exact absurd h2 hne
      | cons x xs =>
        simp only
        rw [← h2, hconf]
    · rw [← hrecs]; exact sortStrs_perm _
    · intro pid
      rw [(sortStrs_perm _).mem_iff, hmemchar, hrecs]

/-- "The theoretical peptide number used for iBAQ is the number of distinct fully specific peptides of length
    6-30 (or the narrower configured window) without missed cleavages and without initiator-methionine
    removal": for one file and one parameter set with distinct identifiers, the number reported for a database
    record is the number of distinct peptides of the full digest of its sequence with window
    `[max 6 min, min 30 max]`, budget 0 and no Met removal — whatever digestion mode the search used; by
    `C08.full_digest_set_eq` those are exactly the substrings allowed by the declarative rule. -/
theorem ibaq_count_eq (parse : ParseId) (lines : List Str) (p : Params) (r : EnzymeRule)
    (hr : lookupEnzyme p.enzyme = some r) (counts : List (Str × Nat))
    (h : numIbaqPeptides parse [lines] [p] = .ok counts)
    (hd : ((readFasta p.db p.special parse lines).1.map (·.1)).Nodup)
    (pid seq : Str) (hrec : (pid, seq) ∈ (readFasta p.db p.special parse lines).1) :
    ∃ peps, fullDigest r seq (max 6 p.minL) (min 30 p.maxL) 0 false = .ok peps ∧
      cnt counts pid = (uniq peps).length := by
  unfold numIbaqPeptides at h
  split at h
  · simp at h
  · rename_i res hres
    simp only [Except.ok.injEq] at h
    subst h
    -- one job
    simp only [fromParams, jobs, List.map_cons, List.map_nil, List.flatMap_cons, List.flatMap_nil,
      List.append_nil, fromParamsGo] at hres
    split at hres
    · simp at hres
    · rename_i tm tsm hs
      simp only [fromParamsGo, Except.ok.injEq] at hres
      have hnd := pepMapSingle_nodup parse (ibaqParams p) lines (tm, tsm) hs
      have hres1 : res.1 = tm := by rw [← hres]; exact mergeMap_nil tm hnd
      rw [pepMapSingle_ibaq parse p r hr] at hs
      obtain ⟨hm, _⟩ := pepMapFile_ok _ _ _ hs
      obtain ⟨h1, _, h3⟩ := mapRecords_spec _ _ _ _ _ hm
      generalize hA : ibaqArgs r p parse = A at hm h1 h3
      have hmode : A.mode = .full := by subst hA; rfl
      have hdig : ∃ peps, fullDigest r seq (max 6 p.minL) (min 30 p.maxL) 0 false = .ok peps := by
        cases seq with
        | nil => exact ⟨_, rfl⟩
        | cons _ _ => exact ⟨_, rfl⟩
      obtain ⟨peps, hpeps⟩ := hdig
      have hkeys : keysOf A seq = peps := by
        subst hA
        simp [keysOf, digestPeptides, ibaqArgs, hpeps, hashKey_false]
      refine ⟨peps, hpeps, ?_⟩
      rw [cnt_numPeptides, hres1]
      apply count_entries_eq tm hnd pid peps
      intro k
      have hrec' : (pid, seq) ∈ (readFasta A.db A.special A.parse lines).1 := by subst hA; exact hrec
      have hd' : ((readFasta A.db A.special A.parse lines).1.map (·.1)).Nodup := by subst hA; exact hd
      rw [h3 k, h1 k]
      simp only [keys, List.map_nil, List.not_mem_nil, false_or, get, List.nil_append, List.mem_map,
        List.mem_filter, decide_eq_true_eq]
      constructor
      · intro hk
        rw [← hkeys] at hk
        exact ⟨⟨(pid, seq), hrec', hk⟩, ⟨(pid, seq), ⟨hrec', hk⟩, rfl⟩⟩
      · rintro ⟨_, ⟨r', ⟨hr', hk⟩, hid⟩⟩
        -- distinct identifiers: r' is this record
        have : r' = (pid, seq) := by
          exact inj_of_nodup_map (·.1) _ hd' r' hr' (pid, seq) hrec' hid
        subst this
        rw [← hkeys]; exact hk

/-- "… for every digestion parameter set including several proteases": over several files and parameter sets the
    iBAQ number of a protein is the number of DISTINCT peptides that any (file, parameter set) job lists for it
    under the iBAQ settings — a peptide produced by two proteases counts once (repaired counting) -/
theorem ibaq_count_union (parse : ParseId) (files : List (List Str)) (ps : List Params) (counts : List (Str × Nat))
    (h : numIbaqPeptides parse files ps = .ok counts) (pid : Str) :
    cnt counts pid =
      (uniq ((jobs files (ps.map ibaqParams)).flatMap
        (fun j => (jobKeys parse j).filter (fun k => decide (pid ∈ jobEntry parse j k))))).length := by
  unfold numIbaqPeptides at h
  split at h
  · simp at h
  · rename_i res hres
    simp only [Except.ok.injEq] at h
    subst h
    unfold fromParams at hres
    obtain ⟨hnd, hkeys⟩ := fromParamsGo_keys parse _ [] [] res hres (by simp [keys])
    have hget := fromParamsGo_spec parse _ [] [] res hres
    rw [cnt_numPeptides]
    apply count_entries_eq res.1 hnd pid
    intro k
    rw [hkeys k, hget k]
    simp only [keys, List.map_nil, List.not_mem_nil, false_or, get, List.nil_append, List.mem_flatMap,
      List.mem_filter, decide_eq_true_eq]
    constructor
    · rintro ⟨j, hj, hk, hp⟩
      exact ⟨⟨j, hj, hk⟩, ⟨j, hj, hp⟩⟩
    · rintro ⟨_, ⟨j, hj, hp⟩⟩
      exact ⟨j, hj, mem_jobKeys_of_mem_jobEntry parse j k pid hp, hp⟩

/-- "a map written to a file reads back unchanged": for a map (distinct peptides, every peptide listing at least
    one protein — which is what the map builder produces) whose peptides are free of tab, quote, CR, LF and a
    byte-order mark and whose identifiers are additionally free of `;`, the `--peptide_protein_map` writer
    succeeds and `get_peptide_to_protein_map_from_file` returns the same map: same peptides in the same order,
    same protein lists -/
theorem map_file_roundtrip (m : PMap) (hk : (keys m).Nodup) (hne : ∀ kv ∈ m, kv.2 ≠ [])
    (h1 : ∀ kv ∈ m, CleanPep kv.1) (h2 : ∀ kv ∈ m, ∀ p ∈ kv.2, CleanProt p) :
    ∃ text, writeMap m = .ok text ∧ readMap text = .ok m :=
  ⟨_, writeMap_ok m h1 h2, readMap_text m hk hne h1 h2⟩

/-- the maps the builder produces meet the structural hypotheses of `map_file_roundtrip`: distinct keys and no
    empty entry -/
theorem built_map_wellformed (a : MapArgs) (lines : List Str) (res : PMap × SeqMap) (h : pepMapFile a lines = .ok res) :
    (keys res.1).Nodup ∧ ∀ kv ∈ res.1, kv.2 ≠ [] := by
  obtain ⟨hm, _⟩ := pepMapFile_ok a lines res h
  obtain ⟨h1, h2, h3⟩ := mapRecords_spec a _ _ _ _ hm
  have hnd := h2 (by simp [keys])
  refine ⟨hnd, ?_⟩
  intro kv hkv hemp
  have hg := get_of_mem res.1 hnd kv hkv
  have hk : kv.1 ∈ keys res.1 := List.mem_map.mpr ⟨kv, hkv, rfl⟩
  rw [h3] at hk
  simp only [keys, List.map_nil, List.not_mem_nil, false_or] at hk
  obtain ⟨r, hr, hkr⟩ := hk
  have := h1 kv.1
  rw [hg, hemp] at this
  simp only [get, List.nil_append] at this
  have hmem : r.1 ∈ ((readFasta a.db a.special a.parse lines).1.filter (fun r => decide (kv.1 ∈ keysOf a r.2))).map (·.1) :=
    List.mem_map.mpr ⟨r, List.mem_filter.mpr ⟨hr, by simpa using hkr⟩, rfl⟩
  rw [← this] at hmem
  simp at hmem

/-! Non-vacuity: a two-record FASTA file with a wrapped sequence, read in concat mode with special residues K, R;
the trypsin map over it; the map file round trip of a concrete map; the unit test of `swap_special_aas`. -/

private def exLines : List Str := [">P1 first".toList, "AAAK".toList, "CCK ".toList, ">P2".toList, "AAAK".toList]

example : readFasta .concat ['K', 'R'] .firstSpace exLines =
    ([("P1".toList, "AAAKCCK".toList), ("REV__P1".toList, "KCKCAAA".toList),
      ("P2".toList, "AAAK".toList), ("REV__P2".toList, "KAAA".toList)], none) := by decide

example : swapSpecial ['K', 'R'] "ABCKDEFRRR".toList = "ABKCDERRRF".toList := by decide

private def exArgs : MapArgs :=
  { rule := { name := "trypsin", pre := ['K', 'R'], notPost := ['P'], post := [] }, db := .target, minL := 3, maxL := 10,
    mode := .full, mc := 0, met := true, useHash := false, special := ['K', 'R'], parse := .firstSpace }

example : (pepMapFile exArgs exLines).toOption.map (·.1) =
    some [("AAAK".toList, ["P1".toList, "P2".toList]), ("CCK".toList, ["P1".toList])] := by decide

example : (keys [("AAAK".toList, ["P1".toList, "P2".toList]), ("CCK".toList, ["P1".toList])]).Nodup := by decide

example : (writeMap [("AAAK".toList, ["P1".toList, "P2".toList]), ("CCK".toList, ["P1".toList])]).toOption =
    some "AAAK\tP1;P2\r\nCCK\tP1\r\n".toList := by decide

example : CleanPep "AAAK".toList ∧ CleanProt "P1".toList := by
  constructor <;> (intro c hc; revert c; decide)

example : (numIbaqPeptides .firstSpace [[">P1".toList, "AAAAAAKCCCCCCCCKDDDDDDD".toList]]
    [mkParams "trypsin" "semi" 7 60 2 "KR" true]).toOption = some [("P1".toList, 3)] := by decide

/-- "the peptide-to-protein map lists for each peptide exactly the … proteins … whose digestion yields that
    peptide … in database order", for SEVERAL FASTA files and one digestion parameter set (what
    `get_peptide_to_protein_map_from_params` returns): the merged entry of `k` is the list of identifiers of the
    records of all files — file order, then record order inside a file — whose digest contains `k` -/
theorem map_exact_files (parse : ParseId) (files : List (List Str)) (p : Params) (r : EnzymeRule)
    (hr : lookupEnzyme p.enzyme = some r) (res : PMap × SeqMap) (h : fromParams parse files [p] = .ok res) (k : Str) :
    get res.1 k =
      ((dbRecords parse p files).filter (fun x => decide (k ∈ keysOf (argsOf r p parse) x.2))).map (·.1) :=
  fromParams_one_get parse files p r hr res h k

/-- "For FASTA files with distinct identifiers … each once and in database order", for several files and one
    parameter set: when the identifiers are distinct across all the files, no protein is listed twice for a peptide
    in the merged map, and every entry is a sub-sequence of the identifier list of the database (file order, then
    record order) -/
theorem map_nodup_db_order_files (parse : ParseId) (files : List (List Str)) (p : Params) (res : PMap × SeqMap)
    (h : fromParams parse files [p] = .ok res)
    (hd : ((dbRecords parse p files).map (·.1)).Nodup) (k : Str) :
    (get res.1 k).Nodup ∧ (get res.1 k).Sublist ((dbRecords parse p files).map (·.1)) := by
  cases hr : lookupEnzyme p.enzyme with
  | none =>
    obtain ⟨-, hres⟩ := fromParams_one_no_enzyme parse files p hr res h
    subst hres
    simp [get]
  | some r =>
    rw [fromParams_one_get parse files p r hr res h k]
    have hs : (((dbRecords parse p files).filter (fun x => decide (k ∈ keysOf (argsOf r p parse) x.2))).map (·.1)).Sublist
        ((dbRecords parse p files).map (·.1)) := (List.filter_sublist).map _
    exact ⟨hs.nodup hd, hs⟩

/-- "for non-specific searches the lookup returns exactly the proteins whose sequence contains the peptide", for
    the object every pipeline path hands to `get_proteins`: the result of
    `get_peptide_to_protein_map_from_params` over several FASTA files with one non-specific (hash-key) parameter
    set.  With identifiers distinct across the files, the lookup of a peptide whose length lies within the window
    succeeds and returns (sorted, so: a permutation of) the identifiers of exactly the records of the database
    whose sequence contains the peptide as a substring. -/
theorem get_proteins_nonspecific_merged (parse : ParseId) (files : List (List Str)) (p : Params)
    (res : PMap × SeqMap) (h : fromParams parse files [p] = .ok res)
    (hmode : modeOf p.digestion = .none) (hhash : p.useHash = true)
    (hd : ((dbRecords parse p files).map (·.1)).Nodup)
    (pep : Str) (hlo : p.minL ≤ pep.length) (hhi : pep.length ≤ p.maxL) :
    ∃ l, getProteins res pep = .ok l ∧
      l.Perm (((dbRecords parse p files).filter (fun r => containsSub pep r.2)).map (·.1)) ∧
      ∀ pid, pid ∈ l ↔ ∃ seq, (pid, seq) ∈ dbRecords parse p files ∧ ∃ pre suf, seq = pre ++ pep ++ suf := by
  cases hr : lookupEnzyme p.enzyme with
  | none =>
    obtain ⟨hf, hres⟩ := fromParams_one_no_enzyme parse files p hr res h
    subst hf hres
    exact ⟨[], by simp [getProteins, get], by simp [dbRecords], by simp [dbRecords]⟩
  | some r =>
    have hget := fromParams_one_get parse files p r hr res h (pep.take 6)
    have hjobs := jobs_one files p
    have hseq : res.2 = dbRecords parse p files := by
      unfold fromParams at h
      rw [hjobs] at h
      have := fromParamsGo_seqs_eq parse p r hr hhash files [] [] res h (by simpa using hd)
      simpa using this
    have hget2 := fromParams_one_get parse files p r hr res h pep
    generalize dbRecords parse p files = recs at hget hget2 hseq hd
    have hkey : ∀ x : Str × Str, containsSub pep x.2 = true → pep.take 6 ∈ keysOf (argsOf r p parse) x.2 := by
      intro x hx
      obtain ⟨pre, suf, hseq'⟩ := (containsSub_iff pep x.2).mp hx
      have hk : keysOf (argsOf r p parse) x.2 = (nonSpecific x.2 p.minL p.maxL).map (hashKey true) := by
        simp [keysOf, digestPeptides, argsOf, hmode, hhash]
      rw [hk, List.mem_map]
      refine ⟨pep, ?_, by simp [hashKey]⟩
      rw [mem_nonSpecific]
      refine ⟨pre.length, pre.length + pep.length, by omega, by omega, ?_, ?_⟩
      · rw [hseq']; simp
      · rw [hseq']; exact (slice_of_append pre pep suf).symm
    have hfilter : ((recs.filter (fun x => decide (pep.take 6 ∈ keysOf (argsOf r p parse) x.2))).filter (fun x => containsSub pep x.2)) =
        recs.filter (fun x => containsSub pep x.2) := by
      rw [List.filter_filter]
      apply List.filter_congr
      intro x _
      cases hc : containsSub pep x.2
      · simp
      · simp [hkey x hc]
    have hconf : confirm res.2 pep (get res.1 (pep.take 6)) =
        .ok ((recs.filter (fun x => containsSub pep x.2)).map (·.1)) := by
      rw [hget, hseq]
      rw [confirm_spec recs pep _ (fun x hx => lookupSeq_of_mem recs hd x (List.mem_filter.mp hx).1), hfilter]
    have hmemchar : ∀ pid, pid ∈ (recs.filter (fun x => containsSub pep x.2)).map (·.1) ↔
        ∃ seq, (pid, seq) ∈ recs ∧ ∃ pre suf, seq = pre ++ pep ++ suf := by
      intro pid
      simp only [List.mem_map, List.mem_filter]
      constructor
      · rintro ⟨x, ⟨hx, hc⟩, rfl⟩
        exact ⟨x.2, hx, (containsSub_iff pep x.2).mp hc⟩
      · rintro ⟨seq, hx, hc⟩
        exact ⟨(pid, seq), ⟨hx, (containsSub_iff pep seq).mpr hc⟩, rfl⟩
    cases hrecs : recs with
    | nil =>
      subst hrecs
      have h1 : get res.1 pep = [] := by simpa using hget2
      refine ⟨[], ?_, by simp, by simp⟩
      simp [getProteins, hseq, h1]
    | cons r0 rest =>
      refine ⟨sortStrs ((recs.filter (fun x => containsSub pep x.2)).map (·.1)), ?_, ?_, ?_⟩
      · unfold getProteins
        cases h2 : res.2 with
        | nil => rw [hseq, hrecs] at h2; cases h2
        | cons x xs =>
          simp only
          rw [← h2, hconf]
      · rw [← hrecs]; exact sortStrs_perm _
      · intro pid
        rw [(sortStrs_perm _).mem_iff, hmemchar, hrecs]

/-! Non-vacuity for the several-file theorems: two FASTA files (`>P2 AAKC`, `>P1 KCA`), one non-specific parameter
set with window 2–4 (hash keys, mode `none`): the database is the two records in file order with distinct
identifiers, the merged object is a (map, sequences) pair, the entry of the hash key `KC` is in database order, and
the lookup of `KC` returns both proteins, sorted; `AAK` is found in `P2` only. -/

private def exNsParams : Params := mkParams "trypsin" "none" 2 4 0 "KR" true
private def exNsFiles : List (List Str) := [[">P2 second".toList, "AAKC".toList], [">P1".toList, "KCA".toList]]

example : modeOf exNsParams.digestion = .none ∧ exNsParams.useHash = true ∧
    dbRecords .firstSpace exNsParams exNsFiles = [("P2".toList, "AAKC".toList), ("P1".toList, "KCA".toList)] ∧
    ((dbRecords .firstSpace exNsParams exNsFiles).map (·.1)).Nodup := by decide

example : (fromParams .firstSpace exNsFiles [exNsParams]).toOption.map (fun res => get res.1 "KC".toList) =
    some ["P2".toList, "P1".toList] := by decide
example : (fromParams .firstSpace exNsFiles [exNsParams]).toOption.map (·.2) =
    some [("P2".toList, "AAKC".toList), ("P1".toList, "KCA".toList)] := by decide
example : (fromParams .firstSpace exNsFiles [exNsParams]).toOption.map
      (fun res => (getProteins res "KC".toList).toOption) = some (some ["P1".toList, "P2".toList]) := by decide
example : (fromParams .firstSpace exNsFiles [exNsParams]).toOption.map
      (fun res => (getProteins res "AAK".toList).toOption) = some (some ["P2".toList]) := by decide

/-! ## the list of maps, one per digestion parameter set -/

/-- the list `get_peptide_to_protein_maps` builds from FASTA files is the POINTWISE image of the list of
    digestion parameter sets: it succeeds with `ms` iff `ms` has the length of `ps` and every element is the map
    `mapOf` builds for the parameter set at the same position (all of its fields, nothing else) -/
theorem maps_ok_iff (parse : ParseId) (files : List (List Str)) (groups : Option (List (List Str)))
    (ps : List Params) (ms : List (PMap × SeqMap)) :
    pepMaps parse files groups ps = .ok ms ↔
      Pointwise (fun p m => mapOf parse files groups p = .ok m) ps ms :=
  pepMaps_ok_iff parse files groups ps ms

/-- index form: length preserved, the `i`-th map is the map of the `i`-th parameter set -/
theorem maps_pointwise (parse : ParseId) (files : List (List Str)) (groups : Option (List (List Str)))
    (ps : List Params) (ms : List (PMap × SeqMap)) (h : pepMaps parse files groups ps = .ok ms) :
    ms.length = ps.length ∧
      ∀ (i : Nat) (p : Params), ps[i]? = some p → ∃ m, ms[i]? = some m ∧ mapOf parse files groups p = .ok m := by
  have hp := (pepMaps_ok_iff parse files groups ps ms).mp h
  exact ⟨(pointwise_length hp).symm, pointwise_get hp⟩

/-- without a protein-groups file (and with one that names no entrapment protein) the element for a parameter
    set IS the single-parameter-set map `get_peptide_to_protein_map_from_params(fasta, [p])` all the theorems
    above speak about -/
theorem map_of_no_entrapment (parse : ParseId) (files : List (List Str)) (p : Params) :
    mapOf parse files none p = fromParams parse files [p] ∧
    ∀ g, entrapmentProteins g = [] → mapOf parse files (some g) p = fromParams parse files [p] := by
  constructor
  · unfold mapOf
    cases fromParams parse files [p] <;> rfl
  · intro g hg
    unfold mapOf
    cases fromParams parse files [p] with
    | error e => rfl
    | ok res => simp [markResult, hg]

/-- the map of a parameter set does not depend on the other parameter sets of the list, on its position or on
    the order: equal parameter sets — in one list or in two different lists — get equal maps -/
theorem maps_independent (parse : ParseId) (files : List (List Str)) (groups : Option (List (List Str)))
    (ps ps' : List Params) (ms ms' : List (PMap × SeqMap))
    (h : pepMaps parse files groups ps = .ok ms) (h' : pepMaps parse files groups ps' = .ok ms')
    (i j : Nat) (p : Params) (hi : ps[i]? = some p) (hj : ps'[j]? = some p) : ms[i]? = ms'[j]? := by
  obtain ⟨m, hm, hmo⟩ := (maps_pointwise parse files groups ps ms h).2 i p hi
  obtain ⟨m', hm', hmo'⟩ := (maps_pointwise parse files groups ps' ms' h').2 j p hj
  rw [hm, hm']
  rw [hmo] at hmo'
  cases hmo'
  rfl

/-- "maps of equal parameter sets are equal" -/
theorem maps_equal_params (parse : ParseId) (files : List (List Str)) (groups : Option (List (List Str)))
    (ps : List Params) (ms : List (PMap × SeqMap)) (h : pepMaps parse files groups ps = .ok ms)
    (i j : Nat) (p : Params) (hi : ps[i]? = some p) (hj : ps[j]? = some p) : ms[i]? = ms[j]? :=
  maps_independent parse files groups ps ps ms ms h h i j p hi hj

/-- building the list commutes with permutations of the parameter sets: the (parameter set, map) pairs are
    permuted in the same way -/
theorem maps_perm (parse : ParseId) (files : List (List Str)) (groups : Option (List (List Str)))
    (ps ps' : List Params) (hp : ps.Perm ps') (ms : List (PMap × SeqMap))
    (h : pepMaps parse files groups ps = .ok ms) :
    ∃ ms', pepMaps parse files groups ps' = .ok ms' ∧ (ps.zip ms).Perm (ps'.zip ms') :=
  pepMaps_perm parse files groups hp ms h

/-- the list builder fails exactly with the error of the FIRST parameter set whose map cannot be built -/
theorem maps_first_error (parse : ParseId) (files : List (List Str)) (groups : Option (List (List Str)))
    (ps : List Params) (e : Err) :
    pepMaps parse files groups ps = .error e ↔
      ∃ pre p post, ps = pre ++ p :: post ∧ (∀ q ∈ pre, ∃ m, mapOf parse files groups q = .ok m) ∧
        mapOf parse files groups p = .error e :=
  pepMaps_error_iff parse files groups e ps

/-- "the peptide-to-protein map lists for each peptide exactly the … proteins … whose digestion yields that
    peptide … in database order … every digestion parameter set": every element of the list (no entrapment
    renaming) is exact for ITS parameter set — enzyme rule, window, mode, budget, Met removal, hash keys
    (`argsOf r p parse`) and database mode + special residues (`dbRecords parse p files`) are those of `ps[i]` -/
theorem maps_entry_exact (parse : ParseId) (files : List (List Str)) (ps : List Params) (ms : List (PMap × SeqMap))
    (h : pepMaps parse files none ps = .ok ms) (i : Nat) (p : Params) (hi : ps[i]? = some p)
    (r : EnzymeRule) (hr : lookupEnzyme p.enzyme = some r) :
    ∃ m, ms[i]? = some m ∧ ∀ k, get m.1 k =
      ((dbRecords parse p files).filter (fun x => decide (k ∈ keysOf (argsOf r p parse) x.2))).map (·.1) := by
  obtain ⟨m, hm, hmo⟩ := (maps_pointwise parse files none ps ms h).2 i p hi
  rw [(map_of_no_entrapment parse files p).1] at hmo
  exact ⟨m, hm, fun k => map_exact_files parse files p r hr m hmo k⟩

/-- "… each once and in database order", for every element of the list -/
theorem maps_entry_nodup_db_order (parse : ParseId) (files : List (List Str)) (ps : List Params)
    (ms : List (PMap × SeqMap)) (h : pepMaps parse files none ps = .ok ms) (i : Nat) (p : Params)
    (hi : ps[i]? = some p) (hd : ((dbRecords parse p files).map (·.1)).Nodup) :
    ∃ m, ms[i]? = some m ∧ ∀ k,
      (get m.1 k).Nodup ∧ (get m.1 k).Sublist ((dbRecords parse p files).map (·.1)) := by
  obtain ⟨m, hm, hmo⟩ := (maps_pointwise parse files none ps ms h).2 i p hi
  rw [(map_of_no_entrapment parse files p).1] at hmo
  exact ⟨m, hm, fun k => map_nodup_db_order_files parse files p m hmo hd k⟩

/-- "target proteins and generated decoy proteins": under every database mode and special-residue setting the
    database is what `yieldRecords` (see `decoy_def`) makes of the TARGET records of the files, record by record;
    the target records themselves do not depend on either setting -/
theorem db_records_split (parse : ParseId) (p : Params) (files : List (List Str)) :
    dbRecords parse p files =
      (targetRecords parse files).flatMap (fun x => yieldRecords p.db p.special x.1 x.2) :=
  dbRecords_split parse p files

/-- the special-residue setting only influences the DECOY part of a map: in a target+decoy database the entry of
    `k` under special residues `s` is, target record by target record, the target identifier iff the digest of the
    target sequence yields `k` — a condition in which `s` does not occur — followed by the prefixed identifier iff
    the digest of `decoySeq s sequence` yields `k` -/
theorem special_only_decoys (parse : ParseId) (files : List (List Str)) (p : Params) (r : EnzymeRule)
    (hr : lookupEnzyme p.enzyme = some r) (hdb : p.db = .concat) (s : List Char) (res : PMap × SeqMap)
    (h : fromParams parse files [{ p with special := s }] = .ok res) (k : Str) :
    get res.1 k = (targetRecords parse files).flatMap (fun x =>
      (if k ∈ keysOf (argsOf r p parse) x.2 then [x.1] else []) ++
      (if k ∈ keysOf (argsOf r p parse) (decoySeq s x.2) then ["REV__".toList ++ x.1] else [])) := by
  rw [map_exact_files parse files { p with special := s } r hr res h k, dbRecords_split]
  simp only [keysOf_argsOf_special]
  simp only [hdb]
  generalize targetRecords parse files = recs
  induction recs with
  | nil => rfl
  | cons x recs ih =>
    simp only [List.flatMap_cons, List.filter_append, List.map_append, ih]
    congr 1
    simp only [yieldRecords, decoyPrefix]
    by_cases h1 : k ∈ keysOf (argsOf r p parse) x.2 <;>
      by_cases h2 : k ∈ keysOf (argsOf r p parse) (decoySeq s x.2) <;> simp [List.filter, h1, h2]

/-- with a target-only database (`--fasta_contains_decoys`) the special-residue setting has no influence at all -/
theorem target_db_ignores_special (parse : ParseId) (files : List (List Str)) (groups : Option (List (List Str)))
    (p : Params) (hdb : p.db = .target) (s : List Char) :
    fromParams parse files [{ p with special := s }] = fromParams parse files [p] ∧
    mapOf parse files groups { p with special := s } = mapOf parse files groups p := by
  have h := fromParams_target_special parse files p hdb s
  exact ⟨h, by unfold mapOf; rw [h]⟩

/-- `get_digestion_params_list`, success: when every option list has length one or `n` (`n` itself being the length
    of one of the seven lists — the flag counts as a list of length one), there are `n` parameter sets and the
    `i`-th is `DigestionParams(…)` of the `i`-th value of every list, a single value standing for all positions
    ("--enzyme trypsin lys-c --special-aas KR": both sets use KR) -/
theorem args_broadcast (a : ArgLists) (n : Nat) (hn : n ∈ argLengths a)
    (hall : ∀ l ∈ argLengths a, l = 1 ∨ l = n) :
    ∃ ps, digestionParamsList a = .ok ps ∧ ps.length = n ∧
      ∀ i, i < n → ps[i]? =
        (do let e ← pick a.enzyme i; let d ← pick a.digestion i; let mn ← pick a.minL i; let mx ← pick a.maxL i
            let c ← pick a.mc i; let s ← pick a.special i
            pure (mkParams e d mn mx c s a.containsDecoys)) := by
  have hlens : ∀ x ∈ (argLengths a).filter (fun n => n != 1), x = n := by
    intro x hx
    obtain ⟨hx1, hx2⟩ := List.mem_filter.mp hx
    rcases hall x hx1 with h | h
    · simp [h] at hx2
    · exact h
  have hsame := allSame_of_all_eq n _ hlens
  have hn' : maxParams ((argLengths a).filter (fun n => n != 1)) = n := by
    cases hl : (argLengths a).filter (fun n => n != 1) with
    | nil =>
      simp only [maxParams]
      by_cases h1 : n = 1
      · exact h1.symm
      · have : n ∈ (argLengths a).filter (fun n => n != 1) := List.mem_filter.mpr ⟨hn, by simp [h1]⟩
        rw [hl] at this
        cases this
    | cons x xs =>
      simp only [maxParams]
      rw [← hl]
      exact foldl_max_of_all_eq n _ 0 (Nat.zero_le _) (by rw [hl]; simp) hlens
  have h1 := hall a.enzyme.length (by simp [argLengths])
  have h2 := hall a.digestion.length (by simp [argLengths])
  have h3 := hall a.minL.length (by simp [argLengths])
  have h4 := hall a.maxL.length (by simp [argLengths])
  have h5 := hall a.mc.length (by simp [argLengths])
  have h6 := hall a.special.length (by simp [argLengths])
  have hlen : ∀ {α : Type} (l : List α), (l.length = 1 ∨ l.length = n) → (bcast n l).length = n := by
    intro α l h
    by_cases hl : l.length = 1
    · exact bcast_length_one n l hl
    · rw [bcast_of_length_ne_one n l hl]
      exact h.resolve_left hl
  have hdef : digestionParamsList a = .ok (zipParams (bcast n a.enzyme) (bcast n a.digestion) (bcast n a.minL)
      (bcast n a.maxL) (bcast n a.mc) (bcast n a.special) (bcast n [a.containsDecoys])) := by
    simp only [digestionParamsList, hsame, Bool.not_true, Bool.false_eq_true, if_false]
    rw [hn']
  refine ⟨_, hdef, ?_, ?_⟩
  · exact zipParams_length _ _ _ _ _ _ _ n (hlen _ h1) (hlen _ h2) (hlen _ h3) (hlen _ h4) (hlen _ h5) (hlen _ h6)
      (by simp [bcast])
  · intro i hi
    rw [zipParams_get, bcast_get n _ i hi h1, bcast_get n _ i hi h2, bcast_get n _ i hi h3,
      bcast_get n _ i hi h4, bcast_get n _ i hi h5, bcast_get n _ i hi h6]
    have : (bcast n [a.containsDecoys])[i]? = some a.containsDecoys := by simp [bcast, hi]
    rw [this]
    cases pick a.enzyme i <;> cases pick a.digestion i <;> cases pick a.minL i <;> cases pick a.maxL i <;>
      cases pick a.mc i <;> cases pick a.special i <;> rfl

/-- `get_digestion_params_list`, failure: the only error is "Received digestion parameters of unequal length", raised
    exactly when two of the lists have different lengths, both different from one -/
theorem args_unequal_lengths (a : ArgLists) (e : MapsErr) :
    digestionParamsList a = .error e ↔
      e = .unequalLengths ∧ ∃ l1 ∈ argLengths a, ∃ l2 ∈ argLengths a, l1 ≠ 1 ∧ l2 ≠ 1 ∧ l1 ≠ l2 := by
  unfold digestionParamsList
  simp only
  cases hs : allSame ((argLengths a).filter (fun n => n != 1)) with
  | true =>
    simp only [Bool.not_true, Bool.false_eq_true, if_false]
    constructor
    · intro h; cases h
    · rintro ⟨_, l1, h1, l2, h2, n1, n2, hne⟩
      have : allSame ((argLengths a).filter (fun n => n != 1)) = false :=
        (allSame_false_iff _).mpr ⟨l1, List.mem_filter.mpr ⟨h1, by simp [n1]⟩, l2,
          List.mem_filter.mpr ⟨h2, by simp [n2]⟩, hne⟩
      rw [hs] at this; cases this
  | false =>
    simp only [Bool.not_false, if_true, Except.error.injEq]
    obtain ⟨x, hx, y, hy, hxy⟩ := (allSame_false_iff _).mp hs
    obtain ⟨hx1, hx2⟩ := List.mem_filter.mp hx
    obtain ⟨hy1, hy2⟩ := List.mem_filter.mp hy
    constructor
    · intro h
      exact ⟨h.symm, x, hx1, y, hy1, by simpa using hx2, by simpa using hy2, hxy⟩
    · rintro ⟨h, _⟩
      exact h.symm

/-- `get_peptide_to_protein_maps`: with FASTA files the list is the per-parameter-set list whatever map files are
    named; without FASTA files one map per `--peptide_protein_map` file, each what `readMap` reads (`map_file_roundtrip`:
    the written map), whatever the digestion parameters, the identifier rule and the protein-groups file; with
    neither the tool refuses -/
theorem maps_top_branches (parse : ParseId) (fasta : List (List Str)) (mapFiles : List Str)
    (groups : Option (List (List Str))) (ps : List Params) :
    (fasta ≠ [] → pepMapsTop parse fasta mapFiles groups ps = liftErr (pepMaps parse fasta groups ps)) ∧
    (fasta = [] → mapFiles ≠ [] → pepMapsTop parse fasta mapFiles groups ps = liftErr (readMaps mapFiles) ∧
      ∀ ms, readMaps mapFiles = .ok ms →
        ms.length = mapFiles.length ∧
        ∀ (i : Nat) (t : Str), mapFiles[i]? = some t → ∃ pm, readMap t = .ok pm ∧ ms[i]? = some (pm, [])) ∧
    (fasta = [] → mapFiles = [] → pepMapsTop parse fasta mapFiles groups ps = .error .noInput) := by
  refine ⟨?_, ?_, ?_⟩
  · intro h
    cases fasta with
    | nil => exact absurd rfl h
    | cons _ _ => simp [pepMapsTop]
  · intro h1 h2
    subst h1
    cases mapFiles with
    | nil => exact absurd rfl h2
    | cons t ts =>
      refine ⟨by simp [pepMapsTop], ?_⟩
      intro ms hms
      have hp := (readMaps_ok_iff _ _).mp hms
      refine ⟨(pointwise_length hp).symm, ?_⟩
      intro i t' ht
      obtain ⟨m, hm, pm, hpm, rfl⟩ := pointwise_get hp i t' ht
      exact ⟨pm, hpm, hm⟩
  · intro h1 h2
    subst h1 h2
    simp [pepMapsTop]

/-- "identifiers parsed by the chosen rule": `--gene_level` (unless pseudo genes are in use) chooses the gene rule,
    otherwise `--fasta_use_uniprot_id` the accession rule, otherwise the text before the first space -/
theorem select_parse_spec (geneLevel usePseudo useUniprot : Bool) :
    (selectParse geneLevel usePseudo useUniprot = .gene ↔ (geneLevel = true ∧ usePseudo = false)) ∧
    (selectParse geneLevel usePseudo useUniprot = .uniprot ↔
      (¬ (geneLevel = true ∧ usePseudo = false) ∧ useUniprot = true)) ∧
    (selectParse geneLevel usePseudo useUniprot = .firstSpace ↔
      (¬ (geneLevel = true ∧ usePseudo = false) ∧ useUniprot = false)) := by
  cases geneLevel <;> cases usePseudo <;> cases useUniprot <;> simp [selectParse]

/-- `get_peptide_to_protein_maps_from_args` is the composition: parameter sets from the option lists, identifier
    rule from the flags, then the list builder (so for FASTA input and lists as in `args_broadcast` the `i`-th map
    is the single-parameter-set map of `DigestionParams` of the `i`-th values, by `maps_pointwise`) -/
theorem maps_from_args_spec (a : ArgLists) (geneLevel usePseudo useUniprot : Bool) (fasta : List (List Str))
    (mapFiles : List Str) (groups : Option (List (List Str))) (ps : List Params)
    (hps : digestionParamsList a = .ok ps) :
    pepMapsFromArgs a geneLevel usePseudo useUniprot fasta mapFiles groups =
      pepMapsTop (selectParse geneLevel usePseudo useUniprot) fasta mapFiles groups ps := by
  simp [pepMapsFromArgs, hps]

/-! Non-vacuity for the list of maps: one FASTA record `>P1 / ACKDEK`, target+decoy database, window 2–6, no missed
cleavages.  `--enzyme trypsin --special-aas KR none KR` gives three parameter sets; the decoy is `KEKDCA` with
special residues KR (reversed `KEDKCA`, every K swapped with its predecessor) and `KEDKCA` without, so the first and
the third map list `REV__P1` for `EK`, the second for `EDK`; the target entries (`ACK`, `DEK`) are the same in all
three.  Two lists of different lengths (2 and 3) are refused. -/

private def exArgs3 : ArgLists :=
  { enzyme := ["trypsin"], digestion := ["full"], minL := [2], maxL := [6], mc := [0],
    special := ["KR", "none", "KR"], containsDecoys := false }

private def exFasta1 : List (List Str) := [[">P1".toList, "ACKDEK".toList]]

example : 3 ∈ argLengths exArgs3 ∧ ∀ l ∈ argLengths exArgs3, l = 1 ∨ l = 3 := by decide

example : (digestionParamsList exArgs3).toOption =
    some [mkParams "trypsin" "full" 2 6 0 "KR" false, mkParams "trypsin" "full" 2 6 0 "none" false,
          mkParams "trypsin" "full" 2 6 0 "KR" false] := by decide

example : ((pepMapsFromArgs exArgs3 false false false exFasta1 [] none).toOption.map
      (fun ms => ms.map (fun m => (get m.1 "EK".toList, get m.1 "EDK".toList, get m.1 "ACK".toList)))) =
    some [(["REV__P1".toList], [], ["P1".toList]), ([], ["REV__P1".toList], ["P1".toList]),
          (["REV__P1".toList], [], ["P1".toList])] := by decide

example : (match digestionParamsList { exArgs3 with enzyme := ["trypsin", "lys-c"] } with
    | .error e => some e
    | .ok _ => none) = some .unequalLengths := by decide

example : [mkParams "trypsin" "full" 2 6 0 "KR" false, mkParams "lys-c" "full" 2 6 0 "KR" false].Perm
    [mkParams "lys-c" "full" 2 6 0 "KR" false, mkParams "trypsin" "full" 2 6 0 "KR" false] := List.Perm.swap _ _ _

example : (pepMapsTop .firstSpace [] ["EK\tREV__P1\r\nACK\tP1;P2\r\n".toList] none []).toOption.map
      (fun ms => ms.map (·.1)) =
    some [[("EK".toList, ["REV__P1".toList]), ("ACK".toList, ["P1".toList, "P2".toList])]] := by decide

example : (mapOf .firstSpace exFasta1 (some [["P1_entrapment".toList, "P7".toList]])
      (mkParams "trypsin" "full" 2 6 0 "KR" true)).toOption.map (fun m => get m.1 "ACK".toList) =
    some ["P1_entrapment".toList] := by decide

end PgFdr.C09
