import PgFdr.Proofs.C10
import PgFdr.Proofs.C10Rescue
import PgFdr.Proofs.C10Hash
import PgFdr.Proofs.C10Glue
import Mathlib.Algebra.Order.Field.Power

/-!
# C10 — evidence ingestion keeps the best PSM per peptide; targets and decoys never mix

Property text (properties.jsonl): "From any supported result file(s) the tool derives, for every
peptide sequence with modifications and flanks stripped, the lowest PEP over all of its PSMs in all
files (rows without a PEP ignored; FragPipe PEP = 1 - probability, Sage PEP = 10^posterior_error,
DIA-NN decoy rows get the decoy prefix) together with that PSM's proteins - taken from the in-silico
digest when the method remaps and from the file otherwise. A protein list containing a target loses
its decoy entries and peptides unknown to the digest are skipped, so every reported group consists
only of targets or only of decoys."

Only property theorems live here.  The executable model is `PgFdr/Model/C10.lean`
(`ingestFiles = ingestPairs ∘ pairUp`, run by the driver op `ingest`), helper lemmas are in
`PgFdr/Proofs/C10.lean`; the model is tied to `parsers.evidence.parse_evidence_files` by the
correspondence of `harness/props/C10.py`.  All theorems hold for every pair of numeric transforms
`T` (the driver runs `exactT`), every format, razor and non-razor methods alike (`Mode.razor`: the
MaxQuant parser of a razor method reads `Leading razor protein`, `razor_reads_razor_column`) and every
pairing of digest maps with files.  The driver runs `ingestFilesChecked`, which answers
`badScoreCell` exactly where the parser raises on a PEP cell (`bad_score_cell_rejected`,
`file_raises_iff`) and is `ingestPairs` otherwise — the function every other theorem is about.

Non-specific searches (`--enzyme no_enzyme` / `--digestion none`): the digest handed to the mapper is then the
pair (6-residue prefix → proteins, protein → sequence) and `digest.get_proteins` confirms every candidate by a
substring test.  The last section (`digest_dicts_agree` … `non_specific_ingestion`) is about ingestion over
digests of either kind (`Digest`, `ingestFilesCheckedD` — what the driver runs as soon as one map is such a
pair): it IS ingestion over the dicts the digests amount to, so all theorems above apply; the lookup on the
pair the tool builds (`C09.fromParams`) returns exactly the database records containing the peptide.
-/
namespace PgFdr.C10

/-- what the driver executes is the fold over the PSM stream of the paired files -/
theorem ingestFiles_eq (T : Transforms) (mode : Mode) (maps : List DMap) (files : List (List RawRow)) :
    ingestFiles T mode maps files = parse (allPsms T mode (pairUp mode.remap maps files)) := rfl

/-- "… that PSM's proteins - taken from the in-silico digest when the method remaps and from the
    file otherwise. A protein list containing a target loses its decoy entries and peptides unknown
    to the digest are skipped": the PSM stream consists exactly of the rows whose source list (digest
    proteins of the stripped peptide when remapping, proteins of the file — `rowProteinsOf`: for the
    MaxQuant input of a razor method the cell `Leading razor protein` — otherwise) is known and
    keeps at least one protein after the decoy purge; each such row yields its format's peptide
    spelling, its transformed score and the purged source list. -/
theorem psm_of_row (T : Transforms) (mode : Mode) (pairs : List (DMap × List RawRow)) (x : Psm) :
    x ∈ allPsms T mode pairs ↔
      ∃ p ∈ pairs, ∃ r ∈ p.2,
        (mode.remap = true →
          digestLookup p.1 (removeMods (rowPeptide mode.format (flankOf mode.format p.2) r)) ≠ []) ∧
        removeDecoyProteinsFromTargetPeptides
          (sourceProteins mode.remap p.1 (rowPeptide mode.format (flankOf mode.format p.2) r)
            (rowProteinsOf mode r)) ≠ [] ∧
        x = { modPep := rowPeptide mode.format (flankOf mode.format p.2) r,
              score := rowScore T mode.format r,
              prots := removeDecoyProteinsFromTargetPeptides
                (sourceProteins mode.remap p.1 (rowPeptide mode.format (flankOf mode.format p.2) r)
                  (rowProteinsOf mode r)) } := by
  constructor
  · intro h
    obtain ⟨p, hp, r, hr, hx⟩ := mem_allPsms h
    obtain ⟨h1, h2, h3, h4, h5⟩ := rowPsm_some hx
    refine ⟨p, hp, r, hr, ?_, ?_, ?_⟩
    · intro hm; have := h5 hm; simpa [Psm.key, h1] using this
    · rw [← h3]; exact h4
    · cases x; simp only at h1 h2 h3; subst h1 h2 h3; rfl
  · rintro ⟨p, hp, r, hr, hk, hne, rfl⟩
    unfold allPsms
    rw [List.mem_flatMap]
    refine ⟨p, hp, ?_⟩
    unfold filePsms
    rw [List.mem_filterMap]
    refine ⟨r, hr, ?_⟩
    unfold rowPsm mapProteins
    have hc : ¬ (mode.remap = true ∧
        (sourceProteins mode.remap p.1 (rowPeptide mode.format (flankOf mode.format p.2) r)
          (rowProteinsOf mode r)).isEmpty = true) := by
      rintro ⟨hm, he⟩
      apply hk hm
      simpa [sourceProteins, hm, List.isEmpty_iff] using he
    rw [if_neg hc]
    have he : ¬ (removeDecoyProteinsFromTargetPeptides
        (sourceProteins mode.remap p.1 (rowPeptide mode.format (flankOf mode.format p.2) r)
          (rowProteinsOf mode r))).isEmpty = true := by
      simpa [List.isEmpty_iff] using hne
    simp only [he]
    rfl

/-- "for every peptide sequence with modifications and flanks stripped, the lowest PEP over all of
    its PSMs in all files (rows without a PEP ignored …) together with that PSM's proteins":
    a stripped peptide `q` is absent iff none of its PSMs carries a PEP; otherwise its entry holds
    the score and the proteins of one PSM `x` of `q`, every earlier PSM of `q` scores strictly
    higher and every later one at least as high — i.e. the minimum, and the proteins of the *first*
    PSM attaining it. -/
theorem best_psm (T : Transforms) (mode : Mode) (pairs : List (DMap × List RawRow)) (q : String) :
    match get (ingestPairs T mode pairs) q with
    | none => ∀ x ∈ allPsms T mode pairs, x.key = q → x.score = none
    | some e =>
      e.peptide = q ∧ ∃ pre x post, allPsms T mode pairs = pre ++ x :: post ∧ x.key = q ∧
        x.score = some e.pep ∧ x.prots = e.proteins ∧
        (∀ y ∈ pre, y.key = q → ∀ s, y.score = some s → e.pep < s) ∧
        (∀ y ∈ post, y.key = q → ∀ s, y.score = some s → e.pep ≤ s) := by
  unfold ingestPairs
  rw [get_parse]
  exact fold_spec q (allPsms T mode pairs)

/-- the stored score is the minimum of the scores of the peptide's PSMs that carry a PEP -/
theorem best_psm_score (T : Transforms) (mode : Mode) (pairs : List (DMap × List RawRow)) (q : String) :
    match get (ingestPairs T mode pairs) q with
    | none => scoresOf q (allPsms T mode pairs) = []
    | some e => e.pep ∈ scoresOf q (allPsms T mode pairs) ∧
        ∀ s ∈ scoresOf q (allPsms T mode pairs), e.pep ≤ s := by
  have h := best_psm T mode pairs q
  cases hg : get (ingestPairs T mode pairs) q with
  | none => rw [hg] at h; exact noScore_scoresOf h
  | some e => rw [hg] at h; exact firstBest_min h

/-- the result is a dict: one entry per peptide, every entry is what `get` returns for its key -/
theorem result_keys_unique (T : Transforms) (mode : Mode) (pairs : List (DMap × List RawRow)) :
    ((ingestPairs T mode pairs).map (·.peptide)).Nodup ∧
    ∀ e ∈ ingestPairs T mode pairs, get (ingestPairs T mode pairs) e.peptide = some e :=
  ⟨keys_nodup_parse _, fun _ he => get_of_mem_nodup (keys_nodup_parse _) he⟩

/-- dict order of the result (what the next stage iterates over): the stripped peptides in the order
    of their first PSM that carries a PEP -/
theorem result_order (T : Transforms) (mode : Mode) (pairs : List (DMap × List RawRow)) :
    (ingestPairs T mode pairs).map (·.peptide) =
      dedupFirst (((allPsms T mode pairs).filter (fun x => x.score.isSome)).map Psm.key) :=
  keys_parse _

/-- "rows without a PEP ignored": (1) PSMs without a usable PEP can be dropped from the stream without
    changing anything; (2) a row has no usable PEP iff its cell is NaN (the literal `nan`; MaxQuant's and
    pandas' reading of the empty cell) or — for the formats that do not raise on it, see
    `bad_score_cell_rejected` — a PEP of +inf; (3) the empty cell of a MaxQuant or DIA-NN file is such a row
    and is never an error.  (For Percolator, FragPipe and Sage an empty cell is NOT ignored: the parser
    raises, `file_raises_iff`.) -/
theorem rows_without_pep_ignored (T : Transforms) (xs : List Psm) :
    parse (xs.filter (fun x => x.score.isSome)) = parse xs ∧
    (∀ fmt r, rowScore T fmt r = none ↔ ∀ x, transform T fmt (cellVal r) ≠ .fin x) ∧
    (∀ fmt r, r.cell = .value → r.score = none → rowScore T fmt r = none ∧ floatRaises fmt r.cell = false) ∧
    (∀ fmt r, fmt = .maxquant ∨ fmt = .diann → r.cell = .empty →
      rowScore T fmt r = none ∧ floatRaises fmt r.cell = false) := by
  refine ⟨foldl_ingest_filter xs [], ?_, ?_, ?_⟩
  · intro fmt r
    unfold rowScore
    cases transform T fmt (cellVal r) <;> simp [Val.pep]
  · intro fmt r hc hs
    refine ⟨?_, by simp [floatRaises, hc]⟩
    cases fmt <;> simp [rowScore, cellVal, hc, hs, transform, Val.pep]
  · intro fmt r hf hc
    rcases hf with rfl | rfl <;> simp [rowScore, cellVal, hc, transform, Val.pep, floatRaises]

/-- the value of every PEP cell: a finite literal goes through the format's transform; `inf` is a PEP of +inf
    — never stored, `np.inf >= d.get(p, [np.inf])[0]` — except under FragPipe's `1 - p`; `-inf` is +inf for
    FragPipe and `10 ** -inf = 0` for Sage -/
theorem score_of_cell (T : Transforms) (r : RawRow) :
    (∀ x, r.cell = .value → r.score = some x →
      rowScore T .fragpipe r = some (T.fragpipe x) ∧ rowScore T .sage r = some (T.sage x) ∧
      ∀ fmt, fmt ≠ .fragpipe → fmt ≠ .sage → rowScore T fmt r = some x) ∧
    (r.cell = .posInf → ∀ fmt, rowScore T fmt r = none) ∧
    (r.cell = .negInf → rowScore T .fragpipe r = none ∧ rowScore T .sage r = some 0) := by
  refine ⟨?_, ?_, ?_⟩
  · intro x hc hs
    refine ⟨by simp [rowScore, cellVal, hc, hs, transform, Val.pep],
      by simp [rowScore, cellVal, hc, hs, transform, Val.pep], ?_⟩
    intro fmt h1 h2
    cases fmt <;> simp_all [rowScore, cellVal, transform, Val.pep]
  · intro hc fmt
    cases fmt <;> simp [rowScore, cellVal, hc, transform, Val.pep]
  · intro hc
    constructor <;> simp [rowScore, cellVal, hc, transform, Val.pep]

/-- A PEP cell the parser cannot convert is an error, not an ignored row: the checked ingestion (what the
    driver runs) answers `badScoreCell` iff reading one of the paired files raises, and whenever it succeeds
    its result is `ingestPairs` (the subject of all other theorems) and no file raises.  What "raises" means
    per format is `file_raises_iff`. -/
theorem bad_score_cell_rejected (T : Transforms) (mode : Mode) (pairs : List (DMap × List RawRow)) :
    (ingestChecked T mode pairs = .error .badScoreCell ↔ ∃ p ∈ pairs, fileRaises T mode p.1 p.2 = true) ∧
    (∀ pil, ingestChecked T mode pairs = .ok pil →
      pil = ingestPairs T mode pairs ∧ ∀ p ∈ pairs, fileRaises T mode p.1 p.2 = false) := by
  unfold ingestChecked
  by_cases h1 : pairs.any (fun p => fileRaises T mode p.1 p.2) = true
  · rw [if_pos h1]
    refine ⟨⟨fun _ => by simpa using h1, fun _ => rfl⟩, fun pil h => by cases h⟩
  · rw [if_neg h1]
    have h1' : ∀ p ∈ pairs, fileRaises T mode p.1 p.2 = false := by
      intro p hp
      cases hf : fileRaises T mode p.1 p.2 with
      | false => rfl
      | true => exact absurd (List.any_eq_true.mpr ⟨p, hp, hf⟩) h1
    constructor
    · constructor
      · intro h; split at h <;> cases h
      · rintro ⟨p, hp, hf⟩; rw [h1' p hp] at hf; cases hf
    · intro pil h
      split at h
      · cases h
      · cases h; exact ⟨rfl, h1'⟩

/-- where the parsers raise on a PEP cell.  Percolator, FragPipe, Sage: `float(row[score_col])` is evaluated for
    EVERY row before the mapper is asked, so an empty cell or any text that is no float literal raises.
    MaxQuant: `float(x) if len(x) > 0 else float("nan")` after `if not proteins: continue` — only text that is
    no float literal, and only in a row that yields a PSM; never the empty cell.  DIA-NN (pandas): a text cell
    turns the column into text, `np.isnan` then raises on the first yielded PSM whose cell is not missing. -/
theorem file_raises_iff (T : Transforms) (mode : Mode) (m : DMap) (rows : List RawRow) :
    fileRaises T mode m rows = true ↔
      match mode.format with
      | .maxquant => ∃ r ∈ rows, r.cell = .junk ∧ (rowPsm T mode m false r).isSome = true
      | .diann => (∃ r ∈ rows, r.cell = .junk) ∧
          ∃ r ∈ rows, (rowPsm T mode m false r).isSome = true ∧ isMissing r = false
      | _ => ∃ r ∈ rows, r.cell = .empty ∨ r.cell = .junk := by
  have hfr : ∀ (f : Format) (c : Cell), f ≠ .maxquant → f ≠ .diann →
      (floatRaises f c = true ↔ c = .empty ∨ c = .junk) := by
    intro f c h1 h2
    cases c <;> cases f <;> simp_all [floatRaises]
  have hmq : ∀ c : Cell, floatRaises .maxquant c = true ↔ c = .junk := by
    intro c; cases c <;> simp [floatRaises]
  unfold fileRaises
  cases hf : mode.format <;>
    simp only [List.any_eq_true, rowRaises, hf, Bool.and_eq_true, decide_eq_true_eq, flankOf,
      Bool.not_eq_true', hmq, ne_eq, reduceCtorEq, not_false_eq_true, hfr]

/-- razor methods (`sharedPeptides = "razor"`): during ingestion they differ from the non-razor methods in one
    place — the MaxQuant parser takes the protein cell from the column `Leading razor protein` (`prot[1]`)
    instead of `Leading proteins`; for every other format the flag changes nothing, neither the result nor
    the refusals.  (The razor assignment itself happens after ingestion, property C05.) -/
theorem razor_reads_razor_column (T : Transforms) (mode : Mode) :
    (∀ r, mode.format = .maxquant → mode.razor = true →
      rowProteinsOf mode r = splitOn ";" (r.prot.getD 1 "")) ∧
    (∀ r, mode.razor = false → rowProteinsOf mode r = rowProteins mode.format r) ∧
    (mode.format ≠ .maxquant → ∀ b pairs,
      ingestChecked T { mode with razor := b } pairs = ingestChecked T mode pairs) := by
  refine ⟨?_, ?_, ?_⟩
  · intro r hf hr; simp [rowProteinsOf, hf, hr]
  · intro r hr; simp [rowProteinsOf, hr]
  · intro hf b pairs
    obtain ⟨fmt, remap, razor⟩ := mode
    replace hf : fmt ≠ .maxquant := hf
    have hrow : ∀ m flank r, rowPsm T ⟨fmt, remap, b⟩ m flank r = rowPsm T ⟨fmt, remap, razor⟩ m flank r := by
      intro m flank r
      simp [rowPsm, rowProteinsOf, hf]
    have hfile : ∀ m rows, filePsms T ⟨fmt, remap, b⟩ m rows = filePsms T ⟨fmt, remap, razor⟩ m rows := by
      intro m rows
      simp only [filePsms, hrow]
    have hraise : ∀ m flank, rowRaises T ⟨fmt, remap, b⟩ m flank = rowRaises T ⟨fmt, remap, razor⟩ m flank := by
      intro m flank; funext r; simp only [rowRaises, hrow]
    have hneg : ∀ m flank, rowNegInf T ⟨fmt, remap, b⟩ m flank = rowNegInf T ⟨fmt, remap, razor⟩ m flank := by
      intro m flank; funext r; simp only [rowNegInf, hrow]
    have hfr : ∀ m rows, fileRaises T ⟨fmt, remap, b⟩ m rows = fileRaises T ⟨fmt, remap, razor⟩ m rows := by
      intro m rows
      cases fmt <;> simp only [fileRaises, hrow, hraise]
    simp only [ingestChecked, ingestPairs, allPsms, hfile, hneg, hfr]

/-- order independence on the PSM stream: any permutation of the PSMs gives the same score for
    every peptide -/
theorem best_score_order_independent (xs ys : List Psm) (h : xs.Perm ys) (q : String) :
    (get (parse xs) q).map (·.pep) = (get (parse ys) q).map (·.pep) := parse_score_perm h q

/-- "any row order … several evidence files": any permutation of the files and of the rows inside
    each file gives the same score for every peptide.  For Percolator input the flank rule is
    decided on the first row of a file, so there the statement needs (and the code needs) that the
    rows of a file agree on carrying flanks. -/
theorem ingest_order_independent (T : Transforms) (mode : Mode) (pairs pairs' : List (DMap × List RawRow))
    (h : Shuffled pairs pairs')
    (hflank : isPerc mode.format = true → ∀ p ∈ pairs, ∃ b, ∀ r ∈ p.2, hasFlanks r.pep = b)
    (q : String) :
    (get (ingestPairs T mode pairs) q).map (·.pep) = (get (ingestPairs T mode pairs') q).map (·.pep) := by
  obtain ⟨mid, hperm, hall'⟩ := h
  have hall := rowsShuffled_forall₂ hall'
  clear hall'
  unfold ingestPairs
  apply parse_score_perm
  unfold allPsms
  refine (hperm.flatMap_right _).trans ?_
  apply flatMap_perm_of_forall₂
  have hmid : ∀ a ∈ mid, a ∈ pairs := fun a ha => hperm.symm.subset ha
  clear hperm
  induction hall with
  | nil => exact List.Forall₂.nil
  | @cons a b l l' hab _ ih =>
    refine List.Forall₂.cons ?_ (ih (fun x hx => hmid x (List.mem_cons_of_mem _ hx)))
    obtain ⟨h1, h2⟩ := hab
    show (filePsms T mode a.1 a.2).Perm (filePsms T mode b.1 b.2)
    rw [← h1]
    apply filePsms_perm T mode a.1 h2
    cases hp : isPerc mode.format with
    | false => rw [flankOf_not_perc hp, flankOf_not_perc hp]
    | true =>
      obtain ⟨bf, hb⟩ := hflank hp a (hmid a List.mem_cons_self)
      by_cases hne : a.2 = []
      · have : b.2 = [] := by rw [hne] at h2; exact List.Perm.eq_nil (h2.symm)
        rw [hne, this]
      · have hne' : b.2 ≠ [] := by
          intro hb0; rw [hb0] at h2; exact hne (List.Perm.eq_nil h2)
        rw [flankOf_uniform hp hb hne,
          flankOf_uniform hp (fun r hr => hb r (h2.symm.subset hr)) hne']

/-- "peptides unknown to the digest are skipped": when the method remaps, a stripped peptide that
    no digest map knows never enters the result -/
theorem unknown_peptides_skipped (T : Transforms) (fmt : Format) (pairs : List (DMap × List RawRow))
    (q : String) (h : ∀ p ∈ pairs, digestLookup p.1 q = []) :
    get (ingestPairs T { format := fmt, remap := true } pairs) q = none ∧
    ∀ e ∈ ingestPairs T { format := fmt, remap := true } pairs, e.peptide ≠ q := by
  have hno : ∀ x ∈ allPsms T { format := fmt, remap := true } pairs, x.key ≠ q := by
    intro x hx hk
    obtain ⟨p, hp, r, _, hrow⟩ := mem_allPsms hx
    have := (rowPsm_some hrow).2.2.2.2 rfl
    rw [hk] at this
    exact this (h p hp)
  constructor
  · have hb := best_psm T { format := fmt, remap := true } pairs q
    cases hg : get (ingestPairs T { format := fmt, remap := true } pairs) q with
    | none => rfl
    | some e =>
      rw [hg] at hb
      obtain ⟨_, pre, x, post, hxs, hxk, _⟩ := hb
      exact absurd hxk (hno x (by rw [hxs]; simp))
  · intro e he hq
    obtain ⟨x, hx, hk, _⟩ := mem_parse he
    exact hno x hx (hk.trans hq)

/-- "A protein list containing a target loses its decoy entries": every entry of the result lists
    the proteins of one row's source list — unchanged when that list is all-decoy (`is_decoy`),
    otherwise without its `REV__…` / `rev_…` members — and never an empty list; hence each peptide
    is all-decoy or lists no decoy at all. -/
theorem target_list_loses_decoys (T : Transforms) (mode : Mode) (pairs : List (DMap × List RawRow)) :
    ∀ e ∈ ingestPairs T mode pairs,
      e.proteins ≠ [] ∧
      (∃ p ∈ pairs, ∃ r ∈ p.2, ∃ src,
        src = sourceProteins mode.remap p.1 (rowPeptide mode.format (flankOf mode.format p.2) r)
                (rowProteinsOf mode r) ∧
        e.proteins = if isDecoy src then src else src.filter (fun x => !isDecoyId x)) ∧
      (isDecoy e.proteins = true ∨ ∀ x ∈ e.proteins, isDecoyId x = false) := by
  intro e he
  obtain ⟨x, hx, _, _, hprots⟩ := mem_parse he
  obtain ⟨p, hp, r, hr, hrow⟩ := mem_allPsms hx
  obtain ⟨_, _, h3, h4, _⟩ := rowPsm_some hrow
  rw [hprots] at h3 h4
  refine ⟨h4, ⟨p, hp, r, hr, _, rfl, ?_⟩, ?_⟩
  · rw [h3]; rfl
  · rw [h3]
    unfold removeDecoyProteinsFromTargetPeptides
    split
    · left; assumption
    · right
      intro y hy
      have := (List.mem_filter.mp hy).2
      simpa [isDecoyId] using this

/-- "… so every reported group consists only of targets or only of decoys": if the decoy markers
    occur in the identifiers only as prefixes, every peptide of the ingested list keeps proteins of
    one kind (`REV__…`, `rev_…` or target), so every group whose members are linked by chains of
    shared peptides of that list — which is what subset, rescued and pseudo-gene grouping produce
    (properties C03 / C04: groups merge only along shared peptides) — is a decoy group (`is_decoy`)
    or contains no decoy.  The composition with the executable grouping of `Model/C03.lean` is the
    hypothesis `hconn`. -/
theorem purity (T : Transforms) (mode : Mode) (pairs : List (DMap × List RawRow))
    (groups : List (List String))
    (hids : ∀ e ∈ ingestPairs T mode pairs, ∀ p ∈ e.proteins, MarkerOnlyAsPrefix p)
    (hconn : ∀ g ∈ groups, ∀ a ∈ g, ∀ b ∈ g,
      Relation.ReflTransGen (SharePeptide (ingestPairs T mode pairs)) a b) :
    ∀ g ∈ groups, isDecoy g = true ∨ ∀ p ∈ g, isDecoyId p = false := by
  have hh : ∀ e ∈ ingestPairs T mode pairs, ∀ a ∈ e.proteins, ∀ b ∈ e.proteins, kind a = kind b := by
    intro e he
    obtain ⟨x, hx, _, _, hprots⟩ := mem_parse he
    obtain ⟨p, _, r, _, hrow⟩ := mem_allPsms hx
    have h3 := (rowPsm_some hrow).2.2.1
    rw [hprots] at h3
    have hid := hids e he
    rw [h3] at hid ⊢
    exact removeDecoy_homogeneous _ hid
  intro g hg
  apply group_pure_of_kind
  intro a ha b hb
  exact kind_of_chain hh (hconn g hg a ha b hb)

/-- `purity` instantiated with the executable groupings of property C03 (`Model/C03.lean`, tied to
    `grouping.*.group_proteins` by C03's correspondence): the connectivity hypothesis is discharged by
    C03's theorems (`subset_leader_contains` + `subset_partition`: every member shares a peptide with
    the leading protein; `pseudogene_components`; `nogrouping_singletons`).  Rescued grouping (C04:
    remnants of first-pass groups + groups merged along shared peptides below the cutoff) is covered
    by `purity` through `hconn`, not instantiated here. -/
theorem purity_subset_grouping (T : Transforms) (mode : Mode) (pairs : List (DMap × List RawRow))
    (hids : ∀ e ∈ ingestPairs T mode pairs, ∀ p ∈ e.proteins, MarkerOnlyAsPrefix p) :
    ∀ g ∈ C03.subsetGrouping (ingestPairs T mode pairs),
      isDecoy g = true ∨ ∀ p ∈ g, isDecoyId p = false :=
  purity T mode pairs _ hids (subsetGrouping_conn _ (result_keys_unique T mode pairs).1)

theorem purity_pseudo_gene_grouping (T : Transforms) (mode : Mode) (pairs : List (DMap × List RawRow))
    (hids : ∀ e ∈ ingestPairs T mode pairs, ∀ p ∈ e.proteins, MarkerOnlyAsPrefix p) :
    ∀ g ∈ C03.pseudoGeneGrouping (ingestPairs T mode pairs),
      isDecoy g = true ∨ ∀ p ∈ g, isDecoyId p = false :=
  purity T mode pairs _ hids (pseudoGeneGrouping_conn _ (result_keys_unique T mode pairs).1)

theorem purity_no_grouping (T : Transforms) (mode : Mode) (pairs : List (DMap × List RawRow))
    (hids : ∀ e ∈ ingestPairs T mode pairs, ∀ p ∈ e.proteins, MarkerOnlyAsPrefix p) :
    ∀ g ∈ C03.noGrouping (ingestPairs T mode pairs),
      isDecoy g = true ∨ ∀ p ∈ g, isDecoyId p = false :=
  purity T mode pairs _ hids (noGrouping_conn _)

/-- `purity` for the rescued grouping (property C04, `Model/C04.lean`: `C04.rescueGroups`, the function the
    composed pipeline model calls for the rescue stage).  "… so every reported group consists only of
    targets or only of decoys": every group the rescue stage returns — the groups merged along shared
    peptides of the list filtered by the cutoff, and the remnants of the first-pass groups — is a decoy
    group or contains no decoy, for EVERY cutoff and EVERY recorded min-cut map.
    `hold`: the first-pass groups handed to the stage are groups of the subset grouping of the ingested list
    (what `get_protein_group_results` passes).  No connectivity hypothesis is left: members of a rescued
    group are connected through shared peptides of the filtered list (`C04.merged_only_connected`; the
    peptide nodes of that graph are identified by NAME, `"peptide:" ++ ";".join(leaders)`, and the name
    determines the kind because the markers contain no `;` and occur only as prefixes —
    `Proofs/C10Rescue.lean`), remnants are sub-lists of first-pass groups (`C04.remnants_exact`). -/
theorem purity_rescued_grouping {ι : Type} (T : Transforms) (mode : Mode) (pairs : List (DMap × List RawRow))
    (hids : ∀ e ∈ ingestPairs T mode pairs, ∀ p ∈ e.proteins, MarkerOnlyAsPrefix p)
    (old : List (List String × ι)) (cutoff : Rat) (cuts : C04.CutMap) (out : C04.RescueOut ι)
    (hold : ∀ g0 ∈ old.map (·.1), g0 ∈ C03.subsetGrouping (ingestPairs T mode pairs))
    (hrun : C04.rescueGroups old (ingestPairs T mode pairs) cutoff cuts = .ok out) :
    ∀ g ∈ out.groups, isDecoy g = true ∨ ∀ p ∈ g, isDecoyId p = false := by
  have hk := (result_keys_unique T mode pairs).1
  have hh := ingest_homogeneous T mode pairs hids
  intro g hg
  apply group_pure_of_kind
  refine rescue_groups_kind _ hk hids hh old cutoff cuts out ?_ hrun g hg
  intro g0 hg0 a ha b hb
  exact kind_of_chain hh (subsetGrouping_conn _ hk g0 (hold g0 hg0) a ha b hb)

/-- "… so every REPORTED group consists only of targets or only of decoys", end to end on the composed
    model of `get_protein_group_results` (`Pipeline.run`, the function the driver op `pipeline` executes):
    for every shipped grouping (no / subset / rescued subset / pseudo-gene), razor or discard, every
    competition strategy and every recorded shuffle, cut map, score vector and cutoff — whenever the call on
    an ingested peptide list succeeds, the protein list of every row of the reported table is all-decoy
    (`is_decoy`) or contains no decoy identifier.  (A row lists a sub-list of a ranked group; ranked groups
    are groups of the grouping — placeholders are never reported; groups of every grouping are linked by
    shared peptides.) -/
theorem purity_reported_groups (T : Transforms) (mode : Mode) (pairs : List (DMap × List RawRow))
    (hids : ∀ e ∈ ingestPairs T mode pairs, ∀ p ∈ e.proteins, MarkerOnlyAsPrefix p)
    (cfg : Pipeline.Config) (inp : Pipeline.Input) (r : Pipeline.Result)
    (hpil : inp.pil = ingestPairs T mode pairs) (hrun : Pipeline.run cfg inp = .ok r) :
    ∀ row ∈ r.rows, isDecoy row.proteins = true ∨ ∀ p ∈ row.proteins, isDecoyId p = false := by
  intro row hrow
  apply group_pure_of_kind
  refine run_rows_kind cfg inp r ?_ ?_ ?_ hrun row hrow
  · rw [hpil]; exact (result_keys_unique T mode pairs).1
  · rw [hpil]; exact hids
  · rw [hpil]; exact ingest_homogeneous T mode pairs hids

/-- "for every peptide sequence with modifications … stripped" / "duplicate peptides across
    modifications": every spelling of a bare peptide with `( … )` tokens (nested MaxQuant tokens
    included), `[ … ]` tokens and stray `)` strips to that bare peptide, so all spellings share one
    dict key; a string without delimiters is left alone -/
theorem modification_spelling_irrelevant (s s' b : List Char) (h : Spells s b) (h' : Spells s' b) :
    removeModsL s = b ∧ removeModsL s = removeModsL s' ∧ (Plain b → removeModsL b = b) := by
  refine ⟨removeModsL_spells h, by rw [removeModsL_spells h, removeModsL_spells h'], ?_⟩
  intro hp
  have h0 : removeModsL [] = [] := rfl
  have := removeModsL_plain_append b [] hp
  rw [h0] at this
  simpa using this

/-- "FragPipe PEP = 1 - probability": the executable transform is `1 - p + 1e-16`, strictly
    decreasing in the probability, so the lowest PEP is the highest probability -/
theorem fragpipe_pep_strictAnti (p p' : Rat) (h : p < p') :
    exactT.fragpipe p' < exactT.fragpipe p ∧ exactT.fragpipe p = 1 - p + eps16 := by
  refine ⟨?_, rfl⟩
  show 1 - p' + eps16 < 1 - p + eps16
  linarith

/-- "Sage PEP = 10^posterior_error": the executable transform of an integral cell `n` is `10 ^ n`,
    strictly increasing -/
theorem sage_pep_strictMono (a b : Int) (h : a < b) :
    exactT.sage (a : Rat) < exactT.sage (b : Rat) ∧ exactT.sage (a : Rat) = (10 : Rat) ^ a := by
  have ha : exactT.sage (a : Rat) = (10 : Rat) ^ a := by
    show pow10 ((a : Rat).num) = _
    rw [Rat.num_intCast, pow10_eq_zpow]
  have hb : exactT.sage (b : Rat) = (10 : Rat) ^ b := by
    show pow10 ((b : Rat).num) = _
    rw [Rat.num_intCast, pow10_eq_zpow]
  refine ⟨?_, ha⟩
  rw [ha, hb]
  exact zpow_lt_zpow_right₀ (by norm_num) h

/-- "DIA-NN decoy rows get the decoy prefix": every protein of such a row is `REV__` + the cell's
    identifier -/
theorem diann_decoy_rows_prefixed (r : RawRow) (h : r.decoy = true) :
    rowProteins .diann r = (splitOn ";" (r.prot.headD "")).map (fun p => "REV__" ++ p) ∧
    ∀ p ∈ rowProteins .diann r, isDecoyId p = true := by
  have h1 : rowProteins .diann r = (splitOn ";" (r.prot.headD "")).map (fun p => "REV__" ++ p) := by
    simp [rowProteins, h]
  refine ⟨h1, ?_⟩
  intro p hp
  rw [h1, List.mem_map] at hp
  obtain ⟨y, _, rfl⟩ := hp
  have : strStartsWith ("REV__" ++ y) "REV__" = true := by
    unfold strStartsWith
    rw [String.toList_append]
    exact List.isPrefixOf_iff_prefix.mpr (List.prefix_append _ _)
  simp [isDecoyId, this]

/-- every shipped method — all 27 TOMLs, razor and non-razor — selects a mode the model implements: each has a
    `scoreType`, the description `scoreType [+ " razor"]` (`methods.parse_method_toml`) yields exactly these ten
    input-type / remap / razor combinations, three of which belong to the eight razor methods (re-checked
    against `methods/*.toml` on every build) -/
theorem shipped_modes :
    (∀ m ∈ PgFdr.Generated.methods, m.scoreType ≠ none) ∧
    (PgFdr.Generated.methods.map (fun m => modeOfScoreType (descriptionOf m) false)).eraseDups =
      [ { format := .percNative, remap := true }, { format := .percNative, remap := false },
        { format := .diann, remap := false }, { format := .maxquant, remap := true },
        { format := .fragpipe, remap := false }, { format := .maxquant, remap := true, razor := true },
        { format := .percNative, remap := false, razor := true }, { format := .maxquant, remap := false },
        { format := .percNative, remap := true, razor := true }, { format := .sage, remap := false } ] ∧
    (PgFdr.Generated.methods.filter (fun m => m.sharedPeptides == some "razor")).length = 8 ∧
    ((PgFdr.Generated.methods.filter (fun m => m.sharedPeptides == some "razor")).map
        (fun m => modeOfScoreType (descriptionOf m) false)).eraseDups =
      [ { format := .maxquant, remap := true, razor := true }, { format := .percNative, remap := false, razor := true },
        { format := .percNative, remap := true, razor := true } ] := by
  refine ⟨?_, ?_, ?_, ?_⟩ <;> decide

/-! ## Non-vacuity: concrete inputs meeting the hypotheses -/

private def exRows : List RawRow :=
  [ { pep := "_AAK_", mod := "", score := some (1/100), prot := ["T1;REV__T2"], decoy := false },
    { pep := "_A(ox)AK_", mod := "", score := some (1/1000), prot := ["T1"], decoy := false },
    { pep := "_AAK_", mod := "", score := some (1/1000), prot := ["T3"], decoy := false },
    { pep := "_CCK_", mod := "", score := none, prot := ["T1"], decoy := false },
    { pep := "_DDK_", mod := "", score := some (1/50), prot := ["REV__T4;REV__T5"], decoy := false } ]

private def exMode : Mode := { format := .maxquant, remap := false }

/-- the first PSM attaining 1/1000 (spelled with a modification) wins; the NaN row leaves no entry -/
example : ingestFiles exactT exMode [] [exRows] =
    [ { peptide := "AAK", pep := 1/1000, proteins := ["T1"] },
      { peptide := "DDK", pep := 1/50, proteins := ["REV__T4", "REV__T5"] } ] := by decide +kernel

/-- remapping with a digest that does not know `DDK`: the peptide is skipped (hypothesis of
    `unknown_peptides_skipped`), and the target list of `AAK` loses its decoy -/
example : ingestFiles exactT { format := .maxquant, remap := true }
      [[("AAK", ["REV__T9", "T7"])]] [exRows] =
    [ { peptide := "AAK", pep := 1/1000, proteins := ["T7"] } ] := by decide +kernel

example : digestLookup [("AAK", ["REV__T9", "T7"])] "DDK" = [] := by decide

/-- hypotheses of `purity` on the first example: identifiers carry the markers only as prefixes,
    and the groups `[T1]`, `[REV__T4, REV__T5]` are linked through the peptides of the list -/
example : ∀ e ∈ ingestPairs exactT exMode (pairUp false [] [exRows]), ∀ p ∈ e.proteins,
    MarkerOnlyAsPrefix p := by decide +kernel

example : Relation.ReflTransGen (SharePeptide (ingestPairs exactT exMode (pairUp false [] [exRows])))
    "REV__T4" "REV__T5" := by
  apply Relation.ReflTransGen.single
  refine ⟨{ peptide := "DDK", pep := 1/50, proteins := ["REV__T4", "REV__T5"] }, ?_, by simp, by simp⟩
  decide +kernel

/-- the composed statement applies to the first example (its identifier hypothesis holds) -/
example : ∀ g ∈ C03.subsetGrouping (ingestPairs exactT exMode (pairUp false [] [exRows])),
    isDecoy g = true ∨ ∀ p ∈ g, isDecoyId p = false :=
  purity_subset_grouping exactT exMode _ (by decide +kernel)

/-- a razor method on MaxQuant input reads the second protein cell (`Leading razor protein`): `AAK` gets `T2`
    where the non-razor method lists `T1;T2`; the empty PEP cell of `CCK` is NaN, no error -/
private def exRazorRows : List RawRow :=
  [ { pep := "_AAK_", mod := "", score := some (1/100), prot := ["T1;T2", "T2"], decoy := false },
    { pep := "_CCK_", mod := "", score := none, prot := ["T1", "T1"], decoy := false, cell := .empty },
    { pep := "_DDK_", mod := "", score := none, prot := ["T3", "T3"], decoy := false, cell := .posInf } ]

example : ingestFilesChecked exactT { format := .maxquant, remap := false, razor := true } [] [exRazorRows] =
    .ok [ { peptide := "AAK", pep := 1/100, proteins := ["T2"] } ] := by decide +kernel

example : ingestFilesChecked exactT { format := .maxquant, remap := false } [] [exRazorRows] =
    .ok [ { peptide := "AAK", pep := 1/100, proteins := ["T1", "T2"] } ] := by decide +kernel

/-- `bad_score_cell_rejected` / `file_raises_iff`: the same empty cell in a Percolator file is refused; -/
example : ingestFilesChecked exactT { format := .percNative, remap := false } []
    [[ { pep := "AAK", mod := "", score := some (1/100), prot := ["T1"], decoy := false },
       { pep := "CCK", mod := "", score := none, prot := ["T1"], decoy := false, cell := .empty } ]] =
    .error .badScoreCell := by decide +kernel

/-- … Percolator refuses it even in a row the mapper would drop (unknown peptide), MaxQuant reads text that is
    no number only in rows that yield a PSM: the same two rows are refused / ingested -/
example : ingestFilesChecked exactT { format := .percNative, remap := true } [[("AAK", ["T1"])]]
    [[ { pep := "AAK", mod := "", score := some (1/100), prot := ["T1"], decoy := false },
       { pep := "CCK", mod := "", score := none, prot := ["T1"], decoy := false, cell := .junk } ]] =
    .error .badScoreCell := by decide +kernel

example : ingestFilesChecked exactT { format := .maxquant, remap := true } [[("AAK", ["T1"])]]
    [[ { pep := "_AAK_", mod := "", score := some (1/100), prot := ["T1"], decoy := false },
       { pep := "_CCK_", mod := "", score := none, prot := ["T1"], decoy := false, cell := .junk } ]] =
    .ok [ { peptide := "AAK", pep := 1/100, proteins := ["T1"] } ] := by decide +kernel

example : ingestFilesChecked exactT { format := .maxquant, remap := true } [[("AAK", ["T1"]), ("CCK", ["T2"])]]
    [[ { pep := "_AAK_", mod := "", score := some (1/100), prot := ["T1"], decoy := false },
       { pep := "_CCK_", mod := "", score := none, prot := ["T1"], decoy := false, cell := .junk } ]] =
    .error .badScoreCell := by decide +kernel

/-- Sage: `-inf` is the PEP `10 ** -inf = 0`, `inf` never enters -/
example : ingestFilesChecked exactT { format := .sage, remap := false } []
    [[ { pep := "AAK", mod := "", score := none, prot := ["T1"], decoy := false, cell := .negInf },
       { pep := "CCK", mod := "", score := none, prot := ["T1"], decoy := false, cell := .posInf } ]] =
    .ok [ { peptide := "AAK", pep := 0, proteins := ["T1"] } ] := by decide +kernel

/-- hypotheses of `ingest_order_independent`: reversing the rows is a shuffle -/
example : Shuffled [(([] : DMap), exRows)] [([], exRows.reverse)] :=
  ⟨[([], exRows)], List.Perm.refl _, RowsShuffled.cons rfl (List.reverse_perm _).symm RowsShuffled.nil⟩

example : exactT.sage ((-3 : Int) : Rat) = 1 / 1000 := by decide +kernel

/-- `AM(Oxidation (M))K` and `[42]AMK` spell `AMK` -/
example : Spells "AM(Oxidation (M))K".toList "AMK".toList :=
  .residue 'A' (by decide) (.residue 'M' (by decide)
    (.paren "Oxidation (M".toList (by decide) (.close (.residue 'K' (by decide) .nil))))

example : Spells "[42]AMK".toList "AMK".toList :=
  .bracket "42".toList (by decide)
    (.residue 'A' (by decide) (.residue 'M' (by decide) (.residue 'K' (by decide) .nil)))

/-- hypotheses of `purity_rescued_grouping` on the first example: the rescue stage run on its subset
    grouping (cutoff 1/100 keeps only `AAK`; nothing to cut) succeeds — `[T1]` is re-created, the decoy group is
    a remnant — and `hold` holds by construction -/
example : (C04.rescueGroups ((C03.subsetGrouping (ingestPairs exactT exMode (pairUp false [] [exRows]))).map
      (fun g => (g, ()))) (ingestPairs exactT exMode (pairUp false [] [exRows])) (1/100) []).toOption.map
      (fun o => o.groups) = some [["T1"], ["REV__T5", "REV__T4"]] := by decide +kernel

/-- hypotheses of `purity_reported_groups`: three MaxQuant rows whose ingestion is the peptide list of the worked
    pipeline example of `Proofs/C04Unshared.lean` (`A`, `B`, decoy `REV__A`; picked-group method with rescue pass,
    run evaluated in `C04.demo_run`); the identifiers carry the markers only as prefixes -/
private def exRows2 : List RawRow :=
  [ { pep := "_PEPA_", mod := "", score := some (1/1000), prot := ["A"], decoy := false },
    { pep := "_PEPB_", mod := "", score := some (1/10), prot := ["B"], decoy := false },
    { pep := "_PEPR_", mod := "", score := some (1/100), prot := ["REV__A"], decoy := false } ]

example : C04.demoInp.pil = ingestPairs exactT exMode (pairUp false [] [exRows2]) := by decide +kernel

example : ∀ row ∈ C04.demoRes.rows, isDecoy row.proteins = true ∨ ∀ p ∈ row.proteins, isDecoyId p = false :=
  purity_reported_groups exactT exMode (pairUp false [] [exRows2]) (by decide +kernel) C04.demoCfg C04.demoInp
    C04.demoRes (by decide +kernel) C04.demo_run

/-! ## Digests of non-specific searches: the (prefix index, sequences) pair -/

/-- plain dict digests are the special case of `Digest`: the lookup is `dict.get(peptide, [])` and the checked
    ingestion over `Digest.dict` maps is the checked ingestion of the theorems above (the driver runs the
    latter when every map is a dict, the former otherwise) -/
theorem digest_dicts_agree (T : Transforms) (mode : Mode) (maps : List DMap) (files : List (List RawRow)) :
    ingestFilesCheckedD T mode (maps.map Digest.dict) files = ingestFilesChecked T mode maps files ∧
    ∀ m q, (Digest.dict m).lookup q = digestLookup m q := by
  refine ⟨?_, fun _ _ => rfl⟩
  unfold ingestFilesCheckedD ingestFilesChecked
  rw [pairUpD_dict, ingestCheckedD_dict]

/-- Ingestion asks a digest only about the stripped peptides of the rows it reads.  So ingestion with digests
    of either kind IS ingestion with the dicts `q ↦ digest.get_proteins(digest, q)` over those peptides
    (`Digest.tabulate`): same refusals, same peptide list, same PSM stream — whence every theorem above about
    `ingestChecked` / `ingestPairs` / `allPsms` holds for non-specific digests with `digestLookup p.1 q` read as
    `p.1.lookup q` (last two conjuncts: what the tabulated dict answers). -/
theorem digest_ingest_is_dict_ingest (T : Transforms) (mode : Mode) (pairs : List (Digest × List RawRow)) :
    ingestCheckedD T mode pairs = ingestChecked T mode (dictPairs mode pairs) ∧
    ingestPairsD T mode pairs = ingestPairs T mode (dictPairs mode pairs) ∧
    allPsmsD T mode pairs = allPsms T mode (dictPairs mode pairs) ∧
    (∀ p ∈ pairs, ∀ q, digestLookup (p.1.tabulate mode p.2) q =
      if q ∈ queries mode p.2 then p.1.lookup q else []) ∧
    (∀ p ∈ pairs, ∀ r ∈ p.2, ∀ flank, removeMods (rowPeptide mode.format flank r) ∈ queries mode p.2) :=
  ⟨ingestCheckedD_eq T mode pairs, ingestPairsD_eq T mode pairs, allPsmsD_eq T mode pairs,
    fun p _ q => tabulate_lookup p.1 mode p.2 q, fun _ _ _ hr flank => mem_queries hr flank⟩

/-- `digest.get_proteins` on the pair of a non-specific digest: "the proteins under the prefix key whose
    sequence contains the peptide as a substring", `sorted` — for every pair whose index lists only proteins
    that have a sequence (what the builder guarantees; otherwise the code dies with `KeyError`) -/
theorem hashed_lookup_spec (idx : C09.PMap) (seqs : C09.SeqMap) (hwf : (Digest.hashed idx seqs).wf = true)
    (q : String) :
    (Digest.hashed idx seqs).lookup q =
      (C09.sortStrs ((C09.get idx (q.toList.take 6)).filter (containsIn seqs q.toList))).map String.ofList ∧
    ∀ p : String, p ∈ (Digest.hashed idx seqs).lookup q ↔
      p.toList ∈ C09.get idx (q.toList.take 6) ∧
      ∃ s, C09.lookupSeq seqs p.toList = some s ∧ containsSub q.toList s = true := by
  have hc := confirm_filter seqs q.toList _ (wf_listed hwf (q.toList.take 6))
  refine ⟨hashLookup_of_confirm hc, ?_⟩
  intro p
  show p ∈ hashLookup idx seqs q ↔ _
  rw [mem_hashLookup_of_confirm hc, List.mem_filter]
  unfold containsIn
  constructor
  · rintro ⟨h1, h2⟩
    refine ⟨h1, ?_⟩
    split at h2
    · rename_i s hs; exact ⟨s, hs, h2⟩
    · cases h2
  · rintro ⟨h1, s, hs, h2⟩
    exact ⟨h1, by rw [hs]; exact h2⟩

/-- "peptides unknown to the digest are skipped" / "that PSM's proteins - taken from the in-silico digest", for
    the pair the tool builds for a non-specific search (`C09.fromParams` with one `digestion = "none"` parameter
    set over FASTA files with distinct identifiers; database = targets and generated decoys):
    (1) the prefix index ADDS nothing — whatever the peptide's length, every protein returned is a database
        record whose sequence contains the peptide; hence a peptide contained in no sequence gets `[]` (4)
        however many sequences share its first six residues;
    (2) the prefix index LOSES nothing — for a peptide inside the length window, and for every peptide of at
        least `max 6 min_length` residues (longer than `max_length` included: the lookup does not check the
        window), the answer is the sorted list of the identifiers of exactly the records containing it;
    (3) a peptide shorter than six residues and shorter than `min_length` is never known (its key is the
        peptide itself and every key has `min 6 |peptide of the digest|` residues).
    Between (2) and (3) — six or more residues but fewer than `min_length` — the code finds a containing
    record iff one of its peptides starts with the same six residues (`confirm_built`); nothing is claimed. -/
theorem hashed_lookup_exact (parse : C09.ParseId) (files : List (List C09.Str)) (p : C09.Params) (d : Digest)
    (hb : IsNonSpecificDigest d parse files p) (q : String) :
    (∀ pid ∈ d.lookup q, ∃ seq, (pid.toList, seq) ∈ C09.dbRecords parse p files ∧
      ∃ pre suf, seq = pre ++ q.toList ++ suf) ∧
    ((p.minL ≤ q.toList.length ∧ q.toList.length ≤ p.maxL) ∨
        (6 ≤ q.toList.length ∧ p.minL ≤ q.toList.length ∧ max 6 p.minL ≤ p.maxL) →
      d.lookup q = (C09.sortStrs (((C09.dbRecords parse p files).filter
          (fun x => containsSub q.toList x.2)).map (·.1))).map String.ofList ∧
      ∀ pid : String, pid ∈ d.lookup q ↔ ∃ seq, (pid.toList, seq) ∈ C09.dbRecords parse p files ∧
        ∃ pre suf, seq = pre ++ q.toList ++ suf) ∧
    (q.toList.length < 6 → q.toList.length < p.minL → d.lookup q = []) ∧
    ((∀ x ∈ C09.dbRecords parse p files, containsSub q.toList x.2 = false) → d.lookup q = []) := by
  obtain ⟨res, hres, rfl, hmode, hhash, hd⟩ := hb
  cases hr : C08.lookupEnzyme p.enzyme with
  | none =>
    obtain ⟨hf, hres'⟩ := C09.fromParams_one_no_enzyme parse files p hr res hres
    subst hf hres'
    have h0 : ∀ q, (Digest.hashed ([] : C09.PMap) ([] : C09.SeqMap)).lookup q = [] := fun _ => rfl
    refine ⟨by simp [h0], fun _ => ⟨by simp [h0, C09.dbRecords, C09.sortStrs], by simp [h0, C09.dbRecords]⟩,
      fun _ _ => h0 q, fun _ => h0 q⟩
  | some r =>
    have hc := Built.confirm_built parse files p r hr res hres hhash hd q.toList
    have hmem := mem_hashLookup_of_confirm hc
    have hall : ∀ pid : String, pid ∈ (Digest.hashed res.1 res.2).lookup q ↔
        ∃ x ∈ C09.dbRecords parse p files, (decide (q.toList.take 6 ∈ C09.keysOf (C09.argsOf r p parse) x.2) &&
          containsSub q.toList x.2) = true ∧ x.1 = pid.toList := by
      intro pid
      show pid ∈ hashLookup res.1 res.2 q ↔ _
      rw [hmem, List.mem_map]
      simp only [List.mem_filter, and_assoc]
    refine ⟨?_, ?_, ?_, ?_⟩
    · intro pid hpid
      obtain ⟨x, hx, hk, hx1⟩ := (hall pid).mp hpid
      simp only [Bool.and_eq_true, decide_eq_true_eq] at hk
      exact ⟨x.2, by rw [← hx1]; exact hx, (C09.containsSub_iff _ _).mp hk.2⟩
    · intro hlen
      have hkey : ∀ x : C09.Str × C09.Str, containsSub q.toList x.2 = true →
          q.toList.take 6 ∈ C09.keysOf (C09.argsOf r p parse) x.2 :=
        fun x hx => Built.key_of_contains r p parse hmode hhash q.toList x.2 hx hlen
      have hfilter : (C09.dbRecords parse p files).filter
            (fun x => decide (q.toList.take 6 ∈ C09.keysOf (C09.argsOf r p parse) x.2) && containsSub q.toList x.2) =
          (C09.dbRecords parse p files).filter (fun x => containsSub q.toList x.2) := by
        apply List.filter_congr
        intro x _
        cases hx : containsSub q.toList x.2
        · simp
        · simp [hkey x hx]
      constructor
      · show hashLookup res.1 res.2 q = _
        rw [hashLookup_of_confirm hc, hfilter]
      · intro pid
        rw [hall pid]
        constructor
        · rintro ⟨x, hx, hk, hx1⟩
          simp only [Bool.and_eq_true, decide_eq_true_eq] at hk
          exact ⟨x.2, by rw [← hx1]; exact hx, (C09.containsSub_iff _ _).mp hk.2⟩
        · rintro ⟨seq, hx, hsub⟩
          have hcs := (C09.containsSub_iff q.toList seq).mpr hsub
          exact ⟨(pid.toList, seq), hx, by simp [hkey (pid.toList, seq) hcs, hcs], rfl⟩
    · intro h6 hlo
      apply List.eq_nil_iff_forall_not_mem.mpr
      intro pid hpid
      obtain ⟨x, _, hk, _⟩ := (hall pid).mp hpid
      simp only [Bool.and_eq_true, decide_eq_true_eq] at hk
      exact Built.no_key_of_short r p parse hmode hhash q.toList x.2 h6 hlo hk.1
    · intro hno
      apply List.eq_nil_iff_forall_not_mem.mpr
      intro pid hpid
      obtain ⟨x, hx, hk, _⟩ := (hall pid).mp hpid
      simp only [Bool.and_eq_true, decide_eq_true_eq] at hk
      rw [hno x hx] at hk
      exact absurd hk.2 (by simp)

/-- `psm_of_row` over digests of either kind: the PSM stream consists exactly of the rows whose stripped peptide
    the file's digest knows (remapping) and whose source list keeps a protein after the decoy purge -/
theorem psm_of_row_digest (T : Transforms) (mode : Mode) (pairs : List (Digest × List RawRow)) (x : Psm) :
    x ∈ allPsmsD T mode pairs ↔
      ∃ p ∈ pairs, ∃ r ∈ p.2,
        (mode.remap = true →
          p.1.lookup (removeMods (rowPeptide mode.format (flankOf mode.format p.2) r)) ≠ []) ∧
        removeDecoyProteinsFromTargetPeptides
          (sourceProteinsBy mode.remap p.1.lookup (rowPeptide mode.format (flankOf mode.format p.2) r)
            (rowProteinsOf mode r)) ≠ [] ∧
        x = { modPep := rowPeptide mode.format (flankOf mode.format p.2) r,
              score := rowScore T mode.format r,
              prots := removeDecoyProteinsFromTargetPeptides
                (sourceProteinsBy mode.remap p.1.lookup (rowPeptide mode.format (flankOf mode.format p.2) r)
                  (rowProteinsOf mode r)) } := by
  rw [allPsmsD_eq, psm_of_row]
  unfold dictPairs
  constructor
  · rintro ⟨p', hp', r, hr, h1, h2, h3⟩
    obtain ⟨p, hp, rfl⟩ := List.mem_map.mp hp'
    simp only at hr h1 h2 h3
    rw [sourceProteins_tab p.1 mode hr] at h2 h3
    rw [tabulate_lookup, if_pos (mem_queries hr _)] at h1
    exact ⟨p, hp, r, hr, h1, h2, h3⟩
  · rintro ⟨p, hp, r, hr, h1, h2, h3⟩
    refine ⟨(p.1.tabulate mode p.2, p.2), List.mem_map.mpr ⟨p, hp, rfl⟩, r, hr, ?_, ?_, ?_⟩
    · simp only
      rw [tabulate_lookup, if_pos (mem_queries hr _)]
      exact h1
    · simp only
      rw [sourceProteins_tab p.1 mode hr]
      exact h2
    · simp only
      rw [sourceProteins_tab p.1 mode hr]
      exact h3

/-- `best_psm` over digests of either kind: lowest PEP and the proteins of the first PSM attaining it -/
theorem best_psm_digest (T : Transforms) (mode : Mode) (pairs : List (Digest × List RawRow)) (q : String) :
    match get (ingestPairsD T mode pairs) q with
    | none => ∀ x ∈ allPsmsD T mode pairs, x.key = q → x.score = none
    | some e =>
      e.peptide = q ∧ ∃ pre x post, allPsmsD T mode pairs = pre ++ x :: post ∧ x.key = q ∧
        x.score = some e.pep ∧ x.prots = e.proteins ∧
        (∀ y ∈ pre, y.key = q → ∀ s, y.score = some s → e.pep < s) ∧
        (∀ y ∈ post, y.key = q → ∀ s, y.score = some s → e.pep ≤ s) := by
  rw [ingestPairsD_eq, allPsmsD_eq]
  exact best_psm T mode (dictPairs mode pairs) q

/-- "peptides unknown to the digest are skipped", over digests of either kind and for razor and non-razor
    methods: when the method remaps, a stripped peptide for which `digest.get_proteins` answers `[]` on every
    paired digest never enters the result -/
theorem unknown_peptides_skipped_digest (T : Transforms) (mode : Mode) (hm : mode.remap = true)
    (pairs : List (Digest × List RawRow)) (q : String) (h : ∀ p ∈ pairs, p.1.lookup q = []) :
    get (ingestPairsD T mode pairs) q = none ∧ ∀ e ∈ ingestPairsD T mode pairs, e.peptide ≠ q := by
  have hno : ∀ x ∈ allPsmsD T mode pairs, x.key ≠ q := by
    intro x hx hk
    obtain ⟨p, hp, r, _, hrow⟩ := mem_allPsmsD hx
    have := (rowPsmBy_some hrow).2.2.2.2 hm
    rw [hk] at this
    exact this (h p hp)
  constructor
  · have hb := best_psm_digest T mode pairs q
    cases hg : get (ingestPairsD T mode pairs) q with
    | none => rfl
    | some e =>
      rw [hg] at hb
      obtain ⟨_, pre, x, post, hxs, hxk, _⟩ := hb
      exact absurd hxk (hno x (by rw [hxs]; simp))
  · intro e he hq
    obtain ⟨x, hx, hk, _⟩ := mem_parse he
    exact hno x hx (hk.trans hq)

/-- "A protein list containing a target loses its decoy entries … only of targets or only of decoys", over
    digests of either kind: every entry lists the purged source list of one row; when the method remaps that
    is the purged answer of one paired digest for the entry's own (stripped) peptide, never empty; each
    peptide is all-decoy or lists no decoy. -/
theorem target_list_loses_decoys_digest (T : Transforms) (mode : Mode) (pairs : List (Digest × List RawRow)) :
    ∀ e ∈ ingestPairsD T mode pairs,
      e.proteins ≠ [] ∧
      (∃ p ∈ pairs, ∃ r ∈ p.2, ∃ src,
        src = sourceProteinsBy mode.remap p.1.lookup (rowPeptide mode.format (flankOf mode.format p.2) r)
                (rowProteinsOf mode r) ∧
        (mode.remap = true → src = p.1.lookup e.peptide) ∧
        e.proteins = if isDecoy src then src else src.filter (fun x => !isDecoyId x)) ∧
      (isDecoy e.proteins = true ∨ ∀ x ∈ e.proteins, isDecoyId x = false) := by
  intro e he
  obtain ⟨x, hx, hkey, _, hprots⟩ := mem_parse he
  obtain ⟨p, hp, r, hr, hrow⟩ := mem_allPsmsD hx
  obtain ⟨h1, _, h3, h4, _⟩ := rowPsmBy_some hrow
  rw [hprots] at h3 h4
  refine ⟨h4, ⟨p, hp, r, hr, _, rfl, ?_, ?_⟩, ?_⟩
  · intro hm
    simp only [sourceProteinsBy, hm, if_true]
    rw [← hkey, Psm.key, h1]
  · rw [h3]; rfl
  · rw [h3]
    unfold removeDecoyProteinsFromTargetPeptides
    split
    · left; assumption
    · right
      intro y hy
      have := (List.mem_filter.mp hy).2
      simpa [isDecoyId] using this

/-- `purity` and `purity_reported_groups` over digests of either kind: "… so every reported group consists only
    of targets or only of decoys" — for every grouping whose groups are linked by shared peptides of the ingested
    list, and for every row of the composed pipeline model on that list -/
theorem purity_digest (T : Transforms) (mode : Mode) (pairs : List (Digest × List RawRow))
    (hids : ∀ e ∈ ingestPairsD T mode pairs, ∀ p ∈ e.proteins, MarkerOnlyAsPrefix p) :
    (∀ groups : List (List String),
      (∀ g ∈ groups, ∀ a ∈ g, ∀ b ∈ g, Relation.ReflTransGen (SharePeptide (ingestPairsD T mode pairs)) a b) →
      ∀ g ∈ groups, isDecoy g = true ∨ ∀ p ∈ g, isDecoyId p = false) ∧
    (∀ (cfg : Pipeline.Config) (inp : Pipeline.Input) (r : Pipeline.Result),
      inp.pil = ingestPairsD T mode pairs → Pipeline.run cfg inp = .ok r →
      ∀ row ∈ r.rows, isDecoy row.proteins = true ∨ ∀ p ∈ row.proteins, isDecoyId p = false) := by
  rw [ingestPairsD_eq] at hids ⊢
  exact ⟨fun groups hconn => purity T mode _ groups hids hconn,
    fun cfg inp r hpil hrun => purity_reported_groups T mode _ hids cfg inp r hpil hrun⟩

/-- The property for a remapping method on a non-specific search, end to end on the model: every file is
    paired with the pair the tool builds from its FASTA files (targets + generated decoys, distinct
    identifiers).  Then (1) every entry of the result lists — purged of decoys if a target is among them, never
    empty, never mixed — the answer of one paired digest for the entry's own stripped peptide, and every protein
    listed is a record of that digest's database whose sequence contains the peptide; (2) a stripped peptide
    contained in no sequence of any paired database is not a key of the result, whatever its length and
    however many sequences share its first six residues. -/
theorem non_specific_ingestion (T : Transforms) (mode : Mode) (hm : mode.remap = true)
    (pairs : List (Digest × List RawRow))
    (hb : ∀ p ∈ pairs, ∃ parse files prm, IsNonSpecificDigest p.1 parse files prm) :
    (∀ e ∈ ingestPairsD T mode pairs, ∃ p ∈ pairs, ∃ parse files prm, IsNonSpecificDigest p.1 parse files prm ∧
      e.proteins = removeDecoyProteinsFromTargetPeptides (p.1.lookup e.peptide) ∧ e.proteins ≠ [] ∧
      (∀ pid ∈ e.proteins, ∃ seq, (pid.toList, seq) ∈ C09.dbRecords parse prm files ∧
        ∃ pre suf, seq = pre ++ e.peptide.toList ++ suf) ∧
      (isDecoy e.proteins = true ∨ ∀ x ∈ e.proteins, isDecoyId x = false)) ∧
    (∀ q : String,
      (∀ p ∈ pairs, ∀ parse files prm, IsNonSpecificDigest p.1 parse files prm →
        ∀ x ∈ C09.dbRecords parse prm files, containsSub q.toList x.2 = false) →
      get (ingestPairsD T mode pairs) q = none ∧ ∀ e ∈ ingestPairsD T mode pairs, e.peptide ≠ q) := by
  constructor
  · intro e he
    obtain ⟨hne, ⟨p, hp, r, _, src, _, hsrc, hprots⟩, hpure⟩ := target_list_loses_decoys_digest T mode pairs e he
    obtain ⟨parse, files, prm, hbp⟩ := hb p hp
    have hs := hsrc hm
    have hpur : e.proteins = removeDecoyProteinsFromTargetPeptides (p.1.lookup e.peptide) := by
      rw [hprots, hs]
      unfold removeDecoyProteinsFromTargetPeptides
      split
      · rfl
      · apply List.filter_congr; intro y _; simp [isDecoyId]
    refine ⟨p, hp, parse, files, prm, hbp, hpur, hne, ?_, hpure⟩
    intro pid hpid
    have hsub : pid ∈ p.1.lookup e.peptide := by
      rw [hpur] at hpid
      unfold removeDecoyProteinsFromTargetPeptides at hpid
      split at hpid
      · exact hpid
      · exact (List.mem_filter.mp hpid).1
    exact (hashed_lookup_exact parse files prm p.1 hbp e.peptide).1 pid hsub
  · intro q hq
    apply unknown_peptides_skipped_digest T mode hm pairs q
    intro p hp
    obtain ⟨parse, files, prm, hbp⟩ := hb p hp
    exact (hashed_lookup_exact parse files prm p.1 hbp q).2.2.2 (hq p hp parse files prm hbp)

/-! ### Non-vacuity for the non-specific section

Two proteins sharing their first six residues, `--enzyme no_enzyme`, window 7–60, decoys generated (reversed,
`K`/`R` swapped with the preceding residue): the database has four records with distinct identifiers; `protB`
contains a stretch of reversed `protA`. -/

private def exNsParams : C09.Params := C09.mkParams "no_enzyme" "full" 7 60 2 "KR" false
private def exNsFiles : List (List C09.Str) :=
  [[">protA first".toList, "ACDEFGHIKLM".toList, ">protB".toList, "ACDEFGTTHGFEDCAW".toList]]

private def exNsDigest : Digest :=
  match C09.fromParams .firstSpace exNsFiles [exNsParams] with
  | .ok res => .hashed res.1 res.2
  | .error _ => .dict []

/-- hypotheses of `hashed_lookup_exact` / `non_specific_ingestion` -/
example : IsNonSpecificDigest exNsDigest .firstSpace exNsFiles exNsParams := by
  refine ⟨((C09.fromParams .firstSpace exNsFiles [exNsParams]).toOption.getD ([], [])), by decide +kernel,
    by decide +kernel, by decide +kernel, by decide +kernel, by decide +kernel⟩

example : (C09.dbRecords .firstSpace exNsParams exNsFiles).map (fun x => (String.ofList x.1, String.ofList x.2)) =
    [("protA", "ACDEFGHIKLM"), ("REV__protA", "MKLIHGFEDCA"), ("protB", "ACDEFGTTHGFEDCAW"),
     ("REV__protB", "WACDEFGHTTGFEDCA")] := by decide +kernel

/-- hypothesis of `hashed_lookup_spec` -/
example : exNsDigest.wf = true := by decide +kernel

/-- the lookup: a peptide of one protein; the shared prefix region (six residues, below the window: found because
    longer peptides start there) in two targets and a decoy; contained in no sequence with a prefix that ONE
    sequence owns (`DEFGHI`) and with a prefix three sequences share (`ACDEFG`); six residues at the very end of a
    decoy sequence and inside a target (only the latter has a 7-mer starting there); a peptide of a target and a
    decoy; shorter than six residues; a decoy peptide -/
example : [exNsDigest.lookup "CDEFGHIK", exNsDigest.lookup "ACDEFG", exNsDigest.lookup "DEFGHIWW",
      exNsDigest.lookup "ACDEFGKK", exNsDigest.lookup "GFEDCA", exNsDigest.lookup "HGFEDCA",
      exNsDigest.lookup "CDEFG", exNsDigest.lookup "MKLIHGF"] =
    [["protA"], ["REV__protB", "protA", "protB"], [], [], ["protB"], ["REV__protA", "protB"], [],
     ["REV__protA"]] := by decide +kernel

/-- ingestion (MaxQuant input, remapping): the modified spelling of `CDEFGHIK` shares the key and wins; `DEFGHIWW`
    (prefix owned by `protA` alone) and the too short `CDEFG` are skipped; `HGFEDCA` occurs in a target and a decoy
    sequence and loses the decoy; `MKLIHGF` is a decoy peptide -/
private def exNsRows : List RawRow :=
  [ { pep := "_CDEFGHIK_", mod := "", score := some (1/100), prot := ["zzz"], decoy := false },
    { pep := "_C(ca)DEFGHIK_", mod := "", score := some (1/1000), prot := ["zzz"], decoy := false },
    { pep := "_DEFGHIWW_", mod := "", score := some (1/1000), prot := ["protA"], decoy := false },
    { pep := "_CDEFG_", mod := "", score := some (1/1000), prot := ["protA"], decoy := false },
    { pep := "_HGFEDCA_", mod := "", score := some (1/50), prot := ["protA"], decoy := false },
    { pep := "_MKLIHGF_", mod := "", score := some (1/50), prot := ["protA"], decoy := false } ]

example : ingestFilesCheckedD exactT { format := .maxquant, remap := true } [exNsDigest] [exNsRows] =
    .ok [ { peptide := "CDEFGHIK", pep := 1/1000, proteins := ["protA"] },
          { peptide := "HGFEDCA", pep := 1/50, proteins := ["protB"] },
          { peptide := "MKLIHGF", pep := 1/50, proteins := ["REV__protA"] } ] := by decide +kernel

/-- hypothesis of `unknown_peptides_skipped_digest` for `DEFGHIWW`, and of clause (2) of `non_specific_ingestion`:
    no record of the database contains it -/
example : ∀ p ∈ pairUpD true [exNsDigest] [exNsRows], p.1.lookup "DEFGHIWW" = [] := by decide +kernel

example : ∀ x ∈ C09.dbRecords .firstSpace exNsParams exNsFiles, containsSub "DEFGHIWW".toList x.2 = false := by
  decide +kernel

/-! ## The glue of the pipeline entry points: parameter list → command-line arguments → parameter list

`pipeline.run_picked_group_fdr` / `run_merge_pout_remap` / `run_andromeda_to_pin` receive one `DigestionParams`
object per evidence file and call the tools with the arguments `digestion_params_list_to_arg_list` renders
(`toArgv`, `toArgLists`, `Model/C10Glue.lean`); the tool parses them back with `get_digestion_params_list`
(`C09.digestionParamsList`), builds one digest per parameter set and zips digests with evidence files.  "Several
evidence files each with its own digestion parameters" therefore rests on this round trip being the identity: one
value too few in one option and a file is remapped through another file's digest, or dropped by the `zip`. -/

open PgFdr.C09 (Params) in
/-- "… taken from the in-silico digest [of that file] when the method remaps": the parameter sets that arrive in
    the tool are the caller's, in the caller's order — for every non-empty list (an empty list is refused by
    argparse, `nargs="+"`) of objects as their constructor left them, whatever values repeat.  The one attribute
    the arguments do not carry is `db`: it is decided by the flag `--fasta_contains_decoys` next to them (`cd`; the
    pipeline functions never pass it, so a set arrives with `db = concat`). -/
theorem params_round_trip (cd : Bool) (ps : List Params) (_hne : ps ≠ []) (hc : ∀ p ∈ ps, Constructed p) :
    C09.digestionParamsList (toArgLists cd ps) = .ok (ps.map (withDb cd)) :=
  throughGlue_ok cd ps hc

open PgFdr.C09 (Params) in
/-- … hence as many parameter sets arrive as evidence files were given one for, and the i-th file gets the i-th:
    every rendered attribute of the i-th arriving set is that of the caller's i-th object -/
theorem params_round_trip_pointwise (cd : Bool) (ps : List Params) (hne : ps ≠ []) (hc : ∀ p ∈ ps, Constructed p) :
    ∃ qs, throughGlue cd ps = .ok qs ∧ qs.length = ps.length ∧
      ∀ i : Nat, qs[i]? = (ps[i]?).map (withDb cd) ∧
        ∀ q p, qs[i]? = some q → ps[i]? = some p →
          q.enzyme = p.enzyme ∧ q.digestion = p.digestion ∧ q.minL = p.minL ∧ q.maxL = p.maxL ∧ q.mc = p.mc ∧
          q.special = p.special ∧ q.met = p.met ∧ q.useHash = p.useHash ∧
          q.db = (if cd then .target else .concat) := by
  refine ⟨ps.map (withDb cd), params_round_trip cd ps hne hc, by simp, ?_⟩
  intro i
  refine ⟨by simp, ?_⟩
  intro q p hq hp
  rw [List.getElem?_map, hp] at hq
  cases hq
  simp [withDb]

open PgFdr.C09 (Params) in
/-- the list of digests the tool builds when called through the glue is the list built from the caller's parameter
    list directly: as many digests as parameter sets, the i-th being `C09.mapOf` of the i-th set (no union, no
    shift) -/
theorem glue_maps (cd : Bool) (ps : List Params) (hne : ps ≠ []) (hc : ∀ p ∈ ps, Constructed p)
    (geneLevel usePseudo useUniprot : Bool) (fasta : List (List C09.Str)) (hf : fasta ≠ [])
    (groups : Option (List (List C09.Str))) :
    C09.pepMapsFromArgs (toArgLists cd ps) geneLevel usePseudo useUniprot fasta [] groups =
      C09.liftErr (C09.pepMaps (C09.selectParse geneLevel usePseudo useUniprot) fasta groups (ps.map (withDb cd))) ∧
    ∀ ms, C09.pepMaps (C09.selectParse geneLevel usePseudo useUniprot) fasta groups (ps.map (withDb cd)) = .ok ms →
      ms.length = ps.length ∧
      ∀ i : Nat, (ms[i]?).map Except.ok =
        (ps[i]?).map (fun p => C09.mapOf (C09.selectParse geneLevel usePseudo useUniprot) fasta groups (withDb cd p)) := by
  constructor
  · unfold C09.pepMapsFromArgs
    rw [params_round_trip cd ps hne hc]
    cases fasta with
    | nil => exact absurd rfl hf
    | cons f fs => simp [C09.pepMapsTop]
  · intro ms hms
    refine ⟨by simpa using pepMaps_length _ fasta groups _ ms hms, ?_⟩
    intro i
    rw [pepMaps_get _ fasta groups _ ms hms i, List.getElem?_map, Option.map_map]
    rfl

open PgFdr.C09 (Params) in
/-- In C10's own terms: a remapping method run through `pipeline.run_picked_group_fdr` on `n` evidence files with
    `n` parameter sets ingests exactly what the property demands — every file read through the digest of ITS OWN
    parameter set (`ingestOwnDigests`: `zip` of the per-set digests with the files, all `n` pairs), refusals
    included; all theorems above (`best_psm_digest`, `unknown_peptides_skipped_digest`, … through
    `digest_ingest_is_dict_ingest`) then speak about these pairs. -/
theorem glue_ingestion (T : Transforms) (mode : Mode) (hm : mode.remap = true) (cd : Bool) (ps : List Params)
    (hne : ps ≠ []) (hc : ∀ p ∈ ps, Constructed p) (geneLevel usePseudo useUniprot : Bool)
    (fasta : List (List C09.Str)) (hf : fasta ≠ []) (groups : Option (List (List C09.Str)))
    (files : List (List RawRow)) (hlen : files.length = ps.length) :
    ingestViaGlue T mode cd ps geneLevel usePseudo useUniprot fasta groups files =
      ingestOwnDigests T mode (C09.selectParse geneLevel usePseudo useUniprot) fasta groups (ps.map (withDb cd)) files := by
  unfold ingestViaGlue toolIngest ingestOwnDigests
  rw [(glue_maps cd ps hne hc geneLevel usePseudo useUniprot fasta hf groups).1]
  cases hms : C09.pepMaps (C09.selectParse geneLevel usePseudo useUniprot) fasta groups (ps.map (withDb cd)) with
  | error e => rfl
  | ok ms =>
    have hl : ms.length = ps.length := by simpa using pepMaps_length _ fasta groups _ ms hms
    simp only [C09.liftErr]
    unfold ingestFilesCheckedD
    rw [hm, pairUpD_eq_zip _ _ (by simp [hl, hlen])]

/-! ### Non-vacuity for the glue section

Three evidence files searched with trypsin, trypsin, lys-c (everything else equal) — values partly repeated, the
shape in which a list "with repeated values collapsed" has neither length one nor length three. -/

private def exTryp : C09.Params := C09.mkParams "trypsin" "full" 5 60 0 "KR" false
private def exLysC : C09.Params := C09.mkParams "lys-c" "full" 5 60 0 "KR" false
private def exNoSpecial : C09.Params := C09.mkParams "no_enzyme" "full" 6 30 1 "none" true

example : ∀ p ∈ [exTryp, exTryp, exLysC, exNoSpecial], Constructed p := by
  intro p hp
  simp only [List.mem_cons, List.not_mem_nil, or_false] at hp
  rcases hp with rfl | rfl | rfl | rfl
  exacts [⟨_, _, _, _, _, _, _, rfl⟩, ⟨_, _, _, _, _, _, _, rfl⟩, ⟨_, _, _, _, _, _, _, rfl⟩, ⟨_, _, _, _, _, _, _, rfl⟩]

/-- what `digestion_params_list_to_arg_list` returns: one value per file, repeated values repeated; no special
    residues are rendered as the empty string -/
example : toArgv [exTryp, exTryp, exLysC] =
    ["--min-length", "5", "5", "5", "--max-length", "60", "60", "60", "--cleavages", "0", "0", "0",
     "--enzyme", "trypsin", "trypsin", "lys-c", "--digestion", "full", "full", "full",
     "--special-aas", "KR", "KR", "KR"] := by decide +kernel

example : toArgv [exNoSpecial] =
    ["--min-length", "6", "--max-length", "30", "--cleavages", "1", "--enzyme", "no_enzyme", "--digestion", "none",
     "--special-aas", ""] := by decide +kernel

/-- the round trip on the pattern, and on a set whose `db = target` is not carried -/
example : (throughGlue false [exTryp, exTryp, exLysC]).toOption = some [exTryp, exTryp, exLysC] := by decide +kernel
example : (throughGlue false [exTryp, exNoSpecial]).toOption = some [exTryp, withDb false exNoSpecial] := by
  decide +kernel
example : (throughGlue true [exNoSpecial]).toOption = some [exNoSpecial] := by decide +kernel

/-- what goes wrong without it: with the repeated enzyme passed once (`trypsin lys-c` for three files) the tool
    refuses; with EVERY option collapsed the same way only two parameter sets arrive -/
example : (C09.digestionParamsList { (toArgLists false [exTryp, exTryp, exLysC]) with enzyme := ["trypsin", "lys-c"] }).toOption
    = none := by decide +kernel
private def exCollapsed : C09.ArgLists where
  enzyme := ["trypsin", "lys-c"]
  digestion := ["full"]
  minL := [5]
  maxL := [60]
  mc := [0]
  special := ["KR"]
  containsDecoys := false

example : (C09.digestionParamsList exCollapsed).toOption = some [exTryp, exLysC] := by decide +kernel

/-- ingestion through the glue on the pattern: `PROTC = IIIIKLLRLLK`; `LLRLLK` is a lys-c peptide only, `IIIIK` is in
    every digest, `LLR` is too short.  File 3 (lys-c) contributes `LLRLLK`; read through a trypsin digest it would be
    skipped, and a list of two parameter sets would drop file 3 altogether. -/
private def exGlueFasta : List (List C09.Str) := [[">PROTC".toList, "IIIIKLLRLLK".toList]]
private def exGlueFiles : List (List RawRow) :=
  [ [ { pep := "_IIIIK_", mod := "", score := some (1/50), prot := ["x"], decoy := false },
      { pep := "_LLRLLK_", mod := "", score := some (1/10000), prot := ["x"], decoy := false } ],
    [ { pep := "_IIIIK_", mod := "", score := some (1/100), prot := ["x"], decoy := false } ],
    [ { pep := "_LLRLLK_", mod := "", score := some (1/500), prot := ["x"], decoy := false },
      { pep := "_IIIIK_", mod := "", score := some (1/1000), prot := ["x"], decoy := false } ] ]

example : ingestViaGlue exactT { format := .maxquant, remap := true } false [exTryp, exTryp, exLysC] false false false
      exGlueFasta none exGlueFiles =
    .ok [ { peptide := "IIIIK", pep := 1/1000, proteins := ["PROTC"] },
          { peptide := "LLRLLK", pep := 1/500, proteins := ["PROTC"] } ] := by decide +kernel

example : ingestOwnDigests exactT { format := .maxquant, remap := true } .firstSpace exGlueFasta none
      [exTryp, exTryp] exGlueFiles =
    .ok [ { peptide := "IIIIK", pep := 1/100, proteins := ["PROTC"] } ] := by decide +kernel

end PgFdr.C10
