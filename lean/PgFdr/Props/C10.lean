import PgFdr.Model.C10
namespace PgFdr.C10
theorem placeholder_partial : True := trivial
end PgFdr.C10
