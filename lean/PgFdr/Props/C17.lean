import PgFdr.Proofs.C17
import Mathlib.Tactic.IntervalCases

/-!
# C17 — PEP cutoff is the first PEP at which the running mean exceeds the FDR level

Property text (properties.jsonl): "For a list of posterior error probabilities and an FDR level,
the cutoff is the first value, in increasing order of the finite PEPs, at which the mean of the
PEPs up to and including it exceeds the level, or 1.0 if that never happens. Hence all PEPs
strictly below the cutoff have a mean of at most the level, the cutoff does not decrease when
the level is raised, and non-finite entries and the order of the list have no influence."

Only property theorems live here; helper lemmas are in `PgFdr/Proofs/C17.lean`, the executable
model (`cutoff`) in `PgFdr/Model/C17.lean`, tied to `fdr.calc_post_err_prob_cutoff` by the
correspondence of `harness/props/C17.py`.
-/
namespace PgFdr.C17

/-- "the cutoff is the first value, in increasing order of the finite PEPs, at which the mean of
    the PEPs up to and including it exceeds the level" -/
theorem cutoff_first_crossing (l : List PepVal) (level : Rat) (k : Nat)
    (hk : k < (sortAsc (finites l)).length)
    (hcross : level < mean ((sortAsc (finites l)).take (k + 1)))
    (hfirst : ∀ j, j < k → mean ((sortAsc (finites l)).take (j + 1)) ≤ level) :
    cutoff l level = (sortAsc (finites l)).getD k 0 := by
  unfold cutoff
  have hget : (sortAsc (finites l))[k]? = some ((sortAsc (finites l)).getD k 0) := by
    simp [List.getD, List.getElem?_eq_getElem hk]
  have : scan level 0 0 (sortAsc (finites l)) = some ((sortAsc (finites l)).getD k 0) := by
    rw [scan_some]
    refine ⟨k, hget, ?_, ?_⟩
    · rw [rmean_zero _ _ hk]; exact hcross
    · intro j hj; rw [rmean_zero _ _ (by omega)]; exact hfirst j hj
  rw [this]; rfl

/-- "… or 1.0 if that never happens" -/
theorem cutoff_never (l : List PepVal) (level : Rat)
    (h : ∀ j, j < (sortAsc (finites l)).length → mean ((sortAsc (finites l)).take (j + 1)) ≤ level) :
    cutoff l level = 1 := by
  unfold cutoff
  have : scan level 0 0 (sortAsc (finites l)) = none := by
    rw [scan_none]
    intro j hj; rw [rmean_zero _ _ hj]; exact h j hj
  rw [this]; rfl

/-- all PEPs strictly below the cutoff have a mean of at most the level -/
theorem below_cutoff_mean_le (l : List PepVal) (level : Rat)
    (hne : (finites l).filter (fun p => decide (p < cutoff l level)) ≠ []) :
    mean ((finites l).filter (fun p => decide (p < cutoff l level))) ≤ level := by
  generalize hc : cutoff l level = c at hne ⊢
  have hperm : ((finites l).filter (fun p => decide (p < c))).Perm
      ((sortAsc (finites l)).filter (fun p => decide (p < c))) :=
    ((sortAsc_perm (finites l)).filter _).symm
  have hmean : mean ((finites l).filter (fun p => decide (p < c))) =
      mean ((sortAsc (finites l)).filter (fun p => decide (p < c))) := by
    simp only [mean, hperm.sum_eq, hperm.length_eq]
  rw [hmean]
  unfold cutoff at hc
  generalize hL : sortAsc (finites l) = L at *
  have hs : L.Pairwise (· ≤ ·) := hL ▸ sortAsc_sorted _
  have hne' : L.filter (fun p => decide (p < c)) ≠ [] := by
    intro h0; exact hne (List.Perm.eq_nil (h0 ▸ hperm))
  rw [filter_lt_eq_take L hs c]
  generalize hj : (L.filter (fun p => decide (p < c))).length = j
  have hjpos : 0 < j := by rw [← hj]; exact List.length_pos_iff.mpr hne'
  have hjle : j ≤ L.length := by rw [← hj]; exact List.length_filter_le _ _
  have hidx : L.take j = L.take ((j - 1) + 1) := by congr 1; omega
  rw [hidx, ← rmean_zero L (j - 1) (by omega)]
  cases h1 : scan level 0 0 L with
  | none => exact (scan_none level L 0 0).mp h1 (j - 1) (by omega)
  | some a =>
    obtain ⟨k, hk, hlt, hfirst⟩ := (scan_some level L 0 0 a).mp h1
    rw [h1] at hc
    have hca : a = c := by simpa using hc
    apply hfirst
    by_contra hnot
    have hkj : k < j := by omega
    have hkl : k < L.length := by omega
    have hmemk : L[k] ∈ L.take j := by
      rw [List.mem_take_iff_getElem]
      exact ⟨k, by omega, rfl⟩
    rw [← hj, ← filter_lt_eq_take L hs c] at hmemk
    have hlt2 := (List.mem_filter.mp hmemk).2
    simp only [decide_eq_true_eq] at hlt2
    rw [List.getElem?_eq_getElem hkl] at hk
    have : L[k] = a := Option.some.inj hk
    linarith

/-- the cutoff does not decrease when the level is raised (PEPs in [0,1]) -/
theorem cutoff_monotone_in_level (l : List PepVal) (level level' : Rat) (hle : level ≤ level')
    (h01 : ∀ p ∈ finites l, 0 ≤ p ∧ p ≤ 1) : cutoff l level ≤ cutoff l level' := by
  unfold cutoff
  generalize hL : sortAsc (finites l) = L
  have hs : L.Pairwise (· ≤ ·) := hL ▸ sortAsc_sorted _
  have hmem : ∀ a ∈ L, a ≤ 1 := by
    intro a ha
    have : a ∈ finites l := (sortAsc_perm (finites l)).subset (hL ▸ ha)
    exact (h01 a this).2
  cases h1 : scan level 0 0 L with
  | none =>
    have hn := (scan_none level L 0 0).mp h1
    have : scan level' 0 0 L = none := by
      rw [scan_none]; intro j hj; exact le_trans (hn j hj) hle
    rw [this]
  | some a =>
    obtain ⟨k, hk, hlt, hfirst⟩ := (scan_some level L 0 0 a).mp h1
    have hkl : k < L.length := by
      by_contra hnot
      rw [List.getElem?_eq_none (by omega)] at hk; simp at hk
    cases h2 : scan level' 0 0 L with
    | none =>
      simp only [Option.getD_some, Option.getD_none]
      exact hmem a (List.mem_of_getElem? hk)
    | some a' =>
      obtain ⟨k', hk', hlt', hfirst'⟩ := (scan_some level' L 0 0 a').mp h2
      have hkl' : k' < L.length := by
        by_contra hnot
        rw [List.getElem?_eq_none (by omega)] at hk'; simp at hk'
      have hkk : k ≤ k' := by
        by_contra hnot
        have hlt2 : k' < k := by omega
        have := hfirst k' hlt2
        linarith
      simp only [Option.getD_some]
      have ha : a = L.getD k 0 := by simp [List.getD, hk]
      have ha' : a' = L.getD k' 0 := by simp [List.getD, hk']
      rw [ha, ha']
      exact sorted_getD_le L hs k k' hkk hkl'

/-- "… the order of the list [has] no influence" -/
theorem cutoff_perm_invariant (l l' : List PepVal) (level : Rat) (h : l.Perm l') :
    cutoff l level = cutoff l' level := by
  unfold cutoff
  rw [sortAsc_congr (finites_perm h)]

/-- "non-finite entries … have no influence" (anywhere in the list, by `cutoff_perm_invariant`) -/
theorem cutoff_ignores_nonfinite (l : List PepVal) (level : Rat) :
    cutoff (l ++ [.nan]) level = cutoff l level ∧ cutoff (.inf :: l) level = cutoff l level := by
  constructor
  · unfold cutoff; rw [finites_append]; simp [finites]
  · unfold cutoff; simp [finites]

/-! Non-vacuity: a concrete input meeting the hypotheses of `cutoff_first_crossing`,
`below_cutoff_mean_le` and `cutoff_monotone_in_level` (finite part already ascending, a NaN and an
inf in between; running means 1/1000, 1/1000, 203/3000 > 1/100, so rank 2 is the first crossing). -/

private def ex : List PepVal := [.fin (1/1000), .nan, .fin (1/1000), .inf, .fin (1/5)]

private theorem ex_sorted : sortAsc (finites ex) = [1/1000, 1/1000, 1/5] := by
  have : finites ex = [1/1000, 1/1000, 1/5] := rfl
  rw [this]; apply sortAsc_of_sorted; decide +kernel

example : cutoff ex (1/100) = 1/5 := by
  have h := cutoff_first_crossing ex (1/100) 2 (by rw [ex_sorted]; decide)
    (by rw [ex_sorted]; decide +kernel) (by intro j hj; rw [ex_sorted]; interval_cases j <;> decide +kernel)
  rw [h, ex_sorted]; rfl

example : (finites ex).filter (fun p => decide (p < (1/5 : Rat))) ≠ [] := by decide +kernel

example : ∀ p ∈ finites ex, 0 ≤ p ∧ p ≤ 1 := by
  have : finites ex = [1/1000, 1/1000, 1/5] := rfl
  rw [this]; decide +kernel

end PgFdr.C17
