import PgFdr.Proofs.C17
import PgFdr.Proofs.C17Lists
import Mathlib.Tactic.IntervalCases

/-!
# C17 — PEP cutoff is the first PEP at which the running mean exceeds the FDR level

Property text (properties.jsonl): "For a list of posterior error probabilities and an FDR level,
the cutoff is the first value, in increasing order of the finite PEPs, at which the mean of the
PEPs up to and including it exceeds the level, or 1.0 if that never happens. Hence all PEPs
strictly below the cutoff have a mean of at most the level, the cutoff does not decrease when
the level is raised, and non-finite entries and the order of the list have no influence."

Only property theorems live here; helper lemmas are in `PgFdr/Proofs/C17.lean`, the executable
model (`cutoff`) in `PgFdr/Model/C17.lean`, tied to `fdr.calc_post_err_prob_cutoff` by the
correspondence of `harness/props/C17.py`.
-/
namespace PgFdr.C17

/-- "the cutoff is the first value, in increasing order of the finite PEPs, at which the mean of
    the PEPs up to and including it exceeds the level" -/
theorem cutoff_first_crossing (l : List PepVal) (level : Rat) (k : Nat)
    (hk : k < (sortAsc (finites l)).length)
    (hcross : level < mean ((sortAsc (finites l)).take (k + 1)))
    (hfirst : ∀ j, j < k → mean ((sortAsc (finites l)).take (j + 1)) ≤ level) :
    cutoff l level = (sortAsc (finites l)).getD k 0 := by
  unfold cutoff
  have hget : (sortAsc (finites l))[k]? = some ((sortAsc (finites l)).getD k 0) := by
    simp [List.getD, List.getElem?_eq_getElem hk]
  have : scan level 0 0 (sortAsc (finites l)) = some ((sortAsc (finites l)).getD k 0) := by
    rw [scan_some]
    refine ⟨k, hget, ?_, ?_⟩
    · rw [rmean_zero _ _ hk]; exact hcross
    · intro j hj; rw [rmean_zero _ _ (by omega)]; exact hfirst j hj
  rw [this]; rfl

/-- "… or 1.0 if that never happens" -/
theorem cutoff_never (l : List PepVal) (level : Rat)
    (h : ∀ j, j < (sortAsc (finites l)).length → mean ((sortAsc (finites l)).take (j + 1)) ≤ level) :
    cutoff l level = 1 := by
  unfold cutoff
  have : scan level 0 0 (sortAsc (finites l)) = none := by
    rw [scan_none]
    intro j hj; rw [rmean_zero _ _ hj]; exact h j hj
  rw [this]; rfl

/-- all PEPs strictly below the cutoff have a mean of at most the level -/
theorem below_cutoff_mean_le (l : List PepVal) (level : Rat)
    (hne : (finites l).filter (fun p => decide (p < cutoff l level)) ≠ []) :
    mean ((finites l).filter (fun p => decide (p < cutoff l level))) ≤ level := by
  generalize hc : cutoff l level = c at hne ⊢
  have hperm : ((finites l).filter (fun p => decide (p < c))).Perm
      ((sortAsc (finites l)).filter (fun p => decide (p < c))) :=
    ((sortAsc_perm (finites l)).filter _).symm
  have hmean : mean ((finites l).filter (fun p => decide (p < c))) =
      mean ((sortAsc (finites l)).filter (fun p => decide (p < c))) := by
    simp only [mean, hperm.sum_eq, hperm.length_eq]
  rw [hmean]
  unfold cutoff at hc
  generalize hL : sortAsc (finites l) = L at *
  have hs : L.Pairwise (· ≤ ·) := hL ▸ sortAsc_sorted _
  have hne' : L.filter (fun p => decide (p < c)) ≠ [] := by
    intro h0; exact hne (List.Perm.eq_nil (h0 ▸ hperm))
  rw [filter_lt_eq_take L hs c]
  generalize hj : (L.filter (fun p => decide (p < c))).length = j
  have hjpos : 0 < j := by rw [← hj]; exact List.length_pos_iff.mpr hne'
  have hjle : j ≤ L.length := by rw [← hj]; exact List.length_filter_le _ _
  have hidx : L.take j = L.take ((j - 1) + 1) := by congr 1; omega
  rw [hidx, ← rmean_zero L (j - 1) (by omega)]
  cases h1 : scan level 0 0 L with
  | none => exact (scan_none level L 0 0).mp h1 (j - 1) (by omega)
  | some a =>
    obtain ⟨k, hk, hlt, hfirst⟩ := (scan_some level L 0 0 a).mp h1
    rw [h1] at hc
    have hca : a = c := by simpa using hc
    apply hfirst
    by_contra hnot
    have hkj : k < j := by omega
    have hkl : k < L.length := by omega
    have hmemk : L[k] ∈ L.take j := by
      rw [List.mem_take_iff_getElem]
      exact ⟨k, by omega, rfl⟩
    rw [← hj, ← filter_lt_eq_take L hs c] at hmemk
    have hlt2 := (List.mem_filter.mp hmemk).2
    simp only [decide_eq_true_eq] at hlt2
    rw [List.getElem?_eq_getElem hkl] at hk
    have : L[k] = a := Option.some.inj hk
    linarith

/-- the cutoff does not decrease when the level is raised (PEPs in [0,1]) -/
theorem cutoff_monotone_in_level (l : List PepVal) (level level' : Rat) (hle : level ≤ level')
    (h01 : ∀ p ∈ finites l, 0 ≤ p ∧ p ≤ 1) : cutoff l level ≤ cutoff l level' := by
  unfold cutoff
  generalize hL : sortAsc (finites l) = L
  have hs : L.Pairwise (· ≤ ·) := hL ▸ sortAsc_sorted _
  have hmem : ∀ a ∈ L, a ≤ 1 := by
    intro a ha
    have : a ∈ finites l := (sortAsc_perm (finites l)).subset (hL ▸ ha)
    exact (h01 a this).2
  cases h1 : scan level 0 0 L with
  | none =>
    have hn := (scan_none level L 0 0).mp h1
    have : scan level' 0 0 L = none := by
      rw [scan_none]; intro j hj; exact le_trans (hn j hj) hle
    rw [this]
  | some a =>
    obtain ⟨k, hk, hlt, hfirst⟩ := (scan_some level L 0 0 a).mp h1
    have hkl : k < L.length := by
      by_contra hnot
      rw [List.getElem?_eq_none (by omega)] at hk; simp at hk
    cases h2 : scan level' 0 0 L with
    | none =>
      simp only [Option.getD_some, Option.getD_none]
      exact hmem a (List.mem_of_getElem? hk)
    | some a' =>
      obtain ⟨k', hk', hlt', hfirst'⟩ := (scan_some level' L 0 0 a').mp h2
      have hkl' : k' < L.length := by
        by_contra hnot
        rw [List.getElem?_eq_none (by omega)] at hk'; simp at hk'
      have hkk : k ≤ k' := by
        by_contra hnot
        have hlt2 : k' < k := by omega
        have := hfirst k' hlt2
        linarith
      simp only [Option.getD_some]
      have ha : a = L.getD k 0 := by simp [List.getD, hk]
      have ha' : a' = L.getD k' 0 := by simp [List.getD, hk']
      rw [ha, ha']
      exact sorted_getD_le L hs k k' hkk hkl'

/-- "… the order of the list [has] no influence" -/
theorem cutoff_perm_invariant (l l' : List PepVal) (level : Rat) (h : l.Perm l') :
    cutoff l level = cutoff l' level := by
  unfold cutoff
  rw [sortAsc_congr (finites_perm h)]

/-- "non-finite entries … have no influence" (anywhere in the list, by `cutoff_perm_invariant`) -/
theorem cutoff_ignores_nonfinite (l : List PepVal) (level : Rat) :
    cutoff (l ++ [.nan]) level = cutoff l level ∧ cutoff (.inf :: l) level = cutoff l level := by
  constructor
  · unfold cutoff; rw [finites_append]; simp [finites]
  · unfold cutoff; simp [finites]

/-! Non-vacuity: a concrete input meeting the hypotheses of `cutoff_first_crossing`,
`below_cutoff_mean_le` and `cutoff_monotone_in_level` (finite part already ascending, a NaN and an
inf in between; running means 1/1000, 1/1000, 203/3000 > 1/100, so rank 2 is the first crossing). -/

private def ex : List PepVal := [.fin (1/1000), .nan, .fin (1/1000), .inf, .fin (1/5)]

private theorem ex_sorted : sortAsc (finites ex) = [1/1000, 1/1000, 1/5] := by
  have : finites ex = [1/1000, 1/1000, 1/5] := rfl
  rw [this]; apply sortAsc_of_sorted; decide +kernel

example : cutoff ex (1/100) = 1/5 := by
  have h := cutoff_first_crossing ex (1/100) 2 (by rw [ex_sorted]; decide)
    (by rw [ex_sorted]; decide +kernel) (by intro j hj; rw [ex_sorted]; interval_cases j <;> decide +kernel)
  rw [h, ex_sorted]; rfl

example : (finites ex).filter (fun p => decide (p < (1/5 : Rat))) ≠ [] := by decide +kernel

example : ∀ p ∈ finites ex, 0 ≤ p ∧ p ≤ 1 := by
  have : finites ex = [1/1000, 1/1000, 1/5] := rfl
  rw [this]; decide +kernel

/-! ## Which list the callers hand to the cutoff (Model/C17Lists.lean)

"For a list of posterior error probabilities …": the statements above hold for every list.  The two callers
named in the property's anchors build that list themselves; the theorems below say WHICH list it is —
one PEP per target, non-match-between-runs peptide that is evidence of any group, for every shared-peptide
setting (`collectPeps`), and the PEPs of the target rows of ALL input files for the quantification entry points
(`quantPeps`, `writerPeps`) — and lift "the order of the list [has] no influence" and "non-finite entries …
have no influence" to the order of the peptide list, the grouping, and the order of the files. -/

/-- the list handed to the cutoff by `collect_peptide_scores_per_protein` holds, in peptide-list order, exactly one
    PEP per contributing peptide (target after `filter_proteins`, not NaN, evidence of at least one group) — not one
    per group the peptide is evidence of -/
theorem collect_one_pep_per_peptide (groups : List (List String)) (pil : List Row) (rz : Option C05.Razor)
    (s u : Bool) (l : List PepVal) (h : collectPeps groups pil rz s u = .ok l) :
    l = (pil.filter (contributes groups rz u)).map (·.score) ∧
      l.length = (pil.filter (contributes groups rz u)).length := by
  have h1 : l = pil.filterMap (pepOf groups rz u) := by
    simpa using loopPeps_ok groups rz s u pil [] l h
  have h2 : ∀ q : List Row, q.filterMap (pepOf groups rz u) = (q.filter (contributes groups rz u)).map (·.score) := by
    intro q
    induction q with
    | nil => rfl
    | cons x xs ih =>
      rw [List.filterMap_cons, List.filter_cons, pepOf_eq_ite]
      by_cases hc : contributes groups rz u x = true <;> simp [hc, ih]
  rw [h1, h2]; simp

/-- the collection succeeds exactly when no peptide makes the loop raise (razor on an empty protein list; no
    known protein while the warning is not suppressed); in particular always without razor and with the warning
    suppressed -/
theorem collect_succeeds (groups : List (List String)) (pil : List Row) (rz : Option C05.Razor) (s u : Bool)
    (h : ∀ x ∈ pil, rowOk groups rz s x) :
    collectPeps groups pil rz s u = .ok ((pil.filter (contributes groups rz u)).map (·.score)) := by
  have h1 := loopPeps_of_rowOk groups rz s u pil [] h
  have := collect_one_pep_per_peptide groups pil rz s u _ h1
  unfold collectPeps
  rw [h1]; congr 1; exact this.1

/-- with shared peptides a peptide contributes iff SOME listed protein is a member of SOME group (and it is a
    target with a PEP): neither the number of groups it is evidence of nor which groups they are matters -/
theorem withShared_contributes_iff (groups : List (List String)) (x : Row) :
    contributes groups none true x = (known groups x.proteins && !isDecoy x.proteins && !x.score.isNan) := by
  unfold contributes pepOf pepOfFiltered
  simp only [C05.filterProteins, reaches_true_eq]
  cases known groups x.proteins <;> cases isDecoy x.proteins <;> cases x.score.isNan <;> simp

/-- "the PEP list does not depend on the grouping": two groupings with the same member proteins give the same
    result (the same list, or the same refusal) when shared peptides are used -/
theorem withShared_grouping_independent (groups groups' : List (List String)) (pil : List Row) (s : Bool)
    (hsame : ∀ p, (∃ g ∈ groups, p ∈ g) ↔ (∃ g ∈ groups', p ∈ g)) :
    collectPeps groups pil none s true = collectPeps groups' pil none s true := by
  have hk : ∀ prots, known groups prots = known groups' prots := by
    intro prots
    have a := known_iff groups prots
    have b := known_iff groups' prots
    have : (∃ p ∈ prots, ∃ g ∈ groups, p ∈ g) ↔ (∃ p ∈ prots, ∃ g ∈ groups', p ∈ g) := by
      constructor
      · rintro ⟨p, hp, h⟩; exact ⟨p, hp, (hsame p).mp h⟩
      · rintro ⟨p, hp, h⟩; exact ⟨p, hp, (hsame p).mpr h⟩
    exact Bool.eq_iff_iff.mpr (by rw [a, b]; exact this)
  have hm : ∀ prots, C05.isMissing (C05.groupIdxs groups prots) = C05.isMissing (C05.groupIdxs groups' prots) := by
    intro prots
    have a := reaches_true_eq groups prots
    have b := reaches_true_eq groups' prots
    unfold reaches at a b
    simp only [Bool.true_or, Bool.and_true] at a b
    have := hk prots
    rw [← a, ← b] at this
    cases h1 : C05.isMissing (C05.groupIdxs groups prots) <;>
      cases h2 : C05.isMissing (C05.groupIdxs groups' prots) <;> simp_all
  have hstep : ∀ acc x, stepPeps groups none s true acc x = stepPeps groups' none s true acc x := by
    intro acc x
    unfold stepPeps pepOfFiltered
    simp only [C05.filterProteins, reaches_true_eq, hk, hm]
  unfold collectPeps
  generalize ([] : List PepVal) = acc
  induction pil generalizing acc with
  | nil => rfl
  | cons x xs ih =>
    simp only [loopPeps, hstep]
    cases stepPeps groups' none s true acc x with
    | error e => rfl
    | ok acc' => exact ih acc'

/-- "hence the cutoff is the same for discard / razor / with_shared whenever the set of contributing peptides is
    the same": any two settings (grouping, razor data, shared-peptide switch, warning switch) under which the same
    peptides contribute hand the same list to the cutoff and store the same cutoff -/
theorem cutoff_same_when_same_contributors (groups groups' : List (List String)) (pil : List Row)
    (rz rz' : Option C05.Razor) (s s' u u' : Bool) (level : Rat) (l l' : List PepVal)
    (h : collectPeps groups pil rz s u = .ok l) (h' : collectPeps groups' pil rz' s' u' = .ok l')
    (hsame : ∀ x ∈ pil, contributes groups rz u x = contributes groups' rz' u' x) :
    l = l' ∧ collectCutoff groups pil rz s u level = collectCutoff groups' pil rz' s' u' level := by
  have a := (collect_one_pep_per_peptide groups pil rz s u l h).1
  have b := (collect_one_pep_per_peptide groups' pil rz' s' u' l' h').1
  have : pil.filter (contributes groups rz u) = pil.filter (contributes groups' rz' u') :=
    List.filter_congr hsame
  have hl : l = l' := by rw [a, b, this]
  refine ⟨hl, ?_⟩
  unfold collectCutoff
  rw [h, h', hl]

/-- every peptide that contributes when shared peptides are discarded also contributes when they are used: the
    discard list is a sublist of the with_shared list (same grouping, no razor) -/
theorem discard_sublist_withShared (groups : List (List String)) (pil : List Row) (s s' : Bool)
    (l l' : List PepVal) (h : collectPeps groups pil none s false = .ok l)
    (h' : collectPeps groups pil none s' true = .ok l') : l.Sublist l' := by
  rw [(collect_one_pep_per_peptide groups pil none s false l h).1,
    (collect_one_pep_per_peptide groups pil none s' true l' h').1]
  apply List.Sublist.map
  apply List.monotone_filter_right
  intro x hx
  unfold contributes pepOf pepOfFiltered at *
  simp only [C05.filterProteins] at *
  by_cases hr : reaches groups false x.proteins = true
  · have := reaches_false_imp_true groups x.proteins hr
    rw [hr] at hx; rw [this]; exact hx
  · simp [hr] at hx

/-- "the order of the list [has] no influence", lifted to the peptide list: reordering the peptides (fixed razor
    data) does not change the stored cutoff -/
theorem collect_order_irrelevant (groups : List (List String)) (pil pil' : List Row) (rz : Option C05.Razor)
    (s u : Bool) (level : Rat) (l l' : List PepVal) (hp : pil.Perm pil')
    (h : collectPeps groups pil rz s u = .ok l) (h' : collectPeps groups pil' rz s u = .ok l') :
    cutoff l level = cutoff l' level := by
  apply cutoff_perm_invariant
  rw [(collect_one_pep_per_peptide groups pil rz s u l h).1,
    (collect_one_pep_per_peptide groups pil' rz s u l' h').1]
  exact (hp.filter _).map _

/-- the quantification writer drops the match-between-runs (NaN) PEPs before it calls the cutoff; by "non-finite
    entries … have no influence" that changes nothing -/
theorem writer_cutoff_eq (l : List PepVal) (level : Rat) : writerCutoff l level = cutoff l level := by
  unfold writerCutoff cutoff
  rw [finites_writerPeps]

/-- the quantification entry points compute ONE cutoff from the rows of ALL input files: the list is the list a
    single file holding all rows (in file order) would give -/
theorem quant_list_is_all_rows (groups : List (List String)) (u : Bool) (files : List (List Row)) (level : Rat) :
    quantPeps groups u files = filePeps groups u files.flatten ∧
      quantCutoff groups u files level = quantCutoff groups u [files.flatten] level := by
  have h := quantPeps_eq_filePeps_flatten groups u files
  refine ⟨h, ?_⟩
  unfold quantCutoff
  rw [h, quantPeps_eq_filePeps_flatten groups u [files.flatten]]
  simp

/-- "the order of the list [has] no influence", lifted to the files: the cutoff is the same in whatever order
    the files are given -/
theorem quant_cutoff_file_order (groups : List (List String)) (u : Bool) (files files' : List (List Row))
    (level : Rat) (h : files.Perm files') :
    quantCutoff groups u files level = quantCutoff groups u files' level := by
  unfold quantCutoff writerCutoff
  apply cutoff_perm_invariant
  apply writerPeps_perm
  unfold quantPeps
  exact (h.map _).flatten

/-- a single file: the cutoff of that file's list -/
theorem quant_cutoff_single_file (groups : List (List String)) (u : Bool) (f : List Row) (level : Rat) :
    quantCutoff groups u [f] level = cutoff (filePeps groups u f) level := by
  unfold quantCutoff
  rw [writer_cutoff_eq]
  simp [quantPeps]

/-- every file's PEPs take part: a finite value occurs in the list the cutoff scans as often as it occurs in all
    the files' lists together -/
theorem quant_every_file_counts (groups : List (List String)) (u : Bool) (files : List (List Row)) (v : Rat) :
    (finites (writerPeps (quantPeps groups u files))).count v =
      (files.map (fun f => (finites (filePeps groups u f)).count v)).sum := by
  rw [finites_writerPeps]
  unfold quantPeps
  rw [finites_flatten, List.count_flatten]
  simp [List.map_map, Function.comp_def]

/-- the cutoff of the files is the cutoff of the sorted merge of the files' finite PEPs -/
theorem quant_cutoff_sorted_merge (groups : List (List String)) (u : Bool) (files : List (List Row)) (level : Rat) :
    quantCutoff groups u files level =
      (scan level 0 0 (sortAsc ((files.map (fun f => finites (filePeps groups u f))).flatten))).getD 1 := by
  unfold quantCutoff
  rw [writer_cutoff_eq]
  unfold cutoff quantPeps
  rw [finites_flatten]
  simp [List.map_map, Function.comp_def]

/-- what the writer keeps of a file's list is what the peptide-level collection (no razor, warning suppressed) would
    collect from the same rows: all statements about `collectPeps` apply to every file's part -/
theorem quant_file_is_collect (groups : List (List String)) (u : Bool) (rows : List Row) :
    collectPeps groups rows none true u = .ok (writerPeps (filePeps groups u rows)) := by
  rw [writerPeps_filePeps]
  have := loopPeps_of_rowOk groups none true u rows [] (fun x _ => rowOk_none_true groups x)
  simpa [collectPeps] using this

/-! Non-vacuity.  (1) One peptide shared by three groups, two unique peptides, one decoy, level 1/100: with
shared peptides the list is `[1/250, 3/250, 1/50]` (means 1/250, 1/125, 3/250 > 1/100: cutoff 1/50); with one
copy per supported group it would be `[1/250, 1/250, 1/250, 3/250, 1/50]` (means … 6/625, no crossing: 1).
(2) Two files whose joint cutoff differs from the cutoff of either file alone. -/

private def exG : List (List String) := [["protA"], ["protB"], ["protC"], ["REV__protA"]]
private def exPil : List Row :=
  [⟨"SHAREDK", .fin (1/250), ["protA", "protB", "protC"]⟩, ⟨"UNIQUEAK", .fin (3/250), ["protA"]⟩,
   ⟨"MBRK", .nan, ["protB"]⟩, ⟨"UNIQUECK", .fin (1/50), ["protC"]⟩, ⟨"DECOYK", .fin (1/1000), ["REV__protA"]⟩]

example : collectPeps exG exPil none false true = .ok [.fin (1/250), .fin (3/250), .fin (1/50)] := by decide +kernel
example : collectPeps exG exPil none false false = .ok [.fin (3/250), .fin (1/50)] := by decide +kernel
example : copies exG true ["protA", "protB", "protC"] = 3 ∧ copies exG false ["protA", "protB", "protC"] = 0 := by
  decide +kernel
example : ∀ x ∈ exPil, rowOk exG none false x := by
  intro x hx
  refine ⟨x.proteins, rfl, ?_⟩
  revert x; decide +kernel

example : cutoff [.fin (1/250), .fin (3/250), .fin (1/50)] (1/100) = 1/50 := by
  have hs : sortAsc (finites [.fin (1/250), .fin (3/250), .fin (1/50)]) = [1/250, 3/250, 1/50] := by
    have : finites [.fin (1/250), .fin (3/250), .fin (1/50)] = [1/250, 3/250, 1/50] := rfl
    rw [this]; apply sortAsc_of_sorted; decide +kernel
  have h := cutoff_first_crossing [.fin (1/250), .fin (3/250), .fin (1/50)] (1/100) 2 (by rw [hs]; decide)
    (by rw [hs]; decide +kernel) (by intro j hj; rw [hs]; interval_cases j <;> decide +kernel)
  rw [h, hs]; rfl

example : cutoff [.fin (1/250), .fin (1/250), .fin (1/250), .fin (3/250), .fin (1/50)] (1/100) = 1 := by
  have hs : sortAsc (finites [.fin (1/250), .fin (1/250), .fin (1/250), .fin (3/250), .fin (1/50)])
      = [1/250, 1/250, 1/250, 3/250, 1/50] := by
    have : finites [.fin (1/250), .fin (1/250), .fin (1/250), .fin (3/250), .fin (1/50)]
        = [1/250, 1/250, 1/250, 3/250, 1/50] := rfl
    rw [this]; apply sortAsc_of_sorted; decide +kernel
  apply cutoff_never
  intro j hj; rw [hs] at hj ⊢
  simp only [List.length_cons, List.length_nil] at hj
  interval_cases j <;> decide +kernel

private def exFileA : List Row :=
  [⟨"PEPAK", .fin (1/1000), ["protA"]⟩, ⟨"PEPBK", .fin (1/50), ["protB"]⟩, ⟨"MBRK", .nan, ["protC"]⟩,
   ⟨"DECOYK", .fin (1/10), ["REV__protA"]⟩, ⟨"SHAREDK", .fin (1/2), ["protA", "protB"]⟩]
private def exFileB : List Row := [⟨"PEPCK", .fin (1/20), ["protC"]⟩, ⟨"UNKNOWNK", .fin (4/5), ["protZ"]⟩]

example : quantPeps exG false [exFileA, exFileB] = [.fin (1/1000), .fin (1/50), .nan, .fin (1/20)] := by decide +kernel
example : writerPeps (quantPeps exG false [exFileA, exFileB]) = [.fin (1/1000), .fin (1/50), .fin (1/20)] := by
  decide +kernel
example : [exFileA, exFileB].Perm [exFileB, exFileA] := List.Perm.swap _ _ _

/-- both files at level 1/50: means 1/1000, 21/2000, 71/3000 > 1/50 → 1/20, a PEP of the SECOND file … -/
example : quantCutoff exG false [exFileA, exFileB] (1/50) = 1/20 := by
  rw [quant_cutoff_sorted_merge]
  have hs : sortAsc (([exFileA, exFileB].map (fun f => finites (filePeps exG false f))).flatten)
      = [1/1000, 1/50, 1/20] := by
    have : ([exFileA, exFileB].map (fun f => finites (filePeps exG false f))).flatten = [1/1000, 1/50, 1/20] := by
      decide +kernel
    rw [this]; apply sortAsc_of_sorted; decide +kernel
  rw [hs]; decide +kernel

/-- … while the first file alone never crosses and the second alone crosses at once -/
example : quantCutoff exG false [exFileA] (1/50) = 1 ∧ quantCutoff exG false [exFileB] (1/50) = 1/20 := by
  constructor
  · rw [quant_cutoff_sorted_merge]
    have hs : sortAsc (([exFileA].map (fun f => finites (filePeps exG false f))).flatten) = [1/1000, 1/50] := by
      have : ([exFileA].map (fun f => finites (filePeps exG false f))).flatten = [1/1000, 1/50] := by decide +kernel
      rw [this]; apply sortAsc_of_sorted; decide +kernel
    rw [hs]; decide +kernel
  · rw [quant_cutoff_sorted_merge]
    have hs : sortAsc (([exFileB].map (fun f => finites (filePeps exG false f))).flatten) = [1/20] := by
      have : ([exFileB].map (fun f => finites (filePeps exG false f))).flatten = [1/20] := by decide +kernel
      rw [this]; apply sortAsc_of_sorted; decide +kernel
    rw [hs]; decide +kernel

end PgFdr.C17
