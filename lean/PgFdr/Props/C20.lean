import PgFdr.Proofs.C20

/-!
# C20 — protein-group lookups never return stale or foreign groups

Property text (properties.jsonl): "After any sequence of additions, merges and clean-ups on a
protein-group collection, a lookup by protein either fails loudly because the index has not been
rebuilt since the last change, or returns exactly the group (or group position) that currently
contains that protein. A protein contained in no group is reported as missing and is never mapped to
an existing group."

The executable model is `PgFdr/Model/C20.lean` (`PG`, `step`, `run`, the lookups), tied to
`picked_group_fdr.protein_groups.ProteinGroups` by the step-by-step correspondence of
`harness/props/C20.py`.  `Reachable pg` (Proofs/C20.lean) = `pg` is produced by one of the three
constructors of the class (`ProteinGroups()`, `ProteinGroups(gs)`, `init_from_list(gs)`) followed by
any finite history of method calls; `run init ops` is such a state for every `ops`.
`getGroups` is the repaired `get_protein_groups` (the −1 marker is dropped, not used as a position).
The history alphabet `Op` contains, besides the methods of the class, the package's other mutating
callers of a collection: `RescuedGrouping.update_protein_groups` (`Op.updateRescued`) and
`ConnectedProteinGraphs.get_connected_proteins` / `decouple_connected_proteins`
(`Op.mergeComponents`), and the package's READERS of a collection (`Op.read`: result rows, competition,
score collection, their chain in `get_protein_group_results`, precursor quantification — no-op steps that
may only fail loudly); `RescuedGrouping.merge_with_rescued_protein_groups` is `Op.addUnseen` with the
groups of a second live collection as argument, `ObservedPeptides.generate_protein_groups` is proved to be
a history of this machine in `Props/C03.lean` (`generatePG`).
-/
set_option linter.unusedSectionVars false
namespace PgFdr.C20
variable {P : Type} [DecidableEq P]

/-- the invariant "a valid index is the index of the current groups" holds for a new collection -/
theorem inv_init : Inv (init : PG P) := inv_init'

/-- "after any sequence of additions, merges and clean-ups …": every method preserves the invariant -/
theorem inv_step (pg : PG P) (op : Op P) (h : Inv pg) : Inv (step pg op).1 := inv_step' pg op h

/-- "after any sequence …": the invariant (and the range invariant of the possibly stale index) holds
    after every history, from every constructor -/
theorem inv_reachable (ops : List (Op P)) :
    Inv (run (init : PG P) ops) ∧ InRange (run (init : PG P) ops) ∧
    (∀ gs : List (List P), Inv (run (ofList gs) ops) ∧ InRange (run (ofList gs) ops)) ∧
    (∀ pg : PG P, Reachable pg → Inv pg ∧ InRange pg) :=
  ⟨(reachable_inv _ (reachable_run ops _ .init)).1, (reachable_inv _ (reachable_run ops _ .init)).2,
   fun gs => reachable_inv _ (reachable_run ops _ (.ofList gs)), reachable_inv⟩

/-- "a lookup by protein … returns exactly the group (or group position) that currently contains
    that protein": an answered default lookup returns a current group that contains the protein, at
    the position the index lookup reports -/
theorem lookup_sound (ops : List (Op P)) (p : P) (g : List P)
    (h : getGroup (run (init : PG P) ops) p = .ok g) :
    p ∈ g ∧ g ∈ (run (init : PG P) ops).groups ∧
    ∃ i, getIdx (run (init : PG P) ops) p = .ok i ∧ (run (init : PG P) ops).groups[i]? = some g := by
  have hinv := (reachable_inv _ (reachable_run ops _ (.init : Reachable (init : PG P)))).1
  obtain ⟨hp, i, hi, hg⟩ := getGroup_sound _ hinv p g h
  exact ⟨hp, List.mem_of_getElem? hg, i, hi, hg⟩

/-- the same for every reachable state, and for the position lookup on its own -/
theorem lookup_sound_reachable (pg : PG P) (hr : Reachable pg) (p : P) :
    (∀ g, getGroup pg p = .ok g → p ∈ g ∧ g ∈ pg.groups) ∧
    (∀ i, getIdx pg p = .ok i → ∃ g, pg.groups[i]? = some g ∧ p ∈ g) := by
  have hinv := (reachable_inv pg hr).1
  refine ⟨fun g h => ?_, fun i h => getIdx_sound pg hinv p i h⟩
  obtain ⟨hp, i, _, hg⟩ := getGroup_sound pg hinv p g h
  exact ⟨hp, List.mem_of_getElem? hg⟩

/-- "… either fails loudly because the index has not been rebuilt since the last change, or …":
    a default lookup fails only with the invalid-index error (and then the flag is down) or with the
    unknown-protein error (and then no group contains the protein) — in particular never with an
    out-of-range position -/
theorem lookup_fails_only_loudly (pg : PG P) (hr : Reachable pg) (p : P) (e : Err)
    (h : getGroup pg p = .error e) :
    (e = .invalidIndex ∧ pg.valid = false) ∨ (e = .unknownProtein ∧ ∀ g ∈ pg.groups, p ∉ g) :=
  getGroup_error pg (reachable_inv pg hr).1 p e h

/-- "exactly the group": when the groups are pairwise disjoint the answered group is the only group
    containing the protein -/
theorem lookup_exact (pg : PG P) (hr : Reachable pg) (p : P) (g : List P)
    (hdisj : ∀ g₁ ∈ pg.groups, ∀ g₂ ∈ pg.groups, p ∈ g₁ → p ∈ g₂ → g₁ = g₂)
    (h : getGroup pg p = .ok g) : ∀ g' ∈ pg.groups, p ∈ g' → g' = g := by
  obtain ⟨hp, hg⟩ := (lookup_sound_reachable pg hr p).1 g h
  intro g' hg' hp'
  exact hdisj g' hg' g hg hp' hp

/-- "every mutating operation invalidates the index, every lookup honours the flag": after `append`,
    `extend` and a `merge_groups` that changed the collection the flag is down and every default lookup
    (single, positions, groups, helpers) fails with the invalid-index error -/
theorem mutators_invalidate (pg : PG P) (op : Op P)
    (hop : (∃ g, op = .append g) ∨ (∃ gs, op = .extend gs) ∨
           (∃ sup p pg', op = .merge sup p ∧ mergeGroups pg sup p = .ok pg') ∨
           (∃ obs, op = .updateRescued obs)) :
    (step pg op).1.valid = false ∧
    (∀ p, getGroup (step pg op).1 p = .error .invalidIndex) ∧
    (∀ p, getIdx (step pg op).1 p = .error .invalidIndex) ∧
    (∀ ps, getIdxs (step pg op).1 ps = .error .invalidIndex) ∧
    (∀ ps, getGroups (step pg op).1 ps = .error .invalidIndex) ∧
    (∀ p ps, getLeading (step pg op).1 (p :: ps) = .error .invalidIndex) := by
  have key : ∀ s : PG P, s.valid = false →
      (∀ p, getGroup s p = .error .invalidIndex) ∧ (∀ p, getIdx s p = .error .invalidIndex) ∧
      (∀ ps, getIdxs s ps = .error .invalidIndex) ∧ (∀ ps, getGroups s ps = .error .invalidIndex) ∧
      (∀ p ps, getLeading s (p :: ps) = .error .invalidIndex) := by
    intro s hs
    have h1 : ∀ p, getIdx s p = .error .invalidIndex := by intro p; simp [getIdx, hs]
    have h2 : ∀ p, getGroup s p = .error .invalidIndex := by intro p; simp [getGroup, h1 p]
    have h3 : ∀ ps, getIdxs s ps = .error .invalidIndex := by intro ps; simp [getIdxs, hs]
    refine ⟨h2, h1, h3, ?_, ?_⟩
    · intro ps; simp [getGroups, h3 ps]
    · intro p ps; simp [getLeading, leadingList, h2 p]
  have hv : (step pg op).1.valid = false := by
    rcases hop with ⟨g, rfl⟩ | ⟨gs, rfl⟩ | ⟨sup, p, pg', rfl, hm⟩ | ⟨obs, rfl⟩
    · rfl
    · rfl
    · simp only [step, hm]; exact (mergeGroups_ok pg pg' sup p hm).1
    · rfl
  exact ⟨hv, key _ hv⟩

/-- "after any sequence of additions …" made by the package's OTHER mutating callers: the rescue step
    (`RescuedGrouping.update_protein_groups`) grows the collection exactly as `extend` does — same new
    state (flag down), same answer -/
theorem rescued_update_is_extend (pg : PG P) (obs : List (List P)) :
    step pg (.updateRescued obs) = step pg (.extend obs) := rfl

/-- "… merges and clean-ups": the connected-component callers of graphs.py
    (`get_connected_proteins`, `decouple_connected_proteins`) either finish — then they ended with
    `remove_empty_groups` and the index is valid and is the index of the groups they leave — or raise
    — then they changed nothing or left the flag down, so no default lookup answers from the index
    they made stale; a component with a protein node fails only with the unknown-protein error -/
theorem connected_callers_rebuild_or_fail_loudly (pg : PG P) (cs : List (List P)) :
    ((step pg (.mergeComponents cs)).2 = .unit →
      (step pg (.mergeComponents cs)).1.valid = true ∧
      (step pg (.mergeComponents cs)).1.index = buildIndex (step pg (.mergeComponents cs)).1.groups) ∧
    (∀ e, (step pg (.mergeComponents cs)).2 = .err e →
      (step pg (.mergeComponents cs)).1 = pg ∨
      ((step pg (.mergeComponents cs)).1.valid = false ∧
       ∀ p, getGroup (step pg (.mergeComponents cs)).1 p = .error .invalidIndex)) := by
  constructor
  · intro h
    rw [step_mergeComponents_fst]
    apply mergeComponents_ok
    simp only [step] at h
    cases hm : mergeComponents pg cs with
    | mk pg' oe =>
      rw [hm] at h
      cases oe with
      | none => rfl
      | some e => simp at h
  · intro e h
    rw [step_mergeComponents_fst]
    simp only [step] at h
    cases hm : mergeComponents pg cs with
    | mk pg' oe =>
      rw [hm] at h
      cases oe with
      | none => simp at h
      | some e' =>
        have := mergeComponents_error cs pg e' (by rw [hm])
        rw [hm] at this
        rcases this with h1 | h1
        · exact Or.inl h1
        · refine Or.inr ⟨h1, fun p => ?_⟩
          simp only [] at h1
          simp [getGroup, getIdx, h1]

/-- a `merge_groups` that raises (unknown protein) changes nothing, and lookups never change the state -/
theorem failed_merge_and_lookups_change_nothing (pg : PG P) :
    (∀ sup p e, mergeGroups pg sup p = .error e → (step pg (.merge sup p)).1 = pg) ∧
    (∀ op : Op P, op.isMutator = false → (step pg op).1 = pg) := by
  refine ⟨?_, fun op h => step_lookup_state pg op h⟩
  intro sup p e h; simp [step, h]

/-- "… returns exactly the group (or group position) that currently contains that protein" can only
    hold across the pipeline if the package's READERS of a collection — `ProteinGroupResults.from_protein_groups`,
    `ProteinCompetitionStrategy.do_competition` (whose returned collection shares the group lists),
    `collect_peptide_scores_per_protein`, the three chained as in `get_protein_group_results`,
    `add_precursor_quants` — leave it exactly as it is (groups, index and flag): a reader call answers
    nothing, and fails only loudly — with the invalid-index error, only a reader that looks proteins up
    through the index, only while the flag is down -/
theorem readers_change_nothing (pg : PG P) (r : Reader) :
    (step pg (.read r)).1 = pg ∧
    ((step pg (.read r)).2 = .unit ∨
      ((step pg (.read r)).2 = .err .invalidIndex ∧ r.needsIndex = true ∧ pg.valid = false)) ∧
    (pg.valid = true → (step pg (.read r)).2 = .unit) ∧
    (r.needsIndex = false → (step pg (.read r)).2 = .unit) := by
  refine ⟨rfl, ?_, ?_, ?_⟩
  · cases hn : r.needsIndex <;> cases hv : pg.valid <;> simp [step, hn, hv]
  · intro hv; simp [step, hv]
  · intro hn; simp [step, hn]

/-- "after any sequence of additions, merges and clean-ups …" interleaved with any number of reader
    calls: the readers are transparent — deleting every reader call from a history gives the same
    collection (so every later lookup gives the same answer as if no result row had ever been written) -/
theorem readers_transparent (ops : List (Op P)) (pg : PG P) :
    run pg (ops.filter (fun op => !op.isRead)) = run pg ops := by
  induction ops generalizing pg with
  | nil => rfl
  | cons op ops ih =>
    cases hr : op.isRead with
    | true =>
      have hs : (step pg op).1 = pg := by
        cases op <;> simp [Op.isRead] at hr
        rfl
      have : run pg (op :: ops) = run (step pg op).1 ops := rfl
      rw [this, hs, List.filter_cons_of_neg (by simp [hr])]
      exact ih pg
    | false =>
      have : run pg (op :: ops) = run (step pg op).1 ops := rfl
      rw [this, List.filter_cons_of_pos (by simp [hr])]
      have : run pg (op :: ops.filter (fun op => !op.isRead)) =
          run (step pg op).1 (ops.filter (fun op => !op.isRead)) := rfl
      rw [this]
      exact ih _

/-- `create_index`, `remove_empty_groups`, `add_unseen_protein_groups` leave a valid index that is the
    index of the groups they leave -/
theorem rebuilders_validate (pg : PG P) (op : Op P)
    (hop : op = .createIndex ∨ op = .removeEmpty ∨ ∃ other, op = .addUnseen other) :
    (step pg op).1.valid = true ∧ (step pg op).1.index = buildIndex (step pg op).1.groups := by
  rcases hop with rfl | rfl | ⟨other, rfl⟩ <;> simp [step, removeEmpty, addUnseen]

/-- "A protein contained in no group is reported as missing and is never mapped to an existing
    group" (the statement the unrepaired `get_protein_groups` violates through position −1):
    no single lookup answers, the position set contains the missing marker, and every group returned
    by the multi-protein lookup is there because of another queried protein -/
theorem unknown_never_aliases (ops : List (Op P)) (p : P)
    (h : ∀ g ∈ (run (init : PG P) ops).groups, p ∉ g) :
    (∀ g, getGroup (run (init : PG P) ops) p ≠ .ok g) ∧
    (∀ i, getIdx (run (init : PG P) ops) p ≠ .ok i) ∧
    (∀ ps is, p ∈ ps → getIdxs (run (init : PG P) ops) ps = .ok is → none ∈ is) ∧
    (∀ ps gs, getGroups (run (init : PG P) ops) ps = .ok gs →
      ∀ x ∈ gs, ∃ q ∈ ps, q ≠ p ∧ q ∈ x.2) := by
  have hinv := (reachable_inv _ (reachable_run ops _ (.init : Reachable (init : PG P)))).1
  generalize run (init : PG P) ops = pg at h hinv
  refine ⟨?_, ?_, ?_, ?_⟩
  · intro g hg
    obtain ⟨hp, i, _, hgi⟩ := getGroup_sound pg hinv p g hg
    exact h g (List.mem_of_getElem? hgi) hp
  · intro i hi
    obtain ⟨g, hg, hp⟩ := getIdx_sound pg hinv p i hi
    exact h g (List.mem_of_getElem? hg) hp
  · intro ps is hp his
    obtain ⟨hval, hv⟩ := getIdxs_ok pg ps true is his
    rw [hval, mem_firsts, List.mem_map]
    exact ⟨p, hp, (lookup_none_iff pg hinv (hv rfl) p).mpr h⟩
  · intro ps gs hgs x hx
    obtain ⟨hv, hspec⟩ := getGroups_ok pg ps true gs hgs
    obtain ⟨hg, q, hq, hl⟩ := (hspec x.1 x.2).mp hx
    obtain ⟨g', hg', hqg⟩ := lookup_some_spec pg hinv (hv rfl) q x.1 hl
    rw [hg] at hg'
    have : x.2 = g' := by simpa using hg'
    subst this
    refine ⟨q, hq, ?_, hqg⟩
    intro hqp; subst hqp
    exact h x.2 (List.mem_of_getElem? hg) hqg

/-- the multi-protein lookup: distinct positions; every returned group is the current group at its
    position and contains a queried protein (no foreign group); every queried protein that is in some
    group has a returned group containing it (nothing is lost) -/
theorem getGroups_sound (ops : List (Op P)) (prots : List P) (gs : List (Nat × List P))
    (h : getGroups (run (init : PG P) ops) prots = .ok gs) :
    (gs.map (·.1)).Nodup ∧
    (∀ x ∈ gs, (run (init : PG P) ops).groups[x.1]? = some x.2 ∧ ∃ p ∈ prots, p ∈ x.2) ∧
    (∀ p ∈ prots, (∃ g ∈ (run (init : PG P) ops).groups, p ∈ g) → ∃ x ∈ gs, p ∈ x.2) := by
  have hinv := (reachable_inv _ (reachable_run ops _ (.init : Reachable (init : PG P)))).1
  generalize run (init : PG P) ops = pg at h hinv
  obtain ⟨hv, hspec⟩ := getGroups_ok pg prots true gs h
  refine ⟨getGroups_nodup pg prots true gs h, ?_, ?_⟩
  · intro x hx
    obtain ⟨hg, q, hq, hl⟩ := (hspec x.1 x.2).mp hx
    obtain ⟨g', hg', hqg⟩ := lookup_some_spec pg hinv (hv rfl) q x.1 hl
    rw [hg] at hg'
    have : x.2 = g' := by simpa using hg'
    subst this
    exact ⟨hg, q, hq, hqg⟩
  · intro p hp ⟨g, hg, hpg⟩
    cases hl : pg.index.lookup p with
    | none => exact absurd hpg ((lookup_none_iff pg hinv (hv rfl) p).mp hl g hg)
    | some i =>
      obtain ⟨g', hg', hpg'⟩ := lookup_some_spec pg hinv (hv rfl) p i hl
      exact ⟨(i, g'), (hspec i g').mpr ⟨hg', p, hp, hl⟩, hpg'⟩

/-- what the callers decide from the lookups (`helpers.is_missing_in_protein_groups` on the list of
    groups, `update_fragpipe_results.py:224-226`, and on the position set everywhere else): "missing"
    exactly when no queried protein is in any group -/
theorem missing_iff (pg : PG P) (hr : Reachable pg) (prots : List P) :
    (∀ gs, getGroups pg prots = .ok gs →
      (isMissingGroups gs = true ↔ ∀ p ∈ prots, ∀ g ∈ pg.groups, p ∉ g)) ∧
    (∀ is, getIdxs pg prots = .ok is →
      (isMissingIdxs is = true ↔ ∀ p ∈ prots, ∀ g ∈ pg.groups, p ∉ g)) := by
  have hinv := (reachable_inv pg hr).1
  constructor
  · intro gs h
    obtain ⟨hv, hspec⟩ := getGroups_ok pg prots true gs h
    simp only [isMissingGroups, List.isEmpty_iff]
    constructor
    · intro hnil p hp g hg hpg
      cases hl : pg.index.lookup p with
      | none => exact (lookup_none_iff pg hinv (hv rfl) p).mp hl g hg hpg
      | some i =>
        obtain ⟨g', hg', _⟩ := lookup_some_spec pg hinv (hv rfl) p i hl
        have : (i, g') ∈ gs := (hspec i g').mpr ⟨hg', p, hp, hl⟩
        rw [hnil] at this; simp at this
    · intro hall
      cases hgs : gs with
      | nil => rfl
      | cons x t =>
        exfalso
        obtain ⟨hg, q, hq, hl⟩ := (hspec x.1 x.2).mp (by rw [hgs]; simp)
        obtain ⟨g', hg', hqg⟩ := lookup_some_spec pg hinv (hv rfl) q x.1 hl
        exact hall q hq g' (List.mem_of_getElem? hg') hqg
  · intro is h
    obtain ⟨hval, hv⟩ := getIdxs_ok pg prots true is h
    simp only [isMissingIdxs, List.all_eq_true, Option.isNone_iff_eq_none]
    constructor
    · intro hall p hp
      have : pg.index.lookup p ∈ is := by
        rw [hval, mem_firsts, List.mem_map]; exact ⟨p, hp, rfl⟩
      exact (lookup_none_iff pg hinv (hv rfl) p).mp (hall _ this)
    · intro hall o ho
      rw [hval, mem_firsts, List.mem_map] at ho
      obtain ⟨p, hp, rfl⟩ := ho
      exact (lookup_none_iff pg hinv (hv rfl) p).mpr (hall p hp)

/-- `get_leading_proteins`: every reported leader is the first member of a current group that contains
    one of the queried proteins -/
theorem leading_sound (pg : PG P) (hr : Reachable pg) (prots l : List P)
    (h : getLeading pg prots = .ok l) :
    ∀ a ∈ l, ∃ p ∈ prots, ∃ g ∈ pg.groups, p ∈ g ∧ g.head? = some a := by
  have hinv := (reachable_inv pg hr).1
  unfold getLeading at h
  cases hl : leadingList pg prots with
  | error e => simp [hl] at h
  | ok l' =>
    simp only [hl] at h
    have : l = firsts l' := by simpa using h.symm
    subst this
    intro a ha
    rw [mem_firsts] at ha
    obtain ⟨p, hp, g, hg, hh⟩ := (leadingList_ok pg prots l' hl a).mp ha
    obtain ⟨hpg, i, _, hgi⟩ := getGroup_sound pg hinv p g hg
    exact ⟨p, hp, g, List.mem_of_getElem? hgi, hpg, hh⟩

/-- the possibly stale index never points outside the collection: neither a lookup (even with
    `check_idx_valid=False`) nor `merge_groups` can fail with an out-of-range position -/
theorem no_index_error (pg : PG P) (hr : Reachable pg) :
    (∀ p c, getGroup pg p c ≠ .error .indexError) ∧
    (∀ sup p, mergeGroups pg sup p ≠ .error .indexError) := by
  have hrange := (reachable_inv pg hr).2
  constructor
  · intro p c h
    unfold getGroup at h
    cases hi : getIdx pg p c with
    | error e =>
      simp only [hi] at h
      unfold getIdx at hi
      split at hi
      · have := Except.error.inj hi; have h' := Except.error.inj h; rw [← this] at h'; cases h'
      · split at hi
        · have := Except.error.inj hi; have h' := Except.error.inj h; rw [← this] at h'; cases h'
        · cases hi
    | ok i =>
      simp only [hi] at h
      obtain ⟨hl, _⟩ := getIdx_ok pg p c i hi
      have hlt := hrange p i (mem_of_lookup _ _ _ hl)
      simp [List.getElem?_eq_getElem hlt] at h
  · intro sup p h
    rcases mergeGroups_error pg sup p _ h with ⟨h1, _⟩ | ⟨_, q, i, hq, hle⟩
    · cases h1
    · have := hrange q i hq; omega

/-! ### non-vacuity: concrete histories -/

/-- append, append, index, merge, (stale) lookup, clean, lookup, lookups of an outside protein -/
def demoOps : List (Op String) :=
  [.append ["A", "B"], .append ["C"], .createIndex, .merge "A" "C", .removeEmpty]

example : (run (init : PG String) demoOps).groups = [["A", "B", "C"]] := by decide
example : getGroup (run (init : PG String) demoOps) "C" = .ok ["A", "B", "C"] := by decide
example : getGroup (run (init : PG String) (demoOps.take 4)) "C" = .error .invalidIndex := by decide
example : getGroup (run (init : PG String) demoOps) "X" = .error .unknownProtein := by decide
example : ∀ g ∈ (run (init : PG String) demoOps).groups, "X" ∉ g := by decide
example : getGroups (run (init : PG String) demoOps) ["X"] = .ok [] := by decide
example : getGroups (run (init : PG String) demoOps) ["X", "B"] = .ok [(0, ["A", "B", "C"])] := by decide
example : getIdxs (run (init : PG String) demoOps) ["X", "B"] = .ok [none, some 0] := by decide
example : mergeGroups (run (init : PG String) (demoOps.take 3)) "A" "C" =
    .ok ⟨[["A", "B", "C"], []], buildIndex [["A", "B"], ["C"]], false⟩ := by decide
example : Reachable (run (init : PG String) demoOps) := reachable_run _ _ .init

/-- the rescue step on an indexed collection, then the component caller -/
def demoCallers : List (Op String) :=
  [.append ["A"], .append ["B"], .append ["C"], .createIndex, .updateRescued [["OBSOLETE__A"]]]

example : getGroup (run (init : PG String) demoCallers) "OBSOLETE__A" = .error .invalidIndex := by decide
example : getIdxs (run (init : PG String) demoCallers) ["OBSOLETE__A"] = .error .invalidIndex := by decide
example : getGroup (run (init : PG String) (demoCallers ++ [.createIndex])) "OBSOLETE__A" = .ok ["OBSOLETE__A"] := by
  decide
example : (step (run (init : PG String) (demoCallers ++ [.createIndex])) (.mergeComponents [["A", "C"], ["B"]])).1.groups
    = [["A", "C"], ["B"], ["OBSOLETE__A"]] := by decide
example : (mergeComponents (run (init : PG String) (demoCallers ++ [.createIndex])) [["A", "C"], ["B"]]).2
    = none := by decide
example : (mergeComponents (run (init : PG String) (demoCallers ++ [.createIndex])) [["A", "C", "X"]]).2
    = some .unknownProtein := by decide
example : (step (run (init : PG String) (demoCallers ++ [.createIndex])) (.mergeComponents [["A", "C", "X"]])).1.valid
    = false := by decide

/-- readers between the calls of `demoOps`: the report chain on the indexed collection, result rows and
    a competition while the flag is down (they do not use the index), a score collection while the flag
    is down (fails loudly) -/
def demoReaders : List (Op String) :=
  [.append ["A", "B"], .append ["C"], .read .resultRows, .createIndex, .read .reportChain, .merge "A" "C",
   .read .competition, .read .collectScores, .removeEmpty, .read .precursorQuants]

example : demoReaders.filter (fun op => !op.isRead) = demoOps := rfl
example : (run (init : PG String) demoReaders).groups = [["A", "B", "C"]] := by decide
example : getGroup (run (init : PG String) demoReaders) "C" = .ok ["A", "B", "C"] := by decide
example : (run (init : PG String) (demoReaders.take 7)).valid = false := by decide
example : (step (run (init : PG String) (demoReaders.take 7)) (.read .collectScores)).2 = .err .invalidIndex := rfl
example : (step (run (init : PG String) (demoReaders.take 7)) (.read .competition)).2 = .unit := rfl
example : (step (run (init : PG String) demoReaders) (.read .reportChain)).2 = .unit := rfl

end PgFdr.C20
