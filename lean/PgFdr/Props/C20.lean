import PgFdr.Proofs.C20

/-!
# C20 — protein-group lookups never return stale or foreign groups

Property text (properties.jsonl): "After any sequence of additions, merges and clean-ups on a
protein-group collection, a lookup by protein either fails loudly because the index has not been
rebuilt since the last change, or returns exactly the group (or group position) that currently
contains that protein. A protein contained in no group is reported as missing and is never mapped to
an existing group."

The executable model is `PgFdr/Model/C20.lean` (`PG`, `step`, `run`, the lookups), tied to
`picked_group_fdr.protein_groups.ProteinGroups` by the step-by-step correspondence of
`harness/props/C20.py`.  `Reachable pg` (Proofs/C20.lean) = `pg` is produced by one of the three
constructors of the class (`ProteinGroups()`, `ProteinGroups(gs)`, `init_from_list(gs)`) followed by
any finite history of method calls; `run init ops` is such a state for every `ops`.
`getGroups` is the repaired `get_protein_groups` (the −1 marker is dropped, not used as a position).
The history alphabet `Op` contains, besides the methods of the class, the package's other mutating
callers of a collection: `RescuedGrouping.update_protein_groups` (`Op.updateRescued`) and
`ConnectedProteinGraphs.get_connected_proteins` / `decouple_connected_proteins`
(`Op.mergeComponents`), and the package's READERS of a collection (`Op.read`: result rows, competition,
score collection, their chain in `get_protein_group_results`, precursor quantification — no-op steps that
may only fail loudly), and the package's LOOKUP CALLERS (`Op.rows c rows`: `update_fragpipe_psm_file`, the
`add_precursor_quants` / `update_precursor_quants_single` functions of quant/maxquant.py, quant/fragpipe.py,
quant/sage.py, `collect_peptide_scores_per_protein`, `FragpipeProteinAnnotationsColumns.append_columns` —
no-op steps whose answer `callerAnswer` says what happens to every external row);
`RescuedGrouping.merge_with_rescued_protein_groups` is `Op.addUnseen` with the
groups of a second live collection as argument, `ObservedPeptides.generate_protein_groups` is proved to be
a history of this machine in `Props/C03.lean` (`generatePG`).
-/
set_option linter.unusedSectionVars false
namespace PgFdr.C20
variable {P : Type} [DecidableEq P]

/-- the invariant "a valid index is the index of the current groups" holds for a new collection -/
theorem inv_init : Inv (init : PG P) := inv_init'

/-- "after any sequence of additions, merges and clean-ups …": every method preserves the invariant -/
theorem inv_step (pg : PG P) (op : Op P) (h : Inv pg) : Inv (step pg op).1 := inv_step' pg op h

/-- "after any sequence …": the invariant (and the range invariant of the possibly stale index) holds
    after every history, from every constructor -/
theorem inv_reachable (ops : List (Op P)) :
    Inv (run (init : PG P) ops) ∧ InRange (run (init : PG P) ops) ∧
    (∀ gs : List (List P), Inv (run (ofList gs) ops) ∧ InRange (run (ofList gs) ops)) ∧
    (∀ pg : PG P, Reachable pg → Inv pg ∧ InRange pg) :=
  ⟨(reachable_inv _ (reachable_run ops _ .init)).1, (reachable_inv _ (reachable_run ops _ .init)).2,
   fun gs => reachable_inv _ (reachable_run ops _ (.ofList gs)), reachable_inv⟩

/-- "a lookup by protein … returns exactly the group (or group position) that currently contains
    that protein": an answered default lookup returns a current group that contains the protein, at
    the position the index lookup reports -/
theorem lookup_sound (ops : List (Op P)) (p : P) (g : List P)
    (h : getGroup (run (init : PG P) ops) p = .ok g) :
    p ∈ g ∧ g ∈ (run (init : PG P) ops).groups ∧
    ∃ i, getIdx (run (init : PG P) ops) p = .ok i ∧ (run (init : PG P) ops).groups[i]? = some g := by
  have hinv := (reachable_inv _ (reachable_run ops _ (.init : Reachable (init : PG P)))).1
  obtain ⟨hp, i, hi, hg⟩ := getGroup_sound _ hinv p g h
  exact ⟨hp, List.mem_of_getElem? hg, i, hi, hg⟩

/-- the same for every reachable state, and for the position lookup on its own -/
theorem lookup_sound_reachable (pg : PG P) (hr : Reachable pg) (p : P) :
    (∀ g, getGroup pg p = .ok g → p ∈ g ∧ g ∈ pg.groups) ∧
    (∀ i, getIdx pg p = .ok i → ∃ g, pg.groups[i]? = some g ∧ p ∈ g) := by
  have hinv := (reachable_inv pg hr).1
  refine ⟨fun g h => ?_, fun i h => getIdx_sound pg hinv p i h⟩
  obtain ⟨hp, i, _, hg⟩ := getGroup_sound pg hinv p g h
  exact ⟨hp, List.mem_of_getElem? hg⟩

/-- "… either fails loudly because the index has not been rebuilt since the last change, or …":
    a default lookup fails only with the invalid-index error (and then the flag is down) or with the
    unknown-protein error (and then no group contains the protein) — in particular never with an
    out-of-range position -/
theorem lookup_fails_only_loudly (pg : PG P) (hr : Reachable pg) (p : P) (e : Err)
    (h : getGroup pg p = .error e) :
    (e = .invalidIndex ∧ pg.valid = false) ∨ (e = .unknownProtein ∧ ∀ g ∈ pg.groups, p ∉ g) :=
  getGroup_error pg (reachable_inv pg hr).1 p e h

/-- "exactly the group": when the groups are pairwise disjoint the answered group is the only group
    containing the protein -/
theorem lookup_exact (pg : PG P) (hr : Reachable pg) (p : P) (g : List P)
    (hdisj : ∀ g₁ ∈ pg.groups, ∀ g₂ ∈ pg.groups, p ∈ g₁ → p ∈ g₂ → g₁ = g₂)
    (h : getGroup pg p = .ok g) : ∀ g' ∈ pg.groups, p ∈ g' → g' = g := by
  obtain ⟨hp, hg⟩ := (lookup_sound_reachable pg hr p).1 g h
  intro g' hg' hp'
  exact hdisj g' hg' g hg hp' hp

/-- "every mutating operation invalidates the index, every lookup honours the flag": after `append`,
    `extend` and a `merge_groups` that changed the collection the flag is down and every default lookup
    (single, positions, groups, helpers) fails with the invalid-index error -/
theorem mutators_invalidate (pg : PG P) (op : Op P)
    (hop : (∃ g, op = .append g) ∨ (∃ gs, op = .extend gs) ∨
           (∃ sup p pg', op = .merge sup p ∧ mergeGroups pg sup p = .ok pg') ∨
           (∃ obs, op = .updateRescued obs)) :
    (step pg op).1.valid = false ∧
    (∀ p, getGroup (step pg op).1 p = .error .invalidIndex) ∧
    (∀ p, getIdx (step pg op).1 p = .error .invalidIndex) ∧
    (∀ ps, getIdxs (step pg op).1 ps = .error .invalidIndex) ∧
    (∀ ps, getGroups (step pg op).1 ps = .error .invalidIndex) ∧
    (∀ p ps, getLeading (step pg op).1 (p :: ps) = .error .invalidIndex) := by
  have key : ∀ s : PG P, s.valid = false →
      (∀ p, getGroup s p = .error .invalidIndex) ∧ (∀ p, getIdx s p = .error .invalidIndex) ∧
      (∀ ps, getIdxs s ps = .error .invalidIndex) ∧ (∀ ps, getGroups s ps = .error .invalidIndex) ∧
      (∀ p ps, getLeading s (p :: ps) = .error .invalidIndex) := by
    intro s hs
    have h1 : ∀ p, getIdx s p = .error .invalidIndex := by intro p; simp [getIdx, hs]
    have h2 : ∀ p, getGroup s p = .error .invalidIndex := by intro p; simp [getGroup, h1 p]
    have h3 : ∀ ps, getIdxs s ps = .error .invalidIndex := by intro ps; simp [getIdxs, hs]
    refine ⟨h2, h1, h3, ?_, ?_⟩
    · intro ps; simp [getGroups, h3 ps]
    · intro p ps; simp [getLeading, leadingList, h2 p]
  have hv : (step pg op).1.valid = false := by
    rcases hop with ⟨g, rfl⟩ | ⟨gs, rfl⟩ | ⟨sup, p, pg', rfl, hm⟩ | ⟨obs, rfl⟩
    · rfl
    · rfl
    · simp only [step, hm]; exact (mergeGroups_ok pg pg' sup p hm).1
    · rfl
  exact ⟨hv, key _ hv⟩

/-- "after any sequence of additions …" made by the package's OTHER mutating callers: the rescue step
    (`RescuedGrouping.update_protein_groups`) grows the collection exactly as `extend` does — same new
    state (flag down), same answer -/
theorem rescued_update_is_extend (pg : PG P) (obs : List (List P)) :
    step pg (.updateRescued obs) = step pg (.extend obs) := rfl

/-- "… merges and clean-ups": the connected-component callers of graphs.py
    (`get_connected_proteins`, `decouple_connected_proteins`) either finish — then they ended with
    `remove_empty_groups` and the index is valid and is the index of the groups they leave — or raise
    — then they changed nothing or left the flag down, so no default lookup answers from the index
    they made stale; a component with a protein node fails only with the unknown-protein error -/
theorem connected_callers_rebuild_or_fail_loudly (pg : PG P) (cs : List (List P)) :
    ((step pg (.mergeComponents cs)).2 = .unit →
      (step pg (.mergeComponents cs)).1.valid = true ∧
      (step pg (.mergeComponents cs)).1.index = buildIndex (step pg (.mergeComponents cs)).1.groups) ∧
    (∀ e, (step pg (.mergeComponents cs)).2 = .err e →
      (step pg (.mergeComponents cs)).1 = pg ∨
      ((step pg (.mergeComponents cs)).1.valid = false ∧
       ∀ p, getGroup (step pg (.mergeComponents cs)).1 p = .error .invalidIndex)) := by
  constructor
  · intro h
    rw [step_mergeComponents_fst]
    apply mergeComponents_ok
    simp only [step] at h
    cases hm : mergeComponents pg cs with
    | mk pg' oe =>
      rw [hm] at h
      cases oe with
      | none => rfl
      | some e => simp at h
  · intro e h
    rw [step_mergeComponents_fst]
    simp only [step] at h
    cases hm : mergeComponents pg cs with
    | mk pg' oe =>
      rw [hm] at h
      cases oe with
      | none => simp at h
      | some e' =>
        have := mergeComponents_error cs pg e' (by rw [hm])
        rw [hm] at this
        rcases this with h1 | h1
        · exact Or.inl h1
        · refine Or.inr ⟨h1, fun p => ?_⟩
          simp only [] at h1
          simp [getGroup, getIdx, h1]

/-- a `merge_groups` that raises (unknown protein) changes nothing, and lookups never change the state -/
theorem failed_merge_and_lookups_change_nothing (pg : PG P) :
    (∀ sup p e, mergeGroups pg sup p = .error e → (step pg (.merge sup p)).1 = pg) ∧
    (∀ op : Op P, op.isMutator = false → (step pg op).1 = pg) := by
  refine ⟨?_, fun op h => step_lookup_state pg op h⟩
  intro sup p e h; simp [step, h]

/-- "… returns exactly the group (or group position) that currently contains that protein" can only
    hold across the pipeline if the package's READERS of a collection — `ProteinGroupResults.from_protein_groups`,
    `ProteinCompetitionStrategy.do_competition` (whose returned collection shares the group lists),
    `collect_peptide_scores_per_protein`, the three chained as in `get_protein_group_results`,
    `add_precursor_quants` — leave it exactly as it is (groups, index and flag): a reader call answers
    nothing, and fails only loudly — with the invalid-index error, only a reader that looks proteins up
    through the index, only while the flag is down -/
theorem readers_change_nothing (pg : PG P) (r : Reader) :
    (step pg (.read r)).1 = pg ∧
    ((step pg (.read r)).2 = .unit ∨
      ((step pg (.read r)).2 = .err .invalidIndex ∧ r.needsIndex = true ∧ pg.valid = false)) ∧
    (pg.valid = true → (step pg (.read r)).2 = .unit) ∧
    (r.needsIndex = false → (step pg (.read r)).2 = .unit) := by
  refine ⟨rfl, ?_, ?_, ?_⟩
  · cases hn : r.needsIndex <;> cases hv : pg.valid <;> simp [step, hn, hv]
  · intro hv; simp [step, hv]
  · intro hn; simp [step, hn]

/-- "after any sequence of additions, merges and clean-ups …" interleaved with any number of reader
    calls: the readers are transparent — deleting every reader call from a history gives the same
    collection (so every later lookup gives the same answer as if no result row had ever been written) -/
theorem readers_transparent (ops : List (Op P)) (pg : PG P) :
    run pg (ops.filter (fun op => !op.isRead)) = run pg ops := by
  induction ops generalizing pg with
  | nil => rfl
  | cons op ops ih =>
    cases hr : op.isRead with
    | true =>
      have hs : (step pg op).1 = pg := by
        cases op <;> simp [Op.isRead] at hr
        rfl
      have : run pg (op :: ops) = run (step pg op).1 ops := rfl
      rw [this, hs, List.filter_cons_of_neg (by simp [hr])]
      exact ih pg
    | false =>
      have : run pg (op :: ops) = run (step pg op).1 ops := rfl
      rw [this, List.filter_cons_of_pos (by simp [hr])]
      have : run pg (op :: ops.filter (fun op => !op.isRead)) =
          run (step pg op).1 (ops.filter (fun op => !op.isRead)) := rfl
      rw [this]
      exact ih _

/-- `create_index`, `remove_empty_groups`, `add_unseen_protein_groups` leave a valid index that is the
    index of the groups they leave -/
theorem rebuilders_validate (pg : PG P) (op : Op P)
    (hop : op = .createIndex ∨ op = .removeEmpty ∨ ∃ other, op = .addUnseen other) :
    (step pg op).1.valid = true ∧ (step pg op).1.index = buildIndex (step pg op).1.groups := by
  rcases hop with rfl | rfl | ⟨other, rfl⟩ <;> simp [step, removeEmpty, addUnseen]

/-- "A protein contained in no group is reported as missing and is never mapped to an existing
    group" (the statement the unrepaired `get_protein_groups` violates through position −1):
    no single lookup answers, the position set contains the missing marker, and every group returned
    by the multi-protein lookup is there because of another queried protein -/
theorem unknown_never_aliases (ops : List (Op P)) (p : P)
    (h : ∀ g ∈ (run (init : PG P) ops).groups, p ∉ g) :
    (∀ g, getGroup (run (init : PG P) ops) p ≠ .ok g) ∧
    (∀ i, getIdx (run (init : PG P) ops) p ≠ .ok i) ∧
    (∀ ps is, p ∈ ps → getIdxs (run (init : PG P) ops) ps = .ok is → none ∈ is) ∧
    (∀ ps gs, getGroups (run (init : PG P) ops) ps = .ok gs →
      ∀ x ∈ gs, ∃ q ∈ ps, q ≠ p ∧ q ∈ x.2) := by
  have hinv := (reachable_inv _ (reachable_run ops _ (.init : Reachable (init : PG P)))).1
  generalize run (init : PG P) ops = pg at h hinv
  refine ⟨?_, ?_, ?_, ?_⟩
  · intro g hg
    obtain ⟨hp, i, _, hgi⟩ := getGroup_sound pg hinv p g hg
    exact h g (List.mem_of_getElem? hgi) hp
  · intro i hi
    obtain ⟨g, hg, hp⟩ := getIdx_sound pg hinv p i hi
    exact h g (List.mem_of_getElem? hg) hp
  · intro ps is hp his
    obtain ⟨hval, hv⟩ := getIdxs_ok pg ps true is his
    rw [hval, mem_firsts, List.mem_map]
    exact ⟨p, hp, (lookup_none_iff pg hinv (hv rfl) p).mpr h⟩
  · intro ps gs hgs x hx
    obtain ⟨hv, hspec⟩ := getGroups_ok pg ps true gs hgs
    obtain ⟨hg, q, hq, hl⟩ := (hspec x.1 x.2).mp hx
    obtain ⟨g', hg', hqg⟩ := lookup_some_spec pg hinv (hv rfl) q x.1 hl
    rw [hg] at hg'
    have : x.2 = g' := by simpa using hg'
    subst this
    refine ⟨q, hq, ?_, hqg⟩
    intro hqp; subst hqp
    exact h x.2 (List.mem_of_getElem? hg) hqg

/-- the multi-protein lookup: distinct positions; every returned group is the current group at its
    position and contains a queried protein (no foreign group); every queried protein that is in some
    group has a returned group containing it (nothing is lost) -/
theorem getGroups_sound (ops : List (Op P)) (prots : List P) (gs : List (Nat × List P))
    (h : getGroups (run (init : PG P) ops) prots = .ok gs) :
    (gs.map (·.1)).Nodup ∧
    (∀ x ∈ gs, (run (init : PG P) ops).groups[x.1]? = some x.2 ∧ ∃ p ∈ prots, p ∈ x.2) ∧
    (∀ p ∈ prots, (∃ g ∈ (run (init : PG P) ops).groups, p ∈ g) → ∃ x ∈ gs, p ∈ x.2) := by
  have hinv := (reachable_inv _ (reachable_run ops _ (.init : Reachable (init : PG P)))).1
  generalize run (init : PG P) ops = pg at h hinv
  obtain ⟨hv, hspec⟩ := getGroups_ok pg prots true gs h
  refine ⟨getGroups_nodup pg prots true gs h, ?_, ?_⟩
  · intro x hx
    obtain ⟨hg, q, hq, hl⟩ := (hspec x.1 x.2).mp hx
    obtain ⟨g', hg', hqg⟩ := lookup_some_spec pg hinv (hv rfl) q x.1 hl
    rw [hg] at hg'
    have : x.2 = g' := by simpa using hg'
    subst this
    exact ⟨hg, q, hq, hqg⟩
  · intro p hp ⟨g, hg, hpg⟩
    cases hl : pg.index.lookup p with
    | none => exact absurd hpg ((lookup_none_iff pg hinv (hv rfl) p).mp hl g hg)
    | some i =>
      obtain ⟨g', hg', hpg'⟩ := lookup_some_spec pg hinv (hv rfl) p i hl
      exact ⟨(i, g'), (hspec i g').mpr ⟨hg', p, hp, hl⟩, hpg'⟩

/-- what the callers decide from the lookups (`helpers.is_missing_in_protein_groups` on the list of
    groups, `update_fragpipe_results.py:224-226`, and on the position set everywhere else): "missing"
    exactly when no queried protein is in any group -/
theorem missing_iff (pg : PG P) (hr : Reachable pg) (prots : List P) :
    (∀ gs, getGroups pg prots = .ok gs →
      (isMissingGroups gs = true ↔ ∀ p ∈ prots, ∀ g ∈ pg.groups, p ∉ g)) ∧
    (∀ is, getIdxs pg prots = .ok is →
      (isMissingIdxs is = true ↔ ∀ p ∈ prots, ∀ g ∈ pg.groups, p ∉ g)) := by
  have hinv := (reachable_inv pg hr).1
  constructor
  · intro gs h
    obtain ⟨hv, hspec⟩ := getGroups_ok pg prots true gs h
    simp only [isMissingGroups, List.isEmpty_iff]
    constructor
    · intro hnil p hp g hg hpg
      cases hl : pg.index.lookup p with
      | none => exact (lookup_none_iff pg hinv (hv rfl) p).mp hl g hg hpg
      | some i =>
        obtain ⟨g', hg', _⟩ := lookup_some_spec pg hinv (hv rfl) p i hl
        have : (i, g') ∈ gs := (hspec i g').mpr ⟨hg', p, hp, hl⟩
        rw [hnil] at this; simp at this
    · intro hall
      cases hgs : gs with
      | nil => rfl
      | cons x t =>
        exfalso
        obtain ⟨hg, q, hq, hl⟩ := (hspec x.1 x.2).mp (by rw [hgs]; simp)
        obtain ⟨g', hg', hqg⟩ := lookup_some_spec pg hinv (hv rfl) q x.1 hl
        exact hall q hq g' (List.mem_of_getElem? hg') hqg
  · intro is h
    obtain ⟨hval, hv⟩ := getIdxs_ok pg prots true is h
    simp only [isMissingIdxs, List.all_eq_true, Option.isNone_iff_eq_none]
    constructor
    · intro hall p hp
      have : pg.index.lookup p ∈ is := by
        rw [hval, mem_firsts, List.mem_map]; exact ⟨p, hp, rfl⟩
      exact (lookup_none_iff pg hinv (hv rfl) p).mp (hall _ this)
    · intro hall o ho
      rw [hval, mem_firsts, List.mem_map] at ho
      obtain ⟨p, hp, rfl⟩ := ho
      exact (lookup_none_iff pg hinv (hv rfl) p).mpr (hall p hp)

/-- `get_leading_proteins`: every reported leader is the first member of a current group that contains
    one of the queried proteins -/
theorem leading_sound (pg : PG P) (hr : Reachable pg) (prots l : List P)
    (h : getLeading pg prots = .ok l) :
    ∀ a ∈ l, ∃ p ∈ prots, ∃ g ∈ pg.groups, p ∈ g ∧ g.head? = some a := by
  have hinv := (reachable_inv pg hr).1
  unfold getLeading at h
  cases hl : leadingList pg prots with
  | error e => simp [hl] at h
  | ok l' =>
    simp only [hl] at h
    have : l = firsts l' := by simpa using h.symm
    subst this
    intro a ha
    rw [mem_firsts] at ha
    obtain ⟨p, hp, g, hg, hh⟩ := (leadingList_ok pg prots l' hl a).mp ha
    obtain ⟨hpg, i, _, hgi⟩ := getGroup_sound pg hinv p g hg
    exact ⟨p, hp, g, List.mem_of_getElem? hgi, hpg, hh⟩

/-- the possibly stale index never points outside the collection: neither a lookup (even with
    `check_idx_valid=False`) nor `merge_groups` can fail with an out-of-range position -/
theorem no_index_error (pg : PG P) (hr : Reachable pg) :
    (∀ p c, getGroup pg p c ≠ .error .indexError) ∧
    (∀ sup p, mergeGroups pg sup p ≠ .error .indexError) := by
  have hrange := (reachable_inv pg hr).2
  constructor
  · intro p c h
    unfold getGroup at h
    cases hi : getIdx pg p c with
    | error e =>
      simp only [hi] at h
      unfold getIdx at hi
      split at hi
      · have := Except.error.inj hi; have h' := Except.error.inj h; rw [← this] at h'; cases h'
      · split at hi
        · have := Except.error.inj hi; have h' := Except.error.inj h; rw [← this] at h'; cases h'
        · cases hi
    | ok i =>
      simp only [hi] at h
      obtain ⟨hl, _⟩ := getIdx_ok pg p c i hi
      have hlt := hrange p i (mem_of_lookup _ _ _ hl)
      simp [List.getElem?_eq_getElem hlt] at h
  · intro sup p h
    rcases mergeGroups_error pg sup p _ h with ⟨h1, _⟩ | ⟨_, q, i, hq, hle⟩
    · cases h1
    · have := hrange q i hq; omega

/-! ### the package's LOOKUP CALLERS (`Op.rows`): pipeline tools and quantification readers that look up
the groups of the rows of a file -/

/-- "a lookup by protein … returns exactly the group (or group position) that CURRENTLY contains that
    protein" for the callers that look groups up for external rows (`update_fragpipe_psm_file`, the
    `add_precursor_quants` / `update_precursor_quants_single` functions of quant/*.py,
    `collect_peptide_scores_per_protein`, `FragpipeProteinAnnotationsColumns.append_columns`): a call
    changes nothing in the collection and its answer is `callerAnswer` of the collection it was handed —
    the step has no other input; a file without rows is answered without looking at the flag -/
theorem lookup_callers_change_nothing (pg : PG P) (c : Caller) (rows : List (List P)) :
    (step pg (.rows c rows)).1 = pg ∧
    (step pg (.rows c rows)).2 = outOf .rows (callerAnswer c pg rows) ∧
    callerAnswer c pg [] = .ok [] ∧
    (Op.rows c rows).isMutator = false := ⟨rfl, rfl, rfl, rfl⟩

/-- "after any sequence of additions, merges and clean-ups": a collection whose index has been rebuilt
    since the last change IS the collection `init_from_list` builds from its current groups — whatever
    history (from whatever constructor) produced it -/
theorem collection_determined_by_contents (pg : PG P) (hr : Reachable pg) (hv : pg.valid = true) :
    pg = ofList pg.groups := eq_ofList_of_valid pg (reachable_inv pg hr).1 hv

/-- "never stale, never foreign": the answer of every lookup — single, multi-protein, and of every
    lookup caller for every row — is a function of (current contents of the collection it is asked of,
    queried proteins) only.  Two collections produced by ANY two histories (other constructors, other
    operations, other lookups before, other collections alive) that hold the same groups and have been
    re-indexed answer every operation identically, and as a freshly built collection does. -/
theorem answers_depend_on_contents_only (pg₁ pg₂ : PG P) (h₁ : Reachable pg₁) (h₂ : Reachable pg₂)
    (hv₁ : pg₁.valid = true) (hv₂ : pg₂.valid = true) (hg : pg₁.groups = pg₂.groups) :
    (∀ c rows, callerAnswer c pg₁ rows = callerAnswer c pg₂ rows) ∧
    (∀ c rows, callerAnswer c pg₁ rows = callerAnswer c (ofList pg₁.groups) rows) ∧
    (∀ op : Op P, step pg₁ op = step pg₂ op) := by
  have e1 := collection_determined_by_contents pg₁ h₁ hv₁
  have e2 := collection_determined_by_contents pg₂ h₂ hv₂
  have e : pg₁ = pg₂ := by
    calc pg₁ = ofList pg₁.groups := e1
      _ = ofList pg₂.groups := by rw [hg]
      _ = pg₂ := e2.symm
  refine ⟨fun c rows => by rw [e], fun c rows => ?_, fun op => by rw [e]⟩
  exact congrArg (fun s => callerAnswer c s rows) e1

/-- the same, spelled out over histories: what a lookup caller answers after `ops₁` on one collection and
    after `ops₂` on another depends only on the groups the two histories left -/
theorem caller_answer_history_independent (ops₁ ops₂ : List (Op P)) (pg₁ pg₂ : PG P)
    (h₁ : Reachable pg₁) (h₂ : Reachable pg₂)
    (hv₁ : (run pg₁ ops₁).valid = true) (hv₂ : (run pg₂ ops₂).valid = true)
    (hg : (run pg₁ ops₁).groups = (run pg₂ ops₂).groups) (c : Caller) (rows : List (List P)) :
    callerAnswer c (run pg₁ ops₁) rows = callerAnswer c (run pg₂ ops₂) rows :=
  (answers_depend_on_contents_only _ _ (reachable_run ops₁ _ h₁) (reachable_run ops₂ _ h₂) hv₁ hv₂ hg).1 c rows

/-- "… either fails loudly because the index has not been rebuilt since the last change": a lookup caller
    that is handed a changed, not re-indexed collection and at least one row raises the invalid-index
    error (it never answers from what it, or anybody, looked up before) -/
theorem lookup_callers_stale_raise (pg : PG P) (hv : pg.valid = false) (c : Caller) (rows : List (List P))
    (hne : rows ≠ []) :
    callerAnswer c pg rows = .error .invalidIndex ∧ (step pg (.rows c rows)).2 = .err .invalidIndex := by
  have h : callerAnswer c pg rows = .error .invalidIndex :=
    mapRows_error_of_all _ _ rows hne (fun r _ => rowAnswer_stale c pg hv r)
  exact ⟨h, by simp [step, h, outOf]⟩

/-- on a re-indexed collection the callers answer row by row: every caller but the annotation column
    answers for every row; a call fails only in `append_columns`, only with `[][0]` (IndexError), only
    because some row has no protein in any group; an answer has one entry per row and each entry is the
    row's own answer (no dependence on the other rows) -/
theorem lookup_callers_answer_when_valid (pg : PG P) (hr : Reachable pg) (hv : pg.valid = true)
    (c : Caller) (rows : List (List P)) :
    (c ≠ .annotate → ∃ l, callerAnswer c pg rows = .ok l) ∧
    (∀ e, callerAnswer c pg rows = .error e →
      c = .annotate ∧ e = .indexError ∧ ∃ r ∈ rows, ∀ p ∈ r, ∀ g ∈ pg.groups, p ∉ g) ∧
    (∀ l, callerAnswer c pg rows = .ok l → l.length = rows.length ∧
      ∀ (t : Nat) (r : List P) (a : RowAns P), rows[t]? = some r → l[t]? = some a → rowAnswer c pg r = .ok a) := by
  have hinv := (reachable_inv pg hr).1
  have herr : ∀ e, callerAnswer c pg rows = .error e →
      c = .annotate ∧ e = .indexError ∧ ∃ r ∈ rows, ∀ p ∈ r, ∀ g ∈ pg.groups, p ∉ g := by
    intro e he
    obtain ⟨r, hrm, hre⟩ := mapRows_error _ e rows he
    obtain ⟨h1, h2, h3⟩ := rowAnswer_error c pg hinv hv r e hre
    exact ⟨h1, h2, r, hrm, h3⟩
  refine ⟨?_, herr, fun l hl => mapRows_ok _ rows l hl⟩
  intro hc
  cases h : callerAnswer c pg rows with
  | ok l => exact ⟨l, rfl⟩
  | error e => exact absurd (herr e h).1 hc

/-- `update_fragpipe_psm_file`: "returns exactly the group … that currently contains that protein" — a
    PSM row is written with the leader `a` only if `a` is a protein of the row and the first member of a
    CURRENT group that holds a row protein and holds every row protein that is in any group (the group
    is not stale, not foreign, and the row is not shared) -/
theorem psm_row_sound (pg : PG P) (hr : Reachable pg) (r : List P) (a : P)
    (h : psmRow pg r = .ok (.written a)) :
    a ∈ r ∧ ∃ (i : Nat) (g : List P), pg.groups[i]? = some g ∧ g.head? = some a ∧ (∃ p ∈ r, p ∈ g) ∧
      ∀ p ∈ r, (∃ g' ∈ pg.groups, p ∈ g') → p ∈ g := by
  have hinv := (reachable_inv pg hr).1
  have hv : pg.valid = true := by
    cases hv : pg.valid with
    | true => rfl
    | false =>
      have := rowAnswer_stale .psmUpdate pg hv r
      simp only [rowAnswer] at this
      rw [this] at h; cases h
  obtain ⟨gs, hgs, h1 | h1 | ⟨x, a', t, hx, hxa, h1⟩⟩ := psmRow_cases pg hinv hv r
  · rw [h1.2] at h; cases h
  · rw [h1.2] at h; cases h
  · rw [h1] at h
    by_cases hmem : a' ∈ r
    · simp only [hmem, if_true] at h
      have : a' = a := by simpa using h
      subst this
      rw [hx] at hgs
      obtain ⟨hxg, q, hq, _, hqx⟩ := getGroups_mem_spec pg hinv r [x] hgs x (by simp)
      refine ⟨hmem, x.1, x.2, hxg, by simp [hxa], ⟨q, hq, hqx⟩, ?_⟩
      intro p hp ⟨g', hg', hpg'⟩
      obtain ⟨_, hspec⟩ := getGroups_ok pg r true [x] hgs
      cases hl : pg.index.lookup p with
      | none => exact absurd hpg' ((lookup_none_iff pg hinv hv p).mp hl g' hg')
      | some j =>
        obtain ⟨g'', hg'', hp''⟩ := lookup_some_spec pg hinv hv p j hl
        have hin : (j, g'') ∈ [x] := (hspec j g'').mpr ⟨hg'', p, hp, hl⟩
        have : (j, g'') = x := by simpa using hin
        rw [← this]; exact hp''
    · simp [hmem] at h

/-- the quantification callers and `collect_peptide_scores_per_protein`: a row is attached to result
    position `i` only if `i` is a position of the CURRENT collection whose group holds EVERY protein of
    the row (a row with a protein in no group, or with proteins at two positions, is attached nowhere) -/
theorem quant_row_sound (pg : PG P) (hr : Reachable pg) (r : List P) (i : Nat)
    (h : quantRow pg r = .ok (.attached i)) :
    r ≠ [] ∧ ∃ g, pg.groups[i]? = some g ∧ ∀ p ∈ r, p ∈ g := by
  have hinv := (reachable_inv pg hr).1
  obtain ⟨hv, hne, hall⟩ := quantRow_attached pg r i h
  refine ⟨hne, ?_⟩
  cases r with
  | nil => exact absurd rfl hne
  | cons p₀ t =>
    obtain ⟨g, hg, _⟩ := lookup_some_spec pg hinv hv p₀ i (hall p₀ (by simp))
    refine ⟨g, hg, fun p hp => ?_⟩
    obtain ⟨g', hg', hp'⟩ := lookup_some_spec pg hinv hv p i (hall p hp)
    rw [hg] at hg'
    have : g = g' := by simpa using hg'
    rw [this]; exact hp'

/-- "A protein contained in no group is reported as missing and is never mapped to an existing group",
    for rows: a row none of whose proteins is in a current group is dropped by `update_fragpipe_psm_file`,
    attached nowhere by the quantification callers, and `append_columns` fails loudly on it -/
theorem missing_rows_never_mapped (pg : PG P) (hr : Reachable pg) (hv : pg.valid = true) (r : List P)
    (hm : ∀ p ∈ r, ∀ g ∈ pg.groups, p ∉ g) :
    psmRow pg r = .ok .dropped ∧ quantRow pg r = .ok .dropped ∧ annotRow pg r = .error .indexError := by
  have hinv := (reachable_inv pg hr).1
  have hg := getGroups_of_missing pg hinv hv r hm
  refine ⟨by simp [psmRow, hg, isMissingGroups], ?_, by simp [annotRow, hg]⟩
  unfold quantRow
  rw [getIdxs_total pg hv r]
  simp [isMissing_of_missing pg hinv hv r hm]

/-- `FragpipeProteinAnnotationsColumns.append_columns`: whichever of the returned groups Python's set order
    puts first, the annotated leader is the first member of a CURRENT group that holds a protein of the row -/
theorem annot_row_sound (pg : PG P) (hr : Reachable pg) (r : List P) (l : List P)
    (h : annotRow pg r = .ok (.leaders l)) :
    l ≠ [] ∧ ∀ a ∈ l, ∃ g ∈ pg.groups, g.head? = some a ∧ ∃ p ∈ r, p ∈ g := by
  have hinv := (reachable_inv pg hr).1
  have hv : pg.valid = true := by
    cases hv : pg.valid with
    | true => rfl
    | false =>
      have := rowAnswer_stale .annotate pg hv r
      simp only [rowAnswer] at this
      rw [this] at h; cases h
  obtain ⟨gs, hgs, ⟨_, h1⟩ | ⟨hne, h1⟩⟩ := annotRow_cases pg hv r
  · rw [h1] at h; cases h
  · rw [h1] at h
    have hl : l = gs.filterMap (fun x => x.2.head?) := by simpa using h.symm
    have hspec := getGroups_mem_spec pg hinv r gs hgs
    constructor
    · cases gs with
      | nil => exact absurd rfl hne
      | cons x t =>
        obtain ⟨_, q, _, _, hqx⟩ := hspec x (by simp)
        cases hx : x.2 with
        | nil => rw [hx] at hqx; simp at hqx
        | cons a t' => rw [hl]; simp [hx]
    · intro a ha
      rw [hl, List.mem_filterMap] at ha
      obtain ⟨x, hx, hxa⟩ := ha
      obtain ⟨hxg, q, hq, _, hqx⟩ := hspec x hx
      exact ⟨x.2, List.mem_of_getElem? hxg, hxa, q, hq, hqx⟩

/-- "exactly the group": when no protein sits at two positions the callers lose nothing — a row all of
    whose proteins are in the group at position `i` is attached to `i`; a PSM row that hits the group at
    position `i` and no other is written with that group's leader exactly when the leader is a row protein -/
theorem rows_complete_of_disjoint (pg : PG P) (hr : Reachable pg) (hv : pg.valid = true)
    (hd : DisjointPos pg.groups) (r : List P) (i : Nat) (g : List P) (hg : pg.groups[i]? = some g) :
    (r ≠ [] → (∀ p ∈ r, p ∈ g) → quantRow pg r = .ok (.attached i)) ∧
    ((∃ p ∈ r, p ∈ g) → (∀ p ∈ r, (∃ g' ∈ pg.groups, p ∈ g') → p ∈ g) → ∀ a, g.head? = some a →
      psmRow pg r = .ok (if a ∈ r then .written a else .dropped)) :=
  have hinv := (reachable_inv pg hr).1
  ⟨fun hne hall => quantRow_of_all_in pg hinv hv hd r i g hg hne hall,
   fun hex hall a ha => psmRow_of_one_group pg hinv hv hd r i g hg hex hall a ha⟩

/-- "never … foreign groups" with SEVERAL collections alive in one process: a call on collection `k` is the
    step of that collection alone — its answer is computed from `states[k]` and nothing else, and every
    other collection is left exactly as it was -/
theorem stepAt_local (states : List (PG P)) (k : Nat) (op : Op P) (pg : PG P) (hk : states[k]? = some pg) :
    ∃ st, stepAt states k op = some (st, (step pg op).2) ∧ st[k]? = some (step pg op).1 ∧
      st.length = states.length ∧ ∀ j, j ≠ k → st[j]? = states[j]? := by
  have hlt : k < states.length := by
    rcases Nat.lt_or_ge k states.length with h | h
    · exact h
    · rw [List.getElem?_eq_none h] at hk; cases hk
  refine ⟨states.set k (step pg op).1, by simp [stepAt, hk], ?_, by simp, ?_⟩
  · simp [hlt]
  · intro j hj
    simp [Ne.symm hj]

/-! ### non-vacuity: concrete histories -/

/-- append, append, index, merge, (stale) lookup, clean, lookup, lookups of an outside protein -/
def demoOps : List (Op String) :=
  [.append ["A", "B"], .append ["C"], .createIndex, .merge "A" "C", .removeEmpty]

example : (run (init : PG String) demoOps).groups = [["A", "B", "C"]] := by decide
example : getGroup (run (init : PG String) demoOps) "C" = .ok ["A", "B", "C"] := by decide
example : getGroup (run (init : PG String) (demoOps.take 4)) "C" = .error .invalidIndex := by decide
example : getGroup (run (init : PG String) demoOps) "X" = .error .unknownProtein := by decide
example : ∀ g ∈ (run (init : PG String) demoOps).groups, "X" ∉ g := by decide
example : getGroups (run (init : PG String) demoOps) ["X"] = .ok [] := by decide
example : getGroups (run (init : PG String) demoOps) ["X", "B"] = .ok [(0, ["A", "B", "C"])] := by decide
example : getIdxs (run (init : PG String) demoOps) ["X", "B"] = .ok [none, some 0] := by decide
example : mergeGroups (run (init : PG String) (demoOps.take 3)) "A" "C" =
    .ok ⟨[["A", "B", "C"], []], buildIndex [["A", "B"], ["C"]], false⟩ := by decide
example : Reachable (run (init : PG String) demoOps) := reachable_run _ _ .init

/-- the rescue step on an indexed collection, then the component caller -/
def demoCallers : List (Op String) :=
  [.append ["A"], .append ["B"], .append ["C"], .createIndex, .updateRescued [["OBSOLETE__A"]]]

example : getGroup (run (init : PG String) demoCallers) "OBSOLETE__A" = .error .invalidIndex := by decide
example : getIdxs (run (init : PG String) demoCallers) ["OBSOLETE__A"] = .error .invalidIndex := by decide
example : getGroup (run (init : PG String) (demoCallers ++ [.createIndex])) "OBSOLETE__A" = .ok ["OBSOLETE__A"] := by
  decide
example : (step (run (init : PG String) (demoCallers ++ [.createIndex])) (.mergeComponents [["A", "C"], ["B"]])).1.groups
    = [["A", "C"], ["B"], ["OBSOLETE__A"]] := by decide
example : (mergeComponents (run (init : PG String) (demoCallers ++ [.createIndex])) [["A", "C"], ["B"]]).2
    = none := by decide
example : (mergeComponents (run (init : PG String) (demoCallers ++ [.createIndex])) [["A", "C", "X"]]).2
    = some .unknownProtein := by decide
example : (step (run (init : PG String) (demoCallers ++ [.createIndex])) (.mergeComponents [["A", "C", "X"]])).1.valid
    = false := by decide

/-- readers between the calls of `demoOps`: the report chain on the indexed collection, result rows and
    a competition while the flag is down (they do not use the index), a score collection while the flag
    is down (fails loudly) -/
def demoReaders : List (Op String) :=
  [.append ["A", "B"], .append ["C"], .read .resultRows, .createIndex, .read .reportChain, .merge "A" "C",
   .read .competition, .read .collectScores, .removeEmpty, .read .precursorQuants]

example : demoReaders.filter (fun op => !op.isRead) = demoOps := rfl
example : (run (init : PG String) demoReaders).groups = [["A", "B", "C"]] := by decide
example : getGroup (run (init : PG String) demoReaders) "C" = .ok ["A", "B", "C"] := by decide
example : (run (init : PG String) (demoReaders.take 7)).valid = false := by decide
example : (step (run (init : PG String) (demoReaders.take 7)) (.read .collectScores)).2 = .err .invalidIndex := rfl
example : (step (run (init : PG String) (demoReaders.take 7)) (.read .competition)).2 = .unit := rfl
example : (step (run (init : PG String) demoReaders) (.read .reportChain)).2 = .unit := rfl

/-- the scenario of a pipeline tool called repeatedly in one process: groups [[A],[B],[D]], rows looked up,
    then append [C], merge A B, remove-empty, rows looked up again; a second collection -/
def demoRowsOps : List (Op String) := [.append ["C"], .merge "A" "B", .removeEmpty]
def demoRows : List (List String) := [["A"], ["B"], ["C"], ["A", "B"], ["A", "D"], ["Z", "Y"], ["C", "Z"]]

example : callerAnswer .psmUpdate (ofList [["A"], ["B"], ["D"]]) demoRows =
    .ok [.written "A", .written "B", .dropped, .dropped, .dropped, .dropped, .dropped] := by decide
example : (run (ofList [["A"], ["B"], ["D"]]) demoRowsOps).groups = [["A", "B"], ["D"], ["C"]] := by decide
example : callerAnswer .psmUpdate (run (ofList [["A"], ["B"], ["D"]]) demoRowsOps) demoRows =
    .ok [.written "A", .dropped, .written "C", .written "A", .dropped, .dropped, .written "C"] := by decide
example : callerAnswer .fragpipeQuant (run (ofList [["A"], ["B"], ["D"]]) demoRowsOps) demoRows =
    .ok [.attached 0, .attached 0, .attached 2, .attached 0, .dropped, .dropped, .dropped] := by decide
example : callerAnswer .annotate (run (ofList [["A"], ["B"], ["D"]]) demoRowsOps) [["B", "A"], ["A", "D"]] =
    .ok [.leaders ["A"], .leaders ["A", "D"]] := by decide
example : callerAnswer .annotate (run (ofList [["A"], ["B"], ["D"]]) demoRowsOps) [["B"], ["Z"]] =
    .error .indexError := by decide
example : callerAnswer .psmUpdate (run (ofList [["A"], ["B"], ["D"]]) (demoRowsOps.take 2)) demoRows =
    .error .invalidIndex := by decide
example : (run (ofList [["A"], ["B"], ["D"]]) demoRowsOps).valid = true := by decide
example : Reachable (run (ofList [["A"], ["B"], ["D"]]) demoRowsOps) := reachable_run _ _ (.ofList _)
/-- another history with the same final contents (hypotheses of `caller_answer_history_independent`) -/
example : (run (init : PG String) [.append ["A", "B"], .append ["D"], .read .resultRows, .append ["C"], .createIndex]).groups
    = (run (ofList [["A"], ["B"], ["D"]]) demoRowsOps).groups := by decide
example : DisjointPos (run (ofList [["A"], ["B"], ["D"]]) demoRowsOps).groups := by
  intro i j g₁ g₂ p h₁ h₂ hp₁ hp₂
  have hg : (run (ofList [["A"], ["B"], ["D"]]) demoRowsOps).groups = [["A", "B"], ["D"], ["C"]] := by decide
  rw [hg] at h₁ h₂
  match i, j with
  | 0, 0 | 1, 1 | 2, 2 => rfl
  | 0, 1 | 0, 2 | 1, 0 | 1, 2 | 2, 0 | 2, 1 =>
    simp at h₁ h₂; subst h₁ h₂; simp at hp₁ hp₂; rcases hp₁ with rfl | rfl <;> simp at hp₂
  | i + 3, _ => simp at h₁
  | 0, j + 3 | 1, j + 3 | 2, j + 3 => simp at h₂
example : stepAt [ofList [["A"], ["B"]], ofList [["B"], ["A"]]] 1 (.rows .sageQuant [["A"]]) =
    some ([ofList [["A"], ["B"]], ofList [["B"], ["A"]]], .rows [.attached 1]) := rfl

end PgFdr.C20
