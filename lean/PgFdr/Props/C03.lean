import PgFdr.Proofs.C03
import PgFdr.Model.C03Kinds
import PgFdr.Model.C18

/-!
# C03 — subset grouping partitions observed proteins into maximal peptide-set groups

Property text (properties.jsonl): "Subset grouping puts every protein that has at least one observed
peptide into exactly one non-empty group; in each group the first (leading) protein's observed peptide
set contains that of every other member, and no leading protein's peptide set is contained in the
peptide set of a protein outside its group, so the number of groups equals the number of distinct
inclusion-maximal peptide sets. With pseudo-gene grouping the groups are exactly the connected
components of the shares-a-peptide relation, and with no grouping every protein is its own group."

The theorems are about the executable functions of `PgFdr/Model/C03.lean` that the model driver runs
(`subsetGroups`, `noGroups`, `pseudoGeneGroups`; `subsetGrouping pil = subsetGroups (toPairs pil)` etc. are
their `String` instances), tied to `grouping.*.group_proteins` / `ObservedPeptides.generate_protein_groups`
by the exact nested-list correspondence of `harness/props/C03.py`.

A peptide list is `pil : List (Q × List P)` = `[(peptide, proteins)]` in dict order; the hypothesis
`(pil.map (·.1)).Nodup` says it is a dict (unique peptide keys).  "The observed peptide set of `x` is
contained in that of `r`" is stated on the list itself: `∀ e ∈ pil, x ∈ e.2 → r ∈ e.2`.
None of the statements depends on the order in which superset candidates are tried or on the early exit
of `_get_superset_proteins` (the proofs in `Proofs/C03.lean` hold for any membership-preserving order).
-/
set_option linter.unusedSectionVars false
namespace PgFdr.C03
variable {P Q : Type} [DecidableEq P] [DecidableEq Q]

/-- "Subset grouping puts every protein that has at least one observed peptide into exactly one
    non-empty group": no group is empty, no protein occurs twice in the concatenation of all groups
    (so: in at most one group, once), and the proteins occurring are exactly those listed by some peptide -/
theorem subset_partition (pil : List (Q × List P)) (hkeys : (pil.map (·.1)).Nodup) :
    (∀ g ∈ subsetGroups pil, g ≠ []) ∧
    (subsetGroups pil).flatten.Nodup ∧
    (∀ p, p ∈ (subsetGroups pil).flatten ↔ ∃ e ∈ pil, p ∈ e.2) := by
  have hwf := create_wf pil hkeys
  refine ⟨?_, nodup_flatten_generate _ hwf, ?_⟩
  · intro g hg
    obtain ⟨_, _, _, hne⟩ := (mem_generate _ hwf g).mp hg
    exact hne
  · intro p
    rw [← mem_keys_create]
    exact mem_flatten_generate _ hwf p

/-- the same as a permutation statement: the concatenation of the groups is a rearrangement of the
    list of distinct observed proteins -/
theorem subset_partition_perm (pil : List (Q × List P)) (hkeys : (pil.map (·.1)).Nodup) :
    (subsetGroups pil).flatten.Perm (firsts (pil.flatMap (·.2))) := by
  have hwf := create_wf pil hkeys
  unfold subsetGroups
  rw [List.perm_ext_iff_of_nodup (nodup_flatten_generate _ hwf) (nodup_firsts _)]
  intro p
  exact mem_flatten_generate _ hwf p

/-- "in each group the first (leading) protein's observed peptide set contains that of every other
    member" -/
theorem subset_leader_contains (pil : List (Q × List P)) (hkeys : (pil.map (·.1)).Nodup)
    (g : List P) (hg : g ∈ subsetGroups pil) (r : P) (hr : g.head? = some r) (x : P) (hx : x ∈ g) :
    ∀ e ∈ pil, x ∈ e.2 → r ∈ e.2 :=
  (sub_create_iff pil hkeys x r).mp (contains_generate _ (create_wf pil hkeys) g hg r hr x hx)

/-- "no leading protein's peptide set is contained in the peptide set of a protein outside its group"
    (equal peptide sets included: containment is non-strict) -/
theorem subset_leader_maximal (pil : List (Q × List P)) (hkeys : (pil.map (·.1)).Nodup)
    (g : List P) (hg : g ∈ subsetGroups pil) (r : P) (hr : g.head? = some r)
    (q : P) (hq : ∃ e ∈ pil, q ∈ e.2) (hqg : q ∉ g) :
    ¬ (∀ e ∈ pil, r ∈ e.2 → q ∈ e.2) := by
  intro h
  exact maximal_generate _ (create_wf pil hkeys) g hg r hr q ((mem_keys_create pil q).mpr hq) hqg
    ((sub_create_iff pil hkeys r q).mpr h)

/-- `_get_superset_proteins`, early exit included, returns exactly the proteins whose peptide set contains
    that of `p` ("all proteins whose set of peptides forms a (non-strict) superset"): the break at one
    remaining candidate can only fire on `[p]` -/
theorem superset_candidates_exact (pil : List (Q × List P)) (hkeys : (pil.map (·.1)).Nodup)
    (p q : P) (hp : ∃ e ∈ pil, p ∈ e.2) :
    q ∈ supersets (create pil) p ↔ ∀ e ∈ pil, p ∈ e.2 → q ∈ e.2 := by
  have hwf := create_wf pil hkeys
  have hpk := (mem_keys_create pil p).mpr hp
  rw [← sub_create_iff pil hkeys]
  exact ⟨supersets_sound _ hwf p q hpk, mem_supersets _ p q (hwf.nonempty p hpk)⟩

/-- "… so the number of groups equals the number of distinct inclusion-maximal peptide sets": the
    peptide sets of the leading proteins (`pepSet pil r` = the peptide keys listing `r`) are, one for one,
    the distinct inclusion-maximal observed peptide sets, hence the counts agree -/
theorem subset_group_count (pil : List (Q × List P)) (hkeys : (pil.map (·.1)).Nodup) :
    (subsetGroups pil).length = (maximalSets pil).length ∧
    (((subsetGroups pil).filterMap List.head?).map (pepSet pil)).Perm (maximalSets pil) := by
  refine ⟨length_generate_eq_maximalSets pil hkeys, ?_⟩
  unfold subsetGroups
  rw [heads_generate _ (create_wf pil hkeys)]
  exact leader_sets_perm pil hkeys

/-- the model of `generate_protein_groups` that literally drives the `ProteinGroups` state machine of
    property C20 (`init_from_list` of the singletons, `get_protein_group(q, check_idx_valid=False)` and
    `merge_groups(q, p)` on the never-rebuilt index, `remove_empty_groups`) returns the object
    `init_from_list(subsetGroups pil)`: the groups the theorems above are about, with a valid index -/
theorem generate_object (pil : List (Q × List P)) :
    generatePG (create pil) = C20.ofList (subsetGroups pil) :=
  generatePG_eq (create pil) (nodup_firsts _)

/-- "with no grouping every protein is its own group": one singleton per distinct observed protein, in
    first-appearance order -/
theorem nogrouping_singletons (pil : List (Q × List P)) :
    noGroups pil = (firsts (pil.flatMap (·.2))).map (fun p => [p]) ∧
    (∀ g ∈ noGroups pil, ∃ p, g = [p]) ∧
    (noGroups pil).flatten.Nodup ∧
    (∀ p, p ∈ (noGroups pil).flatten ↔ ∃ e ∈ pil, p ∈ e.2) := by
  have h := noGroups_eq pil
  refine ⟨h, ?_, ?_, ?_⟩
  · intro g hg
    rw [h, List.mem_map] at hg
    obtain ⟨p, _, rfl⟩ := hg
    exact ⟨p, rfl⟩
  · rw [h, flatten_singletons]; exact nodup_firsts _
  · intro p
    rw [h, flatten_singletons, mem_firsts, List.mem_flatMap]

/-- pseudo-gene grouping also partitions the observed proteins (no empty group, no protein twice,
    exactly the observed proteins) -/
theorem pseudogene_partition (le : P → P → Bool) (pil : List (Q × List P)) (hkeys : (pil.map (·.1)).Nodup) :
    (∀ g ∈ pseudoGeneGroups le pil, g ≠ []) ∧
    (pseudoGeneGroups le pil).flatten.Nodup ∧
    (∀ p, p ∈ (pseudoGeneGroups le pil).flatten ↔ ∃ e ∈ pil, p ∈ e.2) := by
  obtain ⟨h1, h2, h3⟩ := pseudo_partition_of le _ (create_wf pil hkeys)
  refine ⟨h1, h2, fun p => ?_⟩
  rw [← mem_keys_create]
  exact h3 p

/-- "With pseudo-gene grouping the groups are exactly the connected components of the shares-a-peptide
    relation": two observed proteins are in the same group iff a chain of proteins, each sharing a peptide
    with the next, connects them (for every comparison function `le` used to pick the component's leader) -/
theorem pseudogene_components (le : P → P → Bool) (pil : List (Q × List P)) (hkeys : (pil.map (·.1)).Nodup)
    (a b : P) (ha : ∃ e ∈ pil, a ∈ e.2) (hb : ∃ e ∈ pil, b ∈ e.2) :
    (∃ g ∈ pseudoGeneGroups le pil, a ∈ g ∧ b ∈ g) ↔
      Relation.ReflTransGen (fun p q => ∃ e ∈ pil, p ∈ e.2 ∧ q ∈ e.2) a b := by
  have hwf := create_wf pil hkeys
  have hshare : Share (create pil) = fun p q => ∃ e ∈ pil, p ∈ e.2 ∧ q ∈ e.2 := by
    funext p q; exact propext (share_create_iff pil hkeys p q)
  rw [← hshare]
  exact pseudo_components_of le _ hwf a b ((mem_keys_create pil a).mpr ha) ((mem_keys_create pil b).mpr hb)

/-! ### non-vacuity -/

/-- nested chain B ⊂ A ⊂ C (A, then B, is merged into the position owned by C), D overlapping C
    without containment -/
def demoPil : List (String × List String) :=
  [("p1", ["A", "B", "C"]), ("p2", ["B", "A", "C"]), ("p3", ["C", "A", "D"]), ("p4", ["D"])]

example : (demoPil.map (·.1)).Nodup := by decide
example : subsetGroups demoPil = [["C", "A", "B"], ["D"]] := by decide
example : noGroups demoPil = [["A"], ["B"], ["C"], ["D"]] := by decide
example : ["C", "A", "B"] ∈ subsetGroups demoPil ∧ (["C", "A", "B"] : List String).head? = some "C" := by decide
example : (∃ e ∈ demoPil, "D" ∈ e.2) ∧ "D" ∉ ["C", "A", "B"] := by decide
example : supersets (create demoPil) "A" = ["A", "C"] := by decide
example : maximalSets demoPil = [["p1", "p2", "p3"], ["p3", "p4"]] := by decide
/-- A–B, B–C share peptides pairwise, no containment: three subset groups, one pseudo-gene group; D apart -/
def demoPil2 : List (String × List String) :=
  [("p1", ["B", "A"]), ("p2", ["B", "C"]), ("p3", ["A"]), ("p4", ["C"]), ("p5", ["D"])]
example : subsetGroups demoPil2 = [["B"], ["A"], ["C"], ["D"]] := by decide
example : pseudoGeneGroups strLe demoPil2 = [["A", "B", "C"], ["D"]] := by decide
example : Relation.ReflTransGen (fun p q => ∃ e ∈ demoPil2, p ∈ e.2 ∧ q ∈ e.2) "A" "C" := by
  have h1 : ∃ e ∈ demoPil2, "A" ∈ e.2 ∧ "B" ∈ e.2 := by decide
  have h2 : ∃ e ∈ demoPil2, "B" ∈ e.2 ∧ "C" ∈ e.2 := by decide
  exact Relation.ReflTransGen.tail (Relation.ReflTransGen.single h1) h2
example (pil : List PepInfo) : subsetGroupingPG pil = generatePG (create (toPairs pil)) := rfl
example (pil : List PepInfo) : pseudoGeneGrouping pil = pseudoGeneGroups strLe (toPairs pil) := rfl
example (pil : List PepInfo) : subsetGrouping pil = subsetGroups (toPairs pil) := rfl
example (pil : List PepInfo) : noGrouping pil = noGroups (toPairs pil) := rfl

/-! ### the file argument of `group_proteins(peptide_info_list, mq_protein_groups_file)`

The statements above are about what a grouping makes of the PEPTIDE LIST.  Every `group_proteins` also receives the
path of a MaxQuant proteinGroups.txt (`--mq_protein_groups`; `get_protein_group_results(…, mq_protein_groups_file)`),
meant for the MaxQuant-native groupings only.  `groupProteins le k pil file` (`Model/C03Kinds.lean`) is the first-pass
`group_proteins` of each of the six classes the factory can build, `file : Option (Except String groups)`.  -/

/-- "Subset grouping … With pseudo-gene grouping … with no grouping …" are statements about the peptide list alone:
    for each of the four classes that do not implement the native MaxQuant grouping the result is the same whatever
    file argument is passed — none, an unreadable path, a file with any groups -/
theorem grouping_independent_of_file (le : P → P → Bool) (k : Kind) (hk : k.readsFile = false)
    (pil : List (Q × List P)) (file : FileArg P) :
    groupProteins le k pil file = groupProteins le k pil none := by
  cases k <;> first | rfl | (simp [Kind.readsFile] at hk)

/-- …and it is the grouping of the theorems above: `no` → `noGroups`, `subset` and the first pass of `rescued_subset`
    → `subsetGroups`, `pseudo_gene` → `pseudoGeneGroups`, for every file argument -/
theorem first_pass_groups (le : P → P → Bool) (pil : List (Q × List P)) (file : FileArg P) :
    groupProteins le .no pil file = .ok (noGroups pil) ∧
    groupProteins le .subset pil file = .ok (subsetGroups pil) ∧
    groupProteins le .rescuedSubset pil file = .ok (subsetGroups pil) ∧
    groupProteins le .pseudoGene pil file = .ok (pseudoGeneGroups le pil) :=
  ⟨rfl, rfl, rfl, rfl⟩

/-- the property's subset sentence for the subset-based classes WITH a file argument: whatever file is passed, the
    call succeeds and its groups partition the observed proteins, every member's peptide set is contained in the
    leading protein's, no leading protein's set is contained in that of a protein outside its group, and there are as
    many groups as distinct inclusion-maximal peptide sets -/
theorem subset_statement_any_file (le : P → P → Bool) (k : Kind) (hk : k = .subset ∨ k = .rescuedSubset)
    (pil : List (Q × List P)) (hkeys : (pil.map (·.1)).Nodup) (file : FileArg P) :
    ∃ G, groupProteins le k pil file = .ok G ∧
      (∀ g ∈ G, g ≠ []) ∧ G.flatten.Nodup ∧ (∀ p, p ∈ G.flatten ↔ ∃ e ∈ pil, p ∈ e.2) ∧
      (∀ g ∈ G, ∀ r, g.head? = some r → ∀ x ∈ g, ∀ e ∈ pil, x ∈ e.2 → r ∈ e.2) ∧
      (∀ g ∈ G, ∀ r, g.head? = some r → ∀ q, (∃ e ∈ pil, q ∈ e.2) → q ∉ g → ¬ (∀ e ∈ pil, r ∈ e.2 → q ∈ e.2)) ∧
      G.length = (maximalSets pil).length := by
  refine ⟨subsetGroups pil, ?_, ?_⟩
  · rcases hk with rfl | rfl <;> rfl
  · obtain ⟨h1, h2, h3⟩ := subset_partition pil hkeys
    exact ⟨h1, h2, h3,
      fun g hg r hr x hx => subset_leader_contains pil hkeys g hg r hr x hx,
      fun g hg r hr q hq hqg => subset_leader_maximal pil hkeys g hg r hr q hq hqg,
      (subset_group_count pil hkeys).1⟩

/-- the two MaxQuant-native classes return the rows of the file verbatim, for EVERY peptide list (which they do not
    consult: a protein of the peptide list that the file does not mention is in no group; what the file groups stays
    grouped, observed or not), hand on the error of an unreadable / malformed file, and refuse a falsy argument -/
theorem native_returns_file_groups (le : P → P → Bool) (k : Kind) (hk : k.readsFile = true)
    (pil : List (Q × List P)) :
    (∀ r : Except String (List (List P)), groupProteins le k pil (some r) = r) ∧
    groupProteins le k pil none = .error "missing_mq_protein_groups" := by
  cases k <;> simp [Kind.readsFile] at hk <;> exact ⟨fun _ => rfl, rfl⟩

/-- `parse_method_toml`: with pseudo-genes requested EVERY method configuration — whatever its file says, even a name
    the factory does not know — groups by pseudo-genes, hence independently of the file argument; without, the class is
    the factory's for the file's value -/
theorem pseudo_override_every_configuration (le : P → P → Bool) (tomlGrouping : String)
    (pil : List (Q × List P)) (file : FileArg P) :
    configured true tomlGrouping = some .pseudoGene ∧
    groupProteins le .pseudoGene pil file = .ok (pseudoGeneGroups le pil) ∧
    configured false tomlGrouping = Kind.ofName tomlGrouping :=
  ⟨by simp [configured]; decide, rfl, by simp [configured]⟩

/-- the six classes are the six groupings of the command-line model (`Model/C18.lean`, `parseMethod` feeds
    `C18.parseGrouping` the same overridden name), and the ones reading the file are the ones that model marks as
    needing `--mq_protein_groups` -/
def Kind.toC18 : Kind → C18.Grouping
  | .no => .no | .subset => .subset | .rescuedSubset => .rescuedSubset
  | .mqNative => .mqNative | .rescuedMqNative => .rescuedMqNative | .pseudoGene => .pseudoGene

theorem kinds_are_the_command_line_groupings (name : String) (k : Kind) :
    (Kind.ofName name).map Kind.toC18 = C18.parseGrouping name ∧
    k.toC18.needsMqGroups = k.readsFile := by
  constructor
  · unfold Kind.ofName C18.parseGrouping
    repeat' split
    all_goals rfl
  · cases k <;> rfl

/-- the file's groups for a table that has both columns and whose rows reach them: one group per data row, the
    protein cell split at `;`, each name stripped of surrounding white space -/
theorem file_groups_wellformed (t : Table) (hs : "Score" ∈ t.header) (hp : "Protein IDs" ∈ t.header)
    (hrows : ∀ row ∈ t.rows, t.header.length ≤ row.length) :
    fileGroups t = .ok (t.rows.map (fun row => parseCell (row.getD (t.header.idxOf "Protein IDs") ""))) := by
  unfold fileGroups columnIndex
  rw [if_pos hs, if_pos hp]
  simp only
  have hpc : t.header.idxOf "Protein IDs" < t.header.length := List.idxOf_lt_length_of_mem hp
  have hsc : t.header.idxOf "Score" < t.header.length := List.idxOf_lt_length_of_mem hs
  generalize t.header.idxOf "Protein IDs" = pc at hpc ⊢
  generalize t.header.idxOf "Score" = sc at hsc ⊢
  generalize t.rows = rows at hrows ⊢
  induction rows with
  | nil => rfl
  | cons row rest ih =>
    have hlen := hrows row (List.mem_cons_self)
    have h1 : pc < row.length := by omega
    have h2 : sc < row.length := by omega
    have ih' := ih (fun r hr => hrows r (List.mem_cons_of_mem _ hr))
    simp only [rowsGroups, List.getElem?_eq_getElem h1, List.getElem?_eq_getElem h2, ih', List.map_cons,
      List.getD_eq_getElem?_getD, Option.getD_some]

/-! #### non-vacuity of the file statements -/

/-- a proteinGroups.txt from "some" search: P0 and P1 grouped (not a subset pair in `demoPil3`), a name with blanks,
    a protein the peptide list does not know -/
def demoTable : Table :=
  { header := ["Protein IDs", "Majority protein IDs", "Score"],
    rows := [["P0; P1 ", "P0", "25.3"], ["P9", "P9", ""]] }
def demoPil3 : List PepInfo :=
  [⟨"pepA", 0, ["P0"]⟩, ⟨"pepB", 0, ["P0", "P1"]⟩, ⟨"pepC", 0, ["P1"]⟩, ⟨"pepD", 0, ["P2"]⟩]

example : fileGroups demoTable = .ok [["P0", "P1"], ["P9"]] := by decide
example : fileGroups { demoTable with header := ["Protein IDs", "x", "score"] } = .error "missing_column" := by decide
example : fileGroups { demoTable with rows := [["P0"]] } = .error "short_row" := by decide
example : "Score" ∈ demoTable.header ∧ "Protein IDs" ∈ demoTable.header ∧
    ∀ row ∈ demoTable.rows, demoTable.header.length ≤ row.length := by decide
example : groupProteinsStr .subset demoPil3 (.table demoTable) = .ok [["P0"], ["P1"], ["P2"]] := by decide
example : groupProteinsStr .rescuedSubset demoPil3 .unreadable = .ok [["P0"], ["P1"], ["P2"]] := by decide
example : groupProteinsStr .pseudoGene demoPil3 (.table demoTable) = .ok [["P0", "P1"], ["P2"]] := by decide
example : groupProteinsStr .mqNative demoPil3 (.table demoTable) = .ok [["P0", "P1"], ["P9"]] := by decide
example : groupProteinsStr .rescuedMqNative demoPil3 .absent = .error "missing_mq_protein_groups" := by decide
example : configured true "no" = some .pseudoGene ∧ configured true "mq_native" = some .pseudoGene ∧
    configured false "rescued_subset" = some .rescuedSubset ∧ configured false "subsets" = none := by decide
example : Kind.subset.readsFile = false ∧ Kind.rescuedSubset.readsFile = false ∧ Kind.no.readsFile = false ∧
    Kind.pseudoGene.readsFile = false ∧ Kind.mqNative.readsFile = true := by decide

end PgFdr.C03
