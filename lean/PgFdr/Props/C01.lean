import PgFdr.Proofs.C01
import PgFdr.Proofs.C06
import PgFdr.Proofs.Pipeline

/-!
# C01 — protein-group q-values are the monotone decoy-based FDR estimate

Property text (properties.jsonl): "When the protein groups that survive competition are ranked by
decreasing score, each group's q-value equals the minimum, over all ranks at or below it, of
(decoy groups so far + 1) / (target groups so far + 1), where a group counts as decoy only if all
of its proteins are decoys. Hence q-values never decrease down the ranking and, for every
threshold t, the ranked groups with q-value <= t satisfy (decoys + 1) / (targets + 1) <= t.
Reported rows carry exactly the score and q-value computed on that ranking, in the same relative
order, even when other ranked groups are withheld from the report."

Only property theorems live here.  The executable model is `PgFdr.C01.calcProteinFdrs`
(`Model/C01.lean`: sentinel cut `ranked`, running estimates `fdrs`, `fdrsToQvals`, the decoy
predicate `isDecoyGroup = PgFdr.isDecoy`), tied to `fdr.calculate_protein_fdrs`, `helpers.is_decoy`
and the call site by the correspondence of `harness/props/C01.py`.  Ranks are 0-based;
`estimate dec r k` is (decoys among the first k+1 ranked groups + 1) / (targets among them + 1).
-/
namespace PgFdr.C01

/-- which groups are ranked: `zip(groups, scores)` up to the first sentinel score `-100.0` — the
    first `n` groups, none of which has the sentinel score, where `n` is the position of the first
    sentinel score or the length of the shorter list -/
theorem ranked_spec (groups : List (List String)) (scores : List Rat) :
    ∃ n, ranked groups scores = groups.take n ∧ n ≤ groups.length ∧ n ≤ scores.length ∧
      (∀ i s, i < n → scores[i]? = some s → s ≠ -100) ∧
      (n = min groups.length scores.length ∨ scores[n]? = some (-100)) :=
  ranked_eq_take groups scores

/-- the model rejects exactly the rankings the code rejects: no group before the sentinel -/
theorem no_ranked_groups_iff (groups : List (List String)) (scores : List Rat) :
    (∃ e, calcProteinFdrs groups scores = .error e) ↔ ranked groups scores = [] := by
  constructor
  · rintro ⟨e, h⟩; exact ((calc_error_iff _ _ _ _).mp h).1
  · intro h; exact ⟨"no_ranked_groups", (calc_error_iff _ _ _ _).mpr ⟨h, rfl⟩⟩

/-- the reported estimate at every rank is (decoy groups so far + 1) / (target groups so far + 1),
    counted with the executable decoy predicate; every ranked group is counted on exactly one side -/
theorem fdrs_getElem (groups : List (List String)) (scores : List Rat) (f q : List Rat)
    (h : calcProteinFdrs groups scores = .ok (f, q)) (k : Nat) (hk : k < (ranked groups scores).length) :
    f[k]? = some (((countP isDecoyGroup (ranked groups scores) k + 1 : Nat) : Rat) /
                  ((countP (fun g => !isDecoyGroup g) (ranked groups scores) k + 1 : Nat) : Rat)) ∧
    countP isDecoyGroup (ranked groups scores) k + countP (fun g => !isDecoyGroup g) (ranked groups scores) k
      = k + 1 := by
  obtain ⟨-, hf, -⟩ := (calc_ok_iff _ _ _ _ _).mp h
  subst hf
  exact ⟨fdrs_getElem_estimate _ _ k hk, countP_add _ _ k hk⟩

/-- "each group's q-value equals the minimum, over all ranks at or below it, of
    (decoy groups so far + 1) / (target groups so far + 1)": there is one q-value per ranked group,
    it is a lower bound of the estimate at every rank at or below it, and it is attained at one of them -/
theorem qvals_spec (groups : List (List String)) (scores : List Rat) (f q : List Rat)
    (h : calcProteinFdrs groups scores = .ok (f, q)) :
    q.length = (ranked groups scores).length ∧
    ∀ i v, q[i]? = some v →
      (∀ j, i ≤ j → j < (ranked groups scores).length → v ≤ estimate isDecoyGroup (ranked groups scores) j) ∧
      (∃ j, i ≤ j ∧ j < (ranked groups scores).length ∧ v = estimate isDecoyGroup (ranked groups scores) j) := by
  obtain ⟨-, hf, hq⟩ := (calc_ok_iff _ _ _ _ _).mp h
  subst hq
  have hlen : f.length = (ranked groups scores).length := by rw [hf, fdrs_length]
  refine ⟨by rw [fdrsToQvals_length, hlen], ?_⟩
  intro i v hv
  obtain ⟨hlow, j, hij, hj⟩ := qvals_spec_list f i v hv
  constructor
  · intro j hij hjr
    apply hlow j _ hij
    rw [hf]; exact fdrs_getElem_estimate _ _ j hjr
  · have hjr : j < (ranked groups scores).length := by
      rw [← hlen]; exact (List.getElem?_eq_some_iff.mp hj).1
    refine ⟨j, hij, hjr, ?_⟩
    rw [hf, fdrs_getElem_estimate _ _ j hjr] at hj
    exact (Option.some.inj hj).symm

/-- the same for any list of estimates (the monotonisation helper `fdrs_to_qvals` on its own):
    lower bound of all later entries, attained at one of them -/
theorem fdrsToQvals_spec (f : List Rat) (i : Nat) (v : Rat) (h : (fdrsToQvals f)[i]? = some v) :
    (∀ j y, i ≤ j → f[j]? = some y → v ≤ y) ∧ (∃ j, i ≤ j ∧ f[j]? = some v) :=
  qvals_spec_list f i v h

/-- "Hence q-values never decrease down the ranking" -/
theorem qvals_monotone (groups : List (List String)) (scores : List Rat) (f q : List Rat)
    (h : calcProteinFdrs groups scores = .ok (f, q)) (i j : Nat) (vi vj : Rat) (hij : i ≤ j)
    (hi : q[i]? = some vi) (hj : q[j]? = some vj) : vi ≤ vj := by
  obtain ⟨-, -, hq⟩ := (calc_ok_iff _ _ _ _ _).mp h
  subst hq
  exact qvals_monotone_list f i j vi vj hij hi hj

/-- "for every threshold t, the ranked groups with q-value <= t satisfy
    (decoys + 1) / (targets + 1) <= t": the accepted groups `S` are a prefix of the ranking and,
    unless `S` is empty, (decoy groups in S + 1) / (target groups in S + 1) ≤ t -/
theorem threshold_sound (groups : List (List String)) (scores : List Rat) (f q : List Rat)
    (h : calcProteinFdrs groups scores = .ok (f, q)) (t : Rat) :
    let S := (((ranked groups scores).zip q).filter (fun gq => decide (gq.2 ≤ t))).map (·.1)
    S = (ranked groups scores).take S.length ∧
    (S ≠ [] →
      (((S.filter isDecoyGroup).length + 1 : Nat) : Rat) /
        (((S.filter (fun g => !isDecoyGroup g)).length + 1 : Nat) : Rat) ≤ t) := by
  intro S
  obtain ⟨-, hf, hq⟩ := (calc_ok_iff _ _ _ _ _).mp h
  exact threshold_sound_ranked isDecoyGroup (ranked groups scores) f q t hf hq S rfl

/-- "Reported rows carry exactly the score and q-value computed on that ranking, in the same
    relative order, even when other ranked groups are withheld from the report": when the report is
    built (`C06.fromProteinGroups`, the model of `from_protein_groups`) with the q-values of the
    ranking, there is a strictly increasing list `idx` of ranks, one per row, such that row `k` lists
    proteins of the ranked group at rank `idx[k]` (not a placeholder) and carries exactly the score
    and the q-value of that rank.  Ranks after the sentinel never reach the report (there is no
    q-value for them); placeholder groups and groups without a listed protein are skipped without
    shifting anything -/
theorem report_alignment (groups : List (List String)) (infos : List (List Evidence))
    (scores : List Rat) (f q : List Rat) (cutoff : Option Rat) (keepAll : Bool) (rows : List C06.RowData)
    (hq : calcProteinFdrs groups scores = .ok (f, q))
    (h : C06.fromProteinGroups groups infos scores q cutoff keepAll = .ok rows) :
    ∃ idx : List Nat, idx.Pairwise (· < ·) ∧ idx.length = rows.length ∧
      ∀ (k i : Nat), idx[k]? = some i →
        ∃ row g s v, rows[k]? = some row ∧ (ranked groups scores)[i]? = some g ∧
          scores[i]? = some s ∧ q[i]? = some v ∧ row.score = s ∧ row.qValue = v ∧
          isObsolete g = false ∧ (∀ p ∈ row.proteins, p ∈ g) ∧ row.proteins ≠ [] := by
  obtain ⟨idx, h1, h2, h3⟩ := C06.report_alignment_aux groups infos scores q cutoff keepAll rows h
  obtain ⟨hqlen, -⟩ := qvals_spec groups scores f q hq
  refine ⟨idx, h1, h2, ?_⟩
  intro k i hk
  obtain ⟨row, g, info, s, v, hr, hg, -, hs, hv, hrs, hrq, ho, hf⟩ := h3 k i hk
  have hi : i < (ranked groups scores).length := by
    rw [← hqlen]; exact (List.getElem?_eq_some_iff.mp hv).1
  obtain ⟨hp, -, -, -, -, -, -, -, -, hne, -⟩ := C06.fromProteinGroup_some g info v s cutoff keepAll row hf
  refine ⟨row, g, s, v, hr, ?_, hs, hv, hrs, hrq, ho, ?_, hne⟩
  · rw [ranked_getElem? groups scores i hi]; exact hg
  · intro p hpm
    rw [hp] at hpm
    exact (List.mem_filter.mp hpm).1

/-- "a group counts as decoy only if all of its proteins are decoys": exactly what `helpers.is_decoy`
    computes — every member contains the marker `REV__` (Python `in`: anywhere in the identifier), or
    every member contains the marker `rev_`; one marker must serve the whole group -/
theorem decoy_only_if_all (g : List String) :
    isDecoyGroup g = true ↔
      (∀ p ∈ g, ∃ a b, p.toList = a ++ "REV__".toList ++ b) ∨
      (∀ p ∈ g, ∃ a b, p.toList = a ++ "rev_".toList ++ b) :=
  decoy_only_if_all_aux g

/-- the two markers are the ones the source declares (`Generated.decoyMarkers` is re-translated from
    `helpers.py` on every run) -/
theorem decoy_markers_from_source (g : List String) :
    isDecoyGroup g = Generated.decoyMarkers.any (fun m => allContain g m) := by
  simp [isDecoyGroup, isDecoy, Generated.decoyMarkers]

/-- consequences the property text's reader may not expect: the empty group counts as decoy, a
    group mixing the two markers does not, nor does a group with one unmarked member -/
theorem decoy_corner_cases :
    isDecoyGroup [] = true ∧ isDecoyGroup ["REV__A", "rev_B"] = false ∧
    isDecoyGroup ["REV__A", "B"] = false ∧ isDecoyGroup ["REV__A", "REV__B"] = true ∧
    isDecoyGroup ["rev_A", "sp|rev_B"] = true := by
  decide

/-! Non-vacuity: a ranking with a target, a decoy, a `REV__`/`rev_` mix (target), a placeholder decoy
and a sentinel tail; estimates 1/2, 1, 2/3, 1; q-values 1/2, 2/3, 2/3, 1. -/

private def exGroups : List (List String) :=
  [["A"], ["REV__B"], ["REV__C", "rev_D"], ["OBSOLETE__REV__E"], ["F"]]
private def exScores : List Rat := [5, 4, 4, 1, -100]

example : calcProteinFdrs exGroups exScores = .ok ([1/2, 1, 2/3, 1], [1/2, 2/3, 2/3, 1]) := by
  decide +kernel

example : (ranked exGroups exScores).length = 4 := by decide +kernel

/-- threshold 2/3 accepts three groups with (1+1)/(2+1) = 2/3 -/
example : ((((ranked exGroups exScores).zip [1/2, 2/3, 2/3, (1 : Rat)]).filter
    (fun gq => decide (gq.2 ≤ 2/3))).map (·.1)) = [["A"], ["REV__B"], ["REV__C", "rev_D"]] := by
  decide +kernel

example : ∃ e, calcProteinFdrs [["A"]] [-100] = .error e := ⟨_, rfl⟩

/-- the report built with these q-values: the placeholder at rank 3 is withheld, rank 4 is behind the
    sentinel; rows come from ranks 0, 1, 2 with their scores and q-values -/
example : (C06.fromProteinGroups exGroups
      [[⟨1/100, "P0", ["A"]⟩], [⟨1/100, "P1", ["REV__B"]⟩], [⟨1/100, "P2", ["REV__C", "rev_D"]⟩],
       [⟨1/100, "P3", ["OBSOLETE__REV__E"]⟩], [⟨1/100, "P4", ["F"]⟩]]
      exScores [1/2, 2/3, 2/3, 1] none false).map (fun rows => rows.map (fun r => (r.proteins, r.score, r.qValue))) =
    .ok [(["A"], 5, 1/2), (["REV__B"], 4, 2/3), (["REV__C", "rev_D"], 4, 2/3)] := by
  decide +kernel

/-! ## The same statements for the whole inference function

`PgFdr.Pipeline.run cfg inp` (`Model/Pipeline.lean`) is the composed executable model of
`get_protein_group_results`: grouping → [razor] → evidence → competition → FDR → report, with the rescue
pass for `rescued_subset`.  It is what the driver op `pipeline` executes and what `harness/pipeline.py`
compares, value by value, with the real function.  The theorems below hold for EVERY configuration
`cfg` (grouping no / subset / rescued subset / pseudo-gene × razor × picked / picked-group / classic),
every input and every recorded parameter (shuffles, cut map, float scores, rescue cutoff).
`r.final` is the pass whose rows are reported (`r.pass2.getD r.pass1`); `Pipeline.finalItems inp r` is the
`zip(groups, evidence, scores)` handed to its `do_competition`, `finalShuffle1/2` the two recorded
shuffles (`Proofs/Pipeline.lean`). -/

/-- "When the protein groups that survive competition are ranked by decreasing score": the ranking of the
    reported pass is the outcome of `do_competition` (C02) on the zipped groups, evidence and scores of
    that pass, it is not empty, and its scores never increase down the ranking -/
theorem pipeline_ranked_nonincreasing (cfg : Pipeline.Config) (inp : Pipeline.Input) (r : Pipeline.Result)
    (h : Pipeline.run cfg inp = .ok r) :
    r.final.ranking = C02.doCompetition cfg.mode (Pipeline.finalItems inp r)
      (Pipeline.finalShuffle1 inp r) (Pipeline.finalShuffle2 inp r) ∧
    r.final.ranking ≠ [] ∧
    (r.final.ranking.map (·.score)).Pairwise (· ≥ ·) := by
  obtain ⟨hp, -⟩ := Pipeline.final_spec cfg inp r h
  refine ⟨hp.ranking, hp.ranking_ne, ?_⟩
  rw [List.pairwise_map, hp.ranking]
  exact C02.ranked_nonincreasing cfg.mode _ _ _

/-- which ranked groups enter the estimate: all of them, unless a recorded score is the sentinel `-100.0`
    (which `do_competition` gives only to groups without evidence, and those are never ranked) -/
theorem pipeline_ranked_all (r : Pipeline.Result)
    (hs : ∀ x ∈ r.final.ranking, x.score ≠ -100) :
    ranked (r.final.ranking.map (·.group)) (r.final.ranking.map (·.score)) = r.final.ranking.map (·.group) := by
  obtain ⟨n, h1, -, -, -, h5⟩ := ranked_eq_take (r.final.ranking.map (·.group)) (r.final.ranking.map (·.score))
  rw [h1]
  rcases h5 with h5 | h5
  · rw [h5]; simp
  · exfalso
    have hm := List.mem_of_getElem? h5
    obtain ⟨x, hx, hxs⟩ := List.mem_map.mp hm
    exact hs x hx hxs

/-- "each group's q-value equals the minimum, over all ranks at or below it, of (decoy groups so far + 1)
    / (target groups so far + 1), where a group counts as decoy only if all of its proteins are decoys.
    Hence q-values never decrease down the ranking": for the ranked groups `G` of the reported pass of ANY
    successful call there is one reported estimate and one q-value per ranked group; the estimate at rank
    `k` is (decoys among the first k+1 groups + 1)/(targets among them + 1) with the executable
    `isDecoyGroup = helpers.is_decoy`; every q-value is a lower bound of the estimates at all ranks at or
    below it and is attained at one of them; and q-values are monotone -/
theorem pipeline_qvals_spec (cfg : Pipeline.Config) (inp : Pipeline.Input) (r : Pipeline.Result)
    (h : Pipeline.run cfg inp = .ok r) :
    let G := ranked (r.final.ranking.map (·.group)) (r.final.ranking.map (·.score))
    G ≠ [] ∧ r.final.fdrs.length = G.length ∧ r.final.qvals.length = G.length ∧
    (∀ k, k < G.length → r.final.fdrs[k]? = some (estimate isDecoyGroup G k) ∧
      countP isDecoyGroup G k + countP (fun g => !isDecoyGroup g) G k = k + 1) ∧
    (∀ (i : Nat) (v : Rat), r.final.qvals[i]? = some v →
      (∀ j, i ≤ j → j < G.length → v ≤ estimate isDecoyGroup G j) ∧
      (∃ j, i ≤ j ∧ j < G.length ∧ v = estimate isDecoyGroup G j)) ∧
    (∀ (i j : Nat) (vi vj : Rat), i ≤ j → r.final.qvals[i]? = some vi → r.final.qvals[j]? = some vj → vi ≤ vj) := by
  intro G
  obtain ⟨hp, -⟩ := Pipeline.final_spec cfg inp r h
  have hq := hp.fdrs
  obtain ⟨hne, hf, -⟩ := (calc_ok_iff _ _ _ _ _).mp hq
  obtain ⟨hql, hqs⟩ := qvals_spec _ _ _ _ hq
  refine ⟨?_, ?_, hql, ?_, hqs, ?_⟩
  · intro h0; exact hne (by simpa [G] using h0)
  · rw [hf, fdrs_length]
  · intro k hk
    exact fdrs_getElem _ _ _ _ hq k hk
  · intro i j vi vj hij hi hj
    exact qvals_monotone _ _ _ _ hq i j vi vj hij hi hj

/-- "for every threshold t, the ranked groups with q-value <= t satisfy (decoys + 1) / (targets + 1) <= t":
    for the reported pass of any successful call the groups accepted at `t` are a prefix `S` of the ranking
    and, unless `S` is empty, (decoy groups in S + 1) / (target groups in S + 1) ≤ t -/
theorem pipeline_threshold_sound (cfg : Pipeline.Config) (inp : Pipeline.Input) (r : Pipeline.Result)
    (h : Pipeline.run cfg inp = .ok r) (t : Rat) :
    let G := ranked (r.final.ranking.map (·.group)) (r.final.ranking.map (·.score))
    let S := ((G.zip r.final.qvals).filter (fun gq => decide (gq.2 ≤ t))).map (·.1)
    S = G.take S.length ∧
    (S ≠ [] →
      (((S.filter isDecoyGroup).length + 1 : Nat) : Rat) /
        (((S.filter (fun g => !isDecoyGroup g)).length + 1 : Nat) : Rat) ≤ t) := by
  obtain ⟨hp, -⟩ := Pipeline.final_spec cfg inp r h
  exact threshold_sound _ _ _ _ hp.fdrs t

/-- "Reported rows carry exactly the score and q-value computed on that ranking, in the same relative
    order, even when other ranked groups are withheld from the report": the table `r.rows` returned by any
    successful call comes from a strictly increasing list `idx` of ranks of the reported pass, one per
    row; row `k` lists proteins of the ranked group at rank `idx[k]` (never a placeholder, never a rank
    behind a sentinel score) and carries exactly the score of that ranked group and the q-value computed
    for that rank -/
theorem pipeline_report_alignment (cfg : Pipeline.Config) (inp : Pipeline.Input) (r : Pipeline.Result)
    (h : Pipeline.run cfg inp = .ok r) :
    ∃ idx : List Nat, idx.Pairwise (· < ·) ∧ idx.length = r.rows.length ∧
      ∀ (k i : Nat), idx[k]? = some i →
        ∃ (row : C06.RowData) (x : C02.Item), r.rows[k]? = some row ∧ r.final.ranking[i]? = some x ∧
          i < (ranked (r.final.ranking.map (·.group)) (r.final.ranking.map (·.score))).length ∧
          row.score = x.score ∧ r.final.qvals[i]? = some row.qValue ∧
          isObsolete x.group = false ∧ (∀ p ∈ row.proteins, p ∈ x.group) ∧ row.proteins ≠ [] := by
  obtain ⟨hp, hrows⟩ := Pipeline.final_spec cfg inp r h
  have hr := hp.rows
  rw [← hrows] at hr
  obtain ⟨idx, h1, h2, h3⟩ := report_alignment _ _ _ _ _ _ _ _ hp.fdrs hr
  refine ⟨idx, h1, h2, ?_⟩
  intro k i hk
  obtain ⟨row, g, s, v, hrow, hg, hs, hv, hrs, hrq, ho, hmem, hne⟩ := h3 k i hk
  have hi : i < (ranked (r.final.ranking.map (·.group)) (r.final.ranking.map (·.score))).length :=
    (List.getElem?_eq_some_iff.mp hg).1
  rw [ranked_getElem? _ _ i hi, List.getElem?_map] at hg
  rw [List.getElem?_map] at hs
  cases hx : r.final.ranking[i]? with
  | none => rw [hx] at hg; simp at hg
  | some x =>
    rw [hx] at hg hs
    simp only [Option.map_some, Option.some.injEq] at hg hs
    subst hg
    exact ⟨row, x, hrow, rfl, hi, by rw [hrs, hs], by rw [hrq]; exact hv, ho, hmem, hne⟩

/-! Non-vacuity of the pipeline theorems: two calls that succeed (`Proofs/Pipeline.lean`, `demo_run1`,
`demo_run2`) — protein-level picking without grouping (one pass), and the flagship method (rescued subset
grouping + picked-group competition: two passes, a placeholder group in the second competition) — on a
target `A` (score 3) and a decoy `REV__B` (score 2): q-values (0+1)/(1+1) = 1/2 and (1+1)/(1+1) = 1.
`mergeSort` does not reduce in the kernel, so the recorded shuffles are chosen such that both sorts find
their input sorted; every other stage is evaluated by the kernel. -/

example : ∃ r, Pipeline.run Pipeline.demoCfg1 Pipeline.demoInp1 = .ok r ∧
    r.final.ranking.map (·.score) = [3, 2] ∧ r.final.qvals = [1/2, 1] ∧
    r.rows.map (fun d => (d.proteins, d.score, d.qValue)) = [(["A"], 3, 1/2), (["REV__B"], 2, 1)] := by
  obtain ⟨r, h, h1, h2, h3, -⟩ := Pipeline.demo_run1
  exact ⟨r, h, by rw [h1]; rfl, h2, by rw [h3]; rfl⟩

example : ∃ r, Pipeline.run Pipeline.demoCfg2 Pipeline.demoInp2 = .ok r ∧ r.rescued = true ∧
    r.final.compGroups = [["A"], ["REV__B"], ["OBSOLETE__A"]] ∧
    r.final.ranking.map (·.group) = [["A"], ["REV__B"]] ∧ r.final.qvals = [1/2, 1] ∧
    r.rows.map (fun d => (d.proteins, d.score, d.qValue)) = [(["A"], 3, 1/2), (["REV__B"], 2, 1)] := by
  obtain ⟨r, h, h1, h2, h3, h4, h5⟩ := Pipeline.demo_run2
  exact ⟨r, h, h5, h4, by rw [h1]; rfl, h2, by rw [h3]; rfl⟩

/-- hypothesis of `pipeline_ranked_all`: no ranked score is the sentinel -/
example : ∃ r, Pipeline.run Pipeline.demoCfg2 Pipeline.demoInp2 = .ok r ∧ ∀ x ∈ r.final.ranking, x.score ≠ -100 := by
  obtain ⟨r, h, h1, -⟩ := Pipeline.demo_run2
  refine ⟨r, h, ?_⟩
  rw [h1]; decide +kernel

end PgFdr.C01
