import PgFdr.Proofs.C01

/-!
# C01 — protein-group q-values are the monotone decoy-based FDR estimate

Property text (properties.jsonl): "When the protein groups that survive competition are ranked by
decreasing score, each group's q-value equals the minimum, over all ranks at or below it, of
(decoy groups so far + 1) / (target groups so far + 1), where a group counts as decoy only if all
of its proteins are decoys. Hence q-values never decrease down the ranking and, for every
threshold t, the ranked groups with q-value <= t satisfy (decoys + 1) / (targets + 1) <= t.
Reported rows carry exactly the score and q-value computed on that ranking, in the same relative
order, even when other ranked groups are withheld from the report."

Only property theorems live here.  The executable model is `PgFdr.C01.calcProteinFdrs`
(`Model/C01.lean`: sentinel cut `ranked`, running estimates `fdrs`, `fdrsToQvals`, the decoy
predicate `isDecoyGroup = PgFdr.isDecoy`), tied to `fdr.calculate_protein_fdrs`, `helpers.is_decoy`
and the call site by the correspondence of `harness/props/C01.py`.  Ranks are 0-based;
`estimate dec r k` is (decoys among the first k+1 ranked groups + 1) / (targets among them + 1).
-/
namespace PgFdr.C01

/-- which groups are ranked: `zip(groups, scores)` up to the first sentinel score `-100.0` — the
    first `n` groups, none of which has the sentinel score, where `n` is the position of the first
    sentinel score or the length of the shorter list -/
theorem ranked_spec (groups : List (List String)) (scores : List Rat) :
    ∃ n, ranked groups scores = groups.take n ∧ n ≤ groups.length ∧ n ≤ scores.length ∧
      (∀ i s, i < n → scores[i]? = some s → s ≠ -100) ∧
      (n = min groups.length scores.length ∨ scores[n]? = some (-100)) :=
  ranked_eq_take groups scores

/-- the model rejects exactly the rankings the code rejects: no group before the sentinel -/
theorem no_ranked_groups_iff (groups : List (List String)) (scores : List Rat) :
    (∃ e, calcProteinFdrs groups scores = .error e) ↔ ranked groups scores = [] := by
  constructor
  · rintro ⟨e, h⟩; exact ((calc_error_iff _ _ _ _).mp h).1
  · intro h; exact ⟨"no_ranked_groups", (calc_error_iff _ _ _ _).mpr ⟨h, rfl⟩⟩

/-- the reported estimate at every rank is (decoy groups so far + 1) / (target groups so far + 1),
    counted with the executable decoy predicate; every ranked group is counted on exactly one side -/
theorem fdrs_getElem (groups : List (List String)) (scores : List Rat) (f q : List Rat)
    (h : calcProteinFdrs groups scores = .ok (f, q)) (k : Nat) (hk : k < (ranked groups scores).length) :
    f[k]? = some (((countP isDecoyGroup (ranked groups scores) k + 1 : Nat) : Rat) /
                  ((countP (fun g => !isDecoyGroup g) (ranked groups scores) k + 1 : Nat) : Rat)) ∧
    countP isDecoyGroup (ranked groups scores) k + countP (fun g => !isDecoyGroup g) (ranked groups scores) k
      = k + 1 := by
  obtain ⟨-, hf, -⟩ := (calc_ok_iff _ _ _ _ _).mp h
  subst hf
  exact ⟨fdrs_getElem_estimate _ _ k hk, countP_add _ _ k hk⟩

/-- "each group's q-value equals the minimum, over all ranks at or below it, of
    (decoy groups so far + 1) / (target groups so far + 1)": there is one q-value per ranked group,
    it is a lower bound of the estimate at every rank at or below it, and it is attained at one of them -/
theorem qvals_spec (groups : List (List String)) (scores : List Rat) (f q : List Rat)
    (h : calcProteinFdrs groups scores = .ok (f, q)) :
    q.length = (ranked groups scores).length ∧
    ∀ i v, q[i]? = some v →
      (∀ j, i ≤ j → j < (ranked groups scores).length → v ≤ estimate isDecoyGroup (ranked groups scores) j) ∧
      (∃ j, i ≤ j ∧ j < (ranked groups scores).length ∧ v = estimate isDecoyGroup (ranked groups scores) j) := by
  obtain ⟨-, hf, hq⟩ := (calc_ok_iff _ _ _ _ _).mp h
  subst hq
  have hlen : f.length = (ranked groups scores).length := by rw [hf, fdrs_length]
  refine ⟨by rw [fdrsToQvals_length, hlen], ?_⟩
  intro i v hv
  obtain ⟨hlow, j, hij, hj⟩ := qvals_spec_list f i v hv
  constructor
  · intro j hij hjr
    apply hlow j _ hij
    rw [hf]; exact fdrs_getElem_estimate _ _ j hjr
  · have hjr : j < (ranked groups scores).length := by
      rw [← hlen]; exact (List.getElem?_eq_some_iff.mp hj).1
    refine ⟨j, hij, hjr, ?_⟩
    rw [hf, fdrs_getElem_estimate _ _ j hjr] at hj
    exact (Option.some.inj hj).symm

/-- the same for any list of estimates (the monotonisation helper `fdrs_to_qvals` on its own):
    lower bound of all later entries, attained at one of them -/
theorem fdrsToQvals_spec (f : List Rat) (i : Nat) (v : Rat) (h : (fdrsToQvals f)[i]? = some v) :
    (∀ j y, i ≤ j → f[j]? = some y → v ≤ y) ∧ (∃ j, i ≤ j ∧ f[j]? = some v) :=
  qvals_spec_list f i v h

/-- "Hence q-values never decrease down the ranking" -/
theorem qvals_monotone (groups : List (List String)) (scores : List Rat) (f q : List Rat)
    (h : calcProteinFdrs groups scores = .ok (f, q)) (i j : Nat) (vi vj : Rat) (hij : i ≤ j)
    (hi : q[i]? = some vi) (hj : q[j]? = some vj) : vi ≤ vj := by
  obtain ⟨-, -, hq⟩ := (calc_ok_iff _ _ _ _ _).mp h
  subst hq
  exact qvals_monotone_list f i j vi vj hij hi hj

/-- "for every threshold t, the ranked groups with q-value <= t satisfy
    (decoys + 1) / (targets + 1) <= t": the accepted groups `S` are a prefix of the ranking and,
    unless `S` is empty, (decoy groups in S + 1) / (target groups in S + 1) ≤ t -/
theorem threshold_sound (groups : List (List String)) (scores : List Rat) (f q : List Rat)
    (h : calcProteinFdrs groups scores = .ok (f, q)) (t : Rat) :
    let S := (((ranked groups scores).zip q).filter (fun gq => decide (gq.2 ≤ t))).map (·.1)
    S = (ranked groups scores).take S.length ∧
    (S ≠ [] →
      (((S.filter isDecoyGroup).length + 1 : Nat) : Rat) /
        (((S.filter (fun g => !isDecoyGroup g)).length + 1 : Nat) : Rat) ≤ t) := by
  intro S
  obtain ⟨-, hf, hq⟩ := (calc_ok_iff _ _ _ _ _).mp h
  exact threshold_sound_ranked isDecoyGroup (ranked groups scores) f q t hf hq S rfl

/-- "a group counts as decoy only if all of its proteins are decoys": exactly what `helpers.is_decoy`
    computes — every member contains the marker `REV__` (Python `in`: anywhere in the identifier), or
    every member contains the marker `rev_`; one marker must serve the whole group -/
theorem decoy_only_if_all (g : List String) :
    isDecoyGroup g = true ↔
      (∀ p ∈ g, ∃ a b, p.toList = a ++ "REV__".toList ++ b) ∨
      (∀ p ∈ g, ∃ a b, p.toList = a ++ "rev_".toList ++ b) := by
  unfold isDecoyGroup isDecoy
  rw [Bool.or_eq_true, allContain_iff, allContain_iff]
  simp only [strContains, containsSub_iff]

/-- the two markers are the ones the source declares (`Generated.decoyMarkers` is re-translated from
    `helpers.py` on every run) -/
theorem decoy_markers_from_source (g : List String) :
    isDecoyGroup g = Generated.decoyMarkers.any (fun m => allContain g m) := by
  simp [isDecoyGroup, isDecoy, Generated.decoyMarkers]

/-- consequences the property text's reader may not expect: the empty group counts as decoy, a
    group mixing the two markers does not, nor does a group with one unmarked member -/
theorem decoy_corner_cases :
    isDecoyGroup [] = true ∧ isDecoyGroup ["REV__A", "rev_B"] = false ∧
    isDecoyGroup ["REV__A", "B"] = false ∧ isDecoyGroup ["REV__A", "REV__B"] = true ∧
    isDecoyGroup ["rev_A", "sp|rev_B"] = true := by
  decide

/-! Non-vacuity: a ranking with a target, a decoy, a `REV__`/`rev_` mix (target), a placeholder decoy
and a sentinel tail; estimates 1/2, 1, 2/3, 1; q-values 1/2, 2/3, 2/3, 1. -/

private def exGroups : List (List String) :=
  [["A"], ["REV__B"], ["REV__C", "rev_D"], ["OBSOLETE__REV__E"], ["F"]]
private def exScores : List Rat := [5, 4, 4, 1, -100]

example : calcProteinFdrs exGroups exScores = .ok ([1/2, 1, 2/3, 1], [1/2, 2/3, 2/3, 1]) := by
  decide +kernel

example : (ranked exGroups exScores).length = 4 := by decide +kernel

/-- threshold 2/3 accepts three groups with (1+1)/(2+1) = 2/3 -/
example : ((((ranked exGroups exScores).zip [1/2, 2/3, 2/3, (1 : Rat)]).filter
    (fun gq => decide (gq.2 ≤ 2/3))).map (·.1)) = [["A"], ["REV__B"], ["REV__C", "rev_D"]] := by
  decide +kernel

example : ∃ e, calcProteinFdrs [["A"]] [-100] = .error e := ⟨_, rfl⟩

end PgFdr.C01
