import PgFdr.Proofs.C19
import PgFdr.Proofs.C19Char
import PgFdr.Proofs.C19Annot
import PgFdr.Model.C18

/-!
# C19 — FASTA header fields and annotation columns are extracted exactly

Property text (properties.jsonl): "For UniProt-style FASTA headers the parsed protein identifier,
accession, entry name, gene name, description, existence level, organism (for headers that carry a
gene name) and sequence length equal the fields the header was composed of, and within one file the
first record wins for a repeated identifier. The annotation columns of a reported row list, for the
row's proteins in order, each distinct identifier, gene name and full header once; gene-level
reporting uses the gene names as identifiers unless most records lack one, in which case
pseudo-genes from shared peptides are used instead."

The theorems are about the executable model `PgFdr.C19` (the functions the driver ops "header" /
"annotations" run).  The model has two readings of a header: the CHARACTER-level functions
`parse*Char` / `annotateChar` that mirror the Python expressions (`str.split(" OS=")`, `in`, `[1]`,
`" ".join`) and are what the driver op "header" executes against the real code, and the word-level
functions `parse*` / `annotate` on the list of space-separated words.  `char_level_eq_token_level`
proves the two equal on EVERY string, `header_roundtrip_char` is the round trip for the
character-level functions.  Helper lemmas: `PgFdr/Proofs/C19.lean`, `PgFdr/Proofs/C19Char.lean`.
-/
namespace PgFdr.C19

/-- "the parsed protein identifier, accession, entry name, gene name, description, existence level,
    organism (for headers that carry a gene name) … equal the fields the header was composed of"
    — on the word list of a header composed from well-formed fields (no free word starts with
    `OS=`, `GN=` or `PE=`; no bar inside db / accession / entry; one-digit existence level) -/
theorem header_roundtrip (f : Fields) (h : f.WF) :
    parseId (compose f) = f.ident ∧
    parseUniprotId (compose f) = f.acc ∧
    parseEntryName (compose f) = f.entry ∧
    parseGene (compose f) = f.gene ∧
    parseDescription (compose f) = f.desc ∧
    parseExistence (compose f) = some (some (f.pe : Int)) ∧
    (∀ g, f.gene = some g → parseOrganism (compose f) = some (f.org ++ [OX ++ f.ox])) := by
  refine ⟨parseId_compose f, parseUniprotId_compose f h, parseEntryName_compose f h,
    parseGene_compose f h, parseDescription_compose f h, parseExistence_compose f h, ?_⟩
  intro g hg
  rw [parseOrganism_compose f h, hg]
  simp

/-- the same on the header TEXT (words joined by single blanks, no blank inside a field), through
    `annotate` — the function `read_fasta_proteins` is modelled by and the driver runs — for each
    identifier rule (full identifier, accession, gene name); `n` is the sequence length handed in -/
theorem header_roundtrip_text (rule : IdRule) (f : Fields) (h : f.WF) (hb : f.NoBlank) (n : Nat) :
    annotate rule (render f) n = .ok
      { id := match rule with | .full => some f.ident | .accession => some f.acc | .gene => f.gene,
        header := render f, uniprotId := f.acc, entryName := f.entry, geneName := f.gene, length := n,
        organism := some (unwords (f.org ++ [OX ++ f.ox] ++
          (if f.gene.isSome then [] else [PE ++ [Nat.digitChar f.pe], SV ++ f.sv]))),
        description := unwords f.desc, existence := some (f.pe : Int) } :=
  annotate_render rule f h hb n

/-- "organism (for headers that carry a gene name)": without a `GN=` word nothing ends the organism
    field, so the existence and version words are swallowed — the parsed organism is NOT the
    composed one -/
theorem organism_needs_gene (f : Fields) (h : f.WF) (hg : f.gene = none) :
    parseOrganism (compose f) = some (f.org ++ [OX ++ f.ox, PE ++ [Nat.digitChar f.pe], SV ++ f.sv]) ∧
    parseOrganism (compose f) ≠ some (f.org ++ [OX ++ f.ox]) := by
  have : parseOrganism (compose f) = some (f.org ++ [OX ++ f.ox, PE ++ [Nat.digitChar f.pe], SV ++ f.sv]) := by
    rw [parseOrganism_compose f h, hg]; simp [peTok]
  refine ⟨this, ?_⟩
  rw [this]
  intro e
  have := congrArg List.length (Option.some.inj e)
  simp at this

/-- "the parsed … equal the fields the header was composed of" needs the parsers the code runs:
    the character-level functions (`fasta_header.split(" OS=")[1].split(" GN=")[0]`, `" PE=" in
    fasta_header`, `" ".join(….split(" ")[1:])`, …) return, on EVERY header `s` — composed or not,
    with empty words, tabs, repeated or missing keys — what the word-level functions return on
    `s.split(" ")`; hence the whole annotation agrees for each identifier rule -/
theorem char_level_eq_token_level (s : List Char) :
    parseIdChar s = parseId (words s) ∧
    parseUniprotIdChar s = parseUniprotId (words s) ∧
    parseEntryNameChar s = parseEntryName (words s) ∧
    parseGeneChar s = parseGene (words s) ∧
    parseDescriptionChar s = unwords (parseDescription (words s)) ∧
    parseExistenceChar s = parseExistence (words s) ∧
    parseOrganismChar s = (parseOrganism (words s)).map unwords ∧
    (∀ rule n, annotateChar rule s n = annotate rule s n) :=
  ⟨parseIdChar_eq s, parseUniprotIdChar_eq s, parseEntryNameChar_eq s, parseGeneChar_eq s,
    parseDescriptionChar_eq s, parseExistenceChar_eq s, parseOrganismChar_eq s,
    fun rule n => annotateChar_eq rule s n⟩

/-- the lemma behind it — Python's `s.split(" " + key)` on blank-free words joined by single blanks
    (every string is one: `unwords_words`, `words_blankfree`) cuts exactly at the first word after
    the identifier that starts with the key, and continues in the rest of that word -/
theorem split_key_of_joined_words (key : List Char) (hk : ' ' ∉ key) (t0 : Tok) (ts : List Tok)
    (h0 : ' ' ∉ t0) (hts : ∀ t ∈ ts, ' ' ∉ t) :
    splitStrAux (' ' :: key) 0 (unwords (t0 :: ts)) =
      match fromFirst (startsWith key) ts with
      | none => [unwords (t0 :: ts)]
      | some (t, r) =>
        unwords (t0 :: before (startsWith key) ts) ::
          splitStrAux (' ' :: key) 0 (unwords (t.drop key.length :: r)) :=
  splitKey_unwords key hk ts t0 h0 hts

/-- for a header composed of well-formed, blank-free fields the character-level parsers return on
    the header TEXT what the word-level parsers return on the composed words -/
theorem char_level_eq_token_level_composed (f : Fields) (hb : f.NoBlank) (hpe : f.pe < 10) :
    parseIdChar (render f) = parseId (compose f) ∧
    parseUniprotIdChar (render f) = parseUniprotId (compose f) ∧
    parseEntryNameChar (render f) = parseEntryName (compose f) ∧
    parseGeneChar (render f) = parseGene (compose f) ∧
    parseDescriptionChar (render f) = unwords (parseDescription (compose f)) ∧
    parseExistenceChar (render f) = parseExistence (compose f) ∧
    parseOrganismChar (render f) = (parseOrganism (compose f)).map unwords := by
  have hw := words_render f hb hpe
  refine ⟨?_, ?_, ?_, ?_, ?_, ?_, ?_⟩ <;>
    simp only [parseIdChar_eq, parseUniprotIdChar_eq, parseEntryNameChar_eq, parseGeneChar_eq,
      parseDescriptionChar_eq, parseExistenceChar_eq, parseOrganismChar_eq, hw]

/-- "the parsed protein identifier, accession, entry name, gene name, description, existence level,
    organism (for headers that carry a gene name) … equal the fields the header was composed of"
    — for the CHARACTER-level parsers on the header text.  `NoBlank` (no blank inside a field) is
    the one hypothesis added to `header_roundtrip`'s: a field with a blank is not recovered by the
    code either (`acc = "P1 x"`: `parse_uniprot_id("sp|P1 x|E …") = "P1"`, see the example below) -/
theorem header_roundtrip_char (f : Fields) (h : f.WF) (hb : f.NoBlank) :
    parseIdChar (render f) = f.ident ∧
    parseUniprotIdChar (render f) = f.acc ∧
    parseEntryNameChar (render f) = f.entry ∧
    parseGeneChar (render f) = f.gene ∧
    parseDescriptionChar (render f) = unwords f.desc ∧
    parseExistenceChar (render f) = some (some (f.pe : Int)) ∧
    (∀ g, f.gene = some g → parseOrganismChar (render f) = some (unwords (f.org ++ [OX ++ f.ox]))) ∧
    (f.gene = none → parseOrganismChar (render f) =
        some (unwords (f.org ++ [OX ++ f.ox, PE ++ [Nat.digitChar f.pe], SV ++ f.sv]))) := by
  obtain ⟨c1, c2, c3, c4, c5, c6, c7⟩ := char_level_eq_token_level_composed f hb h.peDigit
  obtain ⟨r1, r2, r3, r4, r5, r6, r7⟩ := header_roundtrip f h
  refine ⟨c1.trans r1, c2.trans r2, c3.trans r3, c4.trans r4, by rw [c5, r5], c6.trans r6, ?_, ?_⟩
  · intro g hg; rw [c7, r7 g hg]; rfl
  · intro hg; rw [c7, (organism_needs_gene f h hg).1]; rfl

/-- the same through `annotateChar` — what the driver op "header" runs against the real
    `parse_*` calls of `read_fasta_proteins` — for each identifier rule -/
theorem header_roundtrip_char_annotation (rule : IdRule) (f : Fields) (h : f.WF) (hb : f.NoBlank) (n : Nat) :
    annotateChar rule (render f) n = .ok
      { id := match rule with | .full => some f.ident | .accession => some f.acc | .gene => f.gene,
        header := render f, uniprotId := f.acc, entryName := f.entry, geneName := f.gene, length := n,
        organism := some (unwords (f.org ++ [OX ++ f.ox] ++
          (if f.gene.isSome then [] else [PE ++ [Nat.digitChar f.pe], SV ++ f.sv]))),
        description := unwords f.desc, existence := some (f.pe : Int) } := by
  rw [annotateChar_eq]; exact header_roundtrip_text rule f h hb n

/-! ## The hypotheses on lines, in Python's terms

The record-level theorems below assume `FastaRecord.Clean` (`ComposedRecord.Good` includes it): nothing for
`line.rstrip()` to remove.  `rstrip` of the model strips `isSpace`, which is Python's `str.isspace` — NOT the six
ASCII characters only: a line ending in NBSP, NEL (U+0085), FS…US (U+001C–U+001F) or a Unicode blank is stripped
by Python and by the model, and is therefore NOT clean.  The table is compared with the running interpreter over
every code point by the correspondence (case kind `charclass`). -/

/-- the white space of the model is Python's `str.isspace` (CPython 3.12, Unicode 15.0): exactly the 29 code points
    of `pySpaceCodePoints` — U+0009–U+000D, U+001C–U+0020, U+0085, U+00A0, U+1680, U+2000–U+200A, U+2028, U+2029,
    U+202F, U+205F, U+3000 -/
theorem white_space_is_pythons (c : Char) : isSpace c = true ↔ c.toNat ∈ pySpaceCodePoints :=
  isSpace_iff_mem c

/-- `line.rstrip()` leaves a line as it is exactly when the line does not END in white space -/
theorem rstrip_fixed_iff (l : List Char) : rstrip l = l ↔ ∀ c, l.getLast? = some c → isSpace c = false :=
  rstrip_eq_self_iff l

/-- the hypothesis `Clean` of `sequence_length` / `annotations_of_composed_file`, spelled out: a non-empty header,
    no header and no sequence line ending in a character of Python's white space, no sequence line starting
    with `>` -/
theorem clean_iff (r : FastaRecord) :
    r.Clean ↔ r.header ≠ [] ∧ (∀ c, r.header.getLast? = some c → isSpace c = false) ∧
      ∀ l ∈ r.seqLines, (∀ c, l.getLast? = some c → isSpace c = false) ∧ l.head? ≠ some '>' :=
  FastaRecord.clean_iff r

/-! ## Python's `int()` of the `PE=` field

`parseInt` (Model/C19.lean) accepts exactly: white space of `isIntSpace` (= `str.isspace` without U+001C–U+001F) at
both ends, an optional ASCII sign, decimal digits of any script (`digitZeros`: the 68 runs of ten of Unicode 15.0)
with single underscores between digits.  The existence level is therefore an `Int`. -/

example : parseInt "+1".toList = some 1 ∧ parseInt "1_0".toList = some 10 ∧ parseInt "1\t".toList = some 1 ∧
    parseInt "-١٢".toList = some (-12) ∧ parseInt "\u00a007\u0085".toList = some 7 ∧ parseInt "１𝟐".toList = some 12 ∧
    parseInt "-0".toList = some 0 := by decide +kernel
example : parseInt "1\u001f".toList = none ∧ parseInt "_1".toList = none ∧ parseInt "1_".toList = none ∧
    parseInt "1__0".toList = none ∧ parseInt "+ 1".toList = none ∧ parseInt "".toList = none ∧
    parseInt "+".toList = none ∧ parseInt "1 2".toList = none ∧ parseInt "²".toList = none ∧
    parseInt "0x1".toList = none := by decide +kernel
example : (annotateChar .full "a PE=1_0".toList 0).toOption.map (·.existence) = some (some 10) ∧
    (annotateChar .full "a PE=+1\t".toList 0).toOption.map (·.existence) = some (some 1) ∧
    (annotateChar .gene "x PE=-١٢".toList 0).toOption.map (·.existence) = some (some (-12)) ∧
    (match annotateChar .full "a PE=1\u001f".toList 0 with | .error .badExistence => true | _ => false) = true := by
  decide +kernel

/-- "… and sequence length": a file written record by record (header line, sequence lines; no line
    ends in white space — Python's: `clean_iff` —, no sequence line starts with `>`) is read back as exactly
    these records with the total length of their sequence lines — target-only, and target + `REV__` decoy -/
theorem sequence_length (concat : Bool) (recs : List FastaRecord) (h : ∀ r ∈ recs, r.Clean) :
    readFasta concat (recs.flatMap FastaRecord.lines) =
      .ok (recs.flatMap (fun r =>
        if concat then [(r.header, r.seqLength), (decoyPrefix ++ r.header, r.seqLength)]
        else [(r.header, r.seqLength)])) := by
  unfold readFasta
  rw [readLoop_records concat _ recs h]
  simp only [emit, List.nil_append]
  rfl

/-- "within one file the first record wins for a repeated identifier": the dictionary built from
    the records of a file maps an identifier to the FIRST record carrying it -/
theorem first_record_wins (recs : List Annotation) (k : Option (List Char)) :
    Dict.get? (single recs) k = recs.find? (fun a => decide (a.id = k)) := by
  unfold single
  rw [foldl_insertNew_get]
  simp [Dict.get?]

/-- "each distinct identifier, gene name and full header once": the loop `if x not in l: l.append(x)`
    yields a duplicate-free list with the same members, ordered by first occurrence (the head stays
    first, the rest is the result for the remaining values with the head removed) -/
theorem distinct_spec {α} [DecidableEq α] (l : List α) :
    (distinct l).Nodup ∧ (∀ x, x ∈ distinct l ↔ x ∈ l) ∧
    (∀ x r, l = x :: r → distinct l = x :: distinct (r.filter (fun y => decide (y ≠ x)))) := by
  refine ⟨nodup_distinctInto [] l (by simp), ?_, ?_⟩
  · intro x; unfold distinct; rw [mem_distinctInto]; simp
  · intro x r e; subst e; exact distinct_cons x r

/-- "The annotation columns of a reported row list, for the row's proteins in order, each distinct
    identifier, gene name and full header once": the row's proteins (split at `;`) found in the
    dictionary, in row order; identifiers, gene names (records without one skipped) and headers
    each made distinct as in `distinct_spec` and joined by `;` -/
theorem annotation_columns_spec (d : Dict) (ids : List Char) :
    annotationColumns d ids =
      (joinOn ';' (distinct (((splitOn ';' ids).filterMap (fun p => d.get? (some p))).filterMap (·.id))),
       joinOn ';' (distinct (((splitOn ';' ids).filterMap (fun p => d.get? (some p))).filterMap (·.geneName))),
       joinOn ';' (distinct (((splitOn ';' ids).filterMap (fun p => d.get? (some p))).map (·.header)))) := rfl

/-- "gene-level reporting uses the gene names as identifiers unless most records lack one, in
    which case pseudo-genes from shared peptides are used instead": with `d` the dictionary read
    under the ordinary identifier rule, gene level re-reads the files with the gene rule exactly
    when MORE than half of the entries carry a non-empty gene name; otherwise `d` is kept and
    `use_pseudo_genes` is set; without gene level `d` is returned as is -/
theorem gene_level_switch (fs : List (List (List Char))) (cd uu : Bool) (d : Dict)
    (hd : multiple (!cd) (if uu then IdRule.accession else IdRule.full) fs = .ok d) (hne : d ≠ []) :
    (2 * geneCount d > d.length →
      getAnnotations (some fs) cd true uu =
        match multiple (!cd) .gene fs with
        | .ok d' => .ok (d', false)
        | .error e => .error e) ∧
    (2 * geneCount d ≤ d.length → getAnnotations (some fs) cd true uu = .ok (d, true)) ∧
    getAnnotations (some fs) cd false uu = .ok (d, false) := by
  have hemp : d.isEmpty = false := by cases d <;> simp_all
  refine ⟨?_, ?_, ?_⟩
  · intro hgt
    unfold getAnnotations
    simp only [hd, hasGeneNames, hemp, Bool.false_eq_true, if_false, if_true, hgt, decide_true]
    cases multiple (!cd) IdRule.gene fs <;> rfl
  · intro hle
    unfold getAnnotations
    have : ¬ (2 * geneCount d > d.length) := by omega
    simp [hd, hasGeneNames, hemp, this]
  · unfold getAnnotations
    simp [hd]

/-- under the gene rule the identifier of a record IS its gene name -/
theorem gene_rule_identifier (header : List Char) (n : Nat) (a : Annotation)
    (h : annotate .gene header n = .ok a) : a.id = a.geneName := by
  unfold annotate at h
  simp only at h
  cases hp : parseExistence (words header) with
  | none => rw [hp] at h; injection h with h; subst h; rfl
  | some v =>
    cases v with
    | none => rw [hp] at h; cases h
    | some k => rw [hp] at h; injection h with h; subst h; rfl

/-! Non-vacuity: a concrete UniProt-style record — isoform accession, a description with brackets
and the WORDS `OS`, `GN`, `PE`, a multi-word organism, a gene — satisfies the hypotheses; the same
record without gene satisfies those of `organism_needs_gene`. -/

private def ex : Fields :=
  { db := "sp".toList, acc := "P00167-2".toList, entry := "CYB5_HUMAN".toList,
    desc := ["Cytochrome".toList, "b5".toList, "[isoform".toList, "2]".toList, "OS".toList, "GN".toList, "PE".toList],
    org := ["Homo".toList, "sapiens".toList], ox := "9606".toList, gene := some "CYB5A".toList, pe := 1,
    sv := "2".toList }

example : ex.WF := by
  constructor <;> decide +kernel

example : ex.NoBlank := by
  constructor <;> first | decide +kernel | (intro g hg; cases hg; decide +kernel)

example : String.ofList (render ex) =
    "sp|P00167-2|CYB5_HUMAN Cytochrome b5 [isoform 2] OS GN PE OS=Homo sapiens OX=9606 GN=CYB5A PE=1 SV=2" := by
  decide +kernel

example : ({ ex with gene := none } : Fields).WF := by
  constructor <;> decide +kernel

example : ∃ r : FastaRecord, r.Clean ∧ r.seqLength = 7 :=
  ⟨{ header := render ex, seqLines := ["MAEQ".toList, "SDK".toList] }, by
    refine ⟨by decide +kernel, by decide +kernel, ?_⟩
    intro l hl
    simp only [List.mem_cons, List.not_mem_nil, or_false] at hl
    rcases hl with hl | hl <;> subst hl <;> decide +kernel, by decide +kernel⟩

example : distinct [2, 1, 2, 3, 1] = [2, 1, 3] := by decide

/-- Python strips what the six-character ASCII set would keep: sequence lines `MK` + NEL and `AA` + US under a
    header ending in NBSP are read as header `…SV=2`, length 4 (the second audit's record; not `Clean`) -/
example : (readFasta false [('>' :: render ex) ++ ['\u00a0'], "MK\u0085".toList, "AA\u001f".toList]).toOption =
    some [(render ex, 4)] := by decide +kernel
example : ¬ (FastaRecord.Clean { header := render ex ++ ['\u00a0'], seqLines := ["MK".toList] }) := by
  intro h
  have := ((clean_iff _).mp h).2.1 '\u00a0' (by decide +kernel)
  revert this; decide +kernel
/-- white space that does not end the line stays and counts -/
example : (readFasta false ['>' :: render ex, "M\u00a0K\t".toList]).toOption = some [(render ex, 3)] := by
  decide +kernel


/-! Character level: the concrete record is parsed by the `str.split` mirror (kernel evaluation of
`splitStrAux`), and the hypothesis `NoBlank` is needed — with a blank inside the accession the
word-level model of `compose` would return the field, the character-level functions (and the
code: `parse_uniprot_id("sp|P1 x|E_H d OS=o OX=1 PE=1 SV=1") == "P1"`) do not. -/

example : (parseOrganismChar (render ex)).map String.ofList = some "Homo sapiens OX=9606" ∧
    String.ofList (parseDescriptionChar (render ex)) = "Cytochrome b5 [isoform 2] OS GN PE" ∧
    (parseGeneChar (render ex)).map String.ofList = some "CYB5A" ∧
    parseExistenceChar (render ex) = some (some 1) := by
  decide +kernel

example : (splitStr " OS=" "a OS=b OS=c  OS= OS=".toList).map String.ofList = ["a", "b", "c ", "", ""] := by
  decide +kernel

private def exBlank : Fields :=
  { db := "sp".toList, acc := "P1 x".toList, entry := "E_H".toList, desc := ["d".toList],
    org := ["o".toList], ox := "1".toList, gene := none, pe := 1, sv := "1".toList }

example : exBlank.WF ∧ parseUniprotId (compose exBlank) = exBlank.acc ∧
    parseUniprotIdChar (render exBlank) = "P1".toList ∧ ¬ exBlank.NoBlank := by
  refine ⟨by constructor <;> decide +kernel, by decide +kernel, by decide +kernel, ?_⟩
  intro hb; exact absurd hb.acc (by decide +kernel)

/-- "… and sequence length", for the function the annotation path executes: `read_fasta_proteins`
    (`readProteins`, the recursion `getAnnotations` runs — it annotates every record when the reader yields
    it) is the reader `readFasta` of `sequence_length` followed by the annotation of its records, in order:
    whenever the reader succeeds the two agree (also in WHICH `int()` failure surfaces), and a reader failure
    is a failure of the annotation path -/
theorem read_proteins_is_annotated_read_fasta (concat : Bool) (rule : IdRule) (lines : List (List Char)) :
    (∀ recs, readFasta concat lines = .ok recs → readProteins concat rule lines = annotateAll rule recs) ∧
    (∀ e, readFasta concat lines = .error e → ∃ e', readProteins concat rule lines = .error e') :=
  ⟨fun recs h => readProteinsLoop_of_readLoop concat rule lines _ recs h,
   fun e h => readProteinsLoop_error_of_readLoop concat rule lines _ e h⟩

/-- "… and sequence length" on the annotation path: for a file written record by record (header line, sequence
    lines; no line ends in white space, no sequence line starts with `>`), whatever the headers are, the
    annotations `read_fasta_proteins` returns are — in file order, target then `REV__` decoy when decoys are
    generated — one per yielded record, each carrying that record's header and the total length of its sequence
    lines -/
theorem sequence_length_annotations (concat : Bool) (rule : IdRule) (recs : List FastaRecord)
    (h : ∀ r ∈ recs, r.Clean) (as : List Annotation)
    (ha : readProteins concat rule (recs.flatMap FastaRecord.lines) = .ok as) :
    as.map (fun a => (a.header, a.length)) =
      recs.flatMap (fun r =>
        if concat then [(r.header, r.seqLength), (decoyPrefix ++ r.header, r.seqLength)]
        else [(r.header, r.seqLength)]) := by
  rw [(read_proteins_is_annotated_read_fasta concat rule _).1 _ (sequence_length concat recs h)] at ha
  exact annotateAll_header_length rule _ as ha

/-- End to end: `get_protein_annotations` on ONE FASTA file whose records are composed — every header line is
    `>` + the text rendered from well-formed, blank-free fields, followed by clean sequence lines.
    With `A rule` the list of the annotations the fields stand for (`composedAnnotations`: per record, in file
    order, `expected rule f n` — identifier by the rule, accession, entry name, gene name, description,
    existence level and organism of `f`, `n` the total length of the record's sequence lines — and, when the
    FASTA file has no decoys, the same for the generated `REV__` record), the returned dictionary is
    `single (A rule)`: the FIRST record wins for a repeated identifier.  The rule is the accession / the full
    identifier; at gene level it is the gene name when more than half of the entries carry one, else the
    ordinary dictionary is kept and pseudo-genes are requested. -/
theorem annotations_of_composed_file (crs : List ComposedRecord) (hgood : ∀ c ∈ crs, c.Good) (hne : crs ≠ [])
    (containsDecoys geneLevel useUniprot : Bool) :
    let rule := if useUniprot then IdRule.accession else IdRule.full
    let A := fun r => composedAnnotations (!containsDecoys) r crs
    getAnnotations (some [composedFile crs]) containsDecoys geneLevel useUniprot =
      .ok (if geneLevel then
            (if 2 * geneCount (single (A rule)) > (single (A rule)).length then (single (A .gene), false)
             else (single (A rule), true))
           else (single (A rule), false)) ∧
    ∀ r k, Dict.get? (single (A r)) k = (A r).find? (fun a => decide (a.id = k)) := by
  intro rule A
  have hread : ∀ r, readProteins (!containsDecoys) r (composedFile crs) = .ok (A r) := by
    intro r
    have hclean : ∀ x ∈ crs.map ComposedRecord.toRecord, x.Clean := by
      intro x hx
      obtain ⟨c, hc, rfl⟩ := List.mem_map.mp hx
      exact (hgood c hc).2.2
    have hfile : composedFile crs = (crs.map ComposedRecord.toRecord).flatMap FastaRecord.lines := by
      simp [composedFile, List.flatMap_map]
    rw [hfile, (read_proteins_is_annotated_read_fasta _ r _).1 _ (sequence_length _ _ hclean)]
    exact annotateAll_composed _ r crs hgood
  have hmult : ∀ r, multiple (!containsDecoys) r [composedFile crs] = .ok (single (A r)) := by
    intro r
    rw [multiple_one, hread r]
  refine ⟨?_, fun r k => first_record_wins (A r) k⟩
  have hd := hmult rule
  have hdne : single (A rule) ≠ [] := single_ne_nil _ (composedAnnotations_ne_nil _ rule crs hne)
  obtain ⟨h1, h2, h3⟩ := gene_level_switch [composedFile crs] containsDecoys useUniprot (single (A rule)) hd hdne
  cases geneLevel
  · simpa using h3
  · simp only [if_true]
    by_cases hg : 2 * geneCount (single (A rule)) > (single (A rule)).length
    · rw [h1 hg, hmult .gene]; simp [hg]
    · rw [h2 (by omega)]; simp [hg]

/-- the same, record by record and field by field: "the parsed protein identifier, accession, entry name, gene
    name, description, existence level, organism (for headers that carry a gene name) and sequence length equal
    the fields the header was composed of, and within one file the first record wins" — for the dictionary
    `get_protein_annotations` returns (protein level).  A composed record `c` none of whose predecessors in the file
    (their generated decoys included) has its identifier is found under its identifier — the accession with
    `--fasta_use_uniprot_id`, the full `db|ACC|ENTRY` otherwise — and the entry holds `c`'s header text, its eight
    fields, and is what the character-level parsers (`annotateChar`, the mirror of the Python expressions) make
    of the header text. -/
theorem annotations_of_composed_record (pre post : List ComposedRecord) (c : ComposedRecord)
    (hgood : ∀ x ∈ pre ++ c :: post, x.Good) (containsDecoys useUniprot : Bool)
    (hfirst : ∀ a ∈ composedAnnotations (!containsDecoys) (if useUniprot then .accession else .full) pre,
        a.id ≠ some (if useUniprot then c.fields.acc else c.fields.ident)) :
    ∃ d a, getAnnotations (some [composedFile (pre ++ c :: post)]) containsDecoys false useUniprot = .ok (d, false) ∧
      Dict.get? d (some (if useUniprot then c.fields.acc else c.fields.ident)) = some a ∧
      a.header = render c.fields ∧
      a.id = some (if useUniprot then c.fields.acc else c.fields.ident) ∧
      a.uniprotId = c.fields.acc ∧ a.entryName = c.fields.entry ∧ a.geneName = c.fields.gene ∧
      a.description = unwords c.fields.desc ∧ a.existence = some (c.fields.pe : Int) ∧
      a.length = (c.seqLines.map List.length).sum ∧
      (∀ g, c.fields.gene = some g → a.organism = some (unwords (c.fields.org ++ [OX ++ c.fields.ox]))) ∧
      annotateChar (if useUniprot then .accession else .full) (render c.fields) a.length = .ok a := by
  obtain ⟨hrun, hget⟩ := annotations_of_composed_file (pre ++ c :: post) hgood (by simp) containsDecoys false useUniprot
  simp only [Bool.false_eq_true, if_false] at hrun
  obtain ⟨hw, hb, -⟩ := hgood c (by simp)
  refine ⟨_, expected (if useUniprot then .accession else .full) c.fields c.toRecord.seqLength, hrun, ?_, rfl, ?_,
    rfl, rfl, rfl, rfl, rfl, rfl, ?_, ?_⟩
  · have hget' : ∀ k, Dict.get? (single (composedAnnotations (!containsDecoys)
          (if useUniprot then IdRule.accession else IdRule.full) (pre ++ c :: post))) k =
        (composedAnnotations (!containsDecoys) (if useUniprot then IdRule.accession else IdRule.full)
          (pre ++ c :: post)).find? (fun a => decide (a.id = k)) := fun k => hget _ k
    rw [hget']
    have hsplit : composedAnnotations (!containsDecoys) (if useUniprot then IdRule.accession else IdRule.full)
          (pre ++ c :: post) =
        composedAnnotations (!containsDecoys) (if useUniprot then .accession else .full) pre ++
          (expected (if useUniprot then .accession else .full) c.fields c.toRecord.seqLength ::
            ((if (!containsDecoys) = true then
                [expected (if useUniprot then .accession else .full) (decoyFields c.fields) c.toRecord.seqLength]
              else []) ++
              composedAnnotations (!containsDecoys) (if useUniprot then .accession else .full) post)) := by
      unfold composedAnnotations
      rw [List.flatMap_append, List.flatMap_cons]
      cases containsDecoys <;> simp
    rw [hsplit, List.find?_append]
    have hnone : List.find? (fun a => decide (a.id = some (if useUniprot then c.fields.acc else c.fields.ident)))
        (composedAnnotations (!containsDecoys) (if useUniprot then .accession else .full) pre) = none := by
      rw [List.find?_eq_none]
      intro a ha
      simpa using hfirst a ha
    rw [hnone]
    cases useUniprot <;> simp [List.find?, expected]
  · cases useUniprot <;> rfl
  · intro g hg
    simp [expected, hg]
  · rw [annotateChar_eq]
    exact annotate_render _ c.fields hw hb _

/-! Non-vacuity: a file of three composed records — the record of the examples above with a wrapped sequence, a
second protein without gene name, and a REPEAT of the first identifier with another description — satisfies `Good`;
the dictionary has the first record under the repeated identifier, with the length 7 of its two sequence lines. -/

private def exRec1 : ComposedRecord := { fields := ex, seqLines := ["MAEQ".toList, "SDK".toList] }
private def exRec2 : ComposedRecord :=
  { fields := { ex with acc := "Q9Y6K9".toList, entry := "NEMO_HUMAN".toList, desc := ["NEMO".toList], gene := none },
    seqLines := ["MNRHLWK".toList] }
private def exRec3 : ComposedRecord := { fields := { ex with desc := ["duplicate".toList] }, seqLines := ["MM".toList] }

private theorem exGood : ∀ c ∈ [exRec1, exRec2, exRec3], c.Good := by
  have hclean : ∀ (f : Fields) (sl : List (List Char)), rstrip ('>' :: render f) = '>' :: render f →
      render f ≠ [] → (∀ l ∈ sl, rstrip l = l ∧ l.head? ≠ some '>') →
      (ComposedRecord.toRecord { fields := f, seqLines := sl }).Clean := fun f sl h1 h2 h3 => ⟨h2, h1, h3⟩
  intro c hc
  simp only [List.mem_cons, List.not_mem_nil, or_false] at hc
  rcases hc with rfl | rfl | rfl
  all_goals
    refine ⟨by constructor <;> decide +kernel,
      by constructor <;> first | decide +kernel | (intro g hg; cases hg; decide +kernel) | (intro g hg; cases hg), ?_⟩
    exact hclean _ _ (by decide +kernel) (by decide +kernel) (by decide +kernel)

example : ∃ d a, getAnnotations (some [composedFile [exRec1, exRec2, exRec3]]) true false true = .ok (d, false) ∧
    Dict.get? d (some "P00167-2".toList) = some a ∧ a.length = 7 ∧
    a.description = "Cytochrome b5 [isoform 2] OS GN PE".toList := by
  obtain ⟨d, a, h1, h2, -, -, -, -, -, h3, -, h4, -, -⟩ :=
    annotations_of_composed_record [] [exRec2, exRec3] exRec1 exGood true true (by simp [composedAnnotations])
  exact ⟨d, a, h1, h2, by rw [h4]; decide +kernel, by rw [h3]; decide +kernel⟩

/-! ### the gene-level sentence and the methods of a run

`get_protein_annotations` returns, next to the table, the flag `use_pseudo_genes`; it is all the method configurations
of the run (`methods.get_methods(args.methods, use_pseudo_genes)`, modelled by `C18.parseAll` / `C18.parseMethod`, which
the command-line model `Cli.setup` feeds with exactly this flag) ever see of the FASTA. -/

/-- one method file parsed with the flag set: the configuration groups by pseudo-genes, whatever the file says -/
theorem parseMethod_pseudo (t : Generated.MethodToml) (c : C18.Cfg) (h : C18.parseMethod true t = .ok c) :
    c.grouping = .pseudoGene := by
  unfold C18.parseMethod at h
  simp only [if_true] at h
  have hg : C18.parseGrouping "pseudo_gene" = some .pseudoGene := by decide
  rw [hg] at h
  repeat' split at h
  all_goals (cases h <;> simp_all)

/-- one method file parsed without the flag: the grouping is the one the file names -/
theorem parseMethod_own (t : Generated.MethodToml) (c : C18.Cfg) (h : C18.parseMethod false t = .ok c) :
    t.grouping.bind C18.parseGrouping = some c.grouping := by
  unfold C18.parseMethod at h
  simp only [Bool.false_eq_true, if_false] at h
  repeat' split at h
  all_goals (cases h <;> simp_all)

/-- "… unless most records lack one, in which case pseudo-genes from shared peptides are used instead": the decision
    is a function of the annotation table `d` alone (`2 * geneCount d ≤ d.length`: at most half of its entries carry a
    gene name), and when it falls that way EVERY method configuration of the run — whatever grouping its file names:
    `no`, `subset`, `rescued_subset`, the MaxQuant-native ones — is built with pseudo-gene grouping; when it falls the
    other way (or the run is not gene-level) every configuration keeps the grouping of its file -/
theorem fallback_applies_to_every_method (fs : List (List (List Char))) (cd uu : Bool) (d : Dict)
    (hd : multiple (!cd) (if uu then IdRule.accession else IdRule.full) fs = .ok d) (hne : d ≠ [])
    (table : List Generated.MethodToml) (ms : List C18.MethodRef) :
    (2 * geneCount d ≤ d.length →
      getAnnotations (some fs) cd true uu = .ok (d, true) ∧
      ∀ cfgs, C18.parseAll table true ms = .ok cfgs → ∀ c ∈ cfgs, c.grouping = .pseudoGene) ∧
    (∀ cfgs, C18.parseAll table false ms = .ok cfgs →
      ∀ c ∈ cfgs, ∃ t, t.grouping.bind C18.parseGrouping = some c.grouping ∧ C18.parseMethod false t = .ok c) := by
  refine ⟨fun hle => ⟨(gene_level_switch fs cd uu d hd hne).2.1 hle, ?_⟩, ?_⟩
  · induction ms with
    | nil => intro cfgs h c hc; simp [C18.parseAll] at h; subst h; cases hc
    | cons m r ih =>
      intro cfgs h c hc
      unfold C18.parseAll at h
      cases hr : C18.resolve table m with
      | error e => rw [hr] at h; cases h
      | ok t =>
        rw [hr] at h
        simp only at h
        cases hp : C18.parseMethod true t with
        | error e => rw [hp] at h; cases h
        | ok c0 =>
          rw [hp] at h
          simp only at h
          cases hrest : C18.parseAll table true r with
          | error e => rw [hrest] at h; cases h
          | ok cs =>
            rw [hrest] at h
            simp only at h
            injection h with h
            subst h
            rcases List.mem_cons.mp hc with rfl | hc'
            · exact parseMethod_pseudo t _ hp
            · exact ih cs hrest c hc'
  · induction ms with
    | nil => intro cfgs h c hc; simp [C18.parseAll] at h; subst h; cases hc
    | cons m r ih =>
      intro cfgs h c hc
      unfold C18.parseAll at h
      cases hr : C18.resolve table m with
      | error e => rw [hr] at h; cases h
      | ok t =>
        rw [hr] at h
        simp only at h
        cases hp : C18.parseMethod false t with
        | error e => rw [hp] at h; cases h
        | ok c0 =>
          rw [hp] at h
          simp only at h
          cases hrest : C18.parseAll table false r with
          | error e => rw [hrest] at h; cases h
          | ok cs =>
            rw [hrest] at h
            simp only at h
            injection h with h
            subst h
            rcases List.mem_cons.mp hc with rfl | hc'
            · exact ⟨t, parseMethod_own t _ hp, hp⟩
            · exact ih cs hrest c hc'

/-- non-vacuity: two shipped method files, one with grouping `no` and one with `rescued_subset`, both parse, and with
    the flag set both group by pseudo-genes -/
example : ∃ cfgs, C18.parseAll Generated.methods true [.builtin "savitski", .builtin "picked_protein_group"] = .ok cfgs ∧
    cfgs.map (·.grouping) = [.pseudoGene, .pseudoGene] := by
  refine ⟨_, rfl, ?_⟩
  decide
example : ∃ cfgs, C18.parseAll Generated.methods false [.builtin "savitski", .builtin "picked_protein_group"] = .ok cfgs ∧
    cfgs.map (·.grouping) = [.no, .rescuedSubset] := by
  refine ⟨_, rfl, ?_⟩
  decide

end PgFdr.C19
