import PgFdr.Proofs.C19

/-!
# C19 — FASTA header fields and annotation columns are extracted exactly

Property text (properties.jsonl): "For UniProt-style FASTA headers the parsed protein identifier,
accession, entry name, gene name, description, existence level, organism (for headers that carry a
gene name) and sequence length equal the fields the header was composed of, and within one file the
first record wins for a repeated identifier. The annotation columns of a reported row list, for the
row's proteins in order, each distinct identifier, gene name and full header once; gene-level
reporting uses the gene names as identifiers unless most records lack one, in which case
pseudo-genes from shared peptides are used instead."

The theorems are about the executable model `PgFdr.C19` (the functions the driver ops "header" /
"annotations" run).  Headers are read as their space-separated words; that this agrees with the
character-level `str.split(" OS=")` of the code is validated on every run by the correspondence of
`harness/props/C19.py`, not proved.  Helper lemmas: `PgFdr/Proofs/C19.lean`.
-/
namespace PgFdr.C19

/-- "the parsed protein identifier, accession, entry name, gene name, description, existence level,
    organism (for headers that carry a gene name) … equal the fields the header was composed of"
    — on the word list of a header composed from well-formed fields (no free word starts with
    `OS=`, `GN=` or `PE=`; no bar inside db / accession / entry; one-digit existence level) -/
theorem header_roundtrip (f : Fields) (h : f.WF) :
    parseId (compose f) = f.ident ∧
    parseUniprotId (compose f) = f.acc ∧
    parseEntryName (compose f) = f.entry ∧
    parseGene (compose f) = f.gene ∧
    parseDescription (compose f) = f.desc ∧
    parseExistence (compose f) = some (some f.pe) ∧
    (∀ g, f.gene = some g → parseOrganism (compose f) = some (f.org ++ [OX ++ f.ox])) := by
  refine ⟨parseId_compose f, parseUniprotId_compose f h, parseEntryName_compose f h,
    parseGene_compose f h, parseDescription_compose f h, parseExistence_compose f h, ?_⟩
  intro g hg
  rw [parseOrganism_compose f h, hg]
  simp

/-- the same on the header TEXT (words joined by single blanks, no blank inside a field), through
    `annotate` — the function `read_fasta_proteins` is modelled by and the driver runs — for each
    identifier rule (full identifier, accession, gene name); `n` is the sequence length handed in -/
theorem header_roundtrip_text (rule : IdRule) (f : Fields) (h : f.WF) (hb : f.NoBlank) (n : Nat) :
    annotate rule (render f) n = .ok
      { id := match rule with | .full => some f.ident | .accession => some f.acc | .gene => f.gene,
        header := render f, uniprotId := f.acc, entryName := f.entry, geneName := f.gene, length := n,
        organism := some (unwords (f.org ++ [OX ++ f.ox] ++
          (if f.gene.isSome then [] else [PE ++ [Nat.digitChar f.pe], SV ++ f.sv]))),
        description := unwords f.desc, existence := some f.pe } :=
  annotate_render rule f h hb n

/-- "organism (for headers that carry a gene name)": without a `GN=` word nothing ends the organism
    field, so the existence and version words are swallowed — the parsed organism is NOT the
    composed one -/
theorem organism_needs_gene (f : Fields) (h : f.WF) (hg : f.gene = none) :
    parseOrganism (compose f) = some (f.org ++ [OX ++ f.ox, PE ++ [Nat.digitChar f.pe], SV ++ f.sv]) ∧
    parseOrganism (compose f) ≠ some (f.org ++ [OX ++ f.ox]) := by
  have : parseOrganism (compose f) = some (f.org ++ [OX ++ f.ox, PE ++ [Nat.digitChar f.pe], SV ++ f.sv]) := by
    rw [parseOrganism_compose f h, hg]; simp [peTok]
  refine ⟨this, ?_⟩
  rw [this]
  intro e
  have := congrArg List.length (Option.some.inj e)
  simp at this

/-- "… and sequence length": a file written record by record (header line, sequence lines; no line
    ends in white space, no sequence line starts with `>`) is read back as exactly these records
    with the total length of their sequence lines — target-only, and target + `REV__` decoy -/
theorem sequence_length (concat : Bool) (recs : List FastaRecord) (h : ∀ r ∈ recs, r.Clean) :
    readFasta concat (recs.flatMap FastaRecord.lines) =
      .ok (recs.flatMap (fun r =>
        if concat then [(r.header, r.seqLength), (decoyPrefix ++ r.header, r.seqLength)]
        else [(r.header, r.seqLength)])) := by
  unfold readFasta
  rw [readLoop_records concat _ recs h]
  simp only [emit, List.nil_append]
  rfl

/-- "within one file the first record wins for a repeated identifier": the dictionary built from
    the records of a file maps an identifier to the FIRST record carrying it -/
theorem first_record_wins (recs : List Annotation) (k : Option (List Char)) :
    Dict.get? (single recs) k = recs.find? (fun a => decide (a.id = k)) := by
  unfold single
  rw [foldl_insertNew_get]
  simp [Dict.get?]

/-- "each distinct identifier, gene name and full header once": the loop `if x not in l: l.append(x)`
    yields a duplicate-free list with the same members, ordered by first occurrence (the head stays
    first, the rest is the result for the remaining values with the head removed) -/
theorem distinct_spec {α} [DecidableEq α] (l : List α) :
    (distinct l).Nodup ∧ (∀ x, x ∈ distinct l ↔ x ∈ l) ∧
    (∀ x r, l = x :: r → distinct l = x :: distinct (r.filter (fun y => decide (y ≠ x)))) := by
  refine ⟨nodup_distinctInto [] l (by simp), ?_, ?_⟩
  · intro x; unfold distinct; rw [mem_distinctInto]; simp
  · intro x r e; subst e; exact distinct_cons x r

/-- "The annotation columns of a reported row list, for the row's proteins in order, each distinct
    identifier, gene name and full header once": the row's proteins (split at `;`) found in the
    dictionary, in row order; identifiers, gene names (records without one skipped) and headers
    each made distinct as in `distinct_spec` and joined by `;` -/
theorem annotation_columns_spec (d : Dict) (ids : List Char) :
    annotationColumns d ids =
      (joinOn ';' (distinct (((splitOn ';' ids).filterMap (fun p => d.get? (some p))).filterMap (·.id))),
       joinOn ';' (distinct (((splitOn ';' ids).filterMap (fun p => d.get? (some p))).filterMap (·.geneName))),
       joinOn ';' (distinct (((splitOn ';' ids).filterMap (fun p => d.get? (some p))).map (·.header)))) := rfl

/-- "gene-level reporting uses the gene names as identifiers unless most records lack one, in
    which case pseudo-genes from shared peptides are used instead": with `d` the dictionary read
    under the ordinary identifier rule, gene level re-reads the files with the gene rule exactly
    when MORE than half of the entries carry a non-empty gene name; otherwise `d` is kept and
    `use_pseudo_genes` is set; without gene level `d` is returned as is -/
theorem gene_level_switch (fs : List (List (List Char))) (cd uu : Bool) (d : Dict)
    (hd : multiple (!cd) (if uu then IdRule.accession else IdRule.full) fs = .ok d) (hne : d ≠ []) :
    (2 * geneCount d > d.length →
      getAnnotations (some fs) cd true uu =
        match multiple (!cd) .gene fs with
        | .ok d' => .ok (d', false)
        | .error e => .error e) ∧
    (2 * geneCount d ≤ d.length → getAnnotations (some fs) cd true uu = .ok (d, true)) ∧
    getAnnotations (some fs) cd false uu = .ok (d, false) := by
  have hemp : d.isEmpty = false := by cases d <;> simp_all
  refine ⟨?_, ?_, ?_⟩
  · intro hgt
    unfold getAnnotations
    simp only [hd, hasGeneNames, hemp, Bool.false_eq_true, if_false, if_true, hgt, decide_true]
    cases multiple (!cd) IdRule.gene fs <;> rfl
  · intro hle
    unfold getAnnotations
    have : ¬ (2 * geneCount d > d.length) := by omega
    simp [hd, hasGeneNames, hemp, this]
  · unfold getAnnotations
    simp [hd]

/-- under the gene rule the identifier of a record IS its gene name -/
theorem gene_rule_identifier (header : List Char) (n : Nat) (a : Annotation)
    (h : annotate .gene header n = .ok a) : a.id = a.geneName := by
  unfold annotate at h
  simp only at h
  cases hp : parseExistence (words header) with
  | none => rw [hp] at h; injection h with h; subst h; rfl
  | some v =>
    cases v with
    | none => rw [hp] at h; cases h
    | some k => rw [hp] at h; injection h with h; subst h; rfl

/-! Non-vacuity: a concrete UniProt-style record — isoform accession, a description with brackets
and the WORDS `OS`, `GN`, `PE`, a multi-word organism, a gene — satisfies the hypotheses; the same
record without gene satisfies those of `organism_needs_gene`. -/

private def ex : Fields :=
  { db := "sp".toList, acc := "P00167-2".toList, entry := "CYB5_HUMAN".toList,
    desc := ["Cytochrome".toList, "b5".toList, "[isoform".toList, "2]".toList, "OS".toList, "GN".toList, "PE".toList],
    org := ["Homo".toList, "sapiens".toList], ox := "9606".toList, gene := some "CYB5A".toList, pe := 1,
    sv := "2".toList }

example : ex.WF := by
  constructor <;> decide +kernel

example : ex.NoBlank := by
  constructor <;> first | decide +kernel | (intro g hg; cases hg; decide +kernel)

example : String.ofList (render ex) =
    "sp|P00167-2|CYB5_HUMAN Cytochrome b5 [isoform 2] OS GN PE OS=Homo sapiens OX=9606 GN=CYB5A PE=1 SV=2" := by
  decide +kernel

example : ({ ex with gene := none } : Fields).WF := by
  constructor <;> decide +kernel

example : ∃ r : FastaRecord, r.Clean ∧ r.seqLength = 7 :=
  ⟨{ header := render ex, seqLines := ["MAEQ".toList, "SDK".toList] }, by
    refine ⟨by decide +kernel, by decide +kernel, ?_⟩
    intro l hl
    simp only [List.mem_cons, List.not_mem_nil, or_false] at hl
    rcases hl with hl | hl <;> subst hl <;> decide +kernel, by decide +kernel⟩

example : distinct [2, 1, 2, 3, 1] = [2, 1, 3] := by decide

end PgFdr.C19
