import PgFdr.Proofs.C02

/-!
# C02 — picked competition keeps only the better of a target group and its decoy twin

Property text (properties.jsonl): "With a picked strategy a group is removed from the ranking only
if it is a contaminant group, has no supporting peptide, or shares an identifier (compared with
decoy and placeholder prefixes stripped) with a leading protein of a surviving group that scores at
least as high (protein-level picking: the whole stripped identifier string is equal); conversely no
surviving group shares such an identifier with the leading proteins of a strictly higher-scoring
survivor. With the classic strategy nothing is removed for competition reasons; a placeholder group
never displaces an equally scoring regular group, and survivors keep their peptides and score
unchanged and are ranked by non-increasing score."

All theorems are about `doCompetition` / `competeFrom` / `runCalls` of `PgFdr/Model/C02.lean`, the
definitions the driver op `compete` executes and `harness/props/C02.py` compares with
`ProteinCompetitionStrategy.do_competition` on every run.  They hold for every input list, every
score assignment (ties included) and every pair of permutations `π₁ π₂` that fit (`ShufflesOK`),
i.e. for every outcome of the two `np.random.shuffle` calls.  Helper lemmas: `PgFdr/Proofs/C02.lean`.
-/
namespace PgFdr.C02

/-- "With a picked strategy a group is removed from the ranking only if it is a contaminant group,
    has no supporting peptide, or shares an identifier (compared with decoy and placeholder prefixes
    stripped) with a leading protein of a surviving group that scores at least as high"
    — group-level picking, any of the three picking modes (`select .leading = leading`); the
    survivor is moreover not an equally scoring placeholder unless the removed group is one too. -/
theorem removed_justified_group (p : Picking) (items : List Item) (π₁ π₂ : List Nat)
    (ok : ShufflesOK (.pickedGroup p) items π₁ π₂)
    (x : Item) (hx : x ∈ items) (hev : x.evidence ≠ []) (hc : isContaminant x.group = false)
    (hout : x ∉ doCompetition (.pickedGroup p) items π₁ π₂) :
    ∃ s ∈ doCompetition (.pickedGroup p) items π₁ π₂,
      (x.score < s.score ∨ (s.score = x.score ∧ (s.obsolete = true → x.obsolete = true))) ∧
      ∃ a ∈ x.group, ∃ b ∈ select p s, cleanProteinId a = cleanProteinId b := by
  have hev' : x.hasEvidence = true := by
    cases h : x.evidence with
    | nil => exact absurd h hev
    | cons _ _ => simp [Item.hasEvidence, h]
  obtain ⟨s, hs, hsc, hk⟩ := removal_has_better_survivor _ items π₁ π₂ ok x hx hev' hc hout
  exact ⟨s, hs, hsc, (pickedGroup_shared p x s).mp hk⟩

/-- the selected ("leading") proteins of a group are members of it, and in mode `leading` they are
    exactly the members whose distinct-peptide count (PEP ≤ 1.01) attains the maximum of the count dict -/
theorem selected_are_leading_members (x : Item) (q : String) :
    (q ∈ select .leading x ↔ q ∈ x.group ∧
      countOf (peptideCounts pickCutoff x.evidence) q = maxCount (peptideCounts pickCutoff x.evidence)) ∧
    (∀ p, q ∈ select p x → q ∈ x.group) := by
  refine ⟨?_, fun p h => select_subset p x q h⟩
  simp [select, leading]

/-- "(protein-level picking: the whole stripped identifier string is equal)" -/
theorem removed_justified_protein (items : List Item) (π₁ π₂ : List Nat)
    (ok : ShufflesOK .picked items π₁ π₂)
    (x : Item) (hx : x ∈ items) (hev : x.evidence ≠ []) (hc : isContaminant x.group = false)
    (hout : x ∉ doCompetition .picked items π₁ π₂) :
    ∃ s ∈ doCompetition .picked items π₁ π₂,
      (x.score < s.score ∨ (s.score = x.score ∧ (s.obsolete = true → x.obsolete = true))) ∧
      groupString x.group = groupString s.group := by
  have hev' : x.hasEvidence = true := by
    cases h : x.evidence with
    | nil => exact absurd h hev
    | cons _ _ => simp [Item.hasEvidence, h]
  obtain ⟨s, hs, hsc, hk⟩ := removal_has_better_survivor _ items π₁ π₂ ok x hx hev' hc hout
  exact ⟨s, hs, hsc, (picked_shared x s).mp hk⟩

/-- "conversely no surviving group shares such an identifier with the leading proteins of a strictly
    higher-scoring survivor" — group-level picking.  (Stronger than planned: no hypothesis that the
    groups are pairwise distinct is needed.) -/
theorem no_twin_survivors (p : Picking) (items : List Item) (π₁ π₂ : List Nat)
    (ok : ShufflesOK (.pickedGroup p) items π₁ π₂) (a b : Item)
    (ha : a ∈ doCompetition (.pickedGroup p) items π₁ π₂)
    (hb : b ∈ doCompetition (.pickedGroup p) items π₁ π₂) (hlt : b.score < a.score) :
    ∀ m ∈ b.group, ∀ q ∈ select p a, cleanProteinId m ≠ cleanProteinId q := by
  intro m hm q hq heq
  have := no_twin_survivors_key _ items π₁ π₂ ok a b ha hb hlt (cleanProteinId m)
    (by simp only [strategy, List.mem_map]; exact ⟨m, hm, rfl⟩)
  apply this
  simp only [strategy, List.mem_map]
  exact ⟨q, hq, heq.symm⟩

/-- … and protein-level picking: two survivors of different score never have the same stripped
    identifier string -/
theorem no_twin_survivors_protein (items : List Item) (π₁ π₂ : List Nat)
    (ok : ShufflesOK .picked items π₁ π₂) (a b : Item)
    (ha : a ∈ doCompetition .picked items π₁ π₂)
    (hb : b ∈ doCompetition .picked items π₁ π₂) (hlt : b.score < a.score) :
    groupString b.group ≠ groupString a.group := by
  intro heq
  have := no_twin_survivors_key _ items π₁ π₂ ok a b ha hb hlt (groupString b.group) (by simp [strategy])
  apply this
  simp [strategy, heq]

/-- "With the classic strategy nothing is removed for competition reasons": the ranking is a
    rearrangement of exactly the groups that have a supporting peptide and are not contaminants -/
theorem classic_removes_only (items : List Item) (π₁ π₂ : List Nat) (ok : ShufflesOK .classic items π₁ π₂) :
    (doCompetition .classic items π₁ π₂).Perm
      (items.filter (fun x => x.hasEvidence && !isContaminant x.group)) := by
  refine (final_perm_kept _ items π₁ π₂ ok).trans ?_
  unfold keptFrom
  rw [pass_nokey (strategy .classic) (fun _ => rfl)]
  refine ((passOrder_perm items π₁ ok.p1).filter _).trans ?_
  rw [List.filter_filter]
  apply List.Perm.of_eq
  apply List.filter_congr
  intro x _
  simp [contam, Bool.and_comm]

/-- "a placeholder group never displaces an equally scoring regular group": the competitor that
    justifies the removal of a regular (non-placeholder) group scores strictly higher, or equally and
    is itself regular — for every strategy -/
theorem placeholder_never_displaces_equal_regular (mode : Mode) (items : List Item) (π₁ π₂ : List Nat)
    (ok : ShufflesOK mode items π₁ π₂)
    (x : Item) (hx : x ∈ items) (hev : x.hasEvidence = true) (hc : isContaminant x.group = false)
    (hreg : isObsolete x.group = false)
    (hout : x ∉ doCompetition mode items π₁ π₂) :
    ∃ s ∈ doCompetition mode items π₁ π₂,
      (∃ k ∈ (strategy mode).key x, k ∈ (strategy mode).marks s) ∧
      x.score ≤ s.score ∧ ¬ (s.score = x.score ∧ isObsolete s.group = true) := by
  obtain ⟨s, hs, hsc, hk⟩ := removal_has_better_survivor mode items π₁ π₂ ok x hx hev hc hout
  refine ⟨s, hs, hk, ?_, ?_⟩
  · rcases hsc with h | ⟨h, _⟩
    · exact le_of_lt h
    · exact le_of_eq h.symm
  · rintro ⟨he, ho⟩
    rcases hsc with h | ⟨_, h⟩
    · rw [he] at h; exact lt_irrefl _ h
    · have := h ho
      simp only [Item.obsolete] at this
      rw [hreg] at this; exact Bool.noConfusion this

/-- "survivors keep their peptides and score unchanged": every ranked triple (group, peptides, score)
    is an input triple, it has a supporting peptide and is not a contaminant group, and no triple is
    ranked more often than it was supplied -/
theorem survivors_unchanged (mode : Mode) (items : List Item) (π₁ π₂ : List Nat)
    (ok : ShufflesOK mode items π₁ π₂) (x : Item) (hx : x ∈ doCompetition mode items π₁ π₂) :
    x ∈ items ∧ x.evidence ≠ [] ∧ isContaminant x.group = false ∧
      (doCompetition mode items π₁ π₂).count x ≤ items.count x := by
  have hperm := final_perm_kept mode items π₁ π₂ ok
  have h1 := hperm.subset hx
  have hsub := pass_sublist (strategy mode) contam (passOrder items π₁) []
  have h2 := hsub.subset h1
  have h3 := (passOrder_perm items π₁ ok.p1).subset h2
  have h4 := List.mem_filter.mp h3
  refine ⟨h4.1, ?_, pass_not_contam _ contam _ _ x h1, ?_⟩
  · intro he
    have := h4.2
    simp [Item.hasEvidence, he] at this
  · calc (doCompetition mode items π₁ π₂).count x
        = (keptFrom mode [] items π₁).count x := hperm.count_eq x
      _ ≤ (passOrder items π₁).count x := hsub.count_le x
      _ = (items.filter (·.hasEvidence)).count x := (passOrder_perm items π₁ ok.p1).count_eq x
      _ ≤ items.count x := List.filter_sublist.count_le x

/-- "… and are ranked by non-increasing score" -/
theorem ranked_nonincreasing (mode : Mode) (items : List Item) (π₁ π₂ : List Nat) :
    (doCompetition mode items π₁ π₂).Pairwise (fun a b => b.score ≤ a.score) := by
  have := List.pairwise_mergeSort (le := le2) le2_trans le2_total
    (shuffle (keptFrom mode [] items π₁) π₂)
  simpa [doCompetition_eq, le2] using this

/-- the degenerate case (the code dies in `zip(*[])`, the model answers `no_ranked_groups`): nothing
    is ranked exactly when no group has a supporting peptide and is not a contaminant — the
    competition alone never empties the ranking -/
theorem no_ranked_groups_iff (mode : Mode) (items : List Item) (π₁ π₂ : List Nat)
    (ok : ShufflesOK mode items π₁ π₂) :
    doCompetition mode items π₁ π₂ = [] ↔
      ∀ x ∈ items, x.evidence = [] ∨ isContaminant x.group = true := by
  constructor
  · intro hnil x hx
    by_contra hcon
    simp only [not_or, Bool.not_eq_true] at hcon
    have hev' : x.hasEvidence = true := by
      cases h : x.evidence with
      | nil => exact absurd h hcon.1
      | cons _ _ => simp [Item.hasEvidence, h]
    obtain ⟨s, hs, _⟩ := removal_has_better_survivor mode items π₁ π₂ ok x hx hev' hcon.2
      (by rw [hnil]; simp)
    rw [hnil] at hs; simp at hs
  · intro hall
    apply List.eq_nil_iff_forall_not_mem.mpr
    intro x hx
    obtain ⟨h1, h2, h3, _⟩ := survivors_unchanged mode items π₁ π₂ ok x hx
    rcases hall x h1 with h | h
    · exact h2 h
    · rw [h3] at h; exact Bool.noConfusion h

/-- the seen-set (anchored state `seen_proteins`) is empty again after a call on a fresh object,
    so successive calls on ONE strategy object are independent of each other: each returns what a
    fresh object returns (the missing `reset()` mutant breaks exactly this) -/
theorem seen_reset (mode : Mode) (cs : List Call) :
    (∀ items π₁ π₂, (competeFrom mode [] items π₁ π₂).2 = []) ∧
    runCalls mode [] cs = (cs.map (fun c => doCompetition mode c.items c.π₁ c.π₂), []) := by
  have h1 : ∀ items π₁ π₂, (competeFrom mode [] items π₁ π₂).2 = [] := by
    intro items π₁ π₂
    cases mode with
    | picked => rfl
    | pickedGroup p => rfl
    | classic => simp [competeFrom, reset, seenAfter_nil_classic]
  refine ⟨h1, ?_⟩
  induction cs with
  | nil => rfl
  | cons c cs ih =>
    simp only [runCalls, h1, ih, List.map_cons, doCompetition]

/-! ## Non-vacuity

A concrete input that meets the hypotheses: target `A` (score 3), its decoy twin `REV__A` (2), the
regular group `B;C` (2, leading protein `B` with 2 of the 2 peptides), the placeholder `OBSOLETE__B`
(2), a contaminant and a group without peptides.  Listed in pass order, so that both sorts leave
their (identity-shuffled) input alone — `mergeSort` does not reduce in the kernel. -/

private def t : Item := ⟨["A"], [⟨1/1000, "PEPA", ["A"]⟩], 3⟩
private def d : Item := ⟨["REV__A"], [⟨1/100, "PEPB", ["REV__A"]⟩], 2⟩
private def b : Item := ⟨["B", "C"], [⟨1/100, "PEPC", ["B", "C"]⟩, ⟨1/100, "PEPD", ["B"]⟩], 2⟩
private def o : Item := ⟨["OBSOLETE__B"], [⟨1/100, "PEPC", ["B"]⟩], 2⟩
private def c : Item := ⟨["CON__D"], [⟨1/100, "PEPE", ["CON__D"]⟩], 1⟩
private def e : Item := ⟨["D"], [], -100⟩
private def exItems : List Item := [t, d, b, o, c, e]
private def id5 : List Nat := [0, 1, 2, 3, 4]

private theorem ex_passOrder : passOrder exItems id5 = [t, d, b, o, c] := by
  unfold passOrder
  have : shuffle (exItems.filter (·.hasEvidence)) id5 = [t, d, b, o, c] := by decide +kernel
  rw [this]
  apply List.mergeSort_of_pairwise
  decide +kernel

private theorem ex_kept (m : Mode) (hm : m = .pickedGroup .leading ∨ m = .picked) :
    keptFrom m [] exItems id5 = if m = .picked then [t, b, o] else [t, b] := by
  unfold keptFrom; rw [ex_passOrder]
  rcases hm with rfl | rfl <;> decide +kernel

private theorem ex_out_group : doCompetition (.pickedGroup .leading) exItems id5 [0, 1] = [t, b] := by
  rw [doCompetition_eq, ex_kept _ (Or.inl rfl)]
  have : shuffle [t, b] [0, 1] = [t, b] := by decide +kernel
  simp only [reduceCtorEq, if_false, this]
  apply List.mergeSort_of_pairwise
  decide +kernel

private theorem ex_out_protein : doCompetition .picked exItems id5 [0, 1, 2] = [t, b, o] := by
  rw [doCompetition_eq, ex_kept _ (Or.inr rfl)]
  have : shuffle [t, b, o] [0, 1, 2] = [t, b, o] := by decide +kernel
  simp only [if_true, this]
  apply List.mergeSort_of_pairwise
  decide +kernel

/-- the shuffles fit -/
example : ShufflesOK (.pickedGroup .leading) exItems id5 [0, 1] :=
  ⟨by decide +kernel, by rw [ex_kept _ (Or.inl rfl)]; decide +kernel⟩
example : ShufflesOK .picked exItems id5 [0, 1, 2] :=
  ⟨by decide +kernel, by rw [ex_kept _ (Or.inr rfl)]; decide +kernel⟩

/-- hypotheses of `removed_justified_group` / `placeholder_never_displaces_equal_regular`: the decoy
    twin and the placeholder are removed (group level), both have evidence, neither is a contaminant;
    the twin is a regular group -/
example : d ∈ exItems ∧ d.evidence ≠ [] ∧ isContaminant d.group = false ∧ isObsolete d.group = false ∧
    d ∉ doCompetition (.pickedGroup .leading) exItems id5 [0, 1] := by
  rw [ex_out_group]; decide +kernel
example : o ∈ exItems ∧ o.evidence ≠ [] ∧ isContaminant o.group = false ∧
    o ∉ doCompetition (.pickedGroup .leading) exItems id5 [0, 1] := by
  rw [ex_out_group]; decide +kernel
/-- … and the leading protein of `B;C` is `B` alone -/
example : select .leading b = ["B"] ∧ select .majority b = ["B", "C"] := by decide +kernel

/-- hypotheses of `removed_justified_protein` (protein level: the placeholder `OBSOLETE__B` is not
    the same string as `B;C` and survives, the twin does not) -/
example : d ∈ exItems ∧ d.evidence ≠ [] ∧ isContaminant d.group = false ∧
    d ∉ doCompetition .picked exItems id5 [0, 1, 2] := by
  rw [ex_out_protein]; decide +kernel

/-- hypotheses of `no_twin_survivors` / `no_twin_survivors_protein` / `survivors_unchanged` -/
example : t ∈ doCompetition (.pickedGroup .leading) exItems id5 [0, 1] ∧
    b ∈ doCompetition (.pickedGroup .leading) exItems id5 [0, 1] ∧ b.score < t.score := by
  rw [ex_out_group]; decide +kernel
example : t ∈ doCompetition .picked exItems id5 [0, 1, 2] ∧
    o ∈ doCompetition .picked exItems id5 [0, 1, 2] ∧ o.score < t.score := by
  rw [ex_out_protein]; decide +kernel

end PgFdr.C02
