import PgFdr.Proofs.C11

/-!
# C11 — MaxLFQ intensities recover sample ratios and preserve the total intensity

Property text (properties.jsonl): "If a protein's peptide intensities are consistent with one
abundance per sample (every observed intensity = peptide factor x sample factor) and the samples are
connected by enough shared peptides, the LFQ intensities are proportional to the sample factors; in
general the ratios between samples linked by valid pairwise median peptide ratios are the
least-squares solution of those ratios (using summed-intensity ratios for very unequal peptide counts
when large-ratio stabilisation is on), samples without enough shared peptides get 0, and the LFQ
intensities sum to the summed intensity of the peptides used. The result does not depend on precursor
order, permutes with the samples, scales with the input and is unaffected by how experiments are
named."

Stage A (`stageA`: selection, intensity matrix, valid pairs, exact median ratios, stabilisation
weights, the linear system) and the last step (`lfq`: zeroing + `_scaleEqualSum`) are the functions the
driver's `lfqA` executes against `columns/lfq.py` (`harness/props/C11.py`).  Stage B — scipy's `lsqr`,
`np.log`, `np.exp` — is *specified* (`IsLeastSquares`, `rhs`, `Real.log`, `Real.exp`), not executed:
the theorems about it hold for every least-squares solution, and the correspondence checks by
certificate that the implementation's solution is one (to lsqr's tolerance).  That part is partial by
design: float rounding, lsqr's stopping rule and bottleneck's `nanmedian` are exercised, not modelled.

`experiments_are_indices` (remark, no theorem): the model has no experiment names — samples are the
indices `0 … n-1` of `experiment_to_idx_map` — so "unaffected by how experiments are named" is a
statement about the implementation only; it is tested by the renaming runs of the correspondence.

Known limitation shown below (`median_not_antisymmetric`): for an even number of shared peptides the
median of the ratios is the mean of the two middle ratios, and `median (1/r) ≠ 1 / median r`; therefore
the *orientation* of a pair (which sample has the smaller index) matters, and sample-permutation
equivariance of the whole pipeline holds only up to that orientation (`lfq_sample_equivariant` states
what is equivariant: the matrix, the total, the set of valid pairs as unordered pairs, and the ratio of
every *ordered* pair).
-/
namespace PgFdr.C11

/-- "The result does not depend on precursor order": the whole of stage A (selected intensities,
    total, valid pairs, median ratios, stabilisation weights, linear system) is the same for every
    permutation of the precursor list. -/
theorem selection_perm_invariant (o : Opts) {l l' : List Prec} (h : l.Perm l') :
    stageA o l = stageA o l' :=
  stageA_perm o h

/-- "_getPeptideIntensities: best precursor per (peptide, charge, experiment, fraction)" (mechanism):
    the precursors whose intensity is used are exactly the identified, quantified precursors that are
    least in the `orderByPEP` key — highest intensity, then lowest PEP — within their
    (peptide, charge, experiment, fraction) group; one per group. -/
theorem selected_best_per_group (c : Rat) (l : List Prec) (p : Prec) :
    (p ∈ selected c l ↔ (p ∈ l ∧ keep c p = true) ∧
      ∀ q, q ∈ l → keep c q = true → sameGroup p q = true → precLe p q = true) ∧
    (selected c l).Pairwise (fun x y => sameGroup x y = false) :=
  ⟨mem_selected c l p, selected_pairwise c l⟩

/-- "permutes with the samples" (stage A): relabelling the samples by a permutation `σ` of
    `0 … n-1` permutes the columns of the intensity matrix, leaves the row keys and the total
    unchanged, maps valid pairs to valid pairs (as unordered pairs; the FastLFQ graph transported by
    `σ`), keeps the median ratio of every ordered pair, and permutes the summed intensities and
    peptide counts of the stabilisation. -/
theorem lfq_sample_equivariant {σ : Nat → Nat} (hσ : Function.Injective σ) {n : Nat}
    (hp : ((List.range n).map σ).Perm (List.range n)) (c : Rat) (m : Nat)
    (g : Option (List (Nat × Nat))) (ms : Nat) (l : List Prec) :
    let col := column (selected c l)
    let col' := column (selected c (l.map (relabel σ)))
    (∀ s, col' (σ s) = col s) ∧
    rowKeys (selected c (l.map (relabel σ))) = rowKeys (selected c l) ∧
    total (selected c (l.map (relabel σ))) = total (selected c l) ∧
    (∀ i j, (i, j) ∈ pairs m n g ms col →
      (σ i, σ j) ∈ pairs m n (mapGraph σ g) ms col' ∨ (σ j, σ i) ∈ pairs m n (mapGraph σ g) ms col') ∧
    (∀ i j, ratio col' (σ i) (σ j) = ratio col i j) ∧
    (∀ s, sumInt c (l.map (relabel σ)) (σ s) = sumInt c l s ∧
          pepCount c (l.map (relabel σ)) (σ s) = pepCount c l s) := by
  intro col col'
  have hcol : ∀ s, col' (σ s) = col s := fun s => column_relabel hσ c l s
  exact ⟨hcol, rowKeys_relabel hσ c l, total_relabel hσ c l,
    fun i j h => pairs_relabel hσ hp m g ms hcol i j h,
    fun i j => ratio_relabel hcol i j,
    fun s => ⟨sumInt_relabel hσ c l s, pepCount_relabel hσ c l s⟩⟩

/-- "permutes with the samples" (whole pipeline, stage B specified): let `σ` permute the samples
    `0 … n-1`, the FastLFQ graph (if any) be transported by `σ`, and the median ratio of every valid
    pair whose orientation is flipped by `σ` be antisymmetric (`ratio j i = (ratio i j)⁻¹` — true for an
    odd number of shared peptides, `ratio_antisymm_of_odd`; false in general for an even number, the known
    finding `lfq-even-median-orientation`).  Then for every least-squares solution `y` of the original
    system the relabelled vector `y'` (`y' (σ s) = y s`) is a least-squares solution of the system built
    from the relabelled input, and the LFQ intensities obtained from it by zeroing and `_scaleEqualSum`
    are the original ones, permuted: `lfq' (σ s) = lfq s`. -/
theorem lfq_permutes_with_samples {σ : Nat → Nat} (hσ : Function.Injective σ) (o : Opts)
    (hp : ((List.range o.n).map σ).Perm (List.range o.n)) (l : List Prec)
    (hanti : ∀ e ∈ pairs o.minRatios o.n o.graph o.minSamples (column (selected o.cutoff l)),
      σ e.2 < σ e.1 →
        ratio (column (selected o.cutoff l)) e.2 e.1 = (ratio (column (selected o.cutoff l)) e.1 e.2)⁻¹)
    (y y' : Nat → ℝ) (hy : ∀ s, y' (σ s) = y s)
    (hls : IsLeastSquares (stageA o l).eqs (stageA o l).system y) :
    IsLeastSquares (stageA (relabelOpts σ o) (l.map (relabel σ))).eqs
      (stageA (relabelOpts σ o) (l.map (relabel σ))).system y' ∧
    ∀ s, lfq o.n (stageA (relabelOpts σ o) (l.map (relabel σ))).system.zeroCols
          (((stageA (relabelOpts σ o) (l.map (relabel σ))).total : Rat) : ℝ) (fun t => Real.exp (y' t)) (σ s) =
        lfq o.n (stageA o l).system.zeroCols (((stageA o l).total : Rat) : ℝ) (fun t => Real.exp (y t)) s := by
  refine ⟨isLeastSquares_relabel hσ o hp l hanti y y' hy hls, fun s => ?_⟩
  have hcol : ∀ s, column (selected o.cutoff (l.map (relabel σ))) (σ s) = column (selected o.cutoff l) s :=
    fun s => column_relabel hσ o.cutoff l s
  have htot : (stageA (relabelOpts σ o) (l.map (relabel σ))).total = (stageA o l).total :=
    total_relabel hσ o.cutoff l
  rw [htot]
  exact lfq_relabel hσ hp (zeroCols_relabel_perm hσ hp o.minRatios o.graph o.minSamples hcol) _ _ _
    (fun t => by rw [hy]) s

/-- "scales with the input" (stage A): multiplying every intensity by `c > 0` multiplies the intensity
    matrix and the total by `c` and changes nothing else — same valid pairs, same median ratios, same
    stabilisation weights and summed-intensity ratios, same linear system. -/
theorem lfq_scales {c : Rat} (hc : 0 < c) (o : Opts) (l : List Prec) :
    stageA o (l.map (scaleP c)) =
      { stageA o l with cols := (stageA o l).cols.map (fun col => col.map (fun x => c * x)),
                        total := c * (stageA o l).total } := by
  have hsel := selected_scale hc o.cutoff l
  have hcol : ∀ s, column (selected o.cutoff (l.map (scaleP c))) s =
      (column (selected o.cutoff l) s).map (fun x => c * x) := by
    intro s; rw [hsel, column_map_scaleP]
  unfold stageA
  simp only [pairs_scale hc hcol, StageA.mk.injEq]
  refine ⟨by rw [hsel, rowKeys_map_scaleP], ?_, by rw [hsel, total_map_scaleP], ?_, ?_, trivial⟩
  · rw [List.map_map]
    exact List.map_congr_left (fun s _ => hcol s)
  · apply List.filter_congr
    intro s _
    exact validCol_scale hc hcol o.minRatios s
  · exact List.map_congr_left (fun e _ => pairEq_scale hc o.stab o.cutoff l hcol e)

/-- "scales with the input" (last step): with the same least-squares solution `v`, scaling the total
    scales every LFQ intensity. -/
theorem lfq_scales_final (n : Nat) (zero : List Nat) (c tot : Rat) (v : Nat → Rat) (hv : ∀ s, 0 ≤ v s)
    (s : Nat) (hs : s < n) : lfq n zero (c * tot) v s = c * lfq n zero tot v s :=
  lfq_scale_total n zero c tot v hv s hs

/-- "scales with the input" (whole pipeline, stage B specified): the scaled input has the same linear
    system, hence the same least-squares solutions, and every LFQ intensity obtained from a solution `y`
    is multiplied by `c`. -/
theorem lfq_scales_pipeline {c : Rat} (hc : 0 < c) (o : Opts) (l : List Prec) (y : Nat → ℝ) :
    (IsLeastSquares (stageA o (l.map (scaleP c))).eqs (stageA o (l.map (scaleP c))).system y ↔
      IsLeastSquares (stageA o l).eqs (stageA o l).system y) ∧
    ∀ s, s < o.n →
      lfq o.n (stageA o (l.map (scaleP c))).system.zeroCols (((stageA o (l.map (scaleP c))).total : Rat) : ℝ)
          (fun t => Real.exp (y t)) s =
        (c : ℝ) * lfq o.n (stageA o l).system.zeroCols (((stageA o l).total : Rat) : ℝ) (fun t => Real.exp (y t)) s := by
  rw [lfq_scales hc o l]
  refine ⟨Iff.rfl, fun s hs => ?_⟩
  simp only [Rat.cast_mul]
  exact lfq_scale_total o.n _ (c : ℝ) _ _ (fun t => (Real.exp_pos (y t)).le) s hs

/-- "the LFQ intensities sum to the summed intensity of the peptides used" (`_scaleEqualSum`): whenever
    some LFQ intensity is positive, they add up to the total.  `v` is the exponentiated solution
    (non-negative).  Rational instance = what the driver executes. -/
theorem sum_preserved (n : Nat) (zero : List Nat) (tot : Rat) (v : Nat → Rat) (hv : ∀ s, 0 ≤ v s)
    (hpos : ∃ s, s < n ∧ 0 < lfq n zero tot v s) : vsum n (lfq n zero tot v) = tot :=
  lfq_sum_preserved n zero tot v hv hpos

/-- the same over the reals, where `v = exp ∘ y` for a least-squares solution `y` -/
theorem sum_preserved_real (n : Nat) (zero : List Nat) (tot : ℝ) (y : Nat → ℝ)
    (hpos : ∃ s, s < n ∧ 0 < lfq n zero tot (fun t => Real.exp (y t)) s) :
    vsum n (lfq n zero tot (fun t => Real.exp (y t))) = tot :=
  lfq_sum_preserved n zero tot _ (fun t => (Real.exp_pos (y t)).le) hpos

/-- "the summed intensity of the peptides used": the total to which the LFQ intensities are scaled is
    the sum of all entries of the selected intensity matrix (rows = (peptide, charge), columns = the
    `n` samples), i.e. of exactly the intensities the ratios are computed from. -/
theorem total_is_matrix_sum (o : Opts) (l : List Prec) (hn : ∀ p ∈ l, p.exp < o.n) :
    ((stageA o l).keys.map (fun k =>
      ((List.range o.n).map (fun s => cell (selected o.cutoff l) k s)).sum)).sum = (stageA o l).total :=
  matrix_sum o.n (selected o.cutoff l) (fun p hp => hn p ((mem_selected o.cutoff l p).mp hp).1.1)

/-- "samples without enough shared peptides get 0": the zero columns of the system are exactly the
    samples that occur in no valid pair, and their LFQ intensity is 0 whatever the solver returns. -/
theorem unconnected_zero (n : Nat) (ps : List (Nat × Nat)) (tot : Rat) (v : Nat → Rat) (s : Nat) :
    (s ∈ (buildSystem n ps).zeroCols ↔ s < n ∧ ∀ e ∈ ps, e.1 ≠ s ∧ e.2 ≠ s) ∧
    (s ∈ (buildSystem n ps).zeroCols → lfq n (buildSystem n ps).zeroCols tot v s = 0) :=
  ⟨mem_zeroCols n ps s, fun h => lfq_zero_of_mem n _ tot v h⟩

/-- "every observed intensity = peptide factor x sample factor": then the median peptide ratio of a
    pair of samples with at least one shared peptide is the ratio of the sample factors. -/
theorem median_consistent (sel : List Prec) (n : Nat) (f : String × Int → Rat) (g : Nat → Rat)
    (hf : ∀ k, f k ≠ 0) (i j : Nat) (hi : i < n) (hj : j < n)
    (hc : ∀ k ∈ rowKeys sel, ∀ s, s < n → cell sel k s = 0 ∨ cell sel k s = f k * g s)
    (hsh : 0 < shared (column sel i) (column sel j)) : ratio (column sel) i j = g i / g j :=
  ratio_of_consistent_cells sel n f g hf i j hi hj hc hsh

/-- orientation of a pair: with an ODD number of shared peptides the median ratio of the flipped pair
    is the inverse (so `log` of it is the negative and the equation is the same one); for an even number
    this fails, see `median_not_antisymmetric` below — the reason why "permutes with the samples" is
    stated per ordered pair in `lfq_sample_equivariant`. -/
theorem ratio_antisymm_of_odd (c : Rat) (l : List Prec) (i j : Nat)
    (hodd : shared (column (selected c l) i) (column (selected c l) j) % 2 = 1) :
    ratio (column (selected c l)) j i = (ratio (column (selected c l)) i j)⁻¹ :=
  ratio_swap_of_odd (column_nonneg c l i) (column_nonneg c l j) hodd

/-- "in general the ratios between samples linked by valid pairwise median peptide ratios are the
    least-squares solution of those ratios" + consistent case: if the right-hand sides of the system
    built by stage A are differences `x i − x j` of one value per sample, then EVERY least-squares
    solution `y` (whatever `lsqr` returns) has exactly these differences between any two samples
    linked by a chain of valid pairs. -/
theorem consistent_recovery (o : Opts) (l : List Prec) (x y : Nat → ℝ)
    (hcons : ∀ q ∈ (stageA o l).eqs, rhs q = x q.i - x q.j)
    (hls : IsLeastSquares (stageA o l).eqs (stageA o l).system y)
    (i j : Nat) (hij : Linked (stageA o l).eqs i j) : y i - y j = x i - x j := by
  rw [stageA_system] at hls
  refine consistent_recovery_aux o.n _ ?_ x y hcons hls i j hij
  intro q hq
  have := stageA_eq_mem o l q hq
  omega

/-- "If a protein's peptide intensities are consistent with one abundance per sample … and the samples
    are connected by enough shared peptides, the LFQ intensities are proportional to the sample
    factors": stabilisation off, at least one ratio required, every quantified cell of the selected
    matrix equal to `f k · g s` with `g > 0`, all `n ≥ 2` samples linked by valid pairs; then for every
    least-squares solution `y`, zeroing + `_scaleEqualSum` applied to `exp ∘ y` gives
    `lfq s = total · g s / Σ g`. -/
theorem consistent_lfq (o : Opts) (l : List Prec) (hn : 2 ≤ o.n) (hstab : o.stab = false)
    (hm : 1 ≤ o.minRatios) (f : String × Int → Rat) (g : Nat → Rat) (hf : ∀ k, f k ≠ 0)
    (hg : ∀ s, 0 < g s)
    (hc : ∀ k ∈ rowKeys (selected o.cutoff l), ∀ s, s < o.n →
      cell (selected o.cutoff l) k s = 0 ∨ cell (selected o.cutoff l) k s = f k * g s)
    (y : Nat → ℝ) (hls : IsLeastSquares (stageA o l).eqs (stageA o l).system y)
    (i0 : Nat) (hconn : ∀ s, s < o.n → Linked (stageA o l).eqs i0 s)
    (s : Nat) (hs : s < o.n) :
    lfq o.n (stageA o l).system.zeroCols ((stageA o l).total : ℝ) (fun t => Real.exp (y t)) s =
      ((stageA o l).total : ℝ) * (g s : ℝ) / vsum o.n (fun t => (g t : ℝ)) := by
  have hlt : ∀ q ∈ (stageA o l).eqs, q.i < o.n ∧ q.j < o.n := by
    intro q hq
    have := stageA_eq_mem o l q hq
    omega
  have hcons := rhs_of_consistent o l hstab hm f g hf hg hc
  rw [stageA_system] at hls ⊢
  exact consistent_lfq_aux o.n hn _ hlt (fun t => (g t : ℝ)) (fun t => by exact_mod_cast hg t) y hcons hls
    i0 hconn _ s hs


/-! ## Non-vacuity: concrete inputs meeting the hypotheses

Three samples with sample factors `g = (10, 20, 40)`, two peptides with factors `f = (1, 3)`; the list
also holds a duplicate precursor of lower intensity (dropped by the selection), a match-between-runs
precursor (NaN PEP, kept) and an unidentified one (PEP above the cutoff, dropped). -/

private def exL : List Prec := [
  ⟨"PEPB", 2, 2, -1, 120, some (1/1000)⟩, ⟨"PEPA", 2, 0, -1, 10, some (1/1000)⟩,
  ⟨"PEPA", 2, 1, -1, 20, some (1/1000)⟩, ⟨"PEPA", 2, 2, -1, 40, none⟩,
  ⟨"PEPB", 2, 0, -1, 30, some (1/1000)⟩, ⟨"PEPB", 2, 1, -1, 60, some (1/1000)⟩,
  ⟨"PEPB", 2, 2, -1, 7, some (1/10000)⟩, ⟨"PEPA", 2, 0, -1, 99, some (1/2)⟩]

private def exO : Opts :=
  { n := 3, cutoff := 1/100, minRatios := 2, stab := false, graph := none, minSamples := 10 }

private def exF : String × Int → Rat := fun k => if k = ("PEPA", 2) then 1 else 3
private def exG : Nat → Rat := fun s => if s = 0 then 10 else if s = 1 then 20 else 40

private theorem exF_ne (k : String × Int) : exF k ≠ 0 := by unfold exF; split <;> norm_num
private theorem exG_pos (s : Nat) : 0 < exG s := by unfold exG; split_ifs <;> norm_num

/-- stage A on the example: selection drops the duplicate and the unidentified precursor -/
private theorem ex_stageA : stageA exO exL =
    { keys := [("PEPA", 2), ("PEPB", 2)], cols := [[10, 30], [20, 60], [40, 120]], total := 280,
      validCols := [0, 1, 2],
      eqs := [⟨0, 1, 1/2, 0, 1⟩, ⟨0, 2, 1/4, 0, 1⟩, ⟨1, 2, 1/2, 0, 1⟩],
      system := { pairs := [(0, 1), (0, 2), (1, 2)], seen := [0, 1, 2], zeroCols := [] } } := by
  decide +kernel

/-- `selection_perm_invariant` on a genuinely different order -/
example : exL.reverse ≠ exL ∧ stageA exO exL.reverse = stageA exO exL :=
  ⟨by decide, selection_perm_invariant exO (List.reverse_perm _)⟩

/-- `selected_best_per_group`: the duplicate `PEPB` precursor of intensity 7 is in the list, identified
    and quantified, but not selected (120 is) -/
example : (⟨"PEPB", 2, 2, -1, 7, some (1/10000)⟩ : Prec) ∈ exL ∧
    keep (1/100) ⟨"PEPB", 2, 2, -1, 7, some (1/10000)⟩ = true ∧
    (⟨"PEPB", 2, 2, -1, 7, some (1/10000)⟩ : Prec) ∉ selected (1/100) exL ∧
    (⟨"PEPB", 2, 2, -1, 120, some (1/1000)⟩ : Prec) ∈ selected (1/100) exL := by decide +kernel

/-- `lfq_sample_equivariant`: the swap of samples 0 and 2 meets the hypotheses -/
private def exσ : Nat → Nat := fun s => if s = 0 then 2 else if s = 2 then 0 else s

private theorem exσ_inj : Function.Injective exσ := by
  intro a b h; unfold exσ at h; split_ifs at h <;> omega

example : ((List.range 3).map exσ).Perm (List.range 3) := by decide

example : column (selected (1/100) (exL.map (relabel exσ))) 2 = column (selected (1/100) exL) 0 :=
  (lfq_sample_equivariant exσ_inj (n := 3) (by decide) (1/100) 2 none 10 exL).1 0

/-- `lfq_permutes_with_samples` on the example: both peptides are quantified in all three samples, so every
    pair shares 2 peptides (even) — but the data are consistent, all ratios of a pair are equal and the
    median is antisymmetric anyway: the hypothesis `hanti` holds for the swap of samples 0 and 2 -/
example : ∀ e ∈ pairs exO.minRatios exO.n exO.graph exO.minSamples (column (selected exO.cutoff exL)),
    exσ e.2 < exσ e.1 →
      ratio (column (selected exO.cutoff exL)) e.2 e.1 = (ratio (column (selected exO.cutoff exL)) e.1 e.2)⁻¹ := by
  decide +kernel

/-- the orientation of a pair matters for an even number of shared peptides: the median of the ratios
    1 and 4 is 5/2, the median of the inverse ratios is 5/8, not 2/5 (known finding
    `lfq-even-median-orientation`); `ratio_antisymm_of_odd` needs its parity hypothesis -/
example : median [1, 4] = 5/2 ∧ median [1, 1/4] = 5/8 ∧ (5/8 : Rat) ≠ (5/2)⁻¹ := by decide +kernel

/-- `ratio_antisymm_of_odd`: three shared peptides -/
example : shared [1, 4, 9] [1, 1, 2] % 2 = 1 ∧ median (ratiosOf [1, 4, 9] [1, 1, 2]) = 4 ∧
    median (ratiosOf [1, 1, 2] [1, 4, 9]) = 1/4 := by decide +kernel

/-- `lfq_scales` with c = 3 -/
example : (stageA exO (exL.map (scaleP 3))).total = 840 ∧
    (stageA exO (exL.map (scaleP 3))).eqs = (stageA exO exL).eqs := by
  rw [lfq_scales (by norm_num : (0 : Rat) < 3) exO exL, ex_stageA]
  exact ⟨by norm_num, rfl⟩

/-- `total_is_matrix_sum` on the example: 10 + 20 + 40 + 30 + 60 + 120 = 280 -/
example : ∀ p ∈ exL, p.exp < exO.n := by decide

/-- `sum_preserved`: a solution proportional to (1, 2, 4) -/
example : (∀ s, (0 : Rat) ≤ (fun s => if s = 0 then 1 else if s = 1 then 2 else 4) s) ∧
    (∃ s, s < 3 ∧ 0 < lfq 3 [] (280 : Rat) (fun s => if s = 0 then 1 else if s = 1 then 2 else 4) s) ∧
    lfq 3 [] (280 : Rat) (fun s => if s = 0 then 1 else if s = 1 then 2 else 4) 2 = 160 := by
  refine ⟨fun s => by simp only; split_ifs <;> norm_num, ⟨0, by decide, by decide +kernel⟩, by decide +kernel⟩

/-- `unconnected_zero`: sample 3 of 4 occurs in no pair -/
example : (buildSystem 4 [(0, 1), (1, 2)]).zeroCols = [3] ∧
    lfq 4 (buildSystem 4 [(0, 1), (1, 2)]).zeroCols (100 : Rat) (fun _ => 7) 3 = 0 := by decide +kernel

/-- the example data is consistent with `f`, `g` (hypothesis of `median_consistent`, `consistent_lfq`) -/
private theorem ex_consistent : ∀ k ∈ rowKeys (selected exO.cutoff exL), ∀ s, s < exO.n →
    cell (selected exO.cutoff exL) k s = 0 ∨ cell (selected exO.cutoff exL) k s = exF k * exG s := by
  decide +kernel

example : ratio (column (selected (1/100) exL)) 0 2 = exG 0 / exG 2 :=
  median_consistent _ 3 exF exG exF_ne 0 2 (by decide) (by decide) ex_consistent (by decide +kernel)

private theorem ex_linked : ∀ s, s < exO.n → Linked (stageA exO exL).eqs 0 s := by
  intro s hs
  rw [ex_stageA]
  have h3 : s < 3 := hs
  obtain rfl | rfl | rfl : s = 0 ∨ s = 1 ∨ s = 2 := by omega
  · exact Relation.ReflTransGen.refl
  · exact Relation.ReflTransGen.single ⟨⟨0, 1, 1/2, 0, 1⟩, by simp, Or.inl ⟨rfl, rfl⟩⟩
  · exact Relation.ReflTransGen.single ⟨⟨0, 2, 1/4, 0, 1⟩, by simp, Or.inl ⟨rfl, rfl⟩⟩

/-- `consistent_recovery` / `consistent_lfq`: a least-squares solution exists for the example (the centred
    logarithms of `g`), all samples are linked, and the conclusion is `lfq = 280 · g / 70 = (40, 80, 160)` -/
example : ∃ y : Nat → ℝ, IsLeastSquares (stageA exO exL).eqs (stageA exO exL).system y ∧
    ∀ s, s < 3 → lfq 3 (stageA exO exL).system.zeroCols (((stageA exO exL).total : Rat) : ℝ)
      (fun t => Real.exp (y t)) s = (((stageA exO exL).total : Rat) : ℝ) * (exG s : ℝ) / vsum 3 (fun t => (exG t : ℝ)) := by
  have hcons := rhs_of_consistent exO exL rfl (by decide) exF exG exF_ne exG_pos ex_consistent
  have hlt : ∀ q ∈ (stageA exO exL).eqs, q.i < exO.n ∧ q.j < exO.n := by
    intro q hq; have := stageA_eq_mem exO exL q hq; omega
  have hls : IsLeastSquares (stageA exO exL).eqs (stageA exO exL).system
      (centred (stageA exO exL).system (fun t => Real.log (exG t : ℝ))) := by
    rw [stageA_system]
    exact centred_isLeastSquares exO.n _ hlt (fun t => Real.log (exG t : ℝ)) hcons
  exact ⟨_, hls, fun s hs => consistent_lfq exO exL (by decide) rfl (by decide) exF exG exF_ne exG_pos
    ex_consistent _ hls 0 ex_linked s hs⟩


/-! ## The written table: fractions, SILAC channels, `LFQ Intensity [<channel> ]<experiment>` columns

observe_at: "'LFQ Intensity <experiment>' columns of the written table".  The model section "The written table"
(`Model/C11.lean`) covers what lies between an evidence row and a named cell: the `Fraction` cell or the design's
fraction in the (peptide, charge, experiment, fraction) key, the experiment list and its order, the
identified-precursor filter, SILAC channels as samples `e * C + c`, and the header list zipped with the value list.
The driver's `lfqTable` runs it against `python -m picked_group_fdr.quantification` (`harness/props/C11.py`,
kind "table"), where the cells are read back BY HEADER NAME. -/

/-- label-free written tables are the model the fifteen theorems above speak about: with no SILAC channels stage A of
    a protein group of the table is `stageA` on the precursors that pass the identified-precursor filter, the
    experiment index being the position in the table's experiment list. -/
theorem table_labelfree_is_stageA (o : Opts) (rows : List Row) :
    tableStageA o 0 rows = stageA o ((retainIdentified o.cutoff rows).map Row.base) :=
  tableStageA_labelfree o rows

/-- "_getPeptideIntensities: best precursor per (peptide, charge, experiment, fraction)" with SILAC: the rows whose
    channel intensities are used are chosen by their base fields (`Intensity`, PEP) exactly as `selected` chooses —
    so `selected_best_per_group` describes them. -/
theorem rows_selected_as_precursors (c : Rat) (l : List Row) :
    (selectedRows c l).map Row.base = selected c (l.map Row.base) :=
  selectedRows_base c l

/-- quantifier: "(… missing values, fractions, charge states …)" — MaxLFQ sums a precursor's intensity over the
    fractions of an experiment: the cell of (precursor `k`, sample `s`) of the intensity matrix handed to the ratio
    step is, for every fraction in which the precursor has an identified, quantified row, the highest intensity among
    these rows, summed over the fractions (`aggregateFractions`). -/
theorem fractions_summed (c : Rat) (l : List Prec) (k : String × Int) (s : Nat) :
    cell (selected c l) k s = aggregateFractions c l k s :=
  cell_eq_aggregateFractions c l k s

/-- "the LFQ intensities sum to the summed intensity of the peptides used", through the aggregation: the per-fraction
    group intensities, summed over fractions, precursors and samples, are the total the LFQ intensities are scaled
    to (`sum_preserved`). -/
theorem total_preserved_through_fractions (c : Rat) (l : List Prec) (n : Nat) (hn : ∀ p ∈ l, p.exp < n) :
    ((rowKeys (selected c l)).map (fun k => ((List.range n).map (fun s => aggregateFractions c l k s)).sum)).sum =
      total (selected c l) :=
  sum_aggregateFractions c l n hn

/-- SILAC: the labelled sample (experiment `e`, channel `c`) is column `e * C + c`: its cell for precursor `k` is the
    sum of the channel-`c` intensities of the selected rows of `k` in experiment `e` (one row per fraction), and the
    total is the sum of all channel intensities of the selected rows. -/
theorem silac_cell_is_channel_sum {C : Nat} (hC : 0 < C) (cutoff : Rat) (rows : List Row)
    (hlen : ∀ r ∈ rows, r.silac.length ≤ C) (k : String × Int) (e c : Nat) (hc : c < C) :
    cell (tableSel cutoff C rows) k (e * C + c) =
      (((selectedRows cutoff (retainIdentified cutoff rows)).filter
          (fun r => (r.base.peptide, r.base.charge) == k && r.base.exp == e)).map (fun r => r.silac.getD c 0)).sum ∧
    total (tableSel cutoff C rows) =
      ((selectedRows cutoff (retainIdentified cutoff rows)).map (fun r => r.silac.sum)).sum := by
  have hsub : ∀ r ∈ selectedRows cutoff (retainIdentified cutoff rows), r.silac.length ≤ C := fun r hr =>
    hlen r (List.mem_filter.mp (mem_of_mem_selectedRows _ _ r hr).1).1
  exact ⟨cell_silac hC _ hsub k e c hc, total_silac hC _⟩

/-- "the summed intensity of the peptides used" for the table: the total of a protein group is the sum of all
    entries of its intensity matrix over the `n · max 1 C` labelled samples. -/
theorem table_total_is_matrix_sum (o : Opts) (C : Nat) (rows : List Row)
    (hrows : ∀ r ∈ rows, r.base.exp < o.n ∧ r.silac.length ≤ C) :
    ((tableStageA o C rows).keys.map (fun k =>
      ((List.range (numSamples o.n C)).map (fun s => cell (tableSel o.cutoff C rows) k s)).sum)).sum =
        (tableStageA o C rows).total := by
  refine matrix_sum (numSamples o.n C) (tableSel o.cutoff C rows) ?_
  intro p hp
  unfold tableSel at hp
  obtain ⟨r, hr, hpr⟩ := List.mem_flatMap.mp hp
  have hrow := hrows r (List.mem_filter.mp (mem_of_mem_selectedRows _ _ r hr).1).1
  exact exp_lt_of_mem_expandRow r hrow.1 hrow.2 p hpr

/-- `LFQIntensityColumns.append_headers` / `append_columns`: the header list and the value list are the SAME
    experiment-major enumeration of the samples (channel inside), for every number of experiments and channels:
    position `e · max 1 C + c` of the written row pairs the name of sample (experiment `e`, channel `c`) with the LFQ
    intensity of sample `e · max 1 C + c`; and there are exactly `n · max 1 C` named cells. -/
theorem lfq_headers_values_aligned {α : Type} (chans exps : List (List Char)) (v : Nat → α) :
    (namedColumns chans exps v).length = numSamples exps.length chans.length ∧
    (namedColumns chans exps v).map Prod.snd = lfqValues exps.length chans.length v ∧
    ∀ e c, e < exps.length → c < max 1 chans.length →
      (namedColumns chans exps v)[e * max 1 chans.length + c]? =
        some (if chans.isEmpty then lfqHeader none (exps.getD e [])
              else lfqHeader (some (chans.getD c [])) (exps.getD e []), v (e * max 1 chans.length + c)) := by
  refine ⟨?_, map_snd_namedColumns chans exps v, fun e c he hc => getElem?_namedColumns chans exps v e c he hc⟩
  rw [← List.length_map (f := Prod.fst), map_fst_namedColumns, length_lfqHeaders]

/-- "the value under the header `LFQ Intensity <channel> <experiment>` is the LFQ intensity of THAT sample": with
    distinct experiment names and the channel names of `get_silac_channels` (none, L/H, L/M/H) the header names are
    distinct, and reading the written row back BY HEADER NAME returns the value of the sample the name denotes. -/
theorem lfq_value_by_header_name {α : Type} {C : Nat} {chans : List (List Char)} (hC : silacChannels C = some chans)
    (exps : List (List Char)) (hexp : exps.Nodup) (v : Nat → α) (e c : Nat) (he : e < exps.length)
    (hc : c < max 1 C) :
    (lfqHeaders chans exps).Nodup ∧
    List.lookup (if chans.isEmpty then lfqHeader none (exps.getD e [])
                 else lfqHeader (some (chans.getD c [])) (exps.getD e [])) (namedColumns chans exps v) =
      some (v (e * max 1 C + c)) := by
  obtain ⟨hlen, hnd, h1⟩ := silacChannels_spec hC
  have hnodup := nodup_lfqHeaders chans exps hexp hnd h1
  refine ⟨hnodup, ?_⟩
  subst hlen
  exact lookup_of_getElem? _ _ _ _ (by rw [map_fst_namedColumns]; exact hnodup)
    (getElem?_namedColumns chans exps v e c he hc)

/-- the experiment list of the model (`sorted(parsed_experiments)` or the design's `unique()`) has no duplicates, so
    `lfq_value_by_header_name` applies to the header names built from it. -/
theorem experiment_list_nodup (d : Option Design) (rows : List EvRow) :
    (experimentsOf d rows).Nodup ∧ ((experimentsOf d rows).map String.toList).Nodup :=
  ⟨experimentsOf_nodup d rows, experiment_names_nodup d rows⟩

/-- "If a protein's peptide intensities are consistent with one abundance per sample … the LFQ intensities are
    proportional to the sample factors", per NAMED column of the written table: stabilisation off, at least one ratio
    required, every quantified cell of the table's intensity matrix equal to `f k · g s` for the labelled samples
    `s = e · max 1 C + c`, all samples linked by valid pairs; then for every least-squares solution `y` the cell
    found under the header of (experiment `e`, channel `c`) is `total · g s / Σ g`. -/
theorem table_consistent_by_header (o : Opts) {C : Nat} {chans : List (List Char)}
    (hC : silacChannels C = some chans) (exps : List (List Char)) (hexp : exps.Nodup) (hlen : exps.length = o.n)
    (rows : List Row) (hn : 2 ≤ numSamples o.n C) (hstab : o.stab = false) (hm : 1 ≤ o.minRatios)
    (f : String × Int → Rat) (g : Nat → Rat) (hf : ∀ k, f k ≠ 0) (hg : ∀ s, 0 < g s)
    (hcons : ∀ k ∈ rowKeys (tableSel o.cutoff C rows), ∀ s, s < numSamples o.n C →
      cell (tableSel o.cutoff C rows) k s = 0 ∨ cell (tableSel o.cutoff C rows) k s = f k * g s)
    (y : Nat → ℝ) (hls : IsLeastSquares (tableStageA o C rows).eqs (tableStageA o C rows).system y)
    (i0 : Nat) (hconn : ∀ s, s < numSamples o.n C → Linked (tableStageA o C rows).eqs i0 s)
    (e c : Nat) (he : e < o.n) (hc : c < max 1 C) :
    List.lookup (if chans.isEmpty then lfqHeader none (exps.getD e [])
                 else lfqHeader (some (chans.getD c [])) (exps.getD e []))
      (namedColumns chans exps (lfq (numSamples o.n C) (tableStageA o C rows).system.zeroCols
        (((tableStageA o C rows).total : Rat) : ℝ) (fun t => Real.exp (y t)))) =
      some ((((tableStageA o C rows).total : Rat) : ℝ) * (g (e * max 1 C + c) : ℝ) /
        vsum (numSamples o.n C) (fun t => (g t : ℝ))) := by
  rw [(lfq_value_by_header_name hC exps hexp _ e c (by omega) hc).2]
  congr 1
  have hs : e * max 1 C + c < numSamples o.n C := by
    unfold numSamples
    have : (e + 1) * max 1 C ≤ o.n * max 1 C := Nat.mul_le_mul_right _ he
    have h2 : (e + 1) * max 1 C = e * max 1 C + max 1 C := by ring
    omega
  exact consistent_lfq_with { o with n := numSamples o.n C } (tableSel o.cutoff C rows) (tableStab o.cutoff C rows)
    hn hstab hm f g hf hg hcons y hls i0 hconn _ hs

/-- "the LFQ intensities sum to the summed intensity of the peptides used", on the written row: whenever one LFQ
    cell of a protein group is positive, the values of its `n · max 1 C` named LFQ cells add up to the total. -/
theorem table_sum_preserved (chans exps : List (List Char)) (zero : List Nat) (tot : Rat) (v : Nat → Rat)
    (hv : ∀ s, 0 ≤ v s)
    (hpos : ∃ s, s < numSamples exps.length chans.length ∧
      0 < lfq (numSamples exps.length chans.length) zero tot v s) :
    ((namedColumns chans exps (lfq (numSamples exps.length chans.length) zero tot v)).map Prod.snd).sum = tot := by
  rw [map_snd_namedColumns]
  exact lfq_sum_preserved _ zero tot v hv hpos

/-! ### Non-vacuity of the table theorems

Two experiments × two SILAC channels = four labelled samples with factors `g = (10, 20, 40, 80)`; peptides with
factors 1 and 3.  `PEPA` of experiment 0 is split over fractions 1 and 2 (`[4, 8] + [6, 12] = [10, 20]`), `PEPB` of
experiment 0 has a duplicate row of lower intensity (dropped), its row in experiment 1 is a match-between-runs row
(NaN PEP, kept because `PEPB` is identified elsewhere), `PEPC` is never identified (dropped by the
identified-precursor filter). -/

private def tR : List Row := [
  ⟨⟨"PEPA", 2, 0, 1, 12, some (1/1000)⟩, [4, 8]⟩, ⟨⟨"PEPA", 2, 0, 2, 18, some (1/1000)⟩, [6, 12]⟩,
  ⟨⟨"PEPA", 2, 1, 1, 120, some (1/1000)⟩, [40, 80]⟩, ⟨⟨"PEPB", 2, 0, 1, 90, some (1/1000)⟩, [30, 60]⟩,
  ⟨⟨"PEPB", 2, 1, 1, 360, none⟩, [120, 240]⟩, ⟨⟨"PEPB", 2, 0, 1, 9, some (1/10000)⟩, [3, 6]⟩,
  ⟨⟨"PEPC", 2, 0, 1, 50, some (1/2)⟩, [20, 30]⟩]

private def tO : Opts := { n := 2, cutoff := 1/100, minRatios := 2, stab := false, graph := none, minSamples := 10 }
private def tG : Nat → Rat := fun s => if s = 0 then 10 else if s = 1 then 20 else if s = 2 then 40 else 80
private theorem tG_pos (s : Nat) : 0 < tG s := by unfold tG; split_ifs <;> norm_num
private def tExps : List (List Char) := ["liver".toList, "brain".toList]

private theorem t_stageA : tableStageA tO 2 tR =
    { keys := [("PEPA", 2), ("PEPB", 2)], cols := [[10, 30], [20, 60], [40, 120], [80, 240]], total := 600,
      validCols := [0, 1, 2, 3],
      eqs := [⟨0, 1, 1/2, 0, 1⟩, ⟨0, 2, 1/4, 0, 1⟩, ⟨0, 3, 1/8, 0, 1⟩, ⟨1, 2, 1/2, 0, 1⟩, ⟨1, 3, 1/4, 0, 1⟩, ⟨2, 3, 1/2, 0, 1⟩],
      system := { pairs := [(0, 1), (0, 2), (0, 3), (1, 2), (1, 3), (2, 3)], seen := [0, 1, 2, 3], zeroCols := [] } } := by
  decide +kernel

/-- `fractions_summed`: `PEPA` in experiment 0 is measured in fractions 1 and 2 (12 + 18) -/
example : aggregateFractions (1/100) (tR.map Row.base) ("PEPA", 2) 0 = 30 ∧
    fractionsOf (1/100) (tR.map Row.base) ("PEPA", 2) 0 = [1, 2] ∧
    groupBest (1/100) (tR.map Row.base) ("PEPB", 2) 0 1 = 90 := by decide +kernel

/-- `silac_cell_is_channel_sum`: sample (experiment 0, channel H) = column 1 holds 8 + 12 for `PEPA` -/
example : cell (tableSel (1/100) 2 tR) ("PEPA", 2) (0 * 2 + 1) = 20 ∧ (∀ r ∈ tR, r.silac.length ≤ 2) := by
  decide +kernel

/-- `table_total_is_matrix_sum`: hypotheses on the example -/
example : ∀ r ∈ tR, r.base.exp < tO.n ∧ r.silac.length ≤ 2 := by decide

/-- `lfq_headers_values_aligned` / `lfq_value_by_header_name` on two experiments × L/H: experiment-major names, and
    a channel-major header list (what a hoisted channel loop would give) is a different list -/
example : (namedColumns [['L'], ['H']] tExps (fun s => s)).map (fun x => (String.ofList x.1, x.2)) =
      [("LFQ Intensity L liver", 0), ("LFQ Intensity H liver", 1), ("LFQ Intensity L brain", 2), ("LFQ Intensity H brain", 3)] ∧
    silacChannels 2 = some [['L'], ['H']] ∧ tExps.Nodup ∧
    [['L'], ['H']].flatMap (fun c => tExps.map (fun e => lfqHeader (some c) e)) ≠ lfqHeaders [['L'], ['H']] tExps := by
  decide

/-- label-free: one column per experiment -/
example : (namedColumns [] tExps (fun s => s)).map (fun x => (String.ofList x.1, x.2)) =
    [("LFQ Intensity liver", 0), ("LFQ Intensity brain", 1)] ∧ silacChannels 0 = some [] := by decide

/-- `experiment_list_nodup`: without a design the experiments are the sorted distinct names -/
example : experimentsOf none [⟨"P", 2, "r1", "liver", -1, 1, [], none⟩, ⟨"P", 2, "r2", "brain", -1, 1, [], none⟩,
    ⟨"P", 2, "r1", "liver", -1, 1, [], none⟩] = ["brain", "liver"] := by decide

private theorem t_consistent : ∀ k ∈ rowKeys (tableSel tO.cutoff 2 tR), ∀ s, s < numSamples tO.n 2 →
    cell (tableSel tO.cutoff 2 tR) k s = 0 ∨ cell (tableSel tO.cutoff 2 tR) k s = exF k * tG s := by
  decide +kernel

private theorem t_linked : ∀ s, s < numSamples tO.n 2 → Linked (tableStageA tO 2 tR).eqs 0 s := by
  intro s hs
  rw [t_stageA]
  have h4 : s < 4 := hs
  obtain rfl | rfl | rfl | rfl : s = 0 ∨ s = 1 ∨ s = 2 ∨ s = 3 := by omega
  · exact Relation.ReflTransGen.refl
  · exact Relation.ReflTransGen.single ⟨⟨0, 1, 1/2, 0, 1⟩, by simp, Or.inl ⟨rfl, rfl⟩⟩
  · exact Relation.ReflTransGen.single ⟨⟨0, 2, 1/4, 0, 1⟩, by simp, Or.inl ⟨rfl, rfl⟩⟩
  · exact Relation.ReflTransGen.single ⟨⟨0, 3, 1/8, 0, 1⟩, by simp, Or.inl ⟨rfl, rfl⟩⟩

/-- `table_consistent_by_header`: a least-squares solution exists (the centred logarithms of `g`), all four labelled
    samples are linked, and the cell under `LFQ Intensity H brain` (experiment 1, channel 1, sample 3) is
    `600 · 80 / 150` -/
example : ∃ y : Nat → ℝ, IsLeastSquares (tableStageA tO 2 tR).eqs (tableStageA tO 2 tR).system y ∧
    List.lookup "LFQ Intensity H brain".toList
      (namedColumns [['L'], ['H']] tExps (lfq (numSamples tO.n 2) (tableStageA tO 2 tR).system.zeroCols
        (((tableStageA tO 2 tR).total : Rat) : ℝ) (fun t => Real.exp (y t)))) =
      some ((((tableStageA tO 2 tR).total : Rat) : ℝ) * (tG 3 : ℝ) / vsum (numSamples tO.n 2) (fun t => (tG t : ℝ))) := by
  have hcons := rhs_of_consistent_with { tO with n := numSamples tO.n 2 } (tableSel tO.cutoff 2 tR)
    (tableStab tO.cutoff 2 tR) rfl (by decide) exF tG exF_ne tG_pos t_consistent
  have hlt : ∀ q ∈ (tableStageA tO 2 tR).eqs, q.i < numSamples tO.n 2 ∧ q.j < numSamples tO.n 2 := by
    intro q hq
    have := stageAWith_eq_mem { tO with n := numSamples tO.n 2 } _ _ q hq
    exact ⟨Nat.lt_trans this.1 this.2.1, this.2.1⟩
  have hls : IsLeastSquares (tableStageA tO 2 tR).eqs (tableStageA tO 2 tR).system
      (centred (tableStageA tO 2 tR).system (fun t => Real.log (tG t : ℝ))) := by
    unfold tableStageA
    rw [stageAWith_system]
    exact centred_isLeastSquares (numSamples tO.n 2) _ hlt (fun t => Real.log (tG t : ℝ)) hcons
  refine ⟨_, hls, ?_⟩
  have h := table_consistent_by_header tO (C := 2) (chans := [['L'], ['H']]) rfl tExps (by decide) rfl tR (by decide) rfl
    (by decide) exF tG exF_ne tG_pos t_consistent _ hls 0 t_linked 1 1 (by decide) (by decide)
  exact h

end PgFdr.C11
