import PgFdr.Proofs.C11

/-!
# C11 — MaxLFQ intensities recover sample ratios and preserve the total intensity

Property text (properties.jsonl): "If a protein's peptide intensities are consistent with one
abundance per sample (every observed intensity = peptide factor x sample factor) and the samples are
connected by enough shared peptides, the LFQ intensities are proportional to the sample factors; in
general the ratios between samples linked by valid pairwise median peptide ratios are the
least-squares solution of those ratios (using summed-intensity ratios for very unequal peptide counts
when large-ratio stabilisation is on), samples without enough shared peptides get 0, and the LFQ
intensities sum to the summed intensity of the peptides used. The result does not depend on precursor
order, permutes with the samples, scales with the input and is unaffected by how experiments are
named."

Stage A (`stageA`: selection, intensity matrix, valid pairs, exact median ratios, stabilisation
weights, the linear system) and the last step (`lfq`: zeroing + `_scaleEqualSum`) are the functions the
driver's `lfqA` executes against `columns/lfq.py` (`harness/props/C11.py`).  Stage B — scipy's `lsqr`,
`np.log`, `np.exp` — is *specified* (`IsLeastSquares`, `rhs`, `Real.log`, `Real.exp`), not executed:
the theorems about it hold for every least-squares solution, and the correspondence checks by
certificate that the implementation's solution is one (to lsqr's tolerance).  That part is partial by
design: float rounding, lsqr's stopping rule and bottleneck's `nanmedian` are exercised, not modelled.

`experiments_are_indices` (remark, no theorem): the model has no experiment names — samples are the
indices `0 … n-1` of `experiment_to_idx_map` — so "unaffected by how experiments are named" is a
statement about the implementation only; it is tested by the renaming runs of the correspondence.

Known limitation shown below (`median_not_antisymmetric`): for an even number of shared peptides the
median of the ratios is the mean of the two middle ratios, and `median (1/r) ≠ 1 / median r`; therefore
the *orientation* of a pair (which sample has the smaller index) matters, and sample-permutation
equivariance of the whole pipeline holds only up to that orientation (`lfq_sample_equivariant` states
what is equivariant: the matrix, the total, the set of valid pairs as unordered pairs, and the ratio of
every *ordered* pair).
-/
namespace PgFdr.C11

/-- "The result does not depend on precursor order": the whole of stage A (selected intensities,
    total, valid pairs, median ratios, stabilisation weights, linear system) is the same for every
    permutation of the precursor list. -/
theorem selection_perm_invariant (o : Opts) {l l' : List Prec} (h : l.Perm l') :
    stageA o l = stageA o l' :=
  stageA_perm o h

/-- "_getPeptideIntensities: best precursor per (peptide, charge, experiment, fraction)" (mechanism):
    the precursors whose intensity is used are exactly the identified, quantified precursors that are
    least in the `orderByPEP` key — highest intensity, then lowest PEP — within their
    (peptide, charge, experiment, fraction) group; one per group. -/
theorem selected_best_per_group (c : Rat) (l : List Prec) (p : Prec) :
    (p ∈ selected c l ↔ (p ∈ l ∧ keep c p = true) ∧
      ∀ q, q ∈ l → keep c q = true → sameGroup p q = true → precLe p q = true) ∧
    (selected c l).Pairwise (fun x y => sameGroup x y = false) :=
  ⟨mem_selected c l p, selected_pairwise c l⟩

/-- "permutes with the samples" (stage A): relabelling the samples by a permutation `σ` of
    `0 … n-1` permutes the columns of the intensity matrix, leaves the row keys and the total
    unchanged, maps valid pairs to valid pairs (as unordered pairs; the FastLFQ graph transported by
    `σ`), keeps the median ratio of every ordered pair, and permutes the summed intensities and
    peptide counts of the stabilisation. -/
theorem lfq_sample_equivariant {σ : Nat → Nat} (hσ : Function.Injective σ) {n : Nat}
    (hp : ((List.range n).map σ).Perm (List.range n)) (c : Rat) (m : Nat)
    (g : Option (List (Nat × Nat))) (ms : Nat) (l : List Prec) :
    let col := column (selected c l)
    let col' := column (selected c (l.map (relabel σ)))
    (∀ s, col' (σ s) = col s) ∧
    rowKeys (selected c (l.map (relabel σ))) = rowKeys (selected c l) ∧
    total (selected c (l.map (relabel σ))) = total (selected c l) ∧
    (∀ i j, (i, j) ∈ pairs m n g ms col →
      (σ i, σ j) ∈ pairs m n (mapGraph σ g) ms col' ∨ (σ j, σ i) ∈ pairs m n (mapGraph σ g) ms col') ∧
    (∀ i j, ratio col' (σ i) (σ j) = ratio col i j) ∧
    (∀ s, sumInt c (l.map (relabel σ)) (σ s) = sumInt c l s ∧
          pepCount c (l.map (relabel σ)) (σ s) = pepCount c l s) := by
  intro col col'
  have hcol : ∀ s, col' (σ s) = col s := fun s => column_relabel hσ c l s
  exact ⟨hcol, rowKeys_relabel hσ c l, total_relabel hσ c l,
    fun i j h => pairs_relabel hσ hp m g ms hcol i j h,
    fun i j => ratio_relabel hcol i j,
    fun s => ⟨sumInt_relabel hσ c l s, pepCount_relabel hσ c l s⟩⟩

/-- "permutes with the samples" (whole pipeline, stage B specified): let `σ` permute the samples
    `0 … n-1`, the FastLFQ graph (if any) be transported by `σ`, and the median ratio of every valid
    pair whose orientation is flipped by `σ` be antisymmetric (`ratio j i = (ratio i j)⁻¹` — true for an
    odd number of shared peptides, `ratio_antisymm_of_odd`; false in general for an even number, the known
    finding `lfq-even-median-orientation`).  Then for every least-squares solution `y` of the original
    system the relabelled vector `y'` (`y' (σ s) = y s`) is a least-squares solution of the system built
    from the relabelled input, and the LFQ intensities obtained from it by zeroing and `_scaleEqualSum`
    are the original ones, permuted: `lfq' (σ s) = lfq s`. -/
theorem lfq_permutes_with_samples {σ : Nat → Nat} (hσ : Function.Injective σ) (o : Opts)
    (hp : ((List.range o.n).map σ).Perm (List.range o.n)) (l : List Prec)
    (hanti : ∀ e ∈ pairs o.minRatios o.n o.graph o.minSamples (column (selected o.cutoff l)),
      σ e.2 < σ e.1 →
        ratio (column (selected o.cutoff l)) e.2 e.1 = (ratio (column (selected o.cutoff l)) e.1 e.2)⁻¹)
    (y y' : Nat → ℝ) (hy : ∀ s, y' (σ s) = y s)
    (hls : IsLeastSquares (stageA o l).eqs (stageA o l).system y) :
    IsLeastSquares (stageA (relabelOpts σ o) (l.map (relabel σ))).eqs
      (stageA (relabelOpts σ o) (l.map (relabel σ))).system y' ∧
    ∀ s, lfq o.n (stageA (relabelOpts σ o) (l.map (relabel σ))).system.zeroCols
          (((stageA (relabelOpts σ o) (l.map (relabel σ))).total : Rat) : ℝ) (fun t => Real.exp (y' t)) (σ s) =
        lfq o.n (stageA o l).system.zeroCols (((stageA o l).total : Rat) : ℝ) (fun t => Real.exp (y t)) s := by
  refine ⟨isLeastSquares_relabel hσ o hp l hanti y y' hy hls, fun s => ?_⟩
  have hcol : ∀ s, column (selected o.cutoff (l.map (relabel σ))) (σ s) = column (selected o.cutoff l) s :=
    fun s => column_relabel hσ o.cutoff l s
  have htot : (stageA (relabelOpts σ o) (l.map (relabel σ))).total = (stageA o l).total :=
    total_relabel hσ o.cutoff l
  rw [htot]
  exact lfq_relabel hσ hp (zeroCols_relabel_perm hσ hp o.minRatios o.graph o.minSamples hcol) _ _ _
    (fun t => by rw [hy]) s

/-- "scales with the input" (stage A): multiplying every intensity by `c > 0` multiplies the intensity
    matrix and the total by `c` and changes nothing else — same valid pairs, same median ratios, same
    stabilisation weights and summed-intensity ratios, same linear system. -/
theorem lfq_scales {c : Rat} (hc : 0 < c) (o : Opts) (l : List Prec) :
    stageA o (l.map (scaleP c)) =
      { stageA o l with cols := (stageA o l).cols.map (fun col => col.map (fun x => c * x)),
                        total := c * (stageA o l).total } := by
  have hsel := selected_scale hc o.cutoff l
  have hcol : ∀ s, column (selected o.cutoff (l.map (scaleP c))) s =
      (column (selected o.cutoff l) s).map (fun x => c * x) := by
    intro s; rw [hsel, column_map_scaleP]
  unfold stageA
  simp only [pairs_scale hc hcol, StageA.mk.injEq]
  refine ⟨by rw [hsel, rowKeys_map_scaleP], ?_, by rw [hsel, total_map_scaleP], ?_, ?_, trivial⟩
  · rw [List.map_map]
    exact List.map_congr_left (fun s _ => hcol s)
  · apply List.filter_congr
    intro s _
    exact validCol_scale hc hcol o.minRatios s
  · exact List.map_congr_left (fun e _ => pairEq_scale hc o.stab o.cutoff l hcol e)

/-- "scales with the input" (last step): with the same least-squares solution `v`, scaling the total
    scales every LFQ intensity. -/
theorem lfq_scales_final (n : Nat) (zero : List Nat) (c tot : Rat) (v : Nat → Rat) (hv : ∀ s, 0 ≤ v s)
    (s : Nat) (hs : s < n) : lfq n zero (c * tot) v s = c * lfq n zero tot v s :=
  lfq_scale_total n zero c tot v hv s hs

/-- "scales with the input" (whole pipeline, stage B specified): the scaled input has the same linear
    system, hence the same least-squares solutions, and every LFQ intensity obtained from a solution `y`
    is multiplied by `c`. -/
theorem lfq_scales_pipeline {c : Rat} (hc : 0 < c) (o : Opts) (l : List Prec) (y : Nat → ℝ) :
    (IsLeastSquares (stageA o (l.map (scaleP c))).eqs (stageA o (l.map (scaleP c))).system y ↔
      IsLeastSquares (stageA o l).eqs (stageA o l).system y) ∧
    ∀ s, s < o.n →
      lfq o.n (stageA o (l.map (scaleP c))).system.zeroCols (((stageA o (l.map (scaleP c))).total : Rat) : ℝ)
          (fun t => Real.exp (y t)) s =
        (c : ℝ) * lfq o.n (stageA o l).system.zeroCols (((stageA o l).total : Rat) : ℝ) (fun t => Real.exp (y t)) s := by
  rw [lfq_scales hc o l]
  refine ⟨Iff.rfl, fun s hs => ?_⟩
  simp only [Rat.cast_mul]
  exact lfq_scale_total o.n _ (c : ℝ) _ _ (fun t => (Real.exp_pos (y t)).le) s hs

/-- "the LFQ intensities sum to the summed intensity of the peptides used" (`_scaleEqualSum`): whenever
    some LFQ intensity is positive, they add up to the total.  `v` is the exponentiated solution
    (non-negative).  Rational instance = what the driver executes. -/
theorem sum_preserved (n : Nat) (zero : List Nat) (tot : Rat) (v : Nat → Rat) (hv : ∀ s, 0 ≤ v s)
    (hpos : ∃ s, s < n ∧ 0 < lfq n zero tot v s) : vsum n (lfq n zero tot v) = tot :=
  lfq_sum_preserved n zero tot v hv hpos

/-- the same over the reals, where `v = exp ∘ y` for a least-squares solution `y` -/
theorem sum_preserved_real (n : Nat) (zero : List Nat) (tot : ℝ) (y : Nat → ℝ)
    (hpos : ∃ s, s < n ∧ 0 < lfq n zero tot (fun t => Real.exp (y t)) s) :
    vsum n (lfq n zero tot (fun t => Real.exp (y t))) = tot :=
  lfq_sum_preserved n zero tot _ (fun t => (Real.exp_pos (y t)).le) hpos

/-- "the summed intensity of the peptides used": the total to which the LFQ intensities are scaled is
    the sum of all entries of the selected intensity matrix (rows = (peptide, charge), columns = the
    `n` samples), i.e. of exactly the intensities the ratios are computed from. -/
theorem total_is_matrix_sum (o : Opts) (l : List Prec) (hn : ∀ p ∈ l, p.exp < o.n) :
    ((stageA o l).keys.map (fun k =>
      ((List.range o.n).map (fun s => cell (selected o.cutoff l) k s)).sum)).sum = (stageA o l).total :=
  matrix_sum o.n (selected o.cutoff l) (fun p hp => hn p ((mem_selected o.cutoff l p).mp hp).1.1)

/-- "samples without enough shared peptides get 0": the zero columns of the system are exactly the
    samples that occur in no valid pair, and their LFQ intensity is 0 whatever the solver returns. -/
theorem unconnected_zero (n : Nat) (ps : List (Nat × Nat)) (tot : Rat) (v : Nat → Rat) (s : Nat) :
    (s ∈ (buildSystem n ps).zeroCols ↔ s < n ∧ ∀ e ∈ ps, e.1 ≠ s ∧ e.2 ≠ s) ∧
    (s ∈ (buildSystem n ps).zeroCols → lfq n (buildSystem n ps).zeroCols tot v s = 0) :=
  ⟨mem_zeroCols n ps s, fun h => lfq_zero_of_mem n _ tot v h⟩

/-- "every observed intensity = peptide factor x sample factor": then the median peptide ratio of a
    pair of samples with at least one shared peptide is the ratio of the sample factors. -/
theorem median_consistent (sel : List Prec) (n : Nat) (f : String × Int → Rat) (g : Nat → Rat)
    (hf : ∀ k, f k ≠ 0) (i j : Nat) (hi : i < n) (hj : j < n)
    (hc : ∀ k ∈ rowKeys sel, ∀ s, s < n → cell sel k s = 0 ∨ cell sel k s = f k * g s)
    (hsh : 0 < shared (column sel i) (column sel j)) : ratio (column sel) i j = g i / g j :=
  ratio_of_consistent_cells sel n f g hf i j hi hj hc hsh

/-- orientation of a pair: with an ODD number of shared peptides the median ratio of the flipped pair
    is the inverse (so `log` of it is the negative and the equation is the same one); for an even number
    this fails, see `median_not_antisymmetric` below — the reason why "permutes with the samples" is
    stated per ordered pair in `lfq_sample_equivariant`. -/
theorem ratio_antisymm_of_odd (c : Rat) (l : List Prec) (i j : Nat)
    (hodd : shared (column (selected c l) i) (column (selected c l) j) % 2 = 1) :
    ratio (column (selected c l)) j i = (ratio (column (selected c l)) i j)⁻¹ :=
  ratio_swap_of_odd (column_nonneg c l i) (column_nonneg c l j) hodd

/-- "in general the ratios between samples linked by valid pairwise median peptide ratios are the
    least-squares solution of those ratios" + consistent case: if the right-hand sides of the system
    built by stage A are differences `x i − x j` of one value per sample, then EVERY least-squares
    solution `y` (whatever `lsqr` returns) has exactly these differences between any two samples
    linked by a chain of valid pairs. -/
theorem consistent_recovery (o : Opts) (l : List Prec) (x y : Nat → ℝ)
    (hcons : ∀ q ∈ (stageA o l).eqs, rhs q = x q.i - x q.j)
    (hls : IsLeastSquares (stageA o l).eqs (stageA o l).system y)
    (i j : Nat) (hij : Linked (stageA o l).eqs i j) : y i - y j = x i - x j := by
  rw [stageA_system] at hls
  refine consistent_recovery_aux o.n _ ?_ x y hcons hls i j hij
  intro q hq
  have := stageA_eq_mem o l q hq
  omega

/-- "If a protein's peptide intensities are consistent with one abundance per sample … and the samples
    are connected by enough shared peptides, the LFQ intensities are proportional to the sample
    factors": stabilisation off, at least one ratio required, every quantified cell of the selected
    matrix equal to `f k · g s` with `g > 0`, all `n ≥ 2` samples linked by valid pairs; then for every
    least-squares solution `y`, zeroing + `_scaleEqualSum` applied to `exp ∘ y` gives
    `lfq s = total · g s / Σ g`. -/
theorem consistent_lfq (o : Opts) (l : List Prec) (hn : 2 ≤ o.n) (hstab : o.stab = false)
    (hm : 1 ≤ o.minRatios) (f : String × Int → Rat) (g : Nat → Rat) (hf : ∀ k, f k ≠ 0)
    (hg : ∀ s, 0 < g s)
    (hc : ∀ k ∈ rowKeys (selected o.cutoff l), ∀ s, s < o.n →
      cell (selected o.cutoff l) k s = 0 ∨ cell (selected o.cutoff l) k s = f k * g s)
    (y : Nat → ℝ) (hls : IsLeastSquares (stageA o l).eqs (stageA o l).system y)
    (i0 : Nat) (hconn : ∀ s, s < o.n → Linked (stageA o l).eqs i0 s)
    (s : Nat) (hs : s < o.n) :
    lfq o.n (stageA o l).system.zeroCols ((stageA o l).total : ℝ) (fun t => Real.exp (y t)) s =
      ((stageA o l).total : ℝ) * (g s : ℝ) / vsum o.n (fun t => (g t : ℝ)) := by
  have hlt : ∀ q ∈ (stageA o l).eqs, q.i < o.n ∧ q.j < o.n := by
    intro q hq
    have := stageA_eq_mem o l q hq
    omega
  have hcons := rhs_of_consistent o l hstab hm f g hf hg hc
  rw [stageA_system] at hls ⊢
  exact consistent_lfq_aux o.n hn _ hlt (fun t => (g t : ℝ)) (fun t => by exact_mod_cast hg t) y hcons hls
    i0 hconn _ s hs


/-! ## Non-vacuity: concrete inputs meeting the hypotheses

Three samples with sample factors `g = (10, 20, 40)`, two peptides with factors `f = (1, 3)`; the list
also holds a duplicate precursor of lower intensity (dropped by the selection), a match-between-runs
precursor (NaN PEP, kept) and an unidentified one (PEP above the cutoff, dropped). -/

private def exL : List Prec := [
  ⟨"PEPB", 2, 2, -1, 120, some (1/1000)⟩, ⟨"PEPA", 2, 0, -1, 10, some (1/1000)⟩,
  ⟨"PEPA", 2, 1, -1, 20, some (1/1000)⟩, ⟨"PEPA", 2, 2, -1, 40, none⟩,
  ⟨"PEPB", 2, 0, -1, 30, some (1/1000)⟩, ⟨"PEPB", 2, 1, -1, 60, some (1/1000)⟩,
  ⟨"PEPB", 2, 2, -1, 7, some (1/10000)⟩, ⟨"PEPA", 2, 0, -1, 99, some (1/2)⟩]

private def exO : Opts :=
  { n := 3, cutoff := 1/100, minRatios := 2, stab := false, graph := none, minSamples := 10 }

private def exF : String × Int → Rat := fun k => if k = ("PEPA", 2) then 1 else 3
private def exG : Nat → Rat := fun s => if s = 0 then 10 else if s = 1 then 20 else 40

private theorem exF_ne (k : String × Int) : exF k ≠ 0 := by unfold exF; split <;> norm_num
private theorem exG_pos (s : Nat) : 0 < exG s := by unfold exG; split_ifs <;> norm_num

/-- stage A on the example: selection drops the duplicate and the unidentified precursor -/
private theorem ex_stageA : stageA exO exL =
    { keys := [("PEPA", 2), ("PEPB", 2)], cols := [[10, 30], [20, 60], [40, 120]], total := 280,
      validCols := [0, 1, 2],
      eqs := [⟨0, 1, 1/2, 0, 1⟩, ⟨0, 2, 1/4, 0, 1⟩, ⟨1, 2, 1/2, 0, 1⟩],
      system := { pairs := [(0, 1), (0, 2), (1, 2)], seen := [0, 1, 2], zeroCols := [] } } := by
  decide +kernel

/-- `selection_perm_invariant` on a genuinely different order -/
example : exL.reverse ≠ exL ∧ stageA exO exL.reverse = stageA exO exL :=
  ⟨by decide, selection_perm_invariant exO (List.reverse_perm _)⟩

/-- `selected_best_per_group`: the duplicate `PEPB` precursor of intensity 7 is in the list, identified
    and quantified, but not selected (120 is) -/
example : (⟨"PEPB", 2, 2, -1, 7, some (1/10000)⟩ : Prec) ∈ exL ∧
    keep (1/100) ⟨"PEPB", 2, 2, -1, 7, some (1/10000)⟩ = true ∧
    (⟨"PEPB", 2, 2, -1, 7, some (1/10000)⟩ : Prec) ∉ selected (1/100) exL ∧
    (⟨"PEPB", 2, 2, -1, 120, some (1/1000)⟩ : Prec) ∈ selected (1/100) exL := by decide +kernel

/-- `lfq_sample_equivariant`: the swap of samples 0 and 2 meets the hypotheses -/
private def exσ : Nat → Nat := fun s => if s = 0 then 2 else if s = 2 then 0 else s

private theorem exσ_inj : Function.Injective exσ := by
  intro a b h; unfold exσ at h; split_ifs at h <;> omega

example : ((List.range 3).map exσ).Perm (List.range 3) := by decide

example : column (selected (1/100) (exL.map (relabel exσ))) 2 = column (selected (1/100) exL) 0 :=
  (lfq_sample_equivariant exσ_inj (n := 3) (by decide) (1/100) 2 none 10 exL).1 0

/-- `lfq_permutes_with_samples` on the example: both peptides are quantified in all three samples, so every
    pair shares 2 peptides (even) — but the data are consistent, all ratios of a pair are equal and the
    median is antisymmetric anyway: the hypothesis `hanti` holds for the swap of samples 0 and 2 -/
example : ∀ e ∈ pairs exO.minRatios exO.n exO.graph exO.minSamples (column (selected exO.cutoff exL)),
    exσ e.2 < exσ e.1 →
      ratio (column (selected exO.cutoff exL)) e.2 e.1 = (ratio (column (selected exO.cutoff exL)) e.1 e.2)⁻¹ := by
  decide +kernel

/-- the orientation of a pair matters for an even number of shared peptides: the median of the ratios
    1 and 4 is 5/2, the median of the inverse ratios is 5/8, not 2/5 (known finding
    `lfq-even-median-orientation`); `ratio_antisymm_of_odd` needs its parity hypothesis -/
example : median [1, 4] = 5/2 ∧ median [1, 1/4] = 5/8 ∧ (5/8 : Rat) ≠ (5/2)⁻¹ := by decide +kernel

/-- `ratio_antisymm_of_odd`: three shared peptides -/
example : shared [1, 4, 9] [1, 1, 2] % 2 = 1 ∧ median (ratiosOf [1, 4, 9] [1, 1, 2]) = 4 ∧
    median (ratiosOf [1, 1, 2] [1, 4, 9]) = 1/4 := by decide +kernel

/-- `lfq_scales` with c = 3 -/
example : (stageA exO (exL.map (scaleP 3))).total = 840 ∧
    (stageA exO (exL.map (scaleP 3))).eqs = (stageA exO exL).eqs := by
  rw [lfq_scales (by norm_num : (0 : Rat) < 3) exO exL, ex_stageA]
  exact ⟨by norm_num, rfl⟩

/-- `total_is_matrix_sum` on the example: 10 + 20 + 40 + 30 + 60 + 120 = 280 -/
example : ∀ p ∈ exL, p.exp < exO.n := by decide

/-- `sum_preserved`: a solution proportional to (1, 2, 4) -/
example : (∀ s, (0 : Rat) ≤ (fun s => if s = 0 then 1 else if s = 1 then 2 else 4) s) ∧
    (∃ s, s < 3 ∧ 0 < lfq 3 [] (280 : Rat) (fun s => if s = 0 then 1 else if s = 1 then 2 else 4) s) ∧
    lfq 3 [] (280 : Rat) (fun s => if s = 0 then 1 else if s = 1 then 2 else 4) 2 = 160 := by
  refine ⟨fun s => by simp only; split_ifs <;> norm_num, ⟨0, by decide, by decide +kernel⟩, by decide +kernel⟩

/-- `unconnected_zero`: sample 3 of 4 occurs in no pair -/
example : (buildSystem 4 [(0, 1), (1, 2)]).zeroCols = [3] ∧
    lfq 4 (buildSystem 4 [(0, 1), (1, 2)]).zeroCols (100 : Rat) (fun _ => 7) 3 = 0 := by decide +kernel

/-- the example data is consistent with `f`, `g` (hypothesis of `median_consistent`, `consistent_lfq`) -/
private theorem ex_consistent : ∀ k ∈ rowKeys (selected exO.cutoff exL), ∀ s, s < exO.n →
    cell (selected exO.cutoff exL) k s = 0 ∨ cell (selected exO.cutoff exL) k s = exF k * exG s := by
  decide +kernel

example : ratio (column (selected (1/100) exL)) 0 2 = exG 0 / exG 2 :=
  median_consistent _ 3 exF exG exF_ne 0 2 (by decide) (by decide) ex_consistent (by decide +kernel)

private theorem ex_linked : ∀ s, s < exO.n → Linked (stageA exO exL).eqs 0 s := by
  intro s hs
  rw [ex_stageA]
  have h3 : s < 3 := hs
  obtain rfl | rfl | rfl : s = 0 ∨ s = 1 ∨ s = 2 := by omega
  · exact Relation.ReflTransGen.refl
  · exact Relation.ReflTransGen.single ⟨⟨0, 1, 1/2, 0, 1⟩, by simp, Or.inl ⟨rfl, rfl⟩⟩
  · exact Relation.ReflTransGen.single ⟨⟨0, 2, 1/4, 0, 1⟩, by simp, Or.inl ⟨rfl, rfl⟩⟩

/-- `consistent_recovery` / `consistent_lfq`: a least-squares solution exists for the example (the centred
    logarithms of `g`), all samples are linked, and the conclusion is `lfq = 280 · g / 70 = (40, 80, 160)` -/
example : ∃ y : Nat → ℝ, IsLeastSquares (stageA exO exL).eqs (stageA exO exL).system y ∧
    ∀ s, s < 3 → lfq 3 (stageA exO exL).system.zeroCols (((stageA exO exL).total : Rat) : ℝ)
      (fun t => Real.exp (y t)) s = (((stageA exO exL).total : Rat) : ℝ) * (exG s : ℝ) / vsum 3 (fun t => (exG t : ℝ)) := by
  have hcons := rhs_of_consistent exO exL rfl (by decide) exF exG exF_ne exG_pos ex_consistent
  have hlt : ∀ q ∈ (stageA exO exL).eqs, q.i < exO.n ∧ q.j < exO.n := by
    intro q hq; have := stageA_eq_mem exO exL q hq; omega
  have hls : IsLeastSquares (stageA exO exL).eqs (stageA exO exL).system
      (centred (stageA exO exL).system (fun t => Real.log (exG t : ℝ))) := by
    rw [stageA_system]
    exact centred_isLeastSquares exO.n _ hlt (fun t => Real.log (exG t : ℝ)) hcons
  exact ⟨_, hls, fun s hs => consistent_lfq exO exL (by decide) rfl (by decide) exF exG exF_ne exG_pos
    ex_consistent _ hls 0 ex_linked s hs⟩

end PgFdr.C11
