import PgFdr.Json
import PgFdr.Model.C13
namespace PgFdr.Driver
open Lean PgFdr PgFdr.C13

namespace C13D

def txt (cs : List Char) : Json := .str (String.ofList cs)
def err (e : Err) : Json := ofErr e.toString

def jctx (j : Json) : R Ctx := do
  let tg ← match jgetOpt j "triqler_groups" with
    | some x => jnat x
    | none => pure 0
  pure { experiments := ← jstrs (← jget j "experiments"), silac := ← jint (← jget j "silac"),
         tmt := ← jint (← jget j "tmt"), triqlerGroups := tg }

def genNames : List (String × Gen) :=
  [("ProteinAnnotationsColumns", .annotations), ("DiannProteinAnnotationsColumns", .diannAnnotations),
   ("UniquePeptideCountColumns", .uniqueCounts), ("IdentificationTypeColumns", .idType),
   ("SummedIntensityAndIbaqColumns", .sumIbaq), ("LFQIntensityColumns", .lfq),
   ("SequenceCoverageColumns", .coverage), ("TMTIntensityColumns", .tmt), ("TriqlerIntensityColumns", .triqler),
   ("EvidenceIdsColumns", .evidenceIds)]

def genName (g : Gen) : String :=
  match genNames.find? (fun p => p.2 == g) with
  | some p => p.1
  | none => "?"

/-- a history step: a generator class name, or `"-<header>"` for `remove_column(header)` -/
def jop (j : Json) : R Op := do
  let s ← jstr j
  if s.startsWith "-" then pure (.remove (s.drop 1).toString) else
  match genNames.lookup s with
  | some g => pure (.gen g)
  | none => .error s!"unknown generator {s}"

def jgen (j : Json) : R Gen := do
  let s ← jstr j
  match genNames.lookup s with
  | some g => pure g
  | none => .error s!"unknown generator {s}"

/-- `{"name": "maxquant"|"diann"|"minimal", "skip_lfq": bool}` -/
def jwriter (j : Json) : R Writer := do
  match ← jstr (← jget j "name") with
  | "maxquant" => pure (.maxquant (← jbool (← jget j "skip_lfq")))
  | "diann" => pure .diann
  | "minimal" => pure .minimal
  | s => .error s!"unknown writer {s}"

/-- a row as the list of its cells: the nine base fields, then the extra columns -/
def rowOfCells (cells : List String) (nprec : Nat) : R Row :=
  match cells with
  | a :: b :: c :: d :: e :: f :: g :: h :: i :: ex =>
    pure { proteinIds := a, majorityProteinIds := b, peptideCountsUnique := c, bestPeptide := d,
           numberOfProteins := e, qValue := f, score := g, reverse := h, potentialContaminant := i,
           extra := ex, nprec := nprec }
  | _ => .error "a row needs at least nine cells"

/-- `{"cells": [...], "nprec": n}` -/
def jrow (j : Json) : R Row := do
  rowOfCells (← jstrs (← jget j "cells")) (← jnat (← jget j "nprec"))

def ofTable (t : Table) : Json :=
  obj [("headers", ofStrs t.headers),
       ("rows", ofList (fun (r : Row) => Json.arr #[.str r.proteinIds, ofNat r.extra.length]) t.rows)]

/-- `{"op":"table_gen","ctx":…,"gen":name}` → validity, the headers the generator appends, values per row -/
def handleGen (j : Json) : R Json := do
  let ctx ← jctx (← jget j "ctx")
  let g ← jgen (← jget j "gen")
  let dummy : Row := default
  if !g.valid ctx then pure (obj [("valid", .bool false)]) else
  match g.hdrs ctx with
  | .error e => pure (obj [("valid", .bool true), ("err", .str e.toString)])
  | .ok hs => pure (obj [("valid", .bool true), ("headers", ofStrs hs), ("arity", ofNat (g.vals ctx dummy).length)])

/-- `{"op":"table","ctx":…,"rows":[…], "history":[names] | "writer":{…}}` → headers and per-row arities -/
def handleTable (j : Json) : R Json := do
  let ctx ← jctx (← jget j "ctx")
  let rows ← jlist jrow (← jget j "rows")
  let t := Table.init rows
  match jgetOpt j "writer" with
  | some wj =>
    let w ← jwriter wj
    match w.appendQuantColumns ctx t with
    | .error e => pure (obj [("err", .str e.toString), ("columns", ofStrs (w.columns.map genName))])
    | .ok t' => pure (obj [("headers", ofStrs t'.headers),
        ("rows", ofList (fun (r : Row) => Json.arr #[.str r.proteinIds, ofNat r.extra.length]) t'.rows),
        ("columns", ofStrs (w.columns.map genName))])
  | none =>
    let ops ← jlist jop (← jget j "history")
    match applyOps ctx t ops with
    | .error e => pure (err e)
    | .ok t' => pure (ofTable t')

def jpairs (j : Json) : R (List (String × String)) :=
  jlist (fun p => do
    match p with
    | .arr #[a, b] => pure (← jstr a, ← jstr b)
    | _ => .error "expected [key, value]") j

/-- `{"op":"table_write","headers":[…],"rows":[[cells…]…],"dict": null | [[k,v]…], "writer": null | {…}, "experiments":[…]}`
    → the text of the file -/
def handleWrite (j : Json) : R Json := do
  let headers ← jstrs (← jget j "headers")
  let rows ← (← jarr (← jget j "rows")).mapM (fun r => do rowOfCells (← jstrs r) 0)
  let t : Table := { headers := headers, rows := rows }
  let dict ← match jgetOpt j "writer" with
    | some wj => do
      let w ← jwriter wj
      let ex ← jstrs (← jget j "experiments")
      pure (some (w.headerDict { experiments := ex } t))
    | none => match jgetOpt j "dict" with
      | some dj => do pure (some (dictOfPairs (← jpairs dj)))
      | none => pure none
  match writeTable t dict with
  | .error e => pure (err e)
  | .ok text => pure (obj [("text", txt text)])

/-- `{"op":"csv","rows":[[fields…]…]}` → `{"text": …}`;  `{"op":"csv","text": …}` → `{"rows": …}` -/
def handleCsv (j : Json) : R Json := do
  match jgetOpt j "rows" with
  | some rj =>
    let rows ← jlist jstrs rj
    pure (obj [("text", txt (formatRows rows))])
  | none =>
    let text ← jstr (← jget j "text")
    pure (obj [("rows", ofList ofStrs (parseText text.toList))])

def jfval (j : Json) : R FVal :=
  match j with
  | .str "nan" => pure .nan
  | .str "inf" => pure .pinf
  | .str "-inf" => pure .ninf
  | _ => do pure (.fin (← jrat j))

def ofFVal : FVal → Json
  | .nan => .str "nan"
  | .pinf => .str "inf"
  | .ninf => .str "-inf"
  | .fin q => ofRat q

/-- a number table `{cell: value | null}` as a function; `null` = the conversion raises -/
def numTable {α} (conv : Json → R α) (j : Json) : R (List (String × Option α)) := do
  match j with
  | .obj kvs =>
    kvs.toList.mapM (fun (k, v) => do
      match v with
      | .null => pure (k, none)
      | _ => pure (k, some (← conv v)))
  | _ => .error "expected an object"

def lookupNum {α} (tbl : List (String × Option α)) (s : String) : Option α :=
  match tbl.lookup s with
  | some v => v
  | none => none

/-- every cell of the body rows must be a key of the table (a miss is a protocol error, not "bad number") -/
def checkCovered {α} (name : String) (tbl : List (String × Option α)) (rows : List (List String)) : R Unit :=
  match rows.flatten.find? (fun c => (tbl.lookup c).isNone) with
  | some c => .error s!"{name} table has no entry for cell {c.quote}"
  | none => pure ()

def ofMqRow (r : MqRow) : Json :=
  .arr #[.str r.proteinIds, .str r.majorityProteinIds, .str r.peptideCountsUnique, ofInt r.numberOfProteins,
         ofFVal r.qValue, ofFVal r.score, .str r.reverse, .str r.potentialContaminant, ofStrs r.extra]

/-- `{"op":"parse_mq","text":…,"additional":[…],"ints":{…},"floats":{…}}` -/
def handleParseMq (j : Json) : R Json := do
  let text ← jstr (← jget j "text")
  let additional ← jstrs (← jget j "additional")
  let ints ← numTable jint (← jget j "ints")
  let floats ← numTable jfval (← jget j "floats")
  let body := (parseText text.toList).drop 1
  checkCovered "ints" ints body
  checkCovered "floats" floats body
  match parseMq (lookupNum ints) (lookupNum floats) additional text.toList with
  | .error e => pure (err e)
  | .ok (hs, rs) => pure (obj [("headers", ofStrs hs), ("rows", ofList ofMqRow rs)])

/-- `{"op":"fdrfilter","files":[[name,text]…],"cutoff":fval,"floats":{…}}` → `{"out": text | null}` -/
def handleFdrFilter (j : Json) : R Json := do
  let files ← jpairs (← jget j "files")
  let cutoff ← jfval (← jget j "cutoff")
  let floats ← numTable jfval (← jget j "floats")
  for (_, text) in files do
    checkCovered "floats" floats ((parseText text.toList).drop 1)
  match filterFiles (lookupNum floats) cutoff (files.map (fun (n, t) => (n, t.toList))) none with
  | .error e => pure (err e)
  | .ok none => pure (obj [("out", .null)])
  | .ok (some o) => pure (obj [("out", txt o)])

end C13D

/-- protocol handlers of property C13: (op name, handler) -/
def handlersC13 : List (String × (Json → R Json)) :=
  [("table_gen", C13D.handleGen), ("table", C13D.handleTable), ("table_write", C13D.handleWrite),
   ("csv", C13D.handleCsv), ("parse_mq", C13D.handleParseMq), ("fdrfilter", C13D.handleFdrFilter)]
end PgFdr.Driver
