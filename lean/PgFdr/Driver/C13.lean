import PgFdr.Json
namespace PgFdr.Driver
open Lean PgFdr
/-- protocol handlers of property C13: (op name, handler) -/
def handlersC13 : List (String × (Json → R Json)) := []
end PgFdr.Driver
