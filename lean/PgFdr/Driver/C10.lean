import PgFdr.Json
namespace PgFdr.Driver
open Lean PgFdr
/-- protocol handlers of property C10: (op name, handler) -/
def handlersC10 : List (String × (Json → R Json)) := []
end PgFdr.Driver
