import PgFdr.Json
import PgFdr.Model.C10
import PgFdr.Model.C10Glue
namespace PgFdr.Driver
open Lean PgFdr

/-- the PEP cell: `[num,den]` a finite float literal, `"nan"` the literal `nan`, `"empty"` the empty cell,
    `"junk"` text that is no float literal, `"inf"`, `"-inf"` -/
def jscoreC10 (j : Json) : R (Option Rat × C10.Cell) :=
  match j with
  | .str "nan" => .ok (none, .value)
  | .str "empty" => .ok (none, .empty)
  | .str "junk" => .ok (none, .junk)
  | .str "inf" => .ok (none, .posInf)
  | .str "-inf" => .ok (none, .negInf)
  | _ => do pure (some (← jrat j), .value)

/-- `{"pep":…, "mod":…, "score": [num,den] | "nan" | "empty" | "junk" | "inf" | "-inf", "prot":[…], "decoy": bool}` -/
def jrawRowC10 (j : Json) : R C10.RawRow := do
  let pep ← jstr (← jget j "pep")
  let mod ← match jgetOpt j "mod" with
    | some m => jstr m
    | none => pure ""
  let score ← jscoreC10 (← jget j "score")
  let prot ← jstrs (← jget j "prot")
  let decoy ← match jgetOpt j "decoy" with
    | some b => jbool b
    | none => pure false
  pure { pep := pep, mod := mod, score := score.1, prot := prot, decoy := decoy, cell := score.2 }

/-- `[[peptide, [proteins…]], …]` in dict order -/
def jdmapC10 (j : Json) : R C10.DMap :=
  jlist (fun e => do
    match e with
    | .arr #[p, ps] => pure ((← jstr p), (← jstrs ps))
    | _ => .error s!"expected [peptide, proteins], got {e.compress}") j

/-- a digest of either kind: `[[peptide, [proteins…]], …]` (dict), or the pair of a non-specific search
    `{"index": [[prefix, [proteins…]], …], "seqs": [[protein, sequence], …]}` -/
def jdigestC10 (j : Json) : R C10.Digest :=
  match jgetOpt j "index" with
  | some idx => do
    let kv (e : Json) : R (List Char × List (List Char)) := do
      match e with
      | .arr #[k, ps] => pure ((← jstr k).toList, (← jstrs ps).map String.toList)
      | _ => .error s!"expected [prefix, proteins], got {e.compress}"
    let sq (e : Json) : R (List Char × List Char) := do
      match e with
      | .arr #[k, v] => pure ((← jstr k).toList, (← jstr v).toList)
      | _ => .error s!"expected [protein, sequence], got {e.compress}"
    pure (.hashed (← jlist kv idx) (← jlist sq (← jget j "seqs")))
  | none => do pure (.dict (← jdmapC10 j))

def isDictC10 : C10.Digest → Option C10.DMap
  | .dict m => some m
  | .hashed _ _ => none

def formatNameC10 : C10.Format → String
  | .maxquant => "maxquant" | .percNative => "percolator_native" | .percMokapot => "percolator_mokapot"
  | .fragpipe => "fragpipe" | .sage => "sage" | .diann => "diann"

/-- `{"op":"ingest","method":<shipped method name>,"mokapot":bool,"maps":[dmap | {"index":…,"seqs":…} …],"files":[[row…]…]}`
    → `{"pil":[[peptide,[num,den],[proteins…]]…],"format":…,"remap":bool,"razor":bool}` (dict order) for
    every shipped method, razor methods included (mode from the description `scoreType [+ " razor"]`; an optional
    field `"description"` supplies it for a method file that is not in the generated table);
    a PEP cell the parser cannot convert → `{"err":"bad_score_cell"}` -/
def handleIngest (j : Json) : R Json := do
  let name ← jstr (← jget j "method")
  let mokapot ← match jgetOpt j "mokapot" with
    | some b => jbool b
    | none => pure false
  -- a method file that is not shipped: the harness sends the score description (`scoreType [+ " razor"]`) itself
  let desc ← match jgetOpt j "description" with
    | some d => do pure (some (← jstr d))
    | none => pure (C10.descriptionOfMethod name)
  match desc with
  | none => .error s!"unknown method {name}"
  | some d =>
    let mode := C10.modeOfScoreType d mokapot
    let digests ← jlist jdigestC10 (← jget j "maps")
    let files ← jlist (jlist jrawRowC10) (← jget j "files")
    if mode.format = .sage ∧ files.any (fun f => f.any (fun r => match r.score with
        | some x => x.den != 1
        | none => false)) then .error "sage exponent is not an integer" else
    if digests.any (fun d => !d.wf) then .error "a protein of the prefix index has no sequence (KeyError in the code): outside the model" else
    -- plain dicts only: the function of the first 26 theorems; as soon as one map is the (prefix index, sequences)
    -- pair of a non-specific search: the same ingestion over `Digest` (`digest_dicts_agree`: they coincide on dicts)
    let run := match digests.mapM isDictC10 with
      | some maps => C10.ingestFilesChecked C10.exactT mode maps files
      | none => C10.ingestFilesCheckedD C10.exactT mode digests files
    match run with
    | .error .badScoreCell => pure (ofErr "bad_score_cell")
    | .error .negInfPep => .error "a PSM with PEP -inf is outside the model"
    | .ok pil =>
      pure (obj [("pil", ofList ofPepInfo pil), ("format", .str (formatNameC10 mode.format)),
                 ("remap", .bool mode.remap), ("razor", .bool mode.razor)])

/-- `{"op":"c10_strops","strings":[…]}` → per string: `remove_modifications`, `split(";")`,
    `split(", ")`, `split("\t")`, `[1:-1]`, `[2:-2]`, flank test -/
def handleStrops (j : Json) : R Json := do
  let ss ← jstrs (← jget j "strings")
  pure (obj [("out", ofList (fun s => obj [
    ("rm", .str (C10.removeMods s)),
    ("semi", ofStrs (C10.splitOn ";" s)),
    ("comma", ofStrs (C10.splitOn ", " s)),
    ("tab", ofStrs (C10.splitOn "\t" s)),
    ("s11", .str (C10.slice 1 1 s)),
    ("s22", .str (C10.slice 2 2 s)),
    ("flank", .bool (C10.hasFlanks s))]) ss)])

/-- `{"op":"c10_lookup","map":<digest>,"peptides":[…]}` → `{"out":[[protein…]…]}`: `digest.get_proteins` on a digest of
    either kind -/
def handleLookupC10 (j : Json) : R Json := do
  let d ← jdigestC10 (← jget j "map")
  if !d.wf then .error "a protein of the prefix index has no sequence (KeyError in the code): outside the model" else
  let qs ← jstrs (← jget j "peptides")
  pure (obj [("out", ofList (fun q => ofStrs (d.lookup q)) qs)])

/-- the attributes of a parameter object as the harness reads them off a `DigestionParams` -/
def ofParamsC10 (p : C09.Params) : Json :=
  obj [("enzyme", .str p.enzyme), ("digestion", .str p.digestion), ("min", ofNat p.minL), ("max", ofNat p.maxL),
       ("mc", ofNat p.mc), ("special", .str (String.ofList p.special)), ("met", .bool p.met),
       ("db", .str (match p.db with | .target => "target" | .concat => "concat" | .decoy => "decoy")), ("hash", .bool p.useHash)]

/-- `{"op":"c10_glue","params":[{"enzyme","digestion","min","max","mc","special","decoys"}…],"flag":bool}`: the
    constructor arguments of one `DigestionParams` per evidence file and whether `--fasta_contains_decoys` is put on
    the command line next to the rendered arguments →
    `{"given":[…attributes…],"argv":[tokens of digestion_params_list_to_arg_list],"parsed":[…attributes…]}` or
    `"parsed":{"err":"unequal_length"}` (`get_digestion_params_list` on the rendered arguments) -/
def handleGlueC10 (j : Json) : R Json := do
  let one (e : Json) : R C09.Params := do
    pure (C09.mkParams (← jstr (← jget e "enzyme")) (← jstr (← jget e "digestion")) (← jnat (← jget e "min"))
      (← jnat (← jget e "max")) (← jnat (← jget e "mc")) (← jstr (← jget e "special")) (← jbool (← jget e "decoys")))
  let ps ← jlist one (← jget j "params")
  let cd ← match jgetOpt j "flag" with
    | some b => jbool b
    | none => pure false
  let parsed := match C10.throughGlue cd ps with
    | .ok qs => ofList ofParamsC10 qs
    | .error _ => ofErr "unequal_length"
  pure (obj [("given", ofList ofParamsC10 ps), ("argv", ofStrs (C10.toArgv ps)), ("parsed", parsed)])

/-- protocol handlers of property C10: (op name, handler) -/
def handlersC10 : List (String × (Json → R Json)) :=
  [("ingest", handleIngest), ("c10_strops", handleStrops), ("c10_lookup", handleLookupC10),
   ("c10_glue", handleGlueC10)]
end PgFdr.Driver
