import PgFdr.Json
namespace PgFdr.Driver
open Lean PgFdr
/-- protocol handlers of property C04: (op name, handler) -/
def handlersC04 : List (String × (Json → R Json)) := []
end PgFdr.Driver
