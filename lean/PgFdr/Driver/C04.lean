import PgFdr.Json
import PgFdr.Model.C04
namespace PgFdr.Driver
open Lean PgFdr

/-- `[[nodes…], s, t, [cut…]]` -/
def jcut (j : Json) : R ((List String × String × String) × List String) := do
  match j with
  | .arr #[ns, s, t, c] => pure ((C04.sortDedup (← jstrs ns), ← jstr s, ← jstr t), ← jstrs c)
  | _ => .error s!"expected [nodes, s, t, cut], got {j.compress}"

/-- `{"op":"rescue","pil":[[peptide,[n,d],[proteins…]]…],"cutoff":[n,d],"N":[[…]…],"old":[[…]…],
     "infos":[[[[n,d],peptide,[proteins…]]…]…],"cuts":[[[nodes…],s,t,[cut…]]…]}`
    → filtered peptides, identified group positions, graph, leaves, rescued groups, merged groups,
      placeholders with their peptide infos, groups of the second competition, reportable groups;
      or `{"err": …}` -/
def handleRescue (j : Json) : R Json := do
  let pil ← jlist jpepinfo (← jget j "pil")
  let cutoff ← jrat (← jget j "cutoff")
  let n ← jgroups (← jget j "N")
  let old ← jgroups (← jget j "old")
  let infos ← jlist (jlist jevidence) (← jget j "infos")
  let cuts ← jlist jcut (← jget j "cuts")
  let filtered := C04.filterByCutoff pil cutoff
  if !C04.covers n filtered then pure (ofErr "subset_grouping_does_not_cover") else
  match C04.rescueGroupsN n (old.zip infos) pil cutoff cuts with
  | .error e => pure (ofErr e)
  | .ok out =>
    let lvs := match C04.leaves n filtered cuts with
      | .ok l => l
      | .error _ => []
    pure (obj [
      ("filtered", ofList ofPepInfo out.filtered),
      ("N_model", ofGroups (C04.subsetOf filtered)),
      ("same_with_model_N", .bool (match C04.rescueGroups (old.zip infos) pil cutoff cuts with
        | .ok o2 => o2.groups == out.groups && o2.obsolete == out.obsolete
        | .error _ => false)),
      ("identified", ofList ofNat (C04.identifiedIdxs n filtered)),
      ("prot_nodes", ofStrs (C04.protNodes n filtered)),
      ("edges", ofList (fun e => ofStrs [e.1, e.2]) (C04.edges n filtered)),
      ("leaves", ofGroups lvs),
      ("rescued", ofGroups out.rescued),
      ("groups", ofGroups out.groups),
      ("obsolete", ofGroups out.obsolete),
      ("obsolete_infos", ofList (ofList ofEvidence) out.obsoleteInfos),
      ("second_pass", ofGroups (C04.secondPassGroups out)),
      ("reported", ofGroups (C04.reported (C04.secondPassGroups out)))])

/-- `{"op":"rescue_score","rows":[[score,qvalue]…],"threshold":[n,d]}` → `{"score":[n,d]}` | `{"err":"no_rows"}` -/
def handleRescueScore (j : Json) : R Json := do
  let rows ← jlist (fun r => do
    match r with
    | .arr #[s, q] => pure ((← jrat s), (← jrat q))
    | _ => .error s!"expected [score, qvalue], got {r.compress}") (← jget j "rows")
  let thr ← jrat (← jget j "threshold")
  match C04.rescueScore rows thr with
  | none => pure (ofErr "no_rows")
  | some s => pure (obj [("score", ofRat s)])

/-- protocol handlers of property C04: (op name, handler) -/
def handlersC04 : List (String × (Json → R Json)) := [("rescue", handleRescue), ("rescue_score", handleRescueScore)]
end PgFdr.Driver
