import PgFdr.Json
namespace PgFdr.Driver
open Lean PgFdr
/-- protocol handlers of property C03: (op name, handler) -/
def handlersC03 : List (String × (Json → R Json)) := []
end PgFdr.Driver
