import PgFdr.Json
import PgFdr.Model.C03
import PgFdr.Model.C03Kinds
namespace PgFdr.Driver
open Lean PgFdr

/-- `{"op":"group","mode":"no"|"subset"|"subset_pg"|"pseudo_gene","pil":[[peptide,[num,den],[protein…]]…]}` →
    `{"groups":[[protein…]…]}` (the `.protein_groups` of the returned `ProteinGroups`) -/
def handleGroup (j : Json) : R Json := do
  let mode ← jstr (← jget j "mode")
  let pil ← jlist jpepinfo (← jget j "pil")
  match mode with
  | "no" => pure (obj [("groups", ofGroups (C03.noGrouping pil))])
  | "subset" => pure (obj [("groups", ofGroups (C03.subsetGrouping pil))])
  | "subset_pg" =>
    let pg := C03.subsetGroupingPG pil
    pure (obj [("groups", ofGroups pg.groups), ("valid", .bool pg.valid),
               ("index", PgFdr.ofList (fun (x : String × Nat) => Json.arr #[.str x.1, ofNat x.2]) (C20.indexItems pg))])
  | "pseudo_gene" => pure (obj [("groups", ofGroups (C03.pseudoGeneGrouping pil))])
  | _ => .error s!"unknown grouping mode {mode}"

/-- the file argument: `null` (falsy), `"unreadable"` (no file at the path) or `{"header":[cell…],"rows":[[cell…]…]}` -/
def jmqArg (j : Json) : R C03.MqArg :=
  match j with
  | .null => pure .absent
  | .str "unreadable" => pure .unreadable
  | _ => do
    let h ← jstrs (← jget j "header")
    let rows ← jlist jstrs (← jget j "rows")
    pure (.table { header := h, rows := rows })

/-- `{"op":"group_kind","kind":<factory name>,"pil":…,"mq":<file argument>}` or, for a method file,
    `{"op":"group_kind","toml_grouping":<its grouping value>,"pseudo":bool,"pil":…,"mq":…}` →
    the returned object `{"groups","valid","index"}` or `{"err":…}` -/
def handleGroupKind (j : Json) : R Json := do
  let pil ← jlist jpepinfo (← jget j "pil")
  let mq ← match jgetOpt j "mq" with
    | some v => jmqArg v
    | none => pure C03.MqArg.absent
  let kind ← match jgetOpt j "kind" with
    | some k => do pure (C03.Kind.ofName (← jstr k))
    | none => do
      let g ← jstr (← jget j "toml_grouping")
      let p ← jbool (← jget j "pseudo")
      pure (C03.configured p g)
  match kind with
  | none => pure (ofErr "unknown_grouping")
  | some k =>
    match C03.groupProteinsObj k pil mq with
    | .error e => pure (ofErr e)
    | .ok pg =>
      pure (obj [("groups", ofGroups pg.groups), ("valid", .bool pg.valid),
                 ("index", PgFdr.ofList (fun (x : String × Nat) => Json.arr #[.str x.1, ofNat x.2]) (C20.indexItems pg))])

/-- protocol handlers of property C03: (op name, handler) -/
def handlersC03 : List (String × (Json → R Json)) := [("group", handleGroup), ("group_kind", handleGroupKind)]
end PgFdr.Driver
