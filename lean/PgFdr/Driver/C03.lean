import PgFdr.Json
import PgFdr.Model.C03
namespace PgFdr.Driver
open Lean PgFdr

/-- `{"op":"group","mode":"no"|"subset"|"subset_pg"|"pseudo_gene","pil":[[peptide,[num,den],[protein…]]…]}` →
    `{"groups":[[protein…]…]}` (the `.protein_groups` of the returned `ProteinGroups`) -/
def handleGroup (j : Json) : R Json := do
  let mode ← jstr (← jget j "mode")
  let pil ← jlist jpepinfo (← jget j "pil")
  match mode with
  | "no" => pure (obj [("groups", ofGroups (C03.noGrouping pil))])
  | "subset" => pure (obj [("groups", ofGroups (C03.subsetGrouping pil))])
  | "subset_pg" =>
    let pg := C03.subsetGroupingPG pil
    pure (obj [("groups", ofGroups pg.groups), ("valid", .bool pg.valid),
               ("index", PgFdr.ofList (fun (x : String × Nat) => Json.arr #[.str x.1, ofNat x.2]) (C20.indexItems pg))])
  | "pseudo_gene" => pure (obj [("groups", ofGroups (C03.pseudoGeneGrouping pil))])
  | _ => .error s!"unknown grouping mode {mode}"

/-- protocol handlers of property C03: (op name, handler) -/
def handlersC03 : List (String × (Json → R Json)) := [("group", handleGroup)]
end PgFdr.Driver
