import PgFdr.Json
import PgFdr.Model.C17
import PgFdr.Model.C17Lists
namespace PgFdr.Driver
open Lean PgFdr

def jpepval (j : Json) : R C17.PepVal :=
  match j with
  | .str "nan" => .ok .nan
  | .str "inf" => .ok .inf
  | .str "-inf" => .ok .inf
  | _ => do pure (.fin (← jrat j))

def ofPepVal : C17.PepVal → Json
  | .nan => .str "nan"
  | .inf => .str "inf"
  | .fin q => ofRat q

/-- `{"op":"cutoff","peps":[ "nan" | "inf" | [num,den] … ],"level":[num,den]}` → `{"cutoff":[num,den]}` -/
def handleCutoff (j : Json) : R Json := do
  let peps ← jlist jpepval (← jget j "peps")
  let level ← jrat (← jget j "level")
  pure (obj [("cutoff", ofRat (C17.cutoff peps level))])

/-- `[peptide, "nan" | "inf" | [num,den], [proteins…]]` -/
def jrow (j : Json) : R C17.Row := do
  match j with
  | .arr #[p, s, ps] => pure { peptide := ← jstr p, score := ← jpepval s, proteins := ← jstrs ps }
  | _ => .error s!"expected [peptide, score, proteins], got {j.compress}"

/-- razor data as `set_peptide_counts_per_protein` derives them from the peptide list (all scores finite), with
    the md5 keys supplied by the harness: `{"keys":[[protein, md5hex],…]}` or `null` -/
def jrazor17 (pil : List C17.Row) (j : Option Json) : R (Option C05.Razor) :=
  match j with
  | none => pure none
  | some r => do
    let infos ← pil.mapM (fun x =>
      match x.score with
      | .fin q => pure ({ peptide := x.peptide, pep := q, proteins := x.proteins } : PepInfo)
      | _ => throw "razor data with a non-finite score are not modelled")
    let kvs ← jlist (fun kv => do
      match kv with
      | .arr #[k, v] => pure ((← jstr k), (← jstr v))
      | _ => throw s!"expected [protein, key], got {kv.compress}") (← jget r "keys")
    pure (some (C05.razorOf infos (fun p => (kvs.lookup p).getD "")))

/-- `{"op":"c17_collect","groups":…,"pil":[row…],"razor":null|{"keys":…},"suppress":bool,"useShared":bool,
      "level":[n,d]}` → `{"peps":[…],"cutoff":[n,d],"copies":[nat per peptide]}` or `{"err":…}` -/
def handleCollect17 (j : Json) : R Json := do
  let groups ← jgroups (← jget j "groups")
  let pil ← jlist jrow (← jget j "pil")
  let rz ← jrazor17 pil (jgetOpt j "razor")
  let suppress ← jbool (← jget j "suppress")
  let useShared ← jbool (← jget j "useShared")
  let level ← jrat (← jget j "level")
  match C17.collectPeps groups pil rz suppress useShared with
  | .error e => pure (ofErr e.toString)
  | .ok peps =>
    let copies := pil.map (fun x =>
      match C05.filterProteins rz x.proteins with
      | .ok prots => C17.copies groups useShared prots
      | .error _ => 0)
    pure (obj [("peps", ofList ofPepVal peps), ("cutoff", ofRat (C17.cutoff peps level)),
               ("copies", ofList ofNat copies)])

/-- `{"op":"c17_quant","groups":…,"useShared":bool,"files":[[row…],…],"level":[n,d]}` →
    `{"peps":[… post_err_probs_combined …],"writer_peps":[…],"cutoff":[n,d],"file_cutoffs":[[n,d],…]}` -/
def handleQuant17 (j : Json) : R Json := do
  let groups ← jgroups (← jget j "groups")
  let useShared ← jbool (← jget j "useShared")
  let files ← jlist (jlist jrow) (← jget j "files")
  let level ← jrat (← jget j "level")
  let peps := C17.quantPeps groups useShared files
  pure (obj [("peps", ofList ofPepVal peps), ("writer_peps", ofList ofPepVal (C17.writerPeps peps)),
             ("cutoff", ofRat (C17.quantCutoff groups useShared files level)),
             ("file_cutoffs", ofList (fun f => ofRat (C17.quantCutoff groups useShared [f] level)) files)])

/-- protocol handlers of property C17: (op name, handler) -/
def handlersC17 : List (String × (Json → R Json)) :=
  [("cutoff", handleCutoff), ("c17_collect", handleCollect17), ("c17_quant", handleQuant17)]
end PgFdr.Driver
