import PgFdr.Json
import PgFdr.Model.C17
namespace PgFdr.Driver
open Lean PgFdr

def jpepval (j : Json) : R C17.PepVal :=
  match j with
  | .str "nan" => .ok .nan
  | .str "inf" => .ok .inf
  | .str "-inf" => .ok .inf
  | _ => do pure (.fin (← jrat j))

/-- `{"op":"cutoff","peps":[ "nan" | "inf" | [num,den] … ],"level":[num,den]}` → `{"cutoff":[num,den]}` -/
def handleCutoff (j : Json) : R Json := do
  let peps ← jlist jpepval (← jget j "peps")
  let level ← jrat (← jget j "level")
  pure (obj [("cutoff", ofRat (C17.cutoff peps level))])

/-- protocol handlers of property C17: (op name, handler) -/
def handlersC17 : List (String × (Json → R Json)) := [("cutoff", handleCutoff)]
end PgFdr.Driver
