import PgFdr.Json
namespace PgFdr.Driver
open Lean PgFdr
/-- protocol handlers of property C05: (op name, handler) -/
def handlersC05 : List (String × (Json → R Json)) := []
end PgFdr.Driver
