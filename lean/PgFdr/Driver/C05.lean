import PgFdr.Json
import PgFdr.Model.C05
namespace PgFdr.Driver
open Lean PgFdr

/-- `{"pil":[[peptide,[n,d],[proteins…]],…], "keys":[[protein, md5hex],…]}` or `null` -/
def jrazor (j : Option Json) : R (Option C05.Razor) :=
  match j with
  | none => pure none
  | some r => do
    let pil ← jlist jpepinfo (← jget r "pil")
    let kvs ← jlist (fun kv => do
      match kv with
      | .arr #[k, v] => pure ((← jstr k), (← jstr v))
      | _ => throw s!"expected [protein, key], got {kv.compress}") (← jget r "keys")
    pure (some (C05.razorOf pil (fun p => (kvs.lookup p).getD "")))

def ofOptNatAsInt (o : Option Nat) : Json :=
  match o with
  | some i => ofNat i
  | none => ofInt (-1)

/-- `{"op":"collect","groups":…,"pil":…,"razor":null|{…},"suppress":bool}` →
    `{"evidence":[[[pep,peptide,proteins],…],…],"peps":[…],"rankable":[bool,…]}` or `{"err":…}` -/
def handleCollect (j : Json) : R Json := do
  let groups ← jgroups (← jget j "groups")
  let pil ← jlist jpepinfo (← jget j "pil")
  let rz ← jrazor (jgetOpt j "razor")
  let suppress ← jbool (← jget j "suppress")
  match C05.collectEvidence groups pil rz suppress with
  | .error e => pure (ofErr e.toString)
  | .ok (evs, peps) =>
    pure (obj [("evidence", ofList (ofList ofEvidence) evs),
               ("peps", ofList ofRat peps),
               ("rankable", ofList (fun ev => Json.bool (C05.rankable ev)) evs),
               ("ranked", ofList (fun x => ofStrs x.1) (C05.ranked groups evs))])

/-- `{"op":"idxs","groups":…,"proteins":[…]}` → per listed protein its position (−1 unknown),
    and the two helper predicates -/
def handleIdxs (j : Json) : R Json := do
  let groups ← jgroups (← jget j "groups")
  let prots ← jstrs (← jget j "proteins")
  let idxs := C05.groupIdxs groups prots
  pure (obj [("idxs", ofList ofOptNatAsInt idxs),
             ("missing", Json.bool (C05.isMissing idxs)),
             ("shared", Json.bool (C05.isShared idxs))])

/-- `{"op":"razor_pick","razor":{…},"proteins":[…]}` → the retained protein, and for every
    listed protein the count / best PEP the tie-break used -/
def handleRazorPick (j : Json) : R Json := do
  let rz ← jrazor (jgetOpt j "razor")
  let prots ← jstrs (← jget j "proteins")
  match rz with
  | none => throw "razor_pick needs razor data"
  | some r =>
    let pick := match C05.razorPick r prots with
      | some p => Json.str p
      | none => Json.null
    pure (obj [("pick", pick),
               ("counts", ofList (fun p => ofNat (r.count p)) prots),
               ("best", ofList (fun p => ofRat (r.best p)) prots)])

/-- `{"op":"score","kind":"bestPEP"|"multPEP","evidence":[[pep,peptide,proteins],…]}` →
    bestPEP: `{"key":[n,d],"minpep":[n,d]|null}` (key = −min PEP, −100 without evidence);
    multPEP: `{"terms":[PEPs in summation order],"n":count}` -/
def handleScore (j : Json) : R Json := do
  let ev ← jlist jevidence (← jget j "evidence")
  let kind ← jstr (← jget j "kind")
  if kind == "bestPEP" then
    let mp := match C05.minPep ev with
      | some q => ofRat q
      | none => Json.null
    pure (obj [("key", ofRat (C05.bestPepKey ev)), ("minpep", mp), ("rankable", Json.bool (C05.rankable ev))])
  else if kind == "multPEP" then
    pure (obj [("terms", ofList ofRat (C05.multPepTerms ev)),
               ("n", ofNat (C05.multPepTerms ev).length),
               ("rankable", Json.bool (C05.rankable ev))])
  else throw s!"unknown score kind {kind}"

/-- protocol handlers of property C05: (op name, handler) -/
def handlersC05 : List (String × (Json → R Json)) :=
  [("collect", handleCollect), ("idxs", handleIdxs), ("razor_pick", handleRazorPick), ("score", handleScore),
   -- the same handlers under names no other property can shadow (used by harness/props/C05.py)
   ("c05_collect", handleCollect), ("c05_idxs", handleIdxs), ("c05_razor_pick", handleRazorPick),
   ("c05_score", handleScore)]
end PgFdr.Driver
