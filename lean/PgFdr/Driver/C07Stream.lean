import PgFdr.Json
import PgFdr.Model.C07Stream
import PgFdr.Driver.Cli
/-!
Protocol handler of the stream form of the command-line run (`Model/C07Stream.lean`, property C07).

`Driver/Cli.lean` imports `Driver/C07.lean`, so this handler cannot live there; it is registered in the native driver
through `Driver/C14.lean` (`handlersC14`, the other property of the same builder — `Driver.lean` is a shared file).
-/
namespace PgFdr.Driver
open Lean PgFdr

/-- `{"op":"cli_stream", …every field of "cli"… ("recs" WITHOUT "shuffles": cuts, md5 keys, float scores, rescue cutoff
      per method), "stream":[[Nat…]…]}`: the permutations `np.random.shuffle` drew, in the order in which the PROCESS
    drew them → `{"err","tables":[…as "cli"…], "needs":[Nat…], "offsets":[Nat…], "used":Nat, "stream_len":Nat}`
    (`needs`: permutations per method in command-line order; `used`: how many the whole run draws) -/
def handleCliStream (j : Json) : R Json := do
  let inp ← CliD.jinput j
  let s ← jlist (jlist jnat) (← jget j "stream")
  let sageBad := fun (o : Option (List (List Cli.EvRow))) => match o with
    | some fs => fs.any (fun f => f.any (fun r => match r.raw.score with
        | some x => x.den != 1
        | none => false))
    | none => false
  if sageBad inp.sage then throw "sage exponent is not an integer"
  let ns := C07.needs inp
  let (os, err) := C07.streamOutcome inp s
  pure (obj [("err", match err with | some e => .str e | none => .null),
             ("tables", ofList (fun o => match o with | some t => CliD.ofTable t | none => .null) os),
             ("needs", ofList ofNat ns),
             ("offsets", ofList ofNat ((List.range ns.length).map (C07.offset ns))),
             ("used", ofNat (C07.offset ns ns.length)),
             ("stream_len", ofNat s.length)])

/-- protocol handlers of the stream form of the command line (property C07) -/
def handlersC07Stream : List (String × (Json → R Json)) := [("cli_stream", handleCliStream)]
end PgFdr.Driver
