import PgFdr.Json
import PgFdr.Model.C09
import PgFdr.Model.C09Maps
namespace PgFdr.Driver
open Lean PgFdr

namespace C09D
open PgFdr.C09

def errName : C09.Err → String
  | .indexError => "index_error"
  | .attributeError => "attribute_error"
  | .unknownEnzyme => "unknown_enzyme"
  | .keyError => "key_error"
  | .unsupportedCsv => "unsupported_csv"

def jS (j : Json) : R Str := do pure (← jstr j).toList
def oS (s : Str) : Json := .str (String.ofList s)
def oSs (l : List Str) : Json := .arr (l.map oS).toArray

def jparse (j : Json) : R ParseId := do
  match (← jstr j) with
  | "first_space" => pure .firstSpace
  | "uniprot" => pure .uniprot
  | "gene" => pure .gene
  | s => .error s!"unknown parse_id {s}"

def jdb (j : Json) : R (Option Db) := do
  match (← jstr j) with
  | "target" => pure (some .target)
  | "decoy" => pure (some .decoy)
  | "concat" => pure (some .concat)
  | _ => pure none

/-- `{"enzyme","digestion","min","max","mc","special","contains_decoys"}`: the arguments of DigestionParams -/
def jparams (j : Json) : R Params := do
  pure (mkParams (← jstr (← jget j "enzyme")) (← jstr (← jget j "digestion")) (← jnat (← jget j "min"))
    (← jnat (← jget j "max")) (← jnat (← jget j "mc")) (← jstr (← jget j "special")) (← jbool (← jget j "contains_decoys")))

def jfiles (j : Json) : R (List (List Str)) := jlist (jlist jS) j

def oMap (m : PMap) : Json := ofList (fun kv => Json.arr #[oS kv.1, oSs kv.2]) m
def oSeqs (m : SeqMap) : Json := ofList (fun kv => Json.arr #[oS kv.1, oS kv.2]) m

def oLookup (r : Except C09.Err (List Str)) : Json :=
  match r with
  | .ok l => oSs l
  | .error e => ofErr (errName e)

def oResult (res : PMap × SeqMap) (lookups : List Str) (pair : Bool := !res.2.isEmpty) : Json :=
  obj [("map", oMap res.1), ("seqs", if pair then oSeqs res.2 else Json.null),
       ("lookups", ofList (fun q => oLookup (getProteins res q)) lookups)]

/-- `{"op":"pepmap","files":[[line…]…],"params":[{…}…],"parse_id":…,"lookups":[pep…]}` →
    `{"map":[[key,[protein…]]…],"seqs":[[id,seq]…]|null,"lookups":[[protein…]|{"err"}…]}` -/
def handlePepmap (j : Json) : R Json := do
  let files ← jfiles (← jget j "files")
  let ps ← jlist jparams (← jget j "params")
  let parse ← jparse (← jget j "parse_id")
  let lookups ← jlist jS (← jget j "lookups")
  match fromParams parse files ps with
  | .error e => pure (ofErr (errName e))
  | .ok res => pure (oResult res lookups)

/-- direct `get_peptide_to_protein_map(file, db, min_len, max_len, pre, not_post, post, digestion, miscleavages,
    methionine_cleavage, use_hash_key, special_aas, parse_id)`:
    `{"op":"pepmap1","lines":[…],"db":…,"min","max","pre":"KR","not_post":"P","post":"","digestion","mc","met","hash","special":"KR","parse_id","lookups"}` -/
def handlePepmap1 (j : Json) : R Json := do
  let lines ← jlist jS (← jget j "lines")
  let db ← jdb (← jget j "db")
  let parse ← jparse (← jget j "parse_id")
  let lookups ← jlist jS (← jget j "lookups")
  let rule : Generated.EnzymeRule :=
    { name := "", pre := ← jS (← jget j "pre"), notPost := ← jS (← jget j "not_post"), post := ← jS (← jget j "post") }
  let useHash ← jbool (← jget j "hash")
  match db with
  | none => pure (ofErr "unknown_db")
  | some db =>
    let a : MapArgs := { rule := rule, db := db, minL := ← jnat (← jget j "min"), maxL := ← jnat (← jget j "max"),
                         mode := C08.modeOf (← jstr (← jget j "digestion")), mc := ← jnat (← jget j "mc"),
                         met := ← jbool (← jget j "met"), useHash := useHash, special := ← jS (← jget j "special"), parse := parse }
    match pepMapFile a lines with
    | .error e => pure (ofErr (errName e))
    | .ok res => pure (oResult (res.1, if useHash then res.2 else []) lookups useHash)

/-- `{"op":"fasta","lines":[…],"db":…,"special":"KR","parse_id":…}` → `{"records":[[id,seq]…],"err":null|…}` -/
def handleFasta (j : Json) : R Json := do
  let lines ← jlist jS (← jget j "lines")
  let db ← jdb (← jget j "db")
  let parse ← jparse (← jget j "parse_id")
  let special ← jS (← jget j "special")
  match db with
  | none => pure (ofErr "unknown_db")
  | some db =>
    let r := readFasta db special parse lines
    pure (obj [("records", oSeqs r.1), ("err", match r.2 with | none => Json.null | some e => .str (errName e))])

/-- `{"op":"ibaq","files","params","parse_id"}` → `{"counts":[[protein,n]…]}` -/
def handleIbaq (j : Json) : R Json := do
  let files ← jfiles (← jget j "files")
  let ps ← jlist jparams (← jget j "params")
  let parse ← jparse (← jget j "parse_id")
  match numIbaqPeptides parse files ps with
  | .error e => pure (ofErr (errName e))
  | .ok c => pure (obj [("counts", ofList (fun kv => Json.arr #[oS kv.1, ofNat kv.2]) c)])

def jmap (j : Json) : R PMap := jlist (fun e => do
  match e with
  | .arr #[k, v] => pure ((← jS k), (← jlist jS v))
  | _ => .error "expected [key, [proteins]]") j

/-- `{"op":"mapfile","map":[[pep,[protein…]]…]}` → `{"text":…,"back":[[pep,[protein…]]…]}`: the written file and
    what reading it returns -/
def handleMapfile (j : Json) : R Json := do
  let m ← jmap (← jget j "map")
  match writeMap m with
  | .error e => pure (ofErr (errName e))
  | .ok t => match readMap t with
    | .error e => pure (obj [("text", oS t), ("back", ofErr (errName e))])
    | .ok b => pure (obj [("text", oS t), ("back", oMap b)])

/-- `{"op":"mapread","text":…}` → `{"map":…}` -/
def handleMapread (j : Json) : R Json := do
  match readMap (← jS (← jget j "text")) with
  | .error e => pure (ofErr (errName e))
  | .ok b => pure (obj [("map", oMap b)])

/-- `{"op":"swap","seq":…,"special":…}` → `{"decoy":…}` -/
def handleSwap (j : Json) : R Json := do
  pure (obj [("decoy", oS (decoySeq (← jS (← jget j "special")) (← jS (← jget j "seq"))))])

def mapsErrName : MapsErr → String
  | .map e => errName e
  | .unequalLengths => "unequal_lengths"
  | .noInput => "no_input"

/-- a `DigestionParams` object: the constructor arguments (`jparams`) and the attributes assigned afterwards,
    `"db"`: null | "target" | "decoy" | "concat", `"met"`: null | bool (`methionine_cleavage`) -/
def jparamsObj (j : Json) : R Params := do
  let p ← jparams j
  let p ← match (← jget j "db") with
    | .null => pure p
    | d => do
      match (← jdb d) with
      | none => .error "unknown db"
      | some db => pure { p with db := db }
  match (← jget j "met") with
  | .null => pure p
  | m => do pure { p with met := ← jbool m }

def jargLists (j : Json) : R ArgLists := do
  pure { enzyme := ← jstrs (← jget j "enzyme"), digestion := ← jstrs (← jget j "digestion"),
         minL := ← jlist jnat (← jget j "min"), maxL := ← jlist jnat (← jget j "max"),
         mc := ← jlist jnat (← jget j "mc"), special := ← jstrs (← jget j "special"),
         containsDecoys := ← jbool (← jget j "contains_decoys") }

/-- what writing a map with the `--peptide_protein_map` writer and reading the file returns -/
def oFileBack (m : PMap) : Json :=
  match writeMap m with
  | .error e => ofErr (errName e)
  | .ok t => match readMap t with
    | .error e => ofErr (errName e)
    | .ok b => oMap b

/-- the list of maps, one per digestion parameter set / per map file:
    `{"op":"pepmaps","fasta":[[line…]…],"mapfiles":[text…],"groups":null|[[id…]…],"lookups":[pep…],"file_back":bool,
      "args":{"enzyme":[…],"digestion":[…],"min":[…],"max":[…],"mc":[…],"special":[…],"contains_decoys",
              "gene_level","pseudo","uniprot"}        (get_peptide_to_protein_maps_from_args)
      | "objs":{"params":[{…attributes…}…],"parse_id":…}   (get_peptide_to_protein_maps)}`
    → `{"maps":[{"map","seqs","lookups"(,"file_back")}…]}` or `{"err":…}` -/
def handlePepmaps (j : Json) : R Json := do
  let fasta ← jfiles (← jget j "fasta")
  let mapfiles ← jlist jS (← jget j "mapfiles")
  let groups ← match (← jget j "groups") with
    | .null => pure none
    | g => do pure (some (← jlist (jlist jS) g))
  let lookups ← jlist jS (← jget j "lookups")
  let fileBack ← jbool (← jget j "file_back")
  let res ← match jgetOpt j "args" with
    | some a => do
      pure (pepMapsFromArgs (← jargLists a) (← jbool (← jget a "gene_level")) (← jbool (← jget a "pseudo"))
        (← jbool (← jget a "uniprot")) fasta mapfiles groups)
    | none => do
      let o ← jget j "objs"
      pure (pepMapsTop (← jparse (← jget o "parse_id")) fasta mapfiles groups (← jlist jparamsObj (← jget o "params")))
  match res with
  | .error e => pure (ofErr (mapsErrName e))
  | .ok ms =>
    pure (obj [("maps", ofList (fun (m : PMap × SeqMap) =>
      let base := [("map", oMap m.1), ("seqs", if !m.2.isEmpty then oSeqs m.2 else Json.null),
                   ("lookups", ofList (fun q => oLookup (getProteins m q)) lookups)]
      obj (if fileBack then base ++ [("file_back", oFileBack m.1)] else base)) ms)])

end C09D

/-- protocol handlers of property C09: (op name, handler) -/
def handlersC09 : List (String × (Json → R Json)) :=
  [("pepmap", C09D.handlePepmap), ("pepmap1", C09D.handlePepmap1), ("fasta", C09D.handleFasta),
   ("ibaq", C09D.handleIbaq), ("mapfile", C09D.handleMapfile), ("mapread", C09D.handleMapread),
   ("swap", C09D.handleSwap), ("pepmaps", C09D.handlePepmaps)]
end PgFdr.Driver
