import PgFdr.Json
namespace PgFdr.Driver
open Lean PgFdr
/-- protocol handlers of property C09: (op name, handler) -/
def handlersC09 : List (String × (Json → R Json)) := []
end PgFdr.Driver
