import PgFdr.Json
import PgFdr.Model.Cli
import PgFdr.Model.CliQuant
import PgFdr.Driver.C07
import PgFdr.Driver.C10
import PgFdr.Driver.C12
namespace PgFdr.Driver
open Lean PgFdr

namespace CliD
open PgFdr.Cli

def optField {α} (j : Json) (k : String) (f : Json → R α) : R (Option α) :=
  match jgetOpt j k with
  | none => pure none
  | some .null => pure none
  | some v => do pure (some (← f v))

def boolField (j : Json) (k : String) : R Bool := do
  pure ((← optField j k jbool).getD false)

def jS (j : Json) : R Str := do pure (← jstr j).toList

/-- `{"pep","mod"?,"score":"nan"|[n,d],"prot":[…],"decoy"?,"razor_prot"?}` -/
def jevrow (j : Json) : R EvRow := do
  let raw ← jrawRowC10 j
  let rz ← optField j "razor_prot" jstr
  pure { raw := raw, razorProt := rz.getD "" }

def jfiles (j : Json) (k : String) : R (Option (List (List EvRow))) := optField j k (jlist (jlist jevrow))

def jrec (j : Json) : R MethodRec := do
  let keys ← optField j "razor_keys" (jlist (fun kv => do
    match kv with
    | .arr #[p, h] => pure ((← jstr p), (← jstr h))
    | _ => throw s!"expected [protein, key], got {kv.compress}"))
  pure { shuffles := (← optField j "shuffles" (jlist (jlist jnat))).getD []
         cuts := (← optField j "cuts" (jlist jcut)).getD []
         razorKeys := keys.getD []
         scores1 := (← optField j "scores1" (jlist jrat)).getD []
         scores2 := (← optField j "scores2" (jlist jrat)).getD []
         rescueCutoff := ← optField j "rescue_cutoff" jrat }

def jout (j : Json) : R OutPath := do
  pure { dir := ← jstr (← jget j "dir"), stem := ← jstr (← jget j "stem"), suffix := ← jstr (← jget j "suffix") }

def jdig (j : Json) : R Digestion := do
  let d : Digestion := {}
  pure { enzyme := (← optField j "enzyme" jstrs).getD d.enzyme
         digestion := (← optField j "digestion" jstrs).getD d.digestion
         minLength := (← optField j "min_length" (jlist jnat)).getD d.minLength
         maxLength := (← optField j "max_length" (jlist jnat)).getD d.maxLength
         cleavages := (← optField j "cleavages" (jlist jnat)).getD d.cleavages
         specialAas := (← optField j "special_aas" jstrs).getD d.specialAas }

def jinput (j : Json) : R CliInput := do
  pure { fasta := ← optField j "fasta" (jlist (jlist jS))
         containsDecoys := ← boolField j "contains_decoys"
         geneLevel := ← boolField j "gene_level"
         useUniprot := ← boolField j "use_uniprot"
         dig := ← jdig j
         methods := methodsOfArg ((← optField j "methods" jstr).getD "picked_protein_group")
         mq := ← jfiles j "mq", perc := ← jfiles j "perc", fragpipe := ← jfiles j "fragpipe"
         sage := ← jfiles j "sage", diann := ← jfiles j "diann"
         mokapot := ← boolField j "mokapot"
         thr := ← jrat (← jget j "thr"), psm := ← jrat (← jget j "psm")
         keepAll := ← boolField j "keep_all"
         out := ← optField j "out" jout
         recs := (← optField j "recs" (jlist jrec)).getD []
         pepMapFiles := ← optField j "pep_map_files" (jlist jS)
         mokapotFiles := (← optField j "mokapot_files" (jlist jbool)).getD [] }

def ofRowData (d : C06.RowData) : Json := ofRow (C06.render d)

def ofTable (t : CliTable) : Json :=
  obj [("method", .str t.method), ("file", .str t.file), ("dir", .str t.dir),
       ("pil", ofList ofPepInfo t.pil),
       ("rows", ofList ofRowData t.rows),
       ("records", ofList ofStrs t.records),
       ("pass1", ofPass t.run.pass1),
       ("rescue_score", ofOptRat t.run.rescueScore),
       ("pass2", match t.run.pass2 with | none => .null | some p => ofPass p)]

/-- `{"op":"cli", "fasta":[[line…]…]|null, "contains_decoys":b, "gene_level":b, "use_uniprot":b,
      "enzyme":[…]?, "digestion":[…]?, "min_length":[…]?, "max_length":[…]?, "cleavages":[…]?, "special_aas":[…]?,
      "methods":"m1,m2", "mq"|"perc"|"fragpipe"|"sage"|"diann": [[row…]…]|null (rows as the op "ingest" of C10 takes
      them, + "razor_prot" for MaxQuant), "mokapot":b (header style of every Percolator file), "mokapot_files":[b…]?
      (header style per Percolator file, by position), "pep_map_files":[text…]|null (`--peptide_protein_map`: the text of
      every file, `\r\n` line ends, quote-free),
      "thr":R, "psm":R, "keep_all":b, "out":{"dir","stem","suffix"}|null,
      "recs":[{"shuffles","cuts","razor_keys","scores1","scores2","rescue_cutoff"}…]}`
    → `{"err": tag|null, "tables":[null|{method,file,dir,pil,rows,records,pass1,rescue_score,pass2}…],
        "use_pseudo":b|null, "maps":n|null}`
    (`tables` holds one entry per method that completed before the run ended) -/
def handleCli (j : Json) : R Json := do
  let inp ← jinput j
  let sageBad := fun (o : Option (List (List EvRow))) => match o with
    | some fs => fs.any (fun f => f.any (fun r => match r.raw.score with
        | some x => x.den != 1
        | none => false))
    | none => false
  if sageBad inp.sage then throw "sage exponent is not an integer"
  let (os, err) := cliOutcome inp
  let (up, nm) := match setup inp with
    | .ok (env, _) => (Json.bool env.usePseudo, ofNat env.maps.length)
    | .error _ => (Json.null, Json.null)
  pure (obj [("err", match err with | some e => .str e | none => .null),
             ("tables", ofList (fun o => match o with | some t => ofTable t | none => .null) os),
             ("use_pseudo", up), ("maps", nm)])

/-! ### the quantification path (`Model/CliQuant.lean`) -/
open PgFdr.CliQuant in
/-- `{"id","z","exp","frac","int":R|null (NaN),"silac":[R…],"tmt":[R…]}` -/
def jcells (j : Json) : R QCells := do
  let inten ← match jgetOpt j "int" with
    | none => pure none
    | some v => do pure (some (← jrat v))
  pure { id := ← jint (← jget j "id"), charge := ← jint (← jget j "z"), experiment := ← jstr (← jget j "exp"),
         fraction := ← jstr (← jget j "frac"), intensity := inten,
         silac := ← jlist jrat (← jget j "silac"), tmt := ← jlist jrat (← jget j "tmt") }

open PgFdr.CliQuant in
def ofQuantPart (p : QuantPart) : Json :=
  obj [("experiments", ofStrs p.out.experiments), ("nSilac", ofInt p.out.nSilac), ("nTmt", ofInt p.out.nTmt),
       ("peps", ofList C12io.ofPep p.out.peps), ("cutoff", ofRat p.out.cutoff),
       ("evidence", ofList C12io.ofRow p.rows),
       ("leading", ofList (fun r => ofStrs r.leading) p.rows),
       ("reported", ofGroups p.groups),
       ("ibaq", ofList (fun kv => Json.arr #[.str kv.1, ofNat kv.2]) p.ibaq),
       ("attached", ofList (ofList C12io.ofRow) p.out.attached),
       ("kept", ofList ofNat (p.lines.map (·.g))),
       ("groups", ofList C12io.ofGroup (p.lines.map (·.out)))]

open PgFdr.CliQuant in
def ofQTable (t : QTable) : Json :=
  obj [("method", .str t.base.method), ("file", .str t.base.file), ("dir", .str t.base.dir),
       ("pil", ofList ofPepInfo t.base.pil),
       ("rows", ofList ofRowData t.base.rows),
       ("records", ofList ofStrs t.records),
       ("pass1", ofPass t.base.run.pass1),
       ("rescue_score", ofOptRat t.base.run.rescueScore),
       ("pass2", match t.base.run.pass2 with | none => .null | some p => ofPass p),
       ("quant", match t.quant with | none => .null | some p => ofQuantPart p)]

open PgFdr.CliQuant in
/-- `{"op":"cli_quant", …every field of "cli"…, "do_quant":b, "skip_lfq":b, "ibaq_run_rule":b?,
      "cells":[[{"id","z","exp","frac","int","silac","tmt"}…]…]}` (one list per `--mq_evidence` file, one entry per row)
    → `{"err": tag|null, "tables":[null|{…as "cli"…, "records" of the table actually written,
         "quant": null|{experiments,nSilac,nTmt,peps,cutoff,evidence,leading,reported,ibaq,attached,kept,groups}}…]}` -/
def handleCliQuant (j : Json) : R Json := do
  let inp ← jinput j
  let q : QuantInput :=
    { cli := inp, doQuant := ← boolField j "do_quant", skipLfq := ← boolField j "skip_lfq",
      cells := (← optField j "cells" (jlist (jlist jcells))).getD [],
      ibaqRunRule := ← boolField j "ibaq_run_rule" }
  let (os, err) := quantOutcome q
  pure (obj [("err", match err with | some e => .str e | none => .null),
             ("tables", ofList (fun o => match o with | some t => ofQTable t | none => .null) os)])

end CliD

/-- protocol handlers of the command-line glue model (`Model/Cli.lean`, `Model/CliQuant.lean`) -/
def handlersCli : List (String × (Json → R Json)) := [("cli", CliD.handleCli), ("cli_quant", CliD.handleCliQuant)]
end PgFdr.Driver
