import PgFdr.Json
namespace PgFdr.Driver
open Lean PgFdr
/-- protocol handlers of property C02: (op name, handler) -/
def handlersC02 : List (String × (Json → R Json)) := []
end PgFdr.Driver
