import PgFdr.Json
import PgFdr.Model.C02
namespace PgFdr.Driver
open Lean PgFdr

def jmode (strategy : String) (picking : Option String) : R C02.Mode :=
  match strategy with
  | "picked" => .ok .picked
  | "classic" => .ok .classic
  | "picked_group" =>
    match picking with
    | some "all" => .ok (.pickedGroup .all)
    | some "majority" => .ok (.pickedGroup .majority)
    | some "leading" | none => .ok (.pickedGroup .leading)
    | some s => .error s!"unknown picking strategy {s}"
  | s => .error s!"unknown strategy {s}"

/-- `zip(groups, infos, scores)` (truncating like Python's `zip`) -/
def zipItems : List (List String) → List (List Evidence) → List Rat → List C02.Item
  | g :: gs, e :: es, s :: ss => ⟨g, e, s⟩ :: zipItems gs es ss
  | _, _, _ => []

def jcall (j : Json) : R C02.Call := do
  let groups ← jgroups (← jget j "groups")
  let infos ← jlist (jlist jevidence) (← jget j "infos")
  let scores ← jlist jrat (← jget j "scores")
  match ← jlist (jlist jnat) (← jget j "shuffles") with
  | [p1, p2] => pure ⟨zipItems groups infos scores, p1, p2⟩
  | _ => .error "expected exactly two recorded shuffles"

def ofRanking (r : List C02.Item) : Json :=
  if r.isEmpty then ofErr "no_ranked_groups"   -- `zip(*[])`: not enough values to unpack
  else obj [("groups", ofGroups (r.map (·.group))),
            ("infos", ofList (ofList ofEvidence) (r.map (·.evidence))),
            ("scores", ofList ofRat (r.map (·.score)))]

/-- the calls one after the other on one strategy object; a recorded permutation that does not fit
    the list the model shuffles at that point is a protocol error (the correspondence is broken) -/
def runChecked (mode : C02.Mode) : List String → List C02.Call → R (List (List C02.Item) × List String)
  | seen, [] => .ok ([], seen)
  | seen, c :: cs => do
    if !C02.shufflesFit mode seen c then
      .error s!"recorded shuffles do not fit: {c.π₁} {c.π₂} for {(c.items.filter (·.hasEvidence)).length} groups with evidence, {(C02.keptFrom mode seen c.items c.π₁).length} survivors"
    let r := C02.competeFrom mode seen c.items c.π₁ c.π₂
    let rest ← runChecked mode r.2 cs
    pure (r.1 :: rest.1, rest.2)

/-- `{"op":"compete","strategy":"picked|picked_group|classic","picking":"all|majority|leading",
      "calls":[{"groups":…,"infos":…,"scores":[R…],"shuffles":[[Nat…],[Nat…]]}…]}`
    → `{"results":[{"groups","infos","scores"} | {"err":"no_ranked_groups"} …],"seen_after":[…],
        "pass_orders":[[group…]…]}`; the calls are made on ONE strategy object (`C02.runCalls`). -/
def handleCompete (j : Json) : R Json := do
  let strategy ← jstr (← jget j "strategy")
  let picking ← match jgetOpt j "picking" with
    | some p => do pure (some (← jstr p))
    | none => pure none
  let mode ← jmode strategy picking
  let calls ← jlist jcall (← jget j "calls")
  let _ ← runChecked mode [] calls
  let r := C02.runCalls mode [] calls
  pure (obj [("results", ofList ofRanking r.1), ("seen_after", ofStrs r.2),
             ("pass_orders", ofList (fun c => ofGroups ((C02.passOrder c.items c.π₁).map (·.group))) calls)])

/-- protocol handlers of property C02: (op name, handler) -/
def handlersC02 : List (String × (Json → R Json)) := [("compete", handleCompete)]
end PgFdr.Driver
