import PgFdr.Json
namespace PgFdr.Driver
open Lean PgFdr
/-- protocol handlers of property C07: (op name, handler) -/
def handlersC07 : List (String × (Json → R Json)) := []
end PgFdr.Driver
