import PgFdr.Json
import PgFdr.Model.Pipeline
import PgFdr.Driver.C02
import PgFdr.Driver.C04
import PgFdr.Driver.C06
namespace PgFdr.Driver
open Lean PgFdr

def jgrouping (s : String) : R Pipeline.Grouping :=
  match s with
  | "no" => .ok .no
  | "subset" => .ok .subset
  | "rescued_subset" => .ok .rescuedSubset
  | "pseudo_gene" => .ok .pseudoGene
  | s => .error s!"unknown grouping {s}"

def ofOptRat (o : Option Rat) : Json := match o with | some q => ofRat q | none => .null

def ofPass (p : Pipeline.PassOut) : Json :=
  obj [("groups", ofGroups p.groups),
       ("infos", ofList (ofList ofEvidence) p.infos),
       ("pep_list", ofList ofRat p.pepList),
       ("pep_cutoff", ofRat p.pepCutoff),
       ("comp_groups", ofGroups p.compGroups),
       ("comp_infos", ofList (ofList ofEvidence) p.compInfos),
       ("min_peps", ofList ofOptRat p.minPeps),
       ("ranked_groups", ofGroups (p.ranking.map (·.group))),
       ("ranked_infos", ofList (ofList ofEvidence) (p.ranking.map (·.evidence))),
       ("ranked_scores", ofList ofRat (p.ranking.map (·.score))),
       ("fdrs", ofList ofRat p.fdrs),
       ("qvals", ofList ofRat p.qvals),
       ("rows", ofList (fun d => ofRow (C06.render d)) p.rows)]

/-- `{"op":"pipeline","grouping":"no|subset|rescued_subset|pseudo_gene","razor":bool,
      "strategy":"picked|picked_group|classic","picking":…,"pil":[…],"thr":R,"psm":R,"keepAll":bool,
      "shuffles":[[Nat…]…],"cuts":[…],"razor_keys":[[protein,md5hex]…],"scores1":[R…],"scores2":[R…],
      "rescue_cutoff":R|null}` → the reported rows and every intermediate value of both passes, or `{"err":…}` -/
def handlePipeline (j : Json) : R Json := do
  let grouping ← jgrouping (← jstr (← jget j "grouping"))
  let razor ← jbool (← jget j "razor")
  let picking ← match jgetOpt j "picking" with
    | some p => do pure (some (← jstr p))
    | none => pure none
  let mode ← jmode (← jstr (← jget j "strategy")) picking
  let keys ← match jgetOpt j "razor_keys" with
    | some k => jlist (fun kv => do
        match kv with
        | .arr #[p, h] => pure ((← jstr p), (← jstr h))
        | _ => throw s!"expected [protein, key], got {kv.compress}") k
    | none => pure []
  let rc ← match jgetOpt j "rescue_cutoff" with
    | some c => do pure (some (← jrat c))
    | none => pure none
  let inp : Pipeline.Input := {
    pil := ← jlist jpepinfo (← jget j "pil")
    thr := ← jrat (← jget j "thr")
    psm := ← jrat (← jget j "psm")
    keepAll := ← jbool (← jget j "keepAll")
    shuffles := ← jlist (jlist jnat) (← jget j "shuffles")
    cuts := ← jlist jcut (← jget j "cuts")
    razorKeys := keys
    scores1 := ← jlist jrat (← jget j "scores1")
    scores2 := ← jlist jrat (← jget j "scores2")
    rescueCutoff := rc }
  match Pipeline.run ⟨grouping, razor, mode⟩ inp with
  | .error e => pure (ofErr e)
  | .ok r =>
    pure (obj [
      ("rows", ofList (fun d => ofRow (C06.render d)) r.rows),
      ("pass1", ofPass r.pass1),
      ("rescue_score", ofOptRat r.rescueScore),
      ("rescue", match r.rescue with
        | none => .null
        | some out => obj [("filtered", ofList ofPepInfo out.filtered), ("rescued", ofGroups out.rescued),
                           ("groups", ofGroups out.groups), ("obsolete", ofGroups out.obsolete),
                           ("obsolete_infos", ofList (ofList ofEvidence) out.obsoleteInfos)]),
      ("pass2", match r.pass2 with | none => .null | some p => ofPass p)])

/-- protocol handlers of property C07 (and of the pipeline-level correspondences of C01, C06, C18) -/
def handlersC07 : List (String × (Json → R Json)) := [("pipeline", handlePipeline)]
end PgFdr.Driver
