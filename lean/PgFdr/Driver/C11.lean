import PgFdr.Json
namespace PgFdr.Driver
open Lean PgFdr
/-- protocol handlers of property C11: (op name, handler) -/
def handlersC11 : List (String × (Json → R Json)) := []
end PgFdr.Driver
