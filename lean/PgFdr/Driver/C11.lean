import PgFdr.Json
import PgFdr.Model.C11
namespace PgFdr.Driver
open Lean PgFdr

/-- `[peptide, charge, expIdx, fraction, [num,den], "nan" | [num,den]]` -/
def jprec (j : Json) : R C11.Prec := do
  match j with
  | .arr #[p, c, e, f, i, q] =>
    let pep ← match q with
      | .str "nan" => pure none
      | _ => do pure (some (← jrat q))
    pure { peptide := ← jstr p, charge := ← jint c, exp := ← jnat e, fraction := ← jint f,
           intensity := ← jrat i, pep := pep }
  | _ => .error s!"expected [peptide, charge, exp, fraction, intensity, pep], got {j.compress}"

def jpair (j : Json) : R (Nat × Nat) := do
  match j with
  | .arr #[a, b] => pure (← jnat a, ← jnat b)
  | _ => .error s!"expected [i, j], got {j.compress}"

def ofPairEq (e : C11.PairEq) : Json :=
  obj [("i", ofNat e.i), ("j", ofNat e.j), ("ratio", ofRat e.ratio), ("w", ofRat e.w), ("sratio", ofRat e.sratio)]

/-- `{"op":"lfqA","n":…,"precs":[…],"cutoff":R,"minr":…,"stab":bool,"graph":null|[[i,j]…],
     "minSamples":…, "solution": null | [R…]}` →
    keys, columns, total, valid columns, pair equations, system (pairs, seen, zero columns, dense
    matrix) and — if the exponentiated solution of the implementation is supplied — the LFQ
    intensities after zeroing and `_scaleEqualSum` -/
def handleLfqA (j : Json) : R Json := do
  let n ← jnat (← jget j "n")
  let precs ← jlist jprec (← jget j "precs")
  let cutoff ← jrat (← jget j "cutoff")
  let minr ← jnat (← jget j "minr")
  let stab ← jbool (← jget j "stab")
  let graph ← match jgetOpt j "graph" with
    | none => pure none
    | some g => do pure (some (← jlist jpair g))
  let minSamples ← jnat (← jget j "minSamples")
  if precs.any (fun p => decide (n ≤ p.exp)) then pure (ofErr "experiment_out_of_range") else
  let o : C11.Opts := { n := n, cutoff := cutoff, minRatios := minr, stab := stab, graph := graph, minSamples := minSamples }
  let a := C11.stageA o precs
  let sol ← match jgetOpt j "solution" with
    | none => pure none
    | some s => do pure (some (← jlist jrat s))
  let lfqJ : Json := match sol with
    | none =>
      if a.system.pairs.isEmpty then ofList ofRat ((List.range n).map (C11.lfq n a.system.zeroCols a.total (fun _ => (0 : Rat))))
      else Json.null
    | some v => ofList ofRat ((List.range n).map (C11.lfq n a.system.zeroCols a.total (fun s => v.getD s 0)))
  pure (obj [
    ("keys", ofList (fun k => Json.arr #[.str k.1, ofInt k.2]) a.keys),
    ("cols", ofList (ofList ofRat) a.cols),
    ("total", ofRat a.total),
    ("validCols", ofList ofNat a.validCols),
    ("eqs", ofList ofPairEq a.eqs),
    ("seen", ofList ofNat a.system.seen),
    ("zeroCols", ofList ofNat a.system.zeroCols),
    ("matrix", ofList (ofList ofInt) (C11.denseMatrix n a.system)),
    ("lfq", lfqJ)])

/-- protocol handlers of property C11: (op name, handler) -/
def handlersC11 : List (String × (Json → R Json)) := [("lfqA", handleLfqA)]
end PgFdr.Driver
