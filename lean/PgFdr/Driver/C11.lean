import PgFdr.Json
import PgFdr.Model.C11
namespace PgFdr.Driver
open Lean PgFdr

/-- `[peptide, charge, expIdx, fraction, [num,den], "nan" | [num,den]]` -/
def jprec (j : Json) : R C11.Prec := do
  match j with
  | .arr #[p, c, e, f, i, q] =>
    let pep ← match q with
      | .str "nan" => pure none
      | _ => do pure (some (← jrat q))
    pure { peptide := ← jstr p, charge := ← jint c, exp := ← jnat e, fraction := ← jint f,
           intensity := ← jrat i, pep := pep }
  | _ => .error s!"expected [peptide, charge, exp, fraction, intensity, pep], got {j.compress}"

def jpair (j : Json) : R (Nat × Nat) := do
  match j with
  | .arr #[a, b] => pure (← jnat a, ← jnat b)
  | _ => .error s!"expected [i, j], got {j.compress}"

def ofPairEq (e : C11.PairEq) : Json :=
  obj [("i", ofNat e.i), ("j", ofNat e.j), ("ratio", ofRat e.ratio), ("w", ofRat e.w), ("sratio", ofRat e.sratio)]

/-- `{"op":"lfqA","n":…,"precs":[…],"cutoff":R,"minr":…,"stab":bool,"graph":null|[[i,j]…],
     "minSamples":…, "solution": null | [R…]}` →
    keys, columns, total, valid columns, pair equations, system (pairs, seen, zero columns, dense
    matrix) and — if the exponentiated solution of the implementation is supplied — the LFQ
    intensities after zeroing and `_scaleEqualSum` -/
def handleLfqA (j : Json) : R Json := do
  let n ← jnat (← jget j "n")
  let precs ← jlist jprec (← jget j "precs")
  let cutoff ← jrat (← jget j "cutoff")
  let minr ← jnat (← jget j "minr")
  let stab ← jbool (← jget j "stab")
  let graph ← match jgetOpt j "graph" with
    | none => pure none
    | some g => do pure (some (← jlist jpair g))
  let minSamples ← jnat (← jget j "minSamples")
  if precs.any (fun p => decide (n ≤ p.exp)) then pure (ofErr "experiment_out_of_range") else
  let o : C11.Opts := { n := n, cutoff := cutoff, minRatios := minr, stab := stab, graph := graph, minSamples := minSamples }
  let a := C11.stageA o precs
  let sol ← match jgetOpt j "solution" with
    | none => pure none
    | some s => do pure (some (← jlist jrat s))
  let lfqJ : Json := match sol with
    | none =>
      if a.system.pairs.isEmpty then ofList ofRat ((List.range n).map (C11.lfq n a.system.zeroCols a.total (fun _ => (0 : Rat))))
      else Json.null
    | some v => ofList ofRat ((List.range n).map (C11.lfq n a.system.zeroCols a.total (fun s => v.getD s 0)))
  pure (obj [
    ("keys", ofList (fun k => Json.arr #[.str k.1, ofInt k.2]) a.keys),
    ("cols", ofList (ofList ofRat) a.cols),
    ("total", ofRat a.total),
    ("validCols", ofList ofNat a.validCols),
    ("eqs", ofList ofPairEq a.eqs),
    ("seen", ofList ofNat a.system.seen),
    ("zeroCols", ofList ofNat a.system.zeroCols),
    ("matrix", ofList (ofList ofInt) (C11.denseMatrix n a.system)),
    ("lfq", lfqJ)])

/-- `[peptide, charge, rawFile, experiment, fraction, [num,den], [[num,den]…], "nan" | [num,den]]` -/
def jevrow (j : Json) : R C11.EvRow := do
  match j with
  | .arr #[p, c, raw, e, f, i, sl, q] =>
    let pep ← match q with
      | .str "nan" => pure none
      | _ => do pure (some (← jrat q))
    pure { peptide := ← jstr p, charge := ← jint c, rawFile := ← jstr raw, experiment := ← jstr e,
           fraction := ← jint f, intensity := ← jrat i, silac := ← jlist jrat sl, pep := pep }
  | _ => .error s!"expected [peptide, charge, raw, experiment, fraction, intensity, silac, pep], got {j.compress}"

def jdesignLine (j : Json) : R (String × String × Int) := do
  match j with
  | .arr #[nm, e, f] => pure (← jstr nm, ← jstr e, ← jint f)
  | _ => .error s!"expected [name, experiment, fraction], got {j.compress}"

def ofStageA (n : Nat) (a : C11.StageA) (lfqJ : Json) : List (String × Json) := [
    ("keys", ofList (fun k => Json.arr #[.str k.1, ofInt k.2]) a.keys),
    ("cols", ofList (ofList ofRat) a.cols),
    ("total", ofRat a.total),
    ("validCols", ofList ofNat a.validCols),
    ("eqs", ofList ofPairEq a.eqs),
    ("seen", ofList ofNat a.system.seen),
    ("zeroCols", ofList ofNat a.system.zeroCols),
    ("matrix", ofList (ofList ofInt) (C11.denseMatrix n a.system)),
    ("lfq", lfqJ)]

/-- `{"op":"lfqTable","channels":C,"tmt":T,"design":null|[[name,experiment,fraction]…],"groups":[[evidence row…]…],
     "cutoff":R,"minr":…,"stab":bool,"graph":null|[[i,j]…],"minSamples":…,"solutions":[null|[R…]…]}` →
    the experiment list, the LFQ header names, and per protein group stage A on the labelled samples, the LFQ
    intensities (zeroing + `_scaleEqualSum` of the supplied solution) and the named columns `[[header, value]…]`
    as the written table pairs them -/
def handleLfqTable (j : Json) : R Json := do
  let C ← jnat (← jget j "channels")
  let tmt ← jint (← jget j "tmt")
  let design ← match jgetOpt j "design" with
    | none => pure none
    | some d => do pure (some (← jlist jdesignLine d))
  let groups ← jlist (jlist jevrow) (← jget j "groups")
  let cutoff ← jrat (← jget j "cutoff")
  let minr ← jnat (← jget j "minr")
  let stab ← jbool (← jget j "stab")
  let graph ← match jgetOpt j "graph" with
    | none => pure none
    | some g => do pure (some (← jlist jpair g))
  let minSamples ← jnat (← jget j "minSamples")
  let sols ← jlist (fun s => match s with
    | .null => pure none
    | _ => do pure (some (← jlist jrat s))) (← jget j "solutions")
  match C11.silacChannels C with
  | none => pure (ofErr "silac_channels")
  | some chans =>
  let exps := C11.experimentsOf design groups.flatten
  let n := exps.length
  let ns := C11.numSamples n C
  let o : C11.Opts := { n := n, cutoff := cutoff, minRatios := minr, stab := stab, graph := graph, minSamples := minSamples }
  let valid := C11.lfqValid n tmt
  let rec go : List (List C11.EvRow) → List (Option (List Rat)) → R (List Json)
    | [], _ => pure []
    | g :: gs, ss => do
      match C11.toRows design exps g with
      | none => .error "design_key"
      | some rows =>
        let a := C11.tableStageA o C rows
        let v : Option (Nat → Rat) := match ss.head? with
          | some (some sol) => some (fun s => sol.getD s 0)
          | _ => if a.system.pairs.isEmpty then some (fun _ => 0) else none
        let (lfqJ, namedJ) : Json × Json := match v with
          | none => (Json.null, Json.null)
          | some v =>
            let f := C11.lfq ns a.system.zeroCols a.total v
            (ofList ofRat ((List.range ns).map f),
             if valid then ofList (fun hv => Json.arr #[.str (String.ofList hv.1), ofRat hv.2])
               (C11.namedColumns chans (exps.map String.toList) f) else Json.arr #[])
        let rest ← go gs ss.tail
        pure (obj (ofStageA ns a lfqJ ++ [("named", namedJ)]) :: rest)
  match go groups sols with
  | .error e => pure (ofErr e)
  | .ok gj =>
    pure (obj [
      ("experiments", ofList Json.str exps),
      ("valid", Json.bool valid),
      ("headers", if valid then ofList (fun h => Json.str (String.ofList h)) (C11.lfqHeaders chans (exps.map String.toList))
                  else Json.arr #[]),
      ("groups", Json.arr gj.toArray)])

/-- protocol handlers of property C11: (op name, handler) -/
def handlersC11 : List (String × (Json → R Json)) := [("lfqA", handleLfqA), ("lfqTable", handleLfqTable)]
end PgFdr.Driver
