import PgFdr.Json
import PgFdr.Model.C01
import PgFdr.Model.C06
namespace PgFdr.Driver
open Lean PgFdr

/-- `{"op":"fdr","groups":[[ids…]…],"scores":[[num,den]…]}` →
    `{"fdrs":[[num,den]…],"qvals":[[num,den]…]}` or `{"err":"no_ranked_groups"}` -/
def handleFdr (j : Json) : R Json := do
  let groups ← jgroups (← jget j "groups")
  let scores ← jlist jrat (← jget j "scores")
  match C01.calcProteinFdrs groups scores with
  | .error e => pure (ofErr e)
  | .ok (f, q) => pure (obj [("fdrs", ofList ofRat f), ("qvals", ofList ofRat q)])

/-- `{"op":"is_decoy","groups":[[ids…]…]}` → `{"decoy":[bool…]}` (the marker predicate on its own) -/
def handleIsDecoy (j : Json) : R Json := do
  let groups ← jgroups (← jget j "groups")
  pure (obj [("decoy", ofList (fun g => Json.bool (C01.isDecoyGroup g)) groups)])

/-- the call site `picked_group_fdr.py:454-470`: q-values of the ranking, then the report built with them.
    `{"op":"fdr_report","groups":…,"infos":[[[pep,peptide,[ids…]]…]…],"scores":…,"keepAll":bool}` →
    `{"qvals":[…],"rows":[{"proteinIds","score","qValue"}…]}` or `{"err":…}` (first-pass cutoff: inf) -/
def handleFdrReport (j : Json) : R Json := do
  let groups ← jgroups (← jget j "groups")
  let infos ← jlist (jlist jevidence) (← jget j "infos")
  let scores ← jlist jrat (← jget j "scores")
  let keepAll ← jbool (← jget j "keepAll")
  match C01.calcProteinFdrs groups scores with
  | .error e => pure (ofErr e)
  | .ok (_, q) =>
    match C06.fromProteinGroups groups infos scores q none keepAll with
    | .error e => pure (ofErr e)
    | .ok rows =>
      pure (obj [("qvals", ofList ofRat q),
        ("rows", ofList (fun d : C06.RowData =>
          obj [("proteinIds", .str (C06.render d).proteinIds), ("score", ofRat d.score),
               ("qValue", ofRat d.qValue)]) rows)])

/-- protocol handlers of property C01: (op name, handler) -/
def handlersC01 : List (String × (Json → R Json)) :=
  [("fdr", handleFdr), ("is_decoy", handleIsDecoy), ("fdr_report", handleFdrReport)]
end PgFdr.Driver
