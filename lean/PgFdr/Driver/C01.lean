import PgFdr.Json
namespace PgFdr.Driver
open Lean PgFdr
/-- protocol handlers of property C01: (op name, handler) -/
def handlersC01 : List (String × (Json → R Json)) := []
end PgFdr.Driver
