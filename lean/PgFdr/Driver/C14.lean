import PgFdr.Json
namespace PgFdr.Driver
open Lean PgFdr
/-- protocol handlers of property C14: (op name, handler) -/
def handlersC14 : List (String × (Json → R Json)) := []
end PgFdr.Driver
