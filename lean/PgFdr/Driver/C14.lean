import PgFdr.Json
import PgFdr.Driver.C07Stream
namespace PgFdr.Driver
open Lean PgFdr
/-- protocol handlers of property C14: (op name, handler).  C14 has no op of its own (its model is C02's, op
    `compete`); the list carries the `cli_stream` op of C07 (`Driver/C07Stream.lean`), which cannot be registered
    through `Driver/C07.lean` because `Driver/Cli.lean` imports that file. -/
def handlersC14 : List (String × (Json → R Json)) := handlersC07Stream
end PgFdr.Driver
