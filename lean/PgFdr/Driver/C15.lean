import PgFdr.Json
namespace PgFdr.Driver
open Lean PgFdr
/-- protocol handlers of property C15: (op name, handler) -/
def handlersC15 : List (String × (Json → R Json)) := []
end PgFdr.Driver
