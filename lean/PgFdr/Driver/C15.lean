import PgFdr.Json
import PgFdr.Model.C15
namespace PgFdr.Driver
open Lean PgFdr

def jresultRow (j : Json) : R C15.ResultRow := do
  match j with
  | .arr #[a, b, c, d] => pure { psmId := ← jstr a, peptide := ← jstr b, score := ← jstr c, pep := ← jstr d }
  | _ => .error s!"expected [psmid, peptide, score, pep], got {j.compress}"

def ofRows (rows : List (List String)) : Json := ofList ofStrs rows

def ofMergeResult (r : Except String (List C15.Row)) : Json :=
  match r with
  | .ok rows => obj [("rows", ofRows rows)]
  | .error e => ofErr e

/-- `{"op":"merge","evidence":[[[field…]…]…],"results":[[[psmid,peptide,score,pep]…]…]}`
    → `{"rows":[[field…]…]}` or `{"err": enum}`.
    With `"results_raw":[[[field…]…]…]` (header row first) instead of `"results"` the result-file
    header is resolved by the model as well. -/
def handleMerge (j : Json) : R Json := do
  let ev ← jlist (jlist jstrs) (← jget j "evidence")
  match jgetOpt j "results_raw" with
  | some rr =>
    let raw ← jlist (jlist jstrs) rr
    pure (ofMergeResult (C15.mergeRaw raw ev))
  | none =>
    let res ← jlist (jlist jresultRow) (← jget j "results")
    pure (ofMergeResult (C15.merge res ev))

/-- `{"op":"psmid","psmid":s,"peptide":s}` → `{"raw":…, "scan":n, "modseq":…}` or `{"err": enum}` -/
def handlePsmId (j : Json) : R Json := do
  let r : C15.ResultRow := { psmId := ← jstr (← jget j "psmid"), peptide := ← jstr (← jget j "peptide"), score := "", pep := "" }
  match C15.parseResultRow r with
  | .ok p => pure (obj [("raw", .str p.raw), ("scan", ofInt p.scan), ("modseq", .str p.modSeq)])
  | .error e => pure (ofErr e)

/-- protocol handlers of property C15: (op name, handler) -/
def handlersC15 : List (String × (Json → R Json)) := [("merge", handleMerge), ("psmid", handlePsmId)]
end PgFdr.Driver
