import PgFdr.Json
import PgFdr.Model.C15
namespace PgFdr.Driver
open Lean PgFdr

def jresultRow (j : Json) : R C15.ResultRow := do
  match j with
  | .arr #[a, b, c, d] => pure { psmId := ← jstr a, peptide := ← jstr b, score := ← jstr c, pep := ← jstr d }
  | _ => .error s!"expected [psmid, peptide, score, pep], got {j.compress}"

def ofRows (rows : List (List String)) : Json := ofList ofStrs rows

def ofMergeResult (r : Except String (List C15.Row)) : Json :=
  match r with
  | .ok rows => obj [("rows", ofRows rows)]
  | .error e => ofErr e

/-- `{"op":"merge","evidence":[[[field…]…]…],"results":[[[psmid,peptide,score,pep]…]…]}`
    → `{"rows":[[field…]…]}` or `{"err": enum}`.
    With `"results_raw":[[[field…]…]…]` (header row first) instead of `"results"` the result-file
    header is resolved by the model as well. -/
def handleMerge (j : Json) : R Json := do
  let ev ← jlist (jlist jstrs) (← jget j "evidence")
  match jgetOpt j "results_raw" with
  | some rr =>
    let raw ← jlist (jlist jstrs) rr
    pure (ofMergeResult (C15.mergeRaw raw ev))
  | none =>
    let res ← jlist (jlist jresultRow) (← jget j "results")
    pure (ofMergeResult (C15.merge res ev))

/-- `{"op":"merge_text","evidence_text":[text…],"results_raw":[[[field…]…]…]}` → `{"text": text}` or `{"err": enum}`:
    the evidence files as the decoded TEXT of the files, the answer is the text of the output file
    (`C15.mergeTextRaw`: csv reader → merge → csv writer). -/
def handleMergeText (j : Json) : R Json := do
  let texts ← jlist jstr (← jget j "evidence_text")
  let raw ← jlist (jlist jstrs) (← jget j "results_raw")
  match C15.mergeTextRaw raw (texts.map String.toList) with
  | .ok t => pure (obj [("text", .str (String.ofList t))])
  | .error e => pure (ofErr e)

/-- `{"op":"psmid","psmid":s,"peptide":s}` → `{"raw":…, "scan":n, "modseq":…}` or `{"err": enum}` -/
def handlePsmId (j : Json) : R Json := do
  let r : C15.ResultRow := { psmId := ← jstr (← jget j "psmid"), peptide := ← jstr (← jget j "peptide"), score := "", pep := "" }
  match C15.parseResultRow r with
  | .ok p => pure (obj [("raw", .str p.raw), ("scan", ofInt p.scan), ("modseq", .str p.modSeq)])
  | .error e => pure (ofErr e)

/-- `{"op":"prosit_key","psmid":s,"peptide":s,"filename":s}` → `{"raw":…, "scan":n, "modseq":…}` or `{"err": enum}`
    (`parse_prosit_psmid_and_peptide` on `peptide[2:-2]`) -/
def handlePrositKey (j : Json) : R Json := do
  match C15.prositKey (← jstr (← jget j "psmid")) (← jstr (← jget j "peptide")) (← jstr (← jget j "filename")) with
  | .ok (raw, scan, seq) => pure (obj [("raw", .str raw), ("scan", ofInt scan), ("modseq", .str seq)])
  | .error e => pure (ofErr e)

/-- `{"op":"results_dict","input_type":"andromeda"|"prosit"|…,"results_raw":[[[field…]…]…]}` →
    `{"dict":[[raw,[[scan,modseq,score,pep]…]]…],"fixed":k}` or `{"err": enum}`: what
    `get_percolator_results(files, input_type)` returns — the dictionary in insertion order and the
    fixed-modification table of the LAST file as an index into `FIXED_MODS_DICTS` -/
def handleResultsDict (j : Json) : R Json := do
  let prosit := (← jstr (← jget j "input_type")) == "prosit"
  let raw ← jlist (jlist jstrs) (← jget j "results_raw")
  let fixed : Except String Nat := match raw.getLast? with
    | none => .ok 0
    | some f => C15.fixedModsOf prosit f
  match C15.buildResultsOf prosit raw, fixed with
  | .ok res, .ok k =>
    let inner (l : C15.Inner) : Json := ofList (fun (e : C15.Key × C15.Val) =>
      Json.arr #[ofInt e.1.1, .str e.1.2, .str e.2.1, .str e.2.2]) l
    pure (obj [("dict", ofList (fun (e : String × C15.Inner) => Json.arr #[.str e.1, inner e.2]) res), ("fixed", ofInt (k : Int))])
  | .error e, _ => pure (ofErr e)
  | _, .error e => pure (ofErr e)

/-- protocol handlers of property C15: (op name, handler) -/
def handlersC15 : List (String × (Json → R Json)) := [("merge", handleMerge), ("merge_text", handleMergeText), ("psmid", handlePsmId),
   ("prosit_key", handlePrositKey), ("results_dict", handleResultsDict)]
end PgFdr.Driver
