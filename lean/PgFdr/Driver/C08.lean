import PgFdr.Json
namespace PgFdr.Driver
open Lean PgFdr
/-- protocol handlers of property C08: (op name, handler) -/
def handlersC08 : List (String × (Json → R Json)) := []
end PgFdr.Driver
