import PgFdr.Json
import PgFdr.Model.C08
namespace PgFdr.Driver
open Lean PgFdr

def errName : C08.Err → String
  | .indexError => "index_error"
  | .unknownEnzyme => "unknown_enzyme"

def ofPeptides (l : List (List Char)) : Json := .arr (l.map (fun p => Json.str (String.ofList p))).toArray

/-- `{"op":"digest","seq":…,"enzyme":…,"mode":"full"|"semi"|"none"|…,"min":n,"max":n,"mc":n,"met":bool}`
    → `{"peptides":[…]}` in emission order (duplicates kept) or `{"err":…}` -/
def handleDigest (j : Json) : R Json := do
  let seq ← jstr (← jget j "seq")
  let enzyme ← jstr (← jget j "enzyme")
  let mode ← jstr (← jget j "mode")
  let minL ← jnat (← jget j "min")
  let maxL ← jnat (← jget j "max")
  let mc ← jnat (← jget j "mc")
  let met ← jbool (← jget j "met")
  match C08.digestByName enzyme seq.toList minL maxL mode mc met with
  | .ok l => pure (obj [("peptides", ofPeptides l)])
  | .error e => pure (ofErr (errName e))

/-- `{"op":"sites","seq":…,"enzyme":…}` → `{"sites":[cut positions 1..n-1 where the declarative rule fires]}` -/
def handleSites (j : Json) : R Json := do
  let seq ← jstr (← jget j "seq")
  let enzyme ← jstr (← jget j "enzyme")
  match C08.lookupEnzyme enzyme with
  | none => pure (ofErr "unknown_enzyme")
  | some r =>
    let s := seq.toList
    pure (obj [("sites", ofList ofNat ((List.range s.length).filter (fun x => decide (C08.Site r s x))))])

/-- protocol handlers of property C08: (op name, handler) -/
def handlersC08 : List (String × (Json → R Json)) := [("digest", handleDigest), ("sites", handleSites)]
end PgFdr.Driver
