import PgFdr.Json
import PgFdr.Model.C08
import PgFdr.Model.C08Config
namespace PgFdr.Driver
open Lean PgFdr

def errName : C08.Err → String
  | .indexError => "index_error"
  | .unknownEnzyme => "unknown_enzyme"

def ofPeptides (l : List (List Char)) : Json := .arr (l.map (fun p => Json.str (String.ofList p))).toArray

/-- `{"op":"digest","seq":…,"enzyme":…,"mode":"full"|"semi"|"none"|…,"min":n,"max":n,"mc":n,"met":bool}`
    → `{"peptides":[…]}` in emission order (duplicates kept) or `{"err":…}` -/
def handleDigest (j : Json) : R Json := do
  let seq ← jstr (← jget j "seq")
  let enzyme ← jstr (← jget j "enzyme")
  let mode ← jstr (← jget j "mode")
  let minL ← jnat (← jget j "min")
  let maxL ← jnat (← jget j "max")
  let mc ← jnat (← jget j "mc")
  let met ← jbool (← jget j "met")
  match C08.digestByName enzyme seq.toList minL maxL mode mc met with
  | .ok l => pure (obj [("peptides", ofPeptides l)])
  | .error e => pure (ofErr (errName e))

/-- `{"op":"sites","seq":…,"enzyme":…}` → `{"sites":[cut positions 1..n-1 where the declarative rule fires]}` -/
def handleSites (j : Json) : R Json := do
  let seq ← jstr (← jget j "seq")
  let enzyme ← jstr (← jget j "enzyme")
  match C08.lookupEnzyme enzyme with
  | none => pure (ofErr "unknown_enzyme")
  | some r =>
    let s := seq.toList
    pure (obj [("sites", ofList ofNat ((List.range s.length).filter (fun x => decide (C08.Site r s x))))])


/-! ### the configured digestion (`PgFdr/Model/C08Config.lean`) -/

def c08Opt {α} (f : Json → R α) (j : Json) (k : String) : R (Option α) :=
  match jgetOpt j k with
  | none => pure none
  | some v => do pure (some (← f v))

def c08CfgErr : C08.CfgErr → String
  | .unequalLength => "value_error"
  | .digest e => errName e
  | .attributeError => "attribute_error"

def c08OfParams (p : C08.Params) : Json :=
  obj [("enzyme", .str p.enzyme), ("digestion", .str p.digestion), ("min", ofNat p.minL), ("max", ofNat p.maxL),
       ("mc", ofNat p.mc), ("special", .str (String.ofList p.special)), ("met", .bool p.met),
       ("db", .str (if p.dbTarget then "target" else "concat")), ("hash", .bool p.useHash)]

/-- `{"op":"c08_ctor","args":{"enzyme":s|null,"digestion":s|null,"min":n|null,"max":n|null,"mc":n|null,
    "special":s|null,"contains_decoys":b|null}}` (null / missing = argument omitted) → the attributes -/
def handleC08Ctor (j : Json) : R Json := do
  let a ← jget j "args"
  let args : C08.CtorArgs :=
    { enzyme := ← c08Opt jstr a "enzyme", digestion := ← c08Opt jstr a "digestion",
      minLength := ← c08Opt jnat a "min", maxLength := ← c08Opt jnat a "max", cleavages := ← c08Opt jnat a "mc",
      specialAas := ← c08Opt jstr a "special", containsDecoys := ← c08Opt jbool a "contains_decoys" }
  pure (c08OfParams (C08.mkParams args))

def c08Opts (o : Json) : R C08.CliOpts := do
  pure { enzyme := ← c08Opt jstrs o "enzyme", digestion := ← c08Opt jstrs o "digestion",
         minLength := ← c08Opt (jlist jnat) o "min", maxLength := ← c08Opt (jlist jnat) o "max",
         cleavages := ← c08Opt (jlist jnat) o "mc", specialAas := ← c08Opt jstrs o "special",
         containsDecoys := ← jbool (← jget o "contains_decoys") }

def c08Files (j : Json) : R (List C08.Fasta) :=
  jlist (jlist (fun r => do
    match ← jarr r with
    | [a, b] => pure ((← jstr a), (← jstr b).toList)
    | _ => throw "record: expected [id, seq]")) j

def c08OfSeq (s : C08.Seq) : Json := .str (String.ofList s)
def c08OfPer (l : List (String × List C08.Seq)) : Json :=
  ofList (fun kv => Json.arr #[.str kv.1, ofList c08OfSeq kv.2]) l

/-- `{"op":"c08_list","opts":{"enzyme":[…]|null,…,"contains_decoys":b}}` → `{"params":[attributes…]}` | err -/
def handleC08List (j : Json) : R Json := do
  let o ← c08Opts (← jget j "opts")
  match C08.paramsList (C08.argLists o) with
  | .ok ps => pure (obj [("params", ofList c08OfParams ps)])
  | .error e => pure (ofErr (c08CfgErr e))

/-- `{"op":"c08_map","opts":…,"files":[[[id,seq],…],…],"ibaq":b}` → `{"proteins":[[id,[keys…]],…]}` | err -/
def handleC08Map (j : Json) : R Json := do
  let o ← c08Opts (← jget j "opts")
  let files ← c08Files (← jget j "files")
  let ibaq ← jbool (← jget j "ibaq")
  match C08.configMap o files ibaq with
  | .ok m => pure (obj [("proteins", c08OfPer m)])
  | .error e => pure (ofErr (c08CfgErr e))

def c08OfOpt {α} (f : α → Json) : Option α → Json
  | none => .null
  | some x => f x

/-- `{"op":"c08_main","opts":…,"files":…,"prosit":b,"map":b,"ibaq":b}` → the written files
    `{"prosit":[[peptide,protein],…]|null,"map":[[id,[keys]],…]|null,"ibaq":[[id,n],…]|null}` | err -/
def handleC08Main (j : Json) : R Json := do
  let o ← c08Opts (← jget j "opts")
  let files ← c08Files (← jget j "files")
  let wp ← jbool (← jget j "prosit")
  let wm ← jbool (← jget j "map")
  let wi ← jbool (← jget j "ibaq")
  match C08.cliMain o files wp wm wi with
  | .error e => pure (ofErr (c08CfgErr e))
  | .ok w =>
    pure (obj [("prosit", c08OfOpt (ofList (fun r => Json.arr #[c08OfSeq r.1, .str r.2])) w.prosit),
               ("map", c08OfOpt c08OfPer w.map),
               ("ibaq", c08OfOpt (ofList (fun kv => Json.arr #[.str kv.1, ofNat kv.2])) w.ibaq)])

/-- protocol handlers of property C08: (op name, handler) -/
def handlersC08 : List (String × (Json → R Json)) := [("digest", handleDigest), ("sites", handleSites), ("c08_ctor", handleC08Ctor), ("c08_list", handleC08List),
   ("c08_map", handleC08Map), ("c08_main", handleC08Main)]
end PgFdr.Driver
