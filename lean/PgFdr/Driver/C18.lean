import PgFdr.Json
import PgFdr.Model.C18
namespace PgFdr.Driver
open Lean PgFdr PgFdr.C18 PgFdr.Generated

namespace C18io

def scoreTag : Score → String
  | .multPEP => "multPEP" | .bestPEP => "bestPEP" | .andromeda => "Andromeda" | .mqProtein => "MQ_protein"

def originTag : Origin → String
  | .perc => "perc" | .percRemap => "perc_remap" | .fragpipe => "fragpipe" | .sage => "sage"
  | .diann => "diann" | .mq => "mq" | .mqNoRemap => "mq_no_remap"

def groupingTag : Grouping → String
  | .no => "no" | .subset => "subset" | .rescuedSubset => "rescued_subset" | .mqNative => "mq_native"
  | .rescuedMqNative => "rescued_mq_native" | .pseudoGene => "pseudo_gene"

def pickedTag : Picked → String
  | .picked => "picked" | .pickedGroup => "picked_group" | .classic => "classic"

def inputTag : Input → String
  | .mq => "mq" | .perc => "perc" | .fragpipe => "fragpipe" | .sage => "sage" | .diann => "diann"

def ofCfg (c : Cfg) : Json :=
  obj [("score", .str (scoreTag c.score)), ("origin", .str (originTag c.origin)),
       ("razor", .bool c.razor), ("with_shared", .bool c.withShared),
       ("grouping", .str (groupingTag c.grouping)), ("picked", .str (pickedTag c.picked)),
       ("label", .str c.label), ("can_rescue", .bool c.score.canRescue),
       ("rescues", .bool c.grouping.rescues), ("remaps", .bool c.origin.remaps),
       ("can_quantify", .bool c.origin.canQuantify),
       ("input", .str (inputTag c.input)),
       ("score_column", match c.scoreColumn with | some s => .str s | none => .null),
       ("needs_map", .bool c.needsMap)]

def ofOutcome : Outcome → Json
  | .table => .str "table"
  | .skipped => .str "skipped"
  | .abort e => obj [("abort", .str e.tag)]

def ofError (e : Err) : Json :=
  match e with
  | .missingKey k => obj [("err", .str e.tag), ("key", .str k)]
  | _ => obj [("err", .str e.tag)]

def optStr (j : Json) (k : String) : R (Option String) :=
  match jgetOpt j k with
  | none => pure none
  | some v => do pure (some (← jstr v))

def bfield (j : Json) (k : String) : R Bool :=
  match jgetOpt j k with
  | none => pure false
  | some v => jbool v

/-- `{"name": n}` = built-in method looked up in `Generated.methods`;
    `{"toml": {label?, scoreType?, grouping?, sharedPeptides?, pickedStrategy?}}` = a custom file -/
def jmethod (j : Json) : R MethodRef :=
  match jgetOpt j "toml" with
  | some t => do
    pure (.custom { name := "<custom>", label := ← optStr t "label", scoreType := ← optStr t "scoreType",
                    grouping := ← optStr t "grouping", sharedPeptides := ← optStr t "sharedPeptides",
                    pickedStrategy := ← optStr t "pickedStrategy" })
  | none => do pure (.builtin (← jstr (← jget j "name")))

def jsupplied (j : Json) : R Supplied := do
  pure { mq := ← bfield j "mq", perc := ← bfield j "perc", fragpipe := ← bfield j "fragpipe",
         sage := ← bfield j "sage", diann := ← bfield j "diann", map := ← bfield j "map",
         mqGroups := ← bfield j "mq_groups" }

end C18io
open C18io

/-- `{"op":"method","methods":[{"name":…}|{"toml":{…}}…],"use_genes":b,
     "supplied":{"mq":b,"perc":b,"fragpipe":b,"sage":b,"diann":b,"map":b,"mq_groups":b},
     "stem":s,"suffix":s}`
    → `{"err":tag}` or `{"cfgs":[…],"outcomes":["table"|"skipped"|{"abort":tag}…],"files":[name…]}` -/
def handleMethod (j : Json) : R Json := do
  let ms ← jlist jmethod (← jget j "methods")
  let useGenes ← bfield j "use_genes"
  let sup ← match jgetOpt j "supplied" with
    | some s => jsupplied s
    | none => pure { mq := false, perc := false, fragpipe := false, sage := false, diann := false,
                     map := false, mqGroups := false }
  let stem := (jgetOpt j "stem").bind (fun v => (jstr v).toOption) |>.getD "out"
  let suffix := (jgetOpt j "suffix").bind (fun v => (jstr v).toOption) |>.getD ".txt"
  match runCli Generated.methods useGenes sup ms with
  | .error e => pure (ofError e)
  | .ok (cfgs, outs) =>
    let several := decide (cfgs.length > 1)
    pure (obj [("cfgs", ofList ofCfg cfgs), ("outcomes", ofList ofOutcome outs),
               ("files", ofStrs (cfgs.map (outputName several stem suffix)))])

/-- `{"op":"methods_table"}` → the names of `Generated.methods` with `usable` -/
def handleTable (_ : Json) : R Json :=
  pure (ofList (fun m => obj [("name", .str m.name), ("usable", .bool (usable m))]) Generated.methods)

/-- protocol handlers of property C18: (op name, handler) -/
def handlersC18 : List (String × (Json → R Json)) :=
  [("method", handleMethod), ("methods_table", handleTable)]
end PgFdr.Driver
