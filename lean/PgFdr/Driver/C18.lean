import PgFdr.Json
namespace PgFdr.Driver
open Lean PgFdr
/-- protocol handlers of property C18: (op name, handler) -/
def handlersC18 : List (String × (Json → R Json)) := []
end PgFdr.Driver
