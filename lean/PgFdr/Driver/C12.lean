import PgFdr.Json
import PgFdr.Model.C12
import PgFdr.Model.CliQuant
import PgFdr.Model.C12Columns
namespace PgFdr.Driver
open Lean PgFdr

namespace C12io

def jpep (j : Json) : R C17.PepVal :=
  match j with
  | .str "nan" => .ok .nan
  | .str "inf" => .ok .inf
  | _ => do pure (.fin (← jrat j))

def ofPep : C17.PepVal → Json
  | .nan => .str "nan"
  | .inf => .str "inf"
  | .fin q => ofRat q

def jrow (j : Json) : R C12.Row := do
  let inten ← match jgetOpt j "int" with
    | none => pure none
    | some v => do pure (some (← jrat v))
  pure
    { id := ← jint (← jget j "id")
      peptide := ← jstr (← jget j "pep")
      charge := ← jint (← jget j "z")
      experiment := ← jstr (← jget j "exp")
      fraction := ← jstr (← jget j "frac")
      leading := ← jstrs (← jget j "prot")
      intensity := inten
      pep := ← jpep (← jget j "pp")
      silac := ← jlist jrat (← jget j "silac")
      tmt := ← jlist jrat (← jget j "tmt") }

/-- a PrecursorQuant: `[peptide, charge, experiment, fraction, intensity|null, pep, tmt, silac, id]` -/
def ofRow (r : C12.Row) : Json :=
  .arr #[.str r.peptide, ofInt r.charge, .str r.experiment, .str r.fraction,
    (match r.intensity with | none => .null | some x => ofRat x), ofPep r.pep,
    ofList ofRat r.tmt, ofList ofRat r.silac, ofInt r.id]

/-- a design line `[name, experiment, fraction]` -/
def jdesign (j : Json) : R C12.DesignLine := do
  match j with
  | .arr #[n, e, f] => pure { name := ← jstr n, experiment := ← jstr e, fraction := ← jstr f }
  | _ => .error s!"expected [name, experiment, fraction], got {j.compress}"

/-- the `Raw file` of a row (only read when a design is given) -/
def jraw (j : Json) : R String := do jstr (← jget j "raw")

def jibaq (j : Json) : R (String × Nat) := do
  match j with
  | .arr #[p, n] => pure (← jstr p, ← jnat n)
  | _ => .error s!"expected [protein, n], got {j.compress}"

def ofGroup (g : C12.GroupOut) : Json :=
  obj [("ids", ofStrs g.ids), ("quants", ofList ofRow g.quants), ("counts", ofList ofNat g.counts),
    ("idType", ofStrs g.idType), ("total", ofRat g.total), ("intens", ofList ofRat g.intens),
    ("nPeps", ofList ofNat g.nPeps), ("ibaqTotal", ofRat g.ibaqTotal), ("ibaq", ofList ofRat g.ibaq),
    ("tmt", ofList ofRat g.tmt), ("evidenceIds", ofList ofInt g.evidenceIds)]

/-- a digest map `[[peptide, [protein…]]…]` in dict order -/
def jdmap (j : Json) : R C10.DMap :=
  jlist (fun e => do
    match e with
    | .arr #[p, ps] => pure ((← jstr p), (← jstrs ps))
    | _ => .error s!"expected [peptide, proteins], got {e.compress}") j

/-- the flat row list cut into files of the given sizes (what is left over forms a last file) -/
def splitSizes {α : Type} : List Nat → List α → List (List α)
  | [], [] => []
  | [], l => [l]
  | n :: ns, l => l.take n :: splitSizes ns (l.drop n)

def ofCell : C12.Cell → Json
  | .nat n => ofNat n
  | .str s => .str s
  | .rat q => ofRat q
  | .nats l => obj [("join", ofList ofNat l)]
  | .ints l => obj [("join", ofList ofInt l)]
  | .foreign _ => .null

end C12io

open C12io in
/-- `{"op":"quant","rows":[{id,pep,z,exp,frac,prot,int,pp,silac,tmt}…],"groups":[[protein…]…],
     "level":[num,den],"ibaq":[[protein,n]…]}` (optionally `"design":[[name,experiment,fraction]…]` and a
     `"raw"` field in every row: the run with `--experimental_design_file` / `--file_list_file`) →
    `{"experiments","nSilac","nTmt","peps","cutoff","attached":[[pq…]…],"groups":[{ids,quants,counts,
      idType,total,intens,nPeps,ibaqTotal,ibaq,tmt,evidenceIds}…],"headers":[…]}` — `headers`: the header list the
    MaxQuant writer's generators build for the run's experiment list and channel numbers (`CliQuant.quantHeaders`, the
    list `cells_under_named_headers` / `design_cells_under_named_headers` speak about; a string = the refusal, e.g.
    `dup_header`) — or `{"err": e}` with `e` one of
    `bad_silac_channels`, `silac_index_out_of_range`, `tmt_shape_mismatch` (rows of different SILAC / reporter layouts),
    `design_duplicate_name`, `raw_file_not_in_design`.
    Optional (`Model/C12Columns.lean`): `"files":[n0,n1,…]` (rows per evidence file, in order), `"remap":true` and
    `"maps":[[[peptide,[protein…]]…]…]` — the run of a remapping method: the protein list of every row is the digest's
    list of its stripped modified sequence (`C12.evidenceRows` = `C10.removeMods` + `C10.digestLookup`, map of the file's
    position), the `prot` field is ignored; `"skipLfq":false` — the writer with the MaxLFQ generator: `headers` then
    contains the `LFQ Intensity …` names; `cells` = `extraColumns` of every written row in the writer's order
    (`C12.runCells`), `null` for the cells of the generators C12 does not speak about (annotation, MaxLFQ, coverage),
    `{"join":[…]}` for the `;`-joined cells -/
def handleQuant (j : Json) : R Json := do
  let rows ← jlist jrow (← jget j "rows")
  let groups ← jgroups (← jget j "groups")
  let level ← jrat (← jget j "level")
  let ibaq ← jlist jibaq (← jget j "ibaq")
  let skipLfq ← match jgetOpt j "skipLfq" with
    | some b => jbool b
    | none => pure true
  let remap ← match jgetOpt j "remap" with
    | some b => jbool b
    | none => pure false
  let maps ← match jgetOpt j "maps" with
    | some m => jlist jdmap m
    | none => pure []
  let sizes ← match jgetOpt j "files" with
    | some s => jlist jnat s
    | none => pure [rows.length]
  let run ← match jgetOpt j "design" with
    | none | some .null => pure (C12.quantifyFiles remap maps (splitSizes sizes rows) groups level ibaq)
    | some d => do
      let design ← jlist jdesign d
      let raws ← jlist jraw (← jget j "rows")
      pure (C12.quantifyFilesDesign design remap maps (splitSizes sizes (raws.zip rows)) groups level ibaq)
  match run with
  | .error e => pure (ofErr e)
  | .ok o =>
    let S := match C12.silacChannels o.nSilac with
      | .ok S => S
      | .error _ => 0
    pure (obj [("experiments", ofStrs o.experiments), ("nSilac", ofInt o.nSilac), ("nTmt", ofInt o.nTmt),
      ("peps", ofList ofPep o.peps), ("cutoff", ofRat o.cutoff),
      ("attached", ofList (ofList ofRow) o.attached), ("groups", ofList ofGroup o.groups),
      ("cells", ofList (ofList ofCell) (C12.runCells skipLfq S o ibaq)),
      ("headers", match C12.writerHeaders skipLfq (CliQuant.ctxOf o) with
        | .ok hs => ofStrs hs
        | .error e => .str e)])

/-- protocol handlers of property C12: (op name, handler) -/
def handlersC12 : List (String × (Json → R Json)) := [("quant", handleQuant)]
end PgFdr.Driver
