import PgFdr.Json
namespace PgFdr.Driver
open Lean PgFdr
/-- protocol handlers of property C12: (op name, handler) -/
def handlersC12 : List (String × (Json → R Json)) := []
end PgFdr.Driver
