import PgFdr.Json
namespace PgFdr.Driver
open Lean PgFdr
/-- protocol handlers of property C06: (op name, handler) -/
def handlersC06 : List (String × (Json → R Json)) := []
end PgFdr.Driver
