import PgFdr.Json
import PgFdr.Model.C06
namespace PgFdr.Driver
open Lean PgFdr

/-- `"inf"` or `[num,den]` -/
def jcutoff (j : Json) : R (Option Rat) :=
  match j with
  | .str "inf" => .ok none
  | _ => do pure (some (← jrat j))

def ofRow (r : C06.Row) : Json :=
  obj [("proteinIds", .str r.proteinIds), ("majorityProteinIds", .str r.majorityProteinIds),
       ("peptideCountsUnique", .str r.peptideCountsUnique), ("bestPeptide", .str r.bestPeptide),
       ("numberOfProteins", ofNat r.numberOfProteins), ("qValue", ofRat r.qValue), ("score", ofRat r.score),
       ("reverse", .str r.reverse), ("potentialContaminant", .str r.potentialContaminant)]

/-- `{"op":"report","groups":[[ids…]…],"infos":[[[pep,peptide,[ids…]]…]…],"scores":[…],"qvals":[…],
     "cutoff":"inf"|[num,den],"keepAll":bool}` → `{"rows":[{nine base fields}…]}` or `{"err":…}` -/
def handleReport (j : Json) : R Json := do
  let groups ← jgroups (← jget j "groups")
  let infos ← jlist (jlist jevidence) (← jget j "infos")
  let scores ← jlist jrat (← jget j "scores")
  let qvals ← jlist jrat (← jget j "qvals")
  let cutoff ← jcutoff (← jget j "cutoff")
  let keepAll ← jbool (← jget j "keepAll")
  match C06.fromProteinGroups groups infos scores qvals cutoff keepAll with
  | .error e => pure (ofErr e)
  | .ok rows => pure (obj [("rows", ofList (fun d => ofRow (C06.render d)) rows)])

/-- `{"op":"report_one","group":[ids…],"info":[…],"score":…,"qval":…,"cutoff":…,"keepAll":…}` →
    `{"row": {…} | null}` or `{"err":…}` (`from_protein_group` on its own) -/
def handleReportOne (j : Json) : R Json := do
  let group ← jstrs (← jget j "group")
  let info ← jlist jevidence (← jget j "info")
  let score ← jrat (← jget j "score")
  let qval ← jrat (← jget j "qval")
  let cutoff ← jcutoff (← jget j "cutoff")
  let keepAll ← jbool (← jget j "keepAll")
  match C06.fromProteinGroup group info qval score cutoff keepAll with
  | .error e => pure (ofErr e)
  | .ok none => pure (obj [("row", .null)])
  | .ok (some d) => pure (obj [("row", ofRow (C06.render d))])

/-- protocol handlers of property C06: (op name, handler) -/
def handlersC06 : List (String × (Json → R Json)) := [("report", handleReport), ("report_one", handleReportOne)]
end PgFdr.Driver
