import PgFdr.Json
import PgFdr.Model.C20
namespace PgFdr.Driver
open Lean PgFdr

namespace C20D
open PgFdr.C20

def jop (j : Json) : R (Op String) := do
  let a ← jarr j
  match a with
  | [.str "append", g] => pure (.append (← jstrs g))
  | [.str "extend", gs] => pure (.extend (← jgroups gs))
  | [.str "index"] => pure .createIndex
  | [.str "merge", a, b] => pure (.merge (← jstr a) (← jstr b))
  | [.str "clean"] => pure .removeEmpty
  | [.str "unseen", o] => pure (.addUnseen (← jgroups o))
  | [.str "group", p, c] => pure (.getGroup (← jstr p) (← jbool c))
  | [.str "idx", p, c] => pure (.getIdx (← jstr p) (← jbool c))
  | [.str "idxs", ps, c] => pure (.getIdxs (← jstrs ps) (← jbool c))
  | [.str "groups", ps, c] => pure (.getGroups (← jstrs ps) (← jbool c))
  | [.str "lead", ps] => pure (.getLeading (← jstrs ps))
  | [.str "missing", ps] => pure (.missing (← jstrs ps))
  | [.str "shared", ps] => pure (.shared (← jstrs ps))
  | [.str "missing_groups", ps] => pure (.missingGroups (← jstrs ps))
  | [.str "shared_groups", ps] => pure (.sharedGroups (← jstrs ps))
  | [.str "size"] => pure .size
  | [.str "all"] => pure .allProteins
  | _ => .error s!"unknown pg operation {j.compress}"

def ofPosGroup (x : Nat × List String) : Json := .arr #[ofNat x.1, ofStrs x.2]

def ofOut : Out String → Json
  | .unit => .null
  | .err e => ofErr e.name
  | .group g => obj [("group", ofStrs g)]
  | .idx i => obj [("idx", ofNat i)]
  | .idxs l => obj [("idxs", PgFdr.ofList (fun o => match o with | some i => ofInt i | none => ofInt (-1)) l)]
  | .groups l => obj [("groups", PgFdr.ofList ofPosGroup l)]
  | .prots l => obj [("prots", ofStrs l)]
  | .bool b => obj [("bool", .bool b)]
  | .nat n => obj [("nat", ofNat n)]
  | .obsolete l => obj [("obsolete", PgFdr.ofList (fun x => ofPosGroup (x.1, x.2.map (fun p => "OBSOLETE__" ++ p))) l)]

def ofState (pg : PG String) : List (String × Json) :=
  [("groups", ofGroups pg.groups), ("valid", .bool pg.valid),
   ("index", PgFdr.ofList (fun x => Json.arr #[.str x.1, ofNat x.2]) (indexItems pg))]

/-- `{"op":"pg","init":[[…]…]?,"from_list":bool?,"ops":[[name,args…]…]}` →
    `{"steps":[{"out":…,"groups":…,"valid":…,"index":[[p,i]…]}…]}` -/
def handlePg (j : Json) : R Json := do
  let ops ← jlist jop (← jget j "ops")
  let gs ← match jgetOpt j "init" with
    | some g => jgroups g
    | none => pure []
  let fromList ← match jgetOpt j "from_list" with
    | some b => jbool b
    | none => pure false
  let pg0 : PG String := if fromList then C20.ofList gs else { (init : PG String) with groups := gs }
  let tr := trace pg0 ops
  pure (obj [("steps", PgFdr.ofList (fun (r : PG String × Out String) => obj (("out", ofOut r.2) :: ofState r.1)) tr)])

end C20D

/-- protocol handlers of property C20: (op name, handler) -/
def handlersC20 : List (String × (Json → R Json)) := [("pg", C20D.handlePg)]
end PgFdr.Driver
