import PgFdr.Json
import PgFdr.Model.C20
namespace PgFdr.Driver
open Lean PgFdr

namespace C20D
open PgFdr.C20

def jop (j : Json) : R (Op String) := do
  let a ← jarr j
  match a with
  | [.str "append", g] => pure (.append (← jstrs g))
  | [.str "extend", gs] => pure (.extend (← jgroups gs))
  | [.str "index"] => pure .createIndex
  | [.str "merge", a, b] => pure (.merge (← jstr a) (← jstr b))
  | [.str "clean"] => pure .removeEmpty
  | [.str "unseen", o] => pure (.addUnseen (← jgroups o))
  | [.str "rescue_update", o] => pure (.updateRescued (← jgroups o))
  | [.str "connected", cs, _] => pure (.mergeComponents (← jgroups cs))
  | [.str "group", p, c] => pure (.getGroup (← jstr p) (← jbool c))
  | [.str "idx", p, c] => pure (.getIdx (← jstr p) (← jbool c))
  | [.str "idxs", ps, c] => pure (.getIdxs (← jstrs ps) (← jbool c))
  | [.str "groups", ps, c] => pure (.getGroups (← jstrs ps) (← jbool c))
  | [.str "lead", ps] => pure (.getLeading (← jstrs ps))
  | [.str "missing", ps] => pure (.missing (← jstrs ps))
  | [.str "shared", ps] => pure (.shared (← jstrs ps))
  | [.str "missing_groups", ps] => pure (.missingGroups (← jstrs ps))
  | [.str "shared_groups", ps] => pure (.sharedGroups (← jstrs ps))
  | [.str "size"] => pure .size
  | [.str "all"] => pure .allProteins
  | _ => .error s!"unknown pg operation {j.compress}"

def ofPosGroup (x : Nat × List String) : Json := .arr #[ofNat x.1, ofStrs x.2]

def ofOut : Out String → Json
  | .unit => .null
  | .err e => ofErr e.name
  | .group g => obj [("group", ofStrs g)]
  | .idx i => obj [("idx", ofNat i)]
  | .idxs l => obj [("idxs", PgFdr.ofList (fun o => match o with | some i => ofInt i | none => ofInt (-1)) l)]
  | .groups l => obj [("groups", PgFdr.ofList ofPosGroup l)]
  | .prots l => obj [("prots", ofStrs l)]
  | .bool b => obj [("bool", .bool b)]
  | .nat n => obj [("nat", ofNat n)]
  | .obsolete l => obj [("obsolete", PgFdr.ofList (fun x => ofPosGroup (x.1, x.2.map (fun p => "OBSOLETE__" ++ p))) l)]

def ofState (pg : PG String) : List (String × Json) :=
  [("groups", ofGroups pg.groups), ("valid", .bool pg.valid),
   ("index", PgFdr.ofList (fun x => Json.arr #[.str x.1, ofNat x.2]) (indexItems pg))]

/-- `{"op":"pg","init":[[…]…]?,"from_list":bool?,"ops":[[name,args…]…]}` →
    `{"steps":[{"out":…,"groups":…,"valid":…,"index":[[p,i]…]}…]}` -/
def handlePg (j : Json) : R Json := do
  let ops ← jlist jop (← jget j "ops")
  let gs ← match jgetOpt j "init" with
    | some g => jgroups g
    | none => pure []
  let fromList ← match jgetOpt j "from_list" with
    | some b => jbool b
    | none => pure false
  let pg0 : PG String := if fromList then C20.ofList gs else { (init : PG String) with groups := gs }
  let tr := trace pg0 ops
  pure (obj [("steps", PgFdr.ofList (fun (r : PG String × Out String) => obj (("out", ofOut r.2) :: ofState r.1)) tr)])

/-- the state of a history over several live collections: the collections and the obsolete groups the
    last `merge_with_rescued_protein_groups` left in the grouping object (consumed by
    `rescue_update_last`) -/
structure Multi where
  states : List (PG String)
  lastObs : List (List String)

def prefixed (l : List (Nat × List String)) : List (List String) :=
  l.map (fun x => x.2.map (fun p => "OBSOLETE__" ++ p))

/-- the operation of the model for one tagged call; calls that involve a second collection or the
    grouping object's memory are resolved here: the model runs INDEPENDENT states, one per collection -/
def resolve (m : Multi) (rest : List Json) : R (Op String × Bool × Bool) :=
  match rest with
  | [.str "unseen_from", j] => do
    let j ← jnat j
    match m.states[j]? with
    | some other => pure (.addUnseen other.groups, true, false)
    | none => .error s!"no collection {j}"
  | [.str "rescue_update_last"] => pure (.updateRescued m.lastObs, false, true)
  | [.str "rescue_update", o] => do  -- overwrites (and consumes) what the grouping object remembered
    pure (.updateRescued (← jgroups o), false, true)
  | _ => do
    let op ← jop (.arr rest.toArray)
    pure (op, false, false)

def stepMulti (m : Multi) (j : Json) : R (Multi × Out String) := do
  let a ← jarr j
  match a with
  | k :: rest =>
    let k ← jnat k
    match m.states[k]? with
    | none => .error s!"no collection {k}"
    | some pg =>
      let (op, setsObs, usesObs) ← resolve m rest
      let r := step pg op
      let lastObs := match r.2 with
        | .obsolete l => if setsObs then prefixed l else m.lastObs
        | _ => if usesObs then [] else m.lastObs
      pure ({ states := m.states.set k r.1, lastObs := lastObs }, r.2)
  | [] => .error "empty operation"

def traceMulti (m : Multi) : List Json → R (List (Multi × Out String))
  | [] => pure []
  | j :: js => do
    let r ← stepMulti m j
    let rest ← traceMulti r.1 js
    pure (r :: rest)

def jcoll (j : Json) : R (PG String) := do
  let gs ← match jgetOpt j "init" with
    | some (.null) => pure []
    | some g => jgroups g
    | none => pure []
  let fromList ← match jgetOpt j "from_list" with
    | some (.null) => pure false
    | some b => jbool b
    | none => pure false
  pure (if fromList then C20.ofList gs else { (init : PG String) with groups := gs })

/-- `{"op":"pg2","colls":[{"init":[[…]…]?,"from_list":bool?}…],"ops":[[k,name,args…]…]}` →
    `{"steps":[{"out":…,"states":[{"groups":…,"valid":…,"index":…}…]}…]}`: every call acts on the
    collection `k`; all collections are reported after every call -/
def handlePg2 (j : Json) : R Json := do
  let colls ← jlist jcoll (← jget j "colls")
  let ops ← jarr (← jget j "ops")
  let tr ← traceMulti { states := colls, lastObs := [] } ops
  pure (obj [("steps", PgFdr.ofList (fun (r : Multi × Out String) =>
    obj [("out", ofOut r.2), ("states", PgFdr.ofList (fun pg => obj (ofState pg)) r.1.states)]) tr)])

end C20D

/-- protocol handlers of property C20: (op name, handler) -/
def handlersC20 : List (String × (Json → R Json)) := [("pg", C20D.handlePg), ("pg2", C20D.handlePg2)]
end PgFdr.Driver
