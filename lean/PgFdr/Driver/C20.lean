import PgFdr.Json
namespace PgFdr.Driver
open Lean PgFdr
/-- protocol handlers of property C20: (op name, handler) -/
def handlersC20 : List (String × (Json → R Json)) := []
end PgFdr.Driver
