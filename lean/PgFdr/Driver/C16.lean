import PgFdr.Json
namespace PgFdr.Driver
open Lean PgFdr
/-- protocol handlers of property C16: (op name, handler) -/
def handlersC16 : List (String × (Json → R Json)) := []
end PgFdr.Driver
