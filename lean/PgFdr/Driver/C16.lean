import PgFdr.Json
import PgFdr.Model.C16
namespace PgFdr.Driver
open Lean PgFdr

def hexDigit (n : Nat) : Char := if n < 10 then Char.ofNat (48 + n) else Char.ofNat (87 + n)

def hexOfBytes (b : C16.Bytes) : String :=
  String.ofList (b.flatMap (fun x => [hexDigit (x.toNat / 16), hexDigit (x.toNat % 16)]))

def hexVal (c : Char) : Option Nat :=
  if '0' ≤ c ∧ c ≤ '9' then some (c.toNat - 48)
  else if 'a' ≤ c ∧ c ≤ 'f' then some (c.toNat - 87)
  else if 'A' ≤ c ∧ c ≤ 'F' then some (c.toNat - 55)
  else none

def bytesOfHexAux : List Char → Option C16.Bytes
  | [] => some []
  | [_] => none
  | a :: b :: t => do
    let x ← hexVal a
    let y ← hexVal b
    let r ← bytesOfHexAux t
    pure (UInt8.ofNat (x * 16 + y) :: r)

def jbytes (j : Json) : R C16.Bytes := do
  let s ← jstr j
  match bytesOfHexAux s.toList with
  | some b => .ok b
  | none => .error s!"bad hex string {s}"

def ofBytesOpt : Option C16.Bytes → Json
  | none => .null
  | some b => .str (hexOfBytes b)

def jbytesOpt (j : Json) : R (Option C16.Bytes) :=
  match j with
  | .null => .ok none
  | _ => do pure (some (← jbytes j))

def ofFOp : C16.FOp → Json
  | .openTrunc p => .arr #[.str "open", .str p]
  | .append p b => .arr #[.str "write", .str p, .str (hexOfBytes b)]
  | .close p => .arr #[.str "close", .str p]
  | .rename s d => .arr #[.str "rename", .str s, .str d]

def jcrash (j : Json) : R (Option C16.Crash) :=
  match j with
  | .null => .ok none
  | _ => do
    let ops ← jnat (← jget j "ops")
    let bytes ← match jgetOpt j "bytes" with
      | some b => jnat b
      | none => pure 0
    pure (some { ops, bytes })

def joutput (j : Json) : R C16.Output := do
  pure { final := ← jstr (← jget j "final"), chunks := ← jlist jbytes (← jget j "chunks") }

/-- `{"op":"fsrun","initial":[[path, hex|null]…],"outputs":[{"final":p,"chunks":[hex…]}…],
      "runs":[null | {"ops":n,"bytes":k} …],"watch":[path…]}`
    → `{"runs":[{"trace":[op…],"fs":[[path, hex|null]…]}…]}`: for every invocation of the history the
    operations that took effect and the contents of the watched paths afterwards. -/
def handleFsrun (j : Json) : R Json := do
  let initial ← jlist (fun e => do
      match e with
      | .arr #[p, c] => pure ((← jstr p), (← jbytesOpt c))
      | _ => .error "expected [path, content]") (← jget j "initial")
  let outs ← jlist joutput (← jget j "outputs")
  let runs ← jlist jcrash (← jget j "runs")
  let watch ← jstrs (← jget j "watch")
  let fs0 : C16.FS := initial.foldl (fun fs (e : String × Option C16.Bytes) => fs.set e.1 e.2) (fun _ => none)
  let step (acc : C16.FS × List Json) (c : Option C16.Crash) : C16.FS × List Json :=
    let fs := acc.1
    let trace := C16.effective (C16.jobOps fs outs) c
    let fs' := C16.runJob fs outs c
    (fs', acc.2 ++ [obj [("trace", ofList ofFOp trace),
                         ("fs", ofList (fun p => Json.arr #[.str p, ofBytesOpt (fs' p)]) watch)]])
  let (_, res) := runs.foldl step (fs0, [])
  pure (obj [("runs", .arr res.toArray)])

/-- protocol handlers of property C16: (op name, handler) -/
def handlersC16 : List (String × (Json → R Json)) := [("fsrun", handleFsrun)]
end PgFdr.Driver
