import PgFdr.Json
namespace PgFdr.Driver
open Lean PgFdr
/-- protocol handlers of property C19: (op name, handler) -/
def handlersC19 : List (String × (Json → R Json)) := []
end PgFdr.Driver
