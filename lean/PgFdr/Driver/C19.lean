import PgFdr.Json
import PgFdr.Model.C19
namespace PgFdr.Driver
open Lean PgFdr PgFdr.C19

namespace C19io

/-- The engine cuts the driver's output into answers with Python's `str.splitlines()`, which also breaks at U+0085,
    U+2028 and U+2029 — characters `Json.compress` writes raw.  Strings of this property may contain them (white space
    at line ends is the subject), so they leave the driver escaped: U+E000 → U+E000 U+E000, U+0085 → U+E000 `a`,
    U+2028 → U+E000 `b`, U+2029 → U+E000 `c` (undone by `harness/props/C19.py:_unescape`; a bijection). -/
def escapeLineBreaks : List Char → List Char
  | [] => []
  | c :: r =>
    if c.toNat = 0xE000 then c :: c :: escapeLineBreaks r
    else if c.toNat = 0x85 then Char.ofNat 0xE000 :: 'a' :: escapeLineBreaks r
    else if c.toNat = 0x2028 then Char.ofNat 0xE000 :: 'b' :: escapeLineBreaks r
    else if c.toNat = 0x2029 then Char.ofNat 0xE000 :: 'c' :: escapeLineBreaks r
    else c :: escapeLineBreaks r

def ofChars (s : List Char) : Json := .str (String.ofList (escapeLineBreaks s))
def ofOptChars : Option (List Char) → Json
  | some s => ofChars s
  | none => .null

def ofAnnotation (a : Annotation) : Json :=
  obj [("id", ofOptChars a.id), ("fasta_header", ofChars a.header), ("uniprot_id", ofChars a.uniprotId),
       ("entry_name", ofChars a.entryName), ("gene_name", ofOptChars a.geneName), ("length", ofNat a.length),
       ("organism", ofOptChars a.organism), ("description", ofChars a.description),
       ("existence", match a.existence with | some n => ofInt n | none => .null)]

def jrule (j : Json) : R IdRule := do
  match ← jstr j with
  | "full" => pure .full
  | "accession" => pure .accession
  | "gene" => pure .gene
  | s => throw s!"unknown identifier rule {s}"

def jlines (j : Json) : R (List (List Char)) := do
  pure ((← jstrs j).map String.toList)

def flag (j : Json) (k : String) : R Bool :=
  match jgetOpt j k with
  | none => pure false
  | some v => jbool v

end C19io
open C19io

/-- `{"op":"header","header":s,"rule":"full"|"accession"|"gene","length":n}` → the annotation's fields
    or `{"err":"bad_existence"}`.  `charLevel = true` (op "header") runs the CHARACTER-level
    functions `annotateChar` (the `str.split(" OS=")` mirror); `false` (op "header_token") the
    word-level `annotate`.  `annotateChar_eq`: the two agree on every header. -/
def handleHeaderWith (charLevel : Bool) (j : Json) : R Json := do
  let h ← jstr (← jget j "header")
  let rule ← match jgetOpt j "rule" with
    | some r => jrule r
    | none => pure IdRule.full
  let len ← match jgetOpt j "length" with
    | some n => jnat n
    | none => pure 0
  match (if charLevel then annotateChar rule h.toList len else annotate rule h.toList len) with
  | .ok a => pure (ofAnnotation a)
  | .error e => pure (ofErr e.tag)

def handleHeader : Json → R Json := handleHeaderWith true
def handleHeaderToken : Json → R Json := handleHeaderWith false

/-- `{"op":"annotations","files":[[line…]…]|null,"contains_decoys":b,"gene_level":b,"use_uniprot":b,
     "rows":[proteinIds…]}` → `{"annotations":[[id|null,{…}]…],"pseudo":b,"columns":[[names,genes,headers]…]}`
    or `{"err":…}` -/
def handleAnnotations (j : Json) : R Json := do
  let files ← match jgetOpt j "files" with
    | none => pure none
    | some fs => do pure (some (← jlist jlines fs))
  let cd ← flag j "contains_decoys"
  let gl ← flag j "gene_level"
  let uu ← flag j "use_uniprot"
  let rows ← match jgetOpt j "rows" with
    | none => pure []
    | some r => jstrs r
  match getAnnotations files cd gl uu with
  | .error e => pure (ofErr e.tag)
  | .ok (d, pseudo) =>
    let cols := rows.map (fun r =>
      let (n, g, h) := annotationColumns d r.toList
      Json.arr #[ofChars n, ofChars g, ofChars h])
    pure (obj [("annotations", ofList (fun (e : Option (List Char) × Annotation) =>
                  Json.arr #[ofOptChars e.1, ofAnnotation e.2]) d),
               ("pseudo", .bool pseudo), ("columns", .arr cols.toArray)])

/-- `{"op":"int","s":str}` → `{"value":n}` (Python `int(s)`) or `{"err":"bad_existence"}` -/
def handleInt (j : Json) : R Json := do
  let t ← jstr (← jget j "s")
  match parseInt t.toList with
  | some n => pure (obj [("value", ofInt n)])
  | none => pure (ofErr Err.badExistence.tag)

/-- `{"op":"charclass"}` → the model's character tables over every code point (lone surrogates are no `Char`):
    `{"space":[cp…],"int_space":[cp…],"digits":[[cp,value]…]}` -/
def handleCharclass (_ : Json) : R Json := do
  let cps := (List.range 0x110000).filter (fun n => n < 0xD800 || 0xE000 ≤ n)
  let space := cps.filter (fun n => isSpace (Char.ofNat n))
  let ispace := cps.filter (fun n => isIntSpace (Char.ofNat n))
  let digits := cps.filterMap (fun n => (digitValue (Char.ofNat n)).map (fun v => Json.arr #[ofNat n, ofNat v]))
  pure (obj [("space", ofList ofNat space), ("int_space", ofList ofNat ispace), ("digits", .arr digits.toArray)])

/-- `{"op":"fasta_records","lines":[…],"concat":b}` → `[[header,length]…]` -/
def handleRecords (j : Json) : R Json := do
  let lines ← jlines (← jget j "lines")
  let concat ← flag j "concat"
  match readFasta concat lines with
  | .error e => pure (ofErr e.tag)
  | .ok recs => pure (ofList (fun (r : List Char × Nat) => Json.arr #[ofChars r.1, ofNat r.2]) recs)

/-- protocol handlers of property C19: (op name, handler) -/
def handlersC19 : List (String × (Json → R Json)) :=
  [("header", handleHeader), ("header_token", handleHeaderToken), ("annotations", handleAnnotations), ("fasta_records", handleRecords),
   ("int", handleInt), ("charclass", handleCharclass)]
end PgFdr.Driver
