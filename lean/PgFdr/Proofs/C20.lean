import PgFdr.Model.C20

/-!
Helper lemmas for property C20 (protein-group lookups): the index invariant
`Inv pg := pg.valid → pg.index = buildIndex pg.groups`, the range invariant of the (possibly stale)
index, their preservation by every method, and the soundness / completeness of the lookups under them.
Core Lean only.
-/
set_option linter.unusedSectionVars false
deriving instance DecidableEq for Except
namespace PgFdr.C20
deriving instance DecidableEq for PG
variable {P : Type} [DecidableEq P]

/-! ### association lists -/

theorem mem_of_lookup {α β : Type} [BEq α] [LawfulBEq α] (l : List (α × β)) (a : α) (b : β)
    (h : l.lookup a = some b) : (a, b) ∈ l := by
  induction l with
  | nil => simp at h
  | cons x xs ih =>
    obtain ⟨k, v⟩ := x
    simp only [List.lookup_cons] at h
    by_cases hk : a == k
    · simp only [hk] at h
      have : a = k := by simpa using hk
      subst this
      have : v = b := by simpa using h
      subst this; simp
    · have hk' : (a == k) = false := by simpa using hk
      simp only [hk'] at h
      exact List.mem_cons_of_mem _ (ih h)

theorem lookup_none_of_not_mem {α β : Type} [BEq α] [LawfulBEq α] (l : List (α × β)) (a : α)
    (h : ∀ b, (a, b) ∉ l) : l.lookup a = none := by
  induction l with
  | nil => rfl
  | cons x xs ih =>
    obtain ⟨k, v⟩ := x
    simp only [List.lookup_cons]
    by_cases hk : a == k
    · have : a = k := by simpa using hk
      subst this
      exact absurd (by simp) (h v)
    · have hk' : (a == k) = false := by simpa using hk
      simp only [hk']
      exact ih (fun b hb => h b (List.mem_cons_of_mem _ hb))

theorem lookup_isSome_of_mem {α β : Type} [BEq α] [LawfulBEq α] (l : List (α × β)) (a : α) (b : β)
    (h : (a, b) ∈ l) : ∃ b', l.lookup a = some b' := by
  cases hl : l.lookup a with
  | some b' => exact ⟨b', rfl⟩
  | none =>
    exfalso
    induction l with
    | nil => simp at h
    | cons x xs ih =>
      obtain ⟨k, v⟩ := x
      simp only [List.lookup_cons] at hl
      by_cases hk : a == k
      · simp [hk] at hl
      · have hk' : (a == k) = false := by simpa using hk
        simp only [hk'] at hl
        rcases List.mem_cons.mp h with h | h
        · have : a = k := by simpa using congrArg Prod.fst h
          exact hk (by simp [this])
        · exact ih h hl

/-! ### `firsts` -/

theorem mem_firsts {α : Type} [DecidableEq α] (l : List α) (x : α) : x ∈ firsts l ↔ x ∈ l := by
  induction l with
  | nil => simp [firsts]
  | cons a l ih =>
    simp only [firsts, List.mem_cons, List.mem_filter, decide_eq_true_eq, ih]
    by_cases h : x = a <;> simp [h]

theorem nodup_firsts {α : Type} [DecidableEq α] (l : List α) : (firsts l).Nodup := by
  induction l with
  | nil => simp [firsts]
  | cons a l ih =>
    simp only [firsts, List.nodup_cons, List.mem_filter, decide_eq_true_eq, ne_eq, not_true_eq_false,
      and_false, not_false_eq_true, true_and]
    exact ih.filter _

/-! ### the index -/

theorem mem_buildIndex (gs : List (List P)) (p : P) (i : Nat) :
    (p, i) ∈ buildIndex gs ↔ ∃ g, gs[i]? = some g ∧ p ∈ g := by
  unfold buildIndex
  simp only [List.mem_reverse, List.mem_flatMap, List.mem_map, Prod.exists, Prod.mk.injEq]
  constructor
  · rintro ⟨g, j, hm, q, hq, rfl, rfl⟩
    obtain ⟨hj, hgj⟩ := List.mem_zipIdx' hm
    exact ⟨g, by rw [List.getElem?_eq_getElem hj, hgj], hq⟩
  · rintro ⟨g, hg, hp⟩
    refine ⟨g, i, ?_, p, hp, rfl, rfl⟩
    rw [List.mem_zipIdx_iff_getElem?]
    simpa using hg

/-- the invariant: a valid index is exactly the index of the current groups -/
def Inv (pg : PG P) : Prop := pg.valid = true → pg.index = buildIndex pg.groups

/-- every entry of the index — valid or stale — points inside the group list -/
def InRange (pg : PG P) : Prop := ∀ p i, (p, i) ∈ pg.index → i < pg.groups.length

theorem inRange_buildIndex (gs : List (List P)) (v : Bool) : InRange (⟨gs, buildIndex gs, v⟩ : PG P) := by
  intro p i h
  obtain ⟨g, hg, _⟩ := (mem_buildIndex gs p i).mp h
  exact (List.getElem?_eq_some_iff.mp hg).1

theorem mergeGroups_ok (pg pg' : PG P) (sup p : P) (h : mergeGroups pg sup p = .ok pg') :
    pg'.valid = false ∧ pg'.index = pg.index ∧ pg'.groups.length = pg.groups.length := by
  unfold mergeGroups at h
  split at h
  · split at h
    · have h' : _ = pg' := Except.ok.inj h
      subst h'
      simp
    · simp at h
  · simp at h

theorem mergeGroups_error (pg : PG P) (sup p : P) (e : Err) (h : mergeGroups pg sup p = .error e) :
    (e = .unknownProtein ∧ (rawIdx pg sup = none ∨ rawIdx pg p = none)) ∨
    (e = .indexError ∧ ∃ q i, (q, i) ∈ pg.index ∧ pg.groups.length ≤ i) := by
  unfold mergeGroups at h
  split at h
  · rename_i si pi hs hp
    split at h
    · simp at h
    · rename_i hnot
      right
      refine ⟨by simpa using (Except.error.inj h).symm, ?_⟩
      by_cases h1 : si < pg.groups.length
      · by_cases h2 : pi < pg.groups.length
        · exact (hnot _ _ (List.getElem?_eq_getElem h1) (List.getElem?_eq_getElem h2)).elim
        · exact ⟨p, pi, mem_of_lookup _ _ _ hp, by omega⟩
      · exact ⟨sup, si, mem_of_lookup _ _ _ hs, by omega⟩
  · rename_i hnot
    left
    refine ⟨by simpa using (Except.error.inj h).symm, ?_⟩
    cases h1 : rawIdx pg sup with
    | none => exact Or.inl rfl
    | some si =>
      cases h2 : rawIdx pg p with
      | none => exact Or.inr rfl
      | some pi => exact absurd h2 (by intro _; exact hnot si pi h1 h2)

theorem step_lookup_state (pg : PG P) (op : Op P) (h : op.isMutator = false) : (step pg op).1 = pg := by
  cases op <;> simp [Op.isMutator] at h <;> rfl

/-- a predicate kept by every successful `merge_groups` and established by `remove_empty_groups` is
    kept by the composite callers of graphs.py -/
theorem mergeInto_induction (Q : PG P → Prop)
    (hm : ∀ pg pg' sup p, Q pg → mergeGroups pg sup p = .ok pg' → Q pg') (lead : P) :
    ∀ (ps : List P) (pg : PG P), Q pg → Q (mergeInto pg lead ps).1 := by
  intro ps
  induction ps with
  | nil => intro pg h; exact h
  | cons p ps ih =>
    intro pg h
    unfold mergeInto
    cases hmg : mergeGroups pg lead p with
    | ok pg' => exact ih pg' (hm pg pg' lead p h hmg)
    | error e => exact h

theorem mergeComponents_induction (Q : PG P → Prop)
    (hm : ∀ pg pg' sup p, Q pg → mergeGroups pg sup p = .ok pg' → Q pg')
    (hr : ∀ pg, Q (removeEmpty pg)) :
    ∀ (cs : List (List P)) (pg : PG P), Q pg → Q (mergeComponents pg cs).1 := by
  intro cs
  induction cs with
  | nil => intro pg _; exact hr pg
  | cons c cs ih =>
    intro pg h
    cases c with
    | nil => exact h
    | cons lead ps =>
      unfold mergeComponents
      have h1 := mergeInto_induction Q hm lead ps pg h
      cases hmi : mergeInto pg lead ps with
      | mk pg' oe =>
        rw [hmi] at h1
        cases oe with
        | none => exact ih pg' h1
        | some e => exact h1

/-- a composite call that did not raise ended with `remove_empty_groups` -/
theorem mergeComponents_ok (cs : List (List P)) :
    ∀ (pg : PG P), (mergeComponents pg cs).2 = none →
      (mergeComponents pg cs).1.valid = true ∧
      (mergeComponents pg cs).1.index = buildIndex (mergeComponents pg cs).1.groups := by
  induction cs with
  | nil => intro pg _; simp [mergeComponents, removeEmpty]
  | cons c cs ih =>
    intro pg h
    cases c with
    | nil => simp [mergeComponents] at h
    | cons lead ps =>
      unfold mergeComponents at h ⊢
      cases hmi : mergeInto pg lead ps with
      | mk pg' oe =>
        rw [hmi] at h
        cases oe with
        | none => exact ih pg' h
        | some e => simp at h

/-- whatever happens, the inner loop either changed nothing or left the flag down -/
theorem mergeInto_same_or_down (lead : P) :
    ∀ (ps : List P) (pg : PG P), (mergeInto pg lead ps).1 = pg ∨ (mergeInto pg lead ps).1.valid = false := by
  intro ps
  induction ps with
  | nil => intro pg; exact Or.inl rfl
  | cons p ps ih =>
    intro pg
    unfold mergeInto
    cases hmg : mergeGroups pg lead p with
    | ok pg' =>
      rcases ih pg' with h | h
      · right; simp only []; rw [h]; exact (mergeGroups_ok pg pg' lead p hmg).1
      · exact Or.inr h
    | error e => exact Or.inl rfl

/-- a composite call that raised either changed nothing or left the flag down -/
theorem mergeComponents_error (cs : List (List P)) :
    ∀ (pg : PG P) (e : Err), (mergeComponents pg cs).2 = some e →
      (mergeComponents pg cs).1 = pg ∨ (mergeComponents pg cs).1.valid = false := by
  induction cs with
  | nil => intro pg e h; simp [mergeComponents] at h
  | cons c cs ih =>
    intro pg e h
    cases c with
    | nil => exact Or.inl rfl
    | cons lead ps =>
      unfold mergeComponents at h ⊢
      have h1 := mergeInto_same_or_down lead ps pg
      cases hmi : mergeInto pg lead ps with
      | mk pg' oe =>
        rw [hmi] at h h1
        cases oe with
        | some e' => exact h1
        | none =>
          rcases ih pg' e h with h2 | h2
          · rcases h1 with h1 | h1
            · left; simp only [] at h2 h1 ⊢; rw [h2, h1]
            · right; simp only [] at h2 h1 ⊢; rw [h2]; exact h1
          · exact Or.inr h2

theorem step_mergeComponents_fst (pg : PG P) (cs : List (List P)) :
    (step pg (.mergeComponents cs)).1 = (mergeComponents pg cs).1 := by
  simp only [step]
  cases h : mergeComponents pg cs with
  | mk pg' oe => cases oe <;> rfl

theorem inv_step' (pg : PG P) (op : Op P) (h : Inv pg) : Inv (step pg op).1 := by
  cases op with
  | append g => intro hv; simp [step] at hv
  | extend gs => intro hv; simp [step] at hv
  | updateRescued obs => intro hv; simp [step] at hv
  | mergeComponents cs =>
    rw [step_mergeComponents_fst]
    refine mergeComponents_induction Inv ?_ ?_ cs pg h
    · intro pg pg' sup p _ hm hv
      simp [(mergeGroups_ok pg pg' sup p hm).1] at hv
    · intro pg _; simp [removeEmpty]
  | createIndex => intro _; simp [step]
  | merge sup p =>
    intro hv
    simp only [step] at hv ⊢
    cases hm : mergeGroups pg sup p with
    | ok pg' =>
      rw [hm] at hv
      have := (mergeGroups_ok pg pg' sup p hm).1
      simp [this] at hv
    | error e => rw [hm] at hv; exact h hv
  | removeEmpty => intro _; simp [step, removeEmpty]
  | addUnseen other => intro _; simp [step, addUnseen]
  | getGroup p c => exact h
  | getIdx p c => exact h
  | getIdxs ps c => exact h
  | getGroups ps c => exact h
  | getLeading ps => exact h
  | missing ps => exact h
  | shared ps => exact h
  | missingGroups ps => exact h
  | sharedGroups ps => exact h
  | size => exact h
  | allProteins => exact h
  | read r => exact h
  | rows c rows => exact h

theorem inRange_step (pg : PG P) (op : Op P) (h : InRange pg) : InRange (step pg op).1 := by
  cases op with
  | append g =>
    intro p i hi
    have := h p i hi
    simp only [step, List.length_append]; omega
  | extend gs =>
    intro p i hi
    have := h p i hi
    simp only [step, List.length_append]; omega
  | updateRescued obs =>
    intro p i hi
    have := h p i hi
    simp only [step, List.length_append]; omega
  | mergeComponents cs =>
    rw [step_mergeComponents_fst]
    refine mergeComponents_induction InRange ?_ ?_ cs pg h
    · intro pg pg' sup p h0 hm q i hq
      obtain ⟨_, hi, hl⟩ := mergeGroups_ok pg pg' sup p hm
      rw [hi] at hq; rw [hl]; exact h0 q i hq
    · intro pg; exact inRange_buildIndex _ _
  | createIndex => exact inRange_buildIndex _ _
  | merge sup p =>
    simp only [step]
    cases hm : mergeGroups pg sup p with
    | ok pg' =>
      obtain ⟨_, hi, hl⟩ := mergeGroups_ok pg pg' sup p hm
      intro q i hq
      simp only at hq ⊢
      rw [hi] at hq; rw [hl]; exact h q i hq
    | error e => exact h
  | removeEmpty => exact inRange_buildIndex _ _
  | addUnseen other => exact inRange_buildIndex _ _
  | getGroup p c => exact h
  | getIdx p c => exact h
  | getIdxs ps c => exact h
  | getGroups ps c => exact h
  | getLeading ps => exact h
  | missing ps => exact h
  | shared ps => exact h
  | missingGroups ps => exact h
  | sharedGroups ps => exact h
  | size => exact h
  | allProteins => exact h
  | read r => exact h
  | rows c rows => exact h

theorem run_induction (Q : PG P → Prop) (hstep : ∀ pg op, Q pg → Q (step pg op).1) :
    ∀ (ops : List (Op P)) (pg : PG P), Q pg → Q (run pg ops) := by
  intro ops
  induction ops with
  | nil => intro pg h; exact h
  | cons op ops ih => intro pg h; exact ih _ (hstep pg op h)

theorem inv_run (ops : List (Op P)) (pg : PG P) (h : Inv pg) : Inv (run pg ops) :=
  run_induction Inv inv_step' ops pg h

theorem inRange_run (ops : List (Op P)) (pg : PG P) (h : InRange pg) : InRange (run pg ops) :=
  run_induction InRange inRange_step ops pg h

theorem inv_init' : Inv (init : PG P) := by intro hv; simp [init] at hv
theorem inRange_init : InRange (init : PG P) := by intro p i h; simp [init] at h
theorem inv_ofList (gs : List (List P)) : Inv (ofList gs) := by intro _; rfl
theorem inRange_ofList (gs : List (List P)) : InRange (ofList gs) := inRange_buildIndex gs true

/-! ### lookups under the invariant -/

theorem getIdx_ok (pg : PG P) (p : P) (c : Bool) (i : Nat) (h : getIdx pg p c = .ok i) :
    pg.index.lookup p = some i ∧ (c = true → pg.valid = true) := by
  unfold getIdx at h
  split at h
  · simp at h
  · rename_i hc
    split at h
    · simp at h
    · rename_i j hj
      have : j = i := by simpa using h
      subst this
      refine ⟨hj, ?_⟩
      intro hct
      cases hv : pg.valid with
      | true => rfl
      | false => simp [hct, hv] at hc

theorem getIdx_sound (pg : PG P) (hinv : Inv pg) (p : P) (i : Nat) (h : getIdx pg p true = .ok i) :
    ∃ g, pg.groups[i]? = some g ∧ p ∈ g := by
  obtain ⟨hl, hv⟩ := getIdx_ok pg p true i h
  have hm := mem_of_lookup _ _ _ hl
  rw [hinv (hv rfl), mem_buildIndex] at hm
  exact hm

theorem getGroup_ok (pg : PG P) (p : P) (c : Bool) (g : List P) (h : getGroup pg p c = .ok g) :
    ∃ i, getIdx pg p c = .ok i ∧ pg.groups[i]? = some g := by
  unfold getGroup at h
  cases hi : getIdx pg p c with
  | error e => simp [hi] at h
  | ok i =>
    simp only [hi] at h
    cases hg : pg.groups[i]? with
    | none => simp [hg] at h
    | some g' =>
      simp only [hg] at h
      have : g' = g := by simpa using h
      subst this
      exact ⟨i, rfl, hg⟩

theorem getGroup_sound (pg : PG P) (hinv : Inv pg) (p : P) (g : List P) (h : getGroup pg p true = .ok g) :
    p ∈ g ∧ ∃ i, getIdx pg p true = .ok i ∧ pg.groups[i]? = some g := by
  obtain ⟨i, hi, hg⟩ := getGroup_ok pg p true g h
  obtain ⟨g2, hg2, hp⟩ := getIdx_sound pg hinv p i hi
  rw [hg] at hg2
  have : g = g2 := by simpa using hg2
  subst this
  exact ⟨hp, i, hi, hg⟩

/-- a checked single lookup fails only loudly, and only for the two stated reasons -/
theorem getGroup_error (pg : PG P) (hinv : Inv pg) (p : P) (e : Err) (h : getGroup pg p true = .error e) :
    (e = .invalidIndex ∧ pg.valid = false) ∨ (e = .unknownProtein ∧ ∀ g ∈ pg.groups, p ∉ g) := by
  unfold getGroup getIdx at h
  cases hv : pg.valid with
  | false => left; simp [hv] at h; exact ⟨h.symm, rfl⟩
  | true =>
    right
    simp only [hv, Bool.not_true, Bool.and_false, Bool.false_eq_true, if_false] at h
    cases hl : pg.index.lookup p with
    | none =>
      simp only [hl] at h
      refine ⟨by simpa using h.symm, ?_⟩
      intro g hg hp
      obtain ⟨i, hi, hgi⟩ := List.mem_iff_getElem.mp hg
      have hm : (p, i) ∈ pg.index := by
        rw [hinv hv, mem_buildIndex]
        exact ⟨g, by rw [List.getElem?_eq_getElem hi, hgi], hp⟩
      obtain ⟨b, hb⟩ := lookup_isSome_of_mem _ _ _ hm
      rw [hl] at hb; simp at hb
    | some i =>
      exfalso
      simp only [hl] at h
      have hm := mem_of_lookup _ _ _ hl
      rw [hinv hv, mem_buildIndex] at hm
      obtain ⟨g, hg, _⟩ := hm
      simp [hg] at h

theorem getIdxs_ok (pg : PG P) (prots : List P) (c : Bool) (is : List (Option Nat))
    (h : getIdxs pg prots c = .ok is) :
    is = firsts (prots.map (fun p => pg.index.lookup p)) ∧ (c = true → pg.valid = true) := by
  unfold getIdxs at h
  split at h
  · simp at h
  · rename_i hc
    refine ⟨by simpa using h.symm, ?_⟩
    intro hct
    cases hv : pg.valid with
    | true => rfl
    | false => simp [hct, hv] at hc

theorem getGroups_ok (pg : PG P) (prots : List P) (c : Bool) (gs : List (Nat × List P))
    (h : getGroups pg prots c = .ok gs) :
    (c = true → pg.valid = true) ∧
    ∀ i g, (i, g) ∈ gs ↔ (pg.groups[i]? = some g ∧ ∃ p ∈ prots, pg.index.lookup p = some i) := by
  unfold getGroups at h
  cases hi : getIdxs pg prots c with
  | error e => simp [hi] at h
  | ok is =>
    simp only [hi] at h
    obtain ⟨his, hv⟩ := getIdxs_ok pg prots c is hi
    refine ⟨hv, ?_⟩
    have hgs : gs = is.filterMap (fun o => o.bind (fun i => (pg.groups[i]?).map (fun g => (i, g)))) := by
      simpa using h.symm
    intro i g
    rw [hgs, List.mem_filterMap]
    constructor
    · rintro ⟨o, ho, hog⟩
      rw [his, mem_firsts, List.mem_map] at ho
      obtain ⟨p, hp, rfl⟩ := ho
      cases hl : pg.index.lookup p with
      | none => rw [hl] at hog; simp at hog
      | some j =>
        rw [hl] at hog
        simp only [Option.bind_some, Option.map_eq_some_iff, Prod.mk.injEq] at hog
        obtain ⟨g', hg', rfl, rfl⟩ := hog
        exact ⟨hg', p, hp, hl⟩
    · rintro ⟨hg, p, hp, hl⟩
      refine ⟨some i, ?_, by simp [hg]⟩
      rw [his, mem_firsts, List.mem_map]
      exact ⟨p, hp, hl⟩

theorem getGroups_nodup (pg : PG P) (prots : List P) (c : Bool) (gs : List (Nat × List P))
    (h : getGroups pg prots c = .ok gs) : (gs.map (·.1)).Nodup := by
  unfold getGroups at h
  cases hi : getIdxs pg prots c with
  | error e => simp [hi] at h
  | ok is =>
    simp only [hi] at h
    obtain ⟨his, _⟩ := getIdxs_ok pg prots c is hi
    have hgs : gs = is.filterMap (fun o => o.bind (fun i => (pg.groups[i]?).map (fun g => (i, g)))) := by
      simpa using h.symm
    have hnd : is.Nodup := his ▸ nodup_firsts _
    rw [hgs]
    clear hgs his hi h
    induction is with
    | nil => simp
    | cons o os ih =>
      have hnd' := (List.nodup_cons.mp hnd)
      rw [List.filterMap_cons]
      split
      · exact ih hnd'.2
      · rename_i x hx
        rw [List.map_cons, List.nodup_cons]
        refine ⟨?_, ih hnd'.2⟩
        intro hmem
        obtain ⟨y, hy, hyx⟩ := List.mem_map.mp hmem
        obtain ⟨o', ho', hoy⟩ := List.mem_filterMap.mp hy
        -- both o and o' are `some x.1`
        have h1 : o = some x.1 := by
          cases o with
          | none => simp at hx
          | some j =>
            simp only [Option.bind_some, Option.map_eq_some_iff] at hx
            obtain ⟨g, _, rfl⟩ := hx
            rfl
        have h2 : o' = some y.1 := by
          cases o' with
          | none => simp at hoy
          | some j =>
            simp only [Option.bind_some, Option.map_eq_some_iff] at hoy
            obtain ⟨g, _, rfl⟩ := hoy
            rfl
        rw [h1] at hnd'
        rw [h2, hyx] at ho'
        exact hnd'.1 ho'

theorem leadingList_ok (pg : PG P) :
    ∀ (prots l : List P), leadingList pg prots = .ok l →
      ∀ a, a ∈ l ↔ ∃ p ∈ prots, ∃ g, getGroup pg p true = .ok g ∧ g.head? = some a := by
  intro prots
  induction prots with
  | nil => intro l h a; simp [leadingList] at h; subst h; simp
  | cons p ps ih =>
    intro l h a
    simp only [leadingList] at h
    cases hg : getGroup pg p true with
    | error e => simp [hg] at h
    | ok g =>
      cases g with
      | nil => simp [hg] at h
      | cons b t =>
        simp only [hg] at h
        cases hr : leadingList pg ps with
        | error e => simp [hr] at h
        | ok l' =>
          simp only [hr] at h
          have hl : l = b :: l' := by simpa using h.symm
          subst hl
          simp only [List.mem_cons]
          constructor
          · rintro (hab | ha)
            · exact ⟨p, Or.inl rfl, b :: t, hg, by simp [hab]⟩
            · obtain ⟨q, hq, g', hg', hh⟩ := (ih l' hr a).mp ha
              exact ⟨q, Or.inr hq, g', hg', hh⟩
          · rintro ⟨q, hq, g', hg', hh⟩
            rcases hq with rfl | hq
            · rw [hg] at hg'
              have : b :: t = g' := by simpa using hg'
              subst this
              left; simpa using hh.symm
            · right; exact (ih l' hr a).mpr ⟨q, hq, g', hg', hh⟩

/-! ### states reachable through the class interface -/

/-- the states a caller can produce: the three constructors of the class followed by any history -/
inductive Reachable : PG P → Prop where
  | init : Reachable (init : PG P)
  | raw (gs : List (List P)) : Reachable ⟨gs, [], false⟩          -- `ProteinGroups(gs)`
  | ofList (gs : List (List P)) : Reachable (ofList gs)           -- `ProteinGroups.init_from_list(gs)`
  | step (pg : PG P) (op : Op P) : Reachable pg → Reachable (step pg op).1

theorem reachable_run (ops : List (Op P)) (pg : PG P) (h : Reachable pg) : Reachable (run pg ops) :=
  run_induction Reachable (fun pg op h => Reachable.step pg op h) ops pg h

theorem reachable_inv (pg : PG P) (h : Reachable pg) : Inv pg ∧ InRange pg := by
  induction h with
  | init => exact ⟨inv_init', inRange_init⟩
  | raw gs => exact ⟨by intro hv; simp at hv, by intro p i h; simp at h⟩
  | ofList gs => exact ⟨inv_ofList gs, inRange_ofList gs⟩
  | step pg op _ ih => exact ⟨inv_step' pg op ih.1, inRange_step pg op ih.2⟩

/-- under a valid index the dict entry of a protein is `none` exactly when no group contains it -/
theorem lookup_none_iff (pg : PG P) (hinv : Inv pg) (hv : pg.valid = true) (p : P) :
    pg.index.lookup p = none ↔ ∀ g ∈ pg.groups, p ∉ g := by
  constructor
  · intro hl g hg hp
    obtain ⟨i, hi, hgi⟩ := List.mem_iff_getElem.mp hg
    have hm : (p, i) ∈ pg.index := by
      rw [hinv hv, mem_buildIndex]
      exact ⟨g, by rw [List.getElem?_eq_getElem hi, hgi], hp⟩
    obtain ⟨b, hb⟩ := lookup_isSome_of_mem _ _ _ hm
    rw [hl] at hb; simp at hb
  · intro h
    apply lookup_none_of_not_mem
    intro i hm
    rw [hinv hv, mem_buildIndex] at hm
    obtain ⟨g, hg, hp⟩ := hm
    exact h g (List.mem_of_getElem? hg) hp

theorem lookup_some_spec (pg : PG P) (hinv : Inv pg) (hv : pg.valid = true) (p : P) (i : Nat)
    (h : pg.index.lookup p = some i) : ∃ g, pg.groups[i]? = some g ∧ p ∈ g := by
  have hm := mem_of_lookup _ _ _ h
  rw [hinv hv, mem_buildIndex] at hm
  exact hm

/-! ### lookup callers -/

/-- a collection whose flag is up is determined by its groups -/
theorem eq_ofList_of_valid (pg : PG P) (hinv : Inv pg) (hv : pg.valid = true) : pg = ofList pg.groups := by
  cases pg with
  | mk gs ix v =>
    simp only at hv
    subst hv
    have h := hinv rfl
    simp only at h
    subst h
    rfl

theorem mapRows_error_of_all {α β : Type} (f : α → Except Err β) (e : Err) :
    ∀ rows : List α, rows ≠ [] → (∀ r ∈ rows, f r = .error e) → mapRows f rows = .error e := by
  intro rows hne h
  cases rows with
  | nil => exact absurd rfl hne
  | cons r rs => simp [mapRows, h r (by simp)]

theorem mapRows_ok {α β : Type} (f : α → Except Err β) :
    ∀ (rows : List α) (l : List β), mapRows f rows = .ok l →
      l.length = rows.length ∧ ∀ (t : Nat) (r : α) (a : β), rows[t]? = some r → l[t]? = some a → f r = .ok a := by
  intro rows
  induction rows with
  | nil =>
    intro l h
    simp [mapRows] at h
    subst h
    simp
  | cons r rs ih =>
    intro l h
    simp only [mapRows] at h
    cases hf : f r with
    | error e => simp [hf] at h
    | ok a =>
      simp only [hf] at h
      cases hr : mapRows f rs with
      | error e => simp [hr] at h
      | ok l' =>
        simp only [hr] at h
        have hl : l = a :: l' := by simpa using h.symm
        subst hl
        obtain ⟨hlen, hpt⟩ := ih l' hr
        refine ⟨by simp [hlen], ?_⟩
        intro t r' a' hr' ha'
        cases t with
        | zero =>
          simp at hr' ha'
          subst hr' ha'
          exact hf
        | succ t =>
          simp at hr' ha'
          exact hpt t r' a' hr' ha'

theorem mapRows_total {α β : Type} (f : α → Except Err β) :
    ∀ rows : List α, (∀ r ∈ rows, ∃ a, f r = .ok a) → ∃ l, mapRows f rows = .ok l := by
  intro rows
  induction rows with
  | nil => intro _; exact ⟨[], rfl⟩
  | cons r rs ih =>
    intro h
    obtain ⟨a, ha⟩ := h r (by simp)
    obtain ⟨l, hl⟩ := ih (fun r' hr' => h r' (by simp [hr']))
    exact ⟨a :: l, by simp [mapRows, ha, hl]⟩

/-- the first failing row decides how the call fails -/
theorem mapRows_error {α β : Type} (f : α → Except Err β) (e : Err) :
    ∀ rows : List α, mapRows f rows = .error e → ∃ r ∈ rows, f r = .error e := by
  intro rows
  induction rows with
  | nil => intro h; simp [mapRows] at h
  | cons r rs ih =>
    intro h
    simp only [mapRows] at h
    cases hf : f r with
    | error e' =>
      simp only [hf] at h
      have : e' = e := by simpa using h
      subst this
      exact ⟨r, by simp, hf⟩
    | ok a =>
      simp only [hf] at h
      cases hr : mapRows f rs with
      | error e' =>
        simp only [hr] at h
        have : e' = e := by simpa using h
        subst this
        obtain ⟨r', hr', hf'⟩ := ih hr
        exact ⟨r', by simp [hr'], hf'⟩
      | ok l => simp [hr] at h

theorem rowAnswer_stale (c : Caller) (pg : PG P) (hv : pg.valid = false) (r : List P) :
    rowAnswer c pg r = .error .invalidIndex := by
  have h1 : getIdxs pg r true = .error .invalidIndex := by simp [getIdxs, hv]
  have h2 : getGroups pg r true = .error .invalidIndex := by simp [getGroups, h1]
  cases c <;> simp [rowAnswer, psmRow, quantRow, annotRow, h1, h2]

/-- under a valid index `getGroups` answers -/
theorem getGroups_total (pg : PG P) (hv : pg.valid = true) (r : List P) :
    ∃ gs, getGroups pg r true = .ok gs := by
  simp [getGroups, getIdxs, hv]

theorem getIdxs_total (pg : PG P) (hv : pg.valid = true) (r : List P) :
    getIdxs pg r true = .ok (firsts (r.map (fun p => pg.index.lookup p))) := by
  simp [getIdxs, hv]

/-- every group returned by the multi-protein lookup holds a queried protein (so it is not empty) -/
theorem getGroups_mem_spec (pg : PG P) (hinv : Inv pg) (r : List P) (gs : List (Nat × List P))
    (h : getGroups pg r true = .ok gs) (x : Nat × List P) (hx : x ∈ gs) :
    pg.groups[x.1]? = some x.2 ∧ ∃ q ∈ r, pg.index.lookup q = some x.1 ∧ q ∈ x.2 := by
  obtain ⟨hv, hspec⟩ := getGroups_ok pg r true gs h
  obtain ⟨hg, q, hq, hl⟩ := (hspec x.1 x.2).mp hx
  obtain ⟨g', hg', hqg⟩ := lookup_some_spec pg hinv (hv rfl) q x.1 hl
  rw [hg] at hg'
  have : x.2 = g' := by simpa using hg'
  subst this
  exact ⟨hg, q, hq, hl, hqg⟩

/-- a row none of whose proteins is in a group: the multi-protein lookup returns no group, the position
    set holds at most the missing marker -/
theorem getGroups_of_missing (pg : PG P) (hinv : Inv pg) (hv : pg.valid = true) (r : List P)
    (hm : ∀ p ∈ r, ∀ g ∈ pg.groups, p ∉ g) : getGroups pg r true = .ok [] := by
  obtain ⟨gs, hgs⟩ := getGroups_total pg hv r
  rw [hgs]
  cases gs with
  | nil => rfl
  | cons x t =>
    exfalso
    obtain ⟨hg, q, hq, _, hqg⟩ := getGroups_mem_spec pg hinv r _ hgs x (by simp)
    exact hm q hq x.2 (List.mem_of_getElem? hg) hqg

theorem isMissing_of_missing (pg : PG P) (hinv : Inv pg) (hv : pg.valid = true) (r : List P)
    (hm : ∀ p ∈ r, ∀ g ∈ pg.groups, p ∉ g) :
    isMissingIdxs (firsts (r.map (fun p => pg.index.lookup p))) = true := by
  simp only [isMissingIdxs, List.all_eq_true, Option.isNone_iff_eq_none]
  intro o ho
  rw [mem_firsts, List.mem_map] at ho
  obtain ⟨p, hp, rfl⟩ := ho
  exact (lookup_none_iff pg hinv hv p).mpr (hm p hp)


theorem eq_singleton_of_length_le_one {α : Type} (l : List α) (x : α) (hl : l.length ≤ 1) (hx : x ∈ l) :
    l = [x] := by
  cases l with
  | nil => simp at hx
  | cons a t =>
    cases t with
    | nil => simp at hx; rw [hx]
    | cons b t' => simp at hl

/-- `psmRow` under a valid index of a reachable collection never fails, and its three outcomes -/
theorem psmRow_cases (pg : PG P) (hinv : Inv pg) (hv : pg.valid = true) (r : List P) :
    ∃ gs, getGroups pg r true = .ok gs ∧
      ((gs = [] ∧ psmRow pg r = .ok .dropped) ∨
       (gs.length > 1 ∧ psmRow pg r = .ok .dropped) ∨
       (∃ x a t, gs = [x] ∧ x.2 = a :: t ∧ psmRow pg r = .ok (if a ∈ r then .written a else .dropped))) := by
  obtain ⟨gs, hgs⟩ := getGroups_total pg hv r
  refine ⟨gs, hgs, ?_⟩
  cases gs with
  | nil => left; exact ⟨rfl, by simp [psmRow, hgs, isMissingGroups]⟩
  | cons x t =>
    cases t with
    | cons y t' => right; left; exact ⟨by simp, by simp [psmRow, hgs, isMissingGroups, isSharedGroups]⟩
    | nil =>
      right; right
      obtain ⟨_, q, _, _, hqg⟩ := getGroups_mem_spec pg hinv r _ hgs x (by simp)
      cases hx : x.2 with
      | nil => rw [hx] at hqg; simp at hqg
      | cons a t => exact ⟨x, a, t, rfl, hx, by simp [psmRow, hgs, isMissingGroups, isSharedGroups, hx]⟩

theorem quantRow_total (pg : PG P) (hv : pg.valid = true) (r : List P) : ∃ a, quantRow pg r = .ok a := by
  unfold quantRow
  rw [getIdxs_total pg hv r]
  simp only
  split
  · exact ⟨_, rfl⟩
  · split
    · exact ⟨_, rfl⟩
    · split <;> exact ⟨_, rfl⟩

theorem quantRow_attached (pg : PG P) (r : List P) (i : Nat) (h : quantRow pg r = .ok (.attached i)) :
    pg.valid = true ∧ r ≠ [] ∧ ∀ p ∈ r, pg.index.lookup p = some i := by
  unfold quantRow at h
  cases hi : getIdxs pg r true with
  | error e => simp [hi] at h
  | ok is =>
    obtain ⟨his, hv⟩ := getIdxs_ok pg r true is hi
    simp only [hi] at h
    split at h
    · simp at h
    · split at h
      · simp at h
      · rename_i hns
        split at h
        · rename_i j hj
          have hij : j = i := by simpa using h
          subst hij
          have hmem : some j ∈ is := by
            cases is with
            | nil => simp at hj
            | cons o os => simp at hj; simp [hj]
          have hlen : (firsts is).length ≤ 1 := by
            simp only [isSharedIdxs, decide_eq_true_eq] at hns
            omega
          have hf := eq_singleton_of_length_le_one (firsts is) (some j) hlen ((mem_firsts is _).mpr hmem)
          have hall : ∀ o ∈ is, o = some j := by
            intro o ho
            have := (mem_firsts is o).mpr ho
            rw [hf] at this
            simpa using this
          refine ⟨hv rfl, ?_, ?_⟩
          · intro hr
            rw [hr] at his
            simp [firsts] at his
            rw [his] at hmem
            simp at hmem
          · intro p hp
            apply hall
            rw [his, mem_firsts, List.mem_map]
            exact ⟨p, hp, rfl⟩
        · simp at h

theorem annotRow_cases (pg : PG P) (hv : pg.valid = true) (r : List P) :
    ∃ gs, getGroups pg r true = .ok gs ∧
      ((gs = [] ∧ annotRow pg r = .error .indexError) ∨
       (gs ≠ [] ∧ annotRow pg r = .ok (.leaders (gs.filterMap (fun x => x.2.head?))))) := by
  obtain ⟨gs, hgs⟩ := getGroups_total pg hv r
  refine ⟨gs, hgs, ?_⟩
  cases gs with
  | nil => left; exact ⟨rfl, by simp [annotRow, hgs]⟩
  | cons x t => right; exact ⟨by simp, by simp [annotRow, hgs]⟩

/-- `getGroups` returns nothing only for a row none of whose proteins is in a group -/
theorem missing_of_getGroups_nil (pg : PG P) (hinv : Inv pg) (r : List P)
    (h : getGroups pg r true = .ok []) : ∀ p ∈ r, ∀ g ∈ pg.groups, p ∉ g := by
  obtain ⟨hv, hspec⟩ := getGroups_ok pg r true [] h
  intro p hp
  cases hl : pg.index.lookup p with
  | none => exact (lookup_none_iff pg hinv (hv rfl) p).mp hl
  | some i =>
    obtain ⟨g', hg', _⟩ := lookup_some_spec pg hinv (hv rfl) p i hl
    have : (i, g') ∈ ([] : List (Nat × List P)) := (hspec i g').mpr ⟨hg', p, hp, hl⟩
    simp at this

/-- a row of a lookup caller on a reachable, indexed collection fails only in `append_columns`, only with
    `[][0]`, only for a row none of whose proteins is in a group -/
theorem rowAnswer_error (c : Caller) (pg : PG P) (hinv : Inv pg) (hv : pg.valid = true) (r : List P) (e : Err)
    (h : rowAnswer c pg r = .error e) :
    c = .annotate ∧ e = .indexError ∧ ∀ p ∈ r, ∀ g ∈ pg.groups, p ∉ g := by
  have hq : ∀ e, quantRow pg r ≠ .error e := by
    intro e he
    obtain ⟨a, ha⟩ := quantRow_total pg hv r
    rw [ha] at he; cases he
  have hp : ∀ e, psmRow pg r ≠ .error e := by
    intro e he
    obtain ⟨gs, _, h1 | h1 | ⟨x, a, t, _, _, h1⟩⟩ := psmRow_cases pg hinv hv r
    · rw [h1.2] at he; cases he
    · rw [h1.2] at he; cases he
    · rw [h1] at he; cases he
  cases c with
  | annotate =>
    refine ⟨rfl, ?_⟩
    simp only [rowAnswer] at h
    obtain ⟨gs, hgs, ⟨hnil, h1⟩ | ⟨_, h1⟩⟩ := annotRow_cases pg hv r
    · rw [h1] at h
      refine ⟨by simpa using h.symm, ?_⟩
      rw [hnil] at hgs
      exact missing_of_getGroups_nil pg hinv r hgs
    · rw [h1] at h; cases h
  | psmUpdate => exact absurd h (hp e)
  | fragpipeQuant => exact absurd h (hq e)
  | fragpipeIon => exact absurd h (hq e)
  | sageQuant => exact absurd h (hq e)
  | sageLfq => exact absurd h (hq e)
  | maxquantQuant => exact absurd h (hq e)
  | collectScores => exact absurd h (hq e)


/-- no protein sits at two positions of the collection -/
def DisjointPos (gs : List (List P)) : Prop :=
  ∀ (i j : Nat) (g₁ g₂ : List P) (p : P), gs[i]? = some g₁ → gs[j]? = some g₂ → p ∈ g₁ → p ∈ g₂ → i = j

theorem lookup_of_mem_disjoint (pg : PG P) (hinv : Inv pg) (hv : pg.valid = true) (hd : DisjointPos pg.groups)
    (i : Nat) (g : List P) (hg : pg.groups[i]? = some g) (p : P) (hp : p ∈ g) :
    pg.index.lookup p = some i := by
  cases hl : pg.index.lookup p with
  | none => exact absurd hp ((lookup_none_iff pg hinv hv p).mp hl g (List.mem_of_getElem? hg))
  | some j =>
    obtain ⟨g', hg', hp'⟩ := lookup_some_spec pg hinv hv p j hl
    rw [hd j i g' g p hg' hg hp' hp]

theorem firsts_of_const {α : Type} [DecidableEq α] (x : α) :
    ∀ l : List α, l ≠ [] → (∀ y ∈ l, y = x) → firsts l = [x] := by
  intro l
  induction l with
  | nil => intro h; exact absurd rfl h
  | cons a t ih =>
    intro _ hall
    have ha : a = x := hall a (by simp)
    subst ha
    simp only [firsts]
    have : (firsts t).filter (fun y => decide (y ≠ a)) = [] := by
      rw [List.filter_eq_nil_iff]
      intro y hy
      have : y = a := hall y (by simp [(mem_firsts t y).mp hy])
      simp [this]
    rw [this]

theorem quantRow_of_all_in (pg : PG P) (hinv : Inv pg) (hv : pg.valid = true) (hd : DisjointPos pg.groups)
    (r : List P) (i : Nat) (g : List P) (hg : pg.groups[i]? = some g) (hne : r ≠ []) (hall : ∀ p ∈ r, p ∈ g) :
    quantRow pg r = .ok (.attached i) := by
  have hf : firsts (r.map (fun p => pg.index.lookup p)) = [some i] := by
    apply firsts_of_const
    · simpa using hne
    · intro y hy
      obtain ⟨p, hp, rfl⟩ := List.mem_map.mp hy
      exact lookup_of_mem_disjoint pg hinv hv hd i g hg p (hall p hp)
  unfold quantRow
  rw [getIdxs_total pg hv r, hf]
  simp [isMissingIdxs, isSharedIdxs, firsts]

theorem psmRow_of_one_group (pg : PG P) (hinv : Inv pg) (hv : pg.valid = true) (hd : DisjointPos pg.groups)
    (r : List P) (i : Nat) (g : List P) (hg : pg.groups[i]? = some g) (hex : ∃ p ∈ r, p ∈ g)
    (hall : ∀ p ∈ r, (∃ g' ∈ pg.groups, p ∈ g') → p ∈ g) (a : P) (ha : g.head? = some a) :
    psmRow pg r = .ok (if a ∈ r then .written a else .dropped) := by
  obtain ⟨gs, hgs, h1 | h1 | ⟨x, a', t, hx, hxa, h1⟩⟩ := psmRow_cases pg hinv hv r
  · exfalso
    obtain ⟨p, hp, hpg⟩ := hex
    rw [h1.1] at hgs
    exact missing_of_getGroups_nil pg hinv r hgs p hp g (List.mem_of_getElem? hg) hpg
  · exfalso
    -- two returned groups sit at the same position i
    have hpos : ∀ y ∈ gs, y.1 = i := by
      intro y hy
      obtain ⟨hyg, q, hq, _, hqy⟩ := getGroups_mem_spec pg hinv r gs hgs y hy
      have := hall q hq ⟨y.2, List.mem_of_getElem? hyg, hqy⟩
      exact hd y.1 i y.2 g q hyg hg hqy this
    have hnd := getGroups_nodup pg r true gs hgs
    cases gs with
    | nil => simp at h1
    | cons y t =>
      cases t with
      | nil => simp at h1
      | cons z t' =>
        have h1' := hpos y (by simp)
        have h2' := hpos z (by simp)
        simp [h1', h2'] at hnd
  · rw [h1]
    rw [hx] at hgs
    obtain ⟨hxg, q, hq, _, hqx⟩ := getGroups_mem_spec pg hinv r [x] hgs x (by simp)
    have hqg := hall q hq ⟨x.2, List.mem_of_getElem? hxg, hqx⟩
    have hxi : x.1 = i := hd x.1 i x.2 g q hxg hg hqx hqg
    rw [hxi, hg] at hxg
    have : g = x.2 := by simpa using hxg
    rw [this, hxa] at ha
    have : a' = a := by simpa using ha
    rw [this]

end PgFdr.C20
