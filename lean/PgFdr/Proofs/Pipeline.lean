import PgFdr.Model.Pipeline
import PgFdr.Proofs.C07
import PgFdr.Props.C03
import PgFdr.Props.C04
import PgFdr.Props.C05

/-!
Structural lemmas about the composed model `PgFdr.Pipeline.run` (Model/Pipeline.lean): what a
successful run says about its final pass, stated with the stage functions (C02 competition, C01 FDR,
C06 report, C05 evidence, C03/C04 grouping), so that the stage theorems can be instantiated for the
whole inference function (`Props/C01.lean`, `Props/C06.lean`, `Props/C18.lean`).

This file must stay importable from `Props/C01.lean` and `Props/C06.lean`: it imports neither.
-/
namespace PgFdr.Pipeline

/-- the peptide list is a dict: no peptide key occurs twice (the implementation's `PeptideInfoList`
    is a Python `dict`, so this holds for every input the real function can receive) -/
def distinctPeptides (pil : List PepInfo) : Prop := (pil.map (·.peptide)).Nodup

instance (pil : List PepInfo) : Decidable (distinctPeptides pil) := by
  unfold distinctPeptides; infer_instance

/-! ### the final pass and the recorded parameters it was run with -/

/-- the pass whose rows are reported: the rescue pass if there is one, else the first pass -/
def Result.final (r : Result) : PassOut := r.pass2.getD r.pass1

/-- `true` iff the reported pass is the rescue pass -/
def Result.rescued (r : Result) : Bool := r.pass2.isSome

/-- the peptide-level PEP cutoff handed to the report: the rescue pass's cutoff, `inf` (none) otherwise -/
def Result.cutoff (r : Result) : Option Rat := if r.rescued then some r.final.pepCutoff else none

/-- the recorded float scores of the final competition -/
def finalScores (inp : Input) (r : Result) : List Rat := if r.rescued then inp.scores2 else inp.scores1
/-- the recorded first / second shuffle of the final competition -/
def finalShuffle1 (inp : Input) (r : Result) : List Nat := shuffleAt inp (if r.rescued then 2 else 0)
def finalShuffle2 (inp : Input) (r : Result) : List Nat := shuffleAt inp (if r.rescued then 3 else 1)

/-- the placeholder groups (with the evidence of the absorbed first-pass groups) appended for the
    final competition: only in the rescue pass of a picked-group method -/
def finalExtra (cfg : Config) (r : Result) : List (List String × List Evidence) :=
  match r.rescue with
  | some out => if isPickedGroup cfg.mode then out.obsolete.zip out.obsoleteInfos else []
  | none => []

/-- `zip(groups, infos, scores)` handed to the final `do_competition` -/
def finalItems (inp : Input) (r : Result) : List C02.Item :=
  zipItems r.final.compGroups r.final.compInfos (finalScores inp r)

/-! ### one pass -/

/-- everything a successful pass establishes -/
structure PassSpec (cfg : Config) (inp : Input) (p : PassOut) (rescueStep : Bool)
    (extra : List (List String × List Evidence)) (scores : List Rat) (π₁ π₂ : List Nat) : Prop where
  collect : C05.collectEvidence p.groups inp.pil (razorOf cfg inp) rescueStep = .ok (p.infos, p.pepList)
  pepCutoff : p.pepCutoff = C17.cutoff (p.pepList.map C17.PepVal.fin) inp.psm
  compGroups : p.compGroups = p.groups ++ extra.map (·.1)
  compInfos : p.compInfos = p.infos ++ extra.map (·.2)
  scoresLen : scores.length = p.compGroups.length
  shuffles : C02.ShufflesOK cfg.mode (zipItems p.compGroups p.compInfos scores) π₁ π₂
  ranking : p.ranking = C02.doCompetition cfg.mode (zipItems p.compGroups p.compInfos scores) π₁ π₂
  ranking_ne : p.ranking ≠ []
  fdrs : C01.calcProteinFdrs (p.ranking.map (·.group)) (p.ranking.map (·.score)) = .ok (p.fdrs, p.qvals)
  rows : C06.fromProteinGroups (p.ranking.map (·.group)) (p.ranking.map (·.evidence))
      (p.ranking.map (·.score)) p.qvals (if rescueStep then some p.pepCutoff else none) inp.keepAll = .ok p.rows

theorem runPassFrom_spec (cfg : Config) (inp : Input) (groups : List (List String))
    (extra : List (List String × List Evidence)) (rs : Bool) (scores : List Rat) (π₁ π₂ : List Nat)
    (p : PassOut) (s : List String)
    (h : runPassFrom cfg inp [] groups extra rs scores π₁ π₂ = .ok (p, s)) :
    p.groups = groups ∧ PassSpec cfg inp p rs extra scores π₁ π₂ := by
  unfold runPassFrom at h
  split at h
  · contradiction
  rename_i infos peps hc
  dsimp only at h
  -- peel the guards (`if … then error`, `match … | error`) one by one; robust against further guards
  -- being added in front of the length test
  repeat (split at h; contradiction)
  rename_i hlen hfit hne _ fdrs qvals hf _ rows hr
  simp only [Except.ok.injEq, Prod.mk.injEq] at h
  obtain ⟨rfl, -⟩ := h
  refine ⟨rfl, ?_⟩
  have hok : C02.ShufflesOK cfg.mode
      (zipItems (groups ++ extra.map (·.1)) (infos ++ extra.map (·.2)) scores) π₁ π₂ :=
    C02.shufflesOK_of_fit cfg.mode ⟨_, π₁, π₂⟩ (by simpa using hfit)
  exact {
    collect := hc
    pepCutoff := rfl
    compGroups := rfl
    compInfos := rfl
    scoresLen := by simpa using hlen
    shuffles := hok
    ranking := rfl
    ranking_ne := by
      intro h0
      apply hne
      simp only [List.isEmpty_iff]
      exact h0
    fdrs := hf
    rows := hr }

/-! ### the whole call -/

/-- everything a successful call establishes: the first pass ran on the first grouping; either there is
    no rescue pass, or the rescue stage produced `out` from the first pass's groups and evidence and the
    second pass ran on `out.groups` with the placeholders appended (picked-group methods only) -/
structure RunSpec (cfg : Config) (inp : Input) (r : Result) : Prop where
  groups1 : r.pass1.groups = firstGrouping cfg inp.pil
  pass1 : PassSpec cfg inp r.pass1 false [] inp.scores1 (shuffleAt inp 0) (shuffleAt inp 1)
  cases :
    (cfg.grouping ≠ .rescuedSubset ∧ r.pass2 = none ∧ r.rescue = none ∧ r.rows = r.pass1.rows) ∨
    (cfg.grouping = .rescuedSubset ∧ ∃ (p2 : PassOut) (out : C04.RescueOut (List Evidence)) (cutoff s : Rat),
      r.pass2 = some p2 ∧ r.rescue = some out ∧ r.rescueScore = some s ∧ inp.rescueCutoff = some cutoff ∧
      C04.rescueScore (r.pass1.rows.map (fun row => (row.score, row.qValue))) inp.thr = some s ∧
      C04.rescueGroups (r.pass1.groups.zip r.pass1.infos) inp.pil cutoff inp.cuts = .ok out ∧
      p2.groups = out.groups ∧
      PassSpec cfg inp p2 true (if isPickedGroup cfg.mode then out.obsolete.zip out.obsoleteInfos else [])
        inp.scores2 (shuffleAt inp 2) (shuffleAt inp 3) ∧
      r.rows = p2.rows)

theorem run_spec (cfg : Config) (inp : Input) (r : Result) (h : run cfg inp = .ok r) : RunSpec cfg inp r := by
  unfold run at h
  split at h
  · contradiction
  · rename_i r' s hrf
    simp only [Except.ok.injEq] at h
    subst h
    unfold runFrom at hrf
    dsimp only at hrf
    split at hrf
    · contradiction
    · rename_i p1 seen1 h1
      have hs1 : seen1 = [] := runPassFrom_seen _ _ _ _ _ _ _ _ _ _ h1
      subst hs1
      obtain ⟨hg1, hp1⟩ := runPassFrom_spec _ _ _ _ _ _ _ _ _ _ h1
      split at hrf
      · rename_i hgr
        simp only [Except.ok.injEq, Prod.mk.injEq] at hrf
        obtain ⟨rfl, -⟩ := hrf
        exact ⟨hg1, hp1, Or.inl ⟨hgr, rfl, rfl, rfl⟩⟩
      · rename_i hgr
        have hgr' : cfg.grouping = .rescuedSubset := by
          by_contra hne; exact hgr hne
        split at hrf
        · contradiction
        · rename_i sc hsc
          split at hrf
          · contradiction
          · rename_i cutoff hcut
            split at hrf
            · contradiction
            · rename_i out hout
              split at hrf
              · contradiction
              · rename_i p2 seen2 h2
                obtain ⟨hg2, hp2⟩ := runPassFrom_spec _ _ _ _ _ _ _ _ _ _ h2
                simp only [Except.ok.injEq, Prod.mk.injEq] at hrf
                obtain ⟨rfl, -⟩ := hrf
                exact ⟨hg1, hp1, Or.inr ⟨hgr', p2, out, cutoff, sc, rfl, rfl, rfl, hcut, hsc, hout, hg2, hp2, rfl⟩⟩

/-- the final pass satisfies `PassSpec` with the recorded parameters named by `final*` -/
theorem final_spec (cfg : Config) (inp : Input) (r : Result) (h : run cfg inp = .ok r) :
    PassSpec cfg inp r.final r.rescued (finalExtra cfg r) (finalScores inp r)
      (finalShuffle1 inp r) (finalShuffle2 inp r) ∧ r.rows = r.final.rows := by
  obtain ⟨-, hp1, hc⟩ := run_spec cfg inp r h
  rcases hc with ⟨-, h2, hr, hrows⟩ | ⟨-, p2, out, cutoff, s, h2, hr, -, -, -, -, -, hp2, hrows⟩
  · simp only [Result.final, Result.rescued, finalExtra, finalScores, finalShuffle1, finalShuffle2, h2, hr,
      Option.getD_none, Option.isSome_none, Bool.false_eq_true, if_false]
    exact ⟨hp1, hrows⟩
  · simp only [Result.final, Result.rescued, finalExtra, finalScores, finalShuffle1, finalShuffle2, h2, hr,
      Option.getD_some, Option.isSome_some, if_true]
    exact ⟨hp2, hrows⟩

/-! ### survivors of the competition are input triples, each used at most once -/

/-- the ranking is a rearrangement of a sub-list of the zipped input: there is a list `l`, a
    permutation of the ranking, that is a sub-list (same order, nothing repeated) of the input items -/
theorem _root_.PgFdr.C02.doCompetition_subperm (mode : C02.Mode) (items : List C02.Item) (π₁ π₂ : List Nat)
    (ok : C02.ShufflesOK mode items π₁ π₂) :
    ∃ l : List C02.Item, l.Perm (C02.doCompetition mode items π₁ π₂) ∧ l.Sublist items := by
  have h1 : (C02.doCompetition mode items π₁ π₂).Subperm (C02.keptFrom mode [] items π₁) :=
    (C02.final_perm_kept mode items π₁ π₂ ok).subperm
  have h2 : (C02.keptFrom mode [] items π₁).Subperm (C02.passOrder items π₁) :=
    (C02.pass_sublist (C02.strategy mode) C02.contam (C02.passOrder items π₁) []).subperm
  have h3 : (C02.passOrder items π₁).Subperm (items.filter (·.hasEvidence)) :=
    (C02.passOrder_perm items π₁ ok.p1).subperm
  have h4 : (items.filter (·.hasEvidence)).Subperm items := List.filter_sublist.subperm
  exact ((h1.trans h2).trans h3).trans h4

theorem zipItems_map_group_sublist : ∀ (gs : List (List String)) (es : List (List Evidence)) (ss : List Rat),
    ((zipItems gs es ss).map (·.group)).Sublist gs := by
  intro gs
  induction gs with
  | nil => intro es ss; simp [zipItems]
  | cons g gs ih =>
    intro es ss
    cases es with
    | nil => simp [zipItems]
    | cons e es =>
      cases ss with
      | nil => simp [zipItems]
      | cons s ss =>
        simp only [zipItems, List.map_cons]
        exact (ih es ss).cons_cons g

theorem mem_zipItems : ∀ (gs : List (List String)) (es : List (List Evidence)) (ss : List Rat) (x : C02.Item),
    x ∈ zipItems gs es ss → ∃ i : Nat, gs[i]? = some x.group ∧ es[i]? = some x.evidence ∧ ss[i]? = some x.score := by
  intro gs
  induction gs with
  | nil => intro es ss x h; simp [zipItems] at h
  | cons g gs ih =>
    intro es ss x h
    cases es with
    | nil => simp [zipItems] at h
    | cons e es =>
      cases ss with
      | nil => simp [zipItems] at h
      | cons s ss =>
        simp only [zipItems, List.mem_cons] at h
        rcases h with rfl | h
        · exact ⟨0, rfl, rfl, rfl⟩
        · obtain ⟨i, h1, h2, h3⟩ := ih es ss x h
          exact ⟨i + 1, by simpa using h1, by simpa using h2, by simpa using h3⟩

/-! ### groups handed to a competition never share a protein, placeholders aside -/

/-- two groups share no protein, unless one of them is a placeholder (`is_obsolete`: skipped by the report) -/
def RegDisjoint (a b : List String) : Prop :=
  isObsolete a = false → isObsolete b = false → ∀ q, q ∈ a → q ∉ b

theorem RegDisjoint.symm {a b : List String} (h : RegDisjoint a b) : RegDisjoint b a :=
  fun hb ha q hq hqa => h ha hb q hqa hq

theorem pairwise_regDisjoint_of_nodup (gs : List (List String)) (h : gs.flatten.Nodup) :
    gs.Pairwise RegDisjoint :=
  (List.nodup_flatten.mp h).2.imp (fun hd _ _ _ hqa hqb => hd hqa hqb)

theorem pairwise_regDisjoint_append (gs ex : List (List String)) (h : gs.flatten.Nodup)
    (hex : ∀ g ∈ ex, isObsolete g = true) : (gs ++ ex).Pairwise RegDisjoint := by
  rw [List.pairwise_append]
  refine ⟨pairwise_regDisjoint_of_nodup gs h, ?_, ?_⟩
  · apply List.pairwise_of_forall_mem_list
    intro a ha b _ hoa
    rw [hex a ha] at hoa; exact Bool.noConfusion hoa
  · intro a _ b hb _ hob
    rw [hex b hb] at hob; exact Bool.noConfusion hob

/-- the groups of a ranking inherit `RegDisjoint` from the groups handed to the competition -/
theorem ranking_regDisjoint (mode : C02.Mode) (gs : List (List String)) (es : List (List Evidence))
    (ss : List Rat) (π₁ π₂ : List Nat) (ok : C02.ShufflesOK mode (zipItems gs es ss) π₁ π₂)
    (h : gs.Pairwise RegDisjoint) :
    ((C02.doCompetition mode (zipItems gs es ss) π₁ π₂).map (·.group)).Pairwise RegDisjoint := by
  obtain ⟨l, hperm, hsub⟩ := C02.doCompetition_subperm mode _ π₁ π₂ ok
  have h1 : (l.map (·.group)).Pairwise RegDisjoint :=
    List.Pairwise.sublist ((hsub.map _).trans (zipItems_map_group_sublist gs es ss)) h
  exact (List.Perm.pairwise_iff (fun h => RegDisjoint.symm h) (hperm.map _)).mp h1

/-! ### the first grouping is a partition of the observed proteins -/

theorem toPairs_keys (pil : List PepInfo) : (C03.toPairs pil).map (·.1) = pil.map (·.peptide) := by
  simp [C03.toPairs, List.map_map, Function.comp_def]

theorem mem_toPairs_iff (pil : List PepInfo) (q : String) :
    (∃ e ∈ C03.toPairs pil, q ∈ e.2) ↔ ∃ x ∈ pil, q ∈ x.proteins := by
  simp [C03.toPairs]

/-- for every shipped grouping the first-pass groups are pairwise disjoint, each lists a protein once,
    and together they hold exactly the proteins some peptide maps to -/
theorem firstGrouping_partition (cfg : Config) (pil : List PepInfo) (hk : distinctPeptides pil) :
    (firstGrouping cfg pil).flatten.Nodup ∧
    ∀ q, q ∈ (firstGrouping cfg pil).flatten ↔ ∃ x ∈ pil, q ∈ x.proteins := by
  have hk' : ((C03.toPairs pil).map (·.1)).Nodup := by rw [toPairs_keys]; exact hk
  unfold firstGrouping
  cases cfg.grouping with
  | no =>
    obtain ⟨-, -, h3, h4⟩ := C03.nogrouping_singletons (C03.toPairs pil)
    exact ⟨h3, fun q => (h4 q).trans (mem_toPairs_iff pil q)⟩
  | subset =>
    obtain ⟨-, h3, h4⟩ := C03.subset_partition (C03.toPairs pil) hk'
    exact ⟨h3, fun q => (h4 q).trans (mem_toPairs_iff pil q)⟩
  | rescuedSubset =>
    obtain ⟨-, h3, h4⟩ := C03.subset_partition (C03.toPairs pil) hk'
    exact ⟨h3, fun q => (h4 q).trans (mem_toPairs_iff pil q)⟩
  | pseudoGene =>
    obtain ⟨-, h3, h4⟩ := C03.pseudogene_partition C03.strLe (C03.toPairs pil) hk'
    exact ⟨h3, fun q => (h4 q).trans (mem_toPairs_iff pil q)⟩

/-! ### evidence lists hold every peptide at most once -/

theorem evFor_fields (groups : List (List String)) (rz : Option C05.Razor) (i : Nat) (x : PepInfo) (e : Evidence)
    (h : C05.evFor groups rz i x = some e) : e.peptide = x.peptide ∧ e.pep = x.pep := by
  unfold C05.evFor C05.assign at h
  cases hf : C05.filterProteins rz x.proteins with
  | error err => rw [hf] at h; simp at h
  | ok prots =>
    rw [hf] at h
    simp only at h
    cases hs : C05.supportOf groups prots with
    | none => rw [hs] at h; simp at h
    | some j =>
      rw [hs] at h
      simp only at h
      by_cases hji : j = i
      · subst hji
        simp only [if_true, Option.some.injEq] at h
        subst h
        exact ⟨rfl, rfl⟩
      · simp [hji] at h

theorem filterMap_map_sublist {α β γ : Type} (f : α → Option β) (g : β → γ) (k : α → γ)
    (hfg : ∀ a b, f a = some b → g b = k a) : ∀ l : List α, ((l.filterMap f).map g).Sublist (l.map k) := by
  intro l
  induction l with
  | nil => simp
  | cons a l ih =>
    rw [List.filterMap_cons]
    cases hf : f a with
    | none => simp only [List.map_cons]; exact ih.cons _
    | some b =>
      simp only [List.map_cons]
      rw [hfg a b hf]
      exact ih.cons_cons _

/-- "a group's evidence holds every peptide once": every evidence list built by
    `collect_peptide_scores_per_protein` from a dict lists a peptide at most once, in both modes -/
theorem collect_evidence_nodup (groups : List (List String)) (pil : List PepInfo) (rz : Option C05.Razor)
    (suppress : Bool) (evs : List (List Evidence)) (peps : List Rat)
    (h : C05.collectEvidence groups pil rz suppress = .ok (evs, peps)) (hk : distinctPeptides pil) :
    evs.length = groups.length ∧ ∀ info ∈ evs, (info.map (·.peptide)).Nodup := by
  obtain ⟨hlen, hget, -⟩ := C05.collect_get groups pil rz suppress evs peps h
  refine ⟨hlen, ?_⟩
  intro info hinfo
  obtain ⟨i, hi⟩ := List.getElem?_of_mem hinfo
  have hil : i < groups.length := by rw [← hlen]; exact (List.getElem?_eq_some_iff.mp hi).1
  rw [hget i hil] at hi
  obtain rfl := Option.some.inj hi
  exact (filterMap_map_sublist (C05.evFor groups rz i) (fun e : Evidence => e.peptide) (fun x : PepInfo => x.peptide)
    (fun a b hab => (evFor_fields groups rz i a b hab).1) pil).nodup hk

/-! ### the rescue stage inside the pipeline -/

theorem rescue_extra_spec (old : List (List String × List Evidence)) (pil : List PepInfo) (cutoff : Rat)
    (cuts : C04.CutMap) (out : C04.RescueOut (List Evidence))
    (hrun : C04.rescueGroups old pil cutoff cuts = .ok out) :
    ∀ e ∈ out.obsolete.zip out.obsoleteInfos, isObsolete e.1 = true ∧ e.2 ∈ old.map (·.2) := by
  obtain ⟨lvs, -, -, -, -, ho, hi⟩ :=
    C04.run_spec (C04.subsetOf (C04.filterByCutoff pil cutoff)) old pil cutoff cuts out hrun
  intro e he
  rw [ho, hi, List.zip_map'] at he
  obtain ⟨a, ha, rfl⟩ := List.mem_map.mp he
  refine ⟨C04.isObsolete_placeholder _, ?_⟩
  exact List.mem_map.mpr ⟨a, (List.mem_filter.mp ha).1, rfl⟩

/-- the groups of the rescue pass are again a partition of the first-pass proteins -/
theorem rescue_groups_partition (groups : List (List String)) (infos : List (List Evidence))
    (pil : List PepInfo) (cutoff : Rat) (cuts : C04.CutMap) (out : C04.RescueOut (List Evidence))
    (hrun : C04.rescueGroups (groups.zip infos) pil cutoff cuts = .ok out)
    (hk : distinctPeptides pil) (hlen : infos.length = groups.length) (hnd : groups.flatten.Nodup)
    (hcov : ∀ x ∈ pil, ∀ q ∈ x.proteins, q ∈ groups.flatten) :
    out.groups.flatten.Perm groups.flatten ∧ out.groups.flatten.Nodup := by
  have hfst : (groups.zip infos).map (·.1) = groups := List.map_fst_zip (by omega)
  have := C04.rescue_partition_subset (groups.zip infos) pil cutoff cuts out hrun hk
    (by rw [hfst]; exact hnd) (by intro x hx _ q hq; rw [hfst]; exact hcov x hx q hq)
  rw [hfst] at this
  exact ⟨this.1, this.1.nodup_iff.mpr hnd⟩

/-! ### what holds for the final pass of every successful call on a dict input -/

structure FinalFacts (cfg : Config) (inp : Input) (r : Result) : Prop where
  /-- the groups the final evidence was collected for are a partition of the observed proteins -/
  groups_nodup : r.final.groups.flatten.Nodup
  groups_cover : ∀ q, q ∈ r.final.groups.flatten ↔ ∃ x ∈ inp.pil, q ∈ x.proteins
  infos_len : r.final.infos.length = r.final.groups.length
  /-- appended placeholder groups are all `is_obsolete` -/
  extra_obsolete : ∀ e ∈ finalExtra cfg r, isObsolete e.1 = true
  /-- every evidence list handed to the final competition holds a peptide at most once -/
  comp_infos_nodup : ∀ info ∈ r.final.compInfos, (info.map (·.peptide)).Nodup
  comp_groups : r.final.compGroups.Pairwise RegDisjoint

theorem final_facts (cfg : Config) (inp : Input) (r : Result) (h : run cfg inp = .ok r)
    (hk : distinctPeptides inp.pil) : FinalFacts cfg inp r := by
  obtain ⟨hg1, hp1, hc⟩ := run_spec cfg inp r h
  obtain ⟨hnd1, hcov1⟩ := firstGrouping_partition cfg inp.pil hk
  rw [← hg1] at hnd1 hcov1
  obtain ⟨hlen1, hev1⟩ := collect_evidence_nodup _ _ _ _ _ _ hp1.collect hk
  rcases hc with ⟨-, h2, hr, -⟩ | ⟨-, p2, out, cutoff, s, h2, hr, -, -, -, hout, hg2, hp2, -⟩
  · have hfin : r.final = r.pass1 := by simp [Result.final, h2]
    have hex : finalExtra cfg r = [] := by simp [finalExtra, hr]
    refine ⟨by rw [hfin]; exact hnd1, by rw [hfin]; exact hcov1, by rw [hfin]; exact hlen1,
      by rw [hex]; simp, ?_, ?_⟩
    · rw [hfin, hp1.compInfos]; simpa using hev1
    · rw [hfin, hp1.compGroups]; simpa using pairwise_regDisjoint_of_nodup _ hnd1
  · have hfin : r.final = p2 := by simp [Result.final, h2]
    have hex : finalExtra cfg r = if isPickedGroup cfg.mode then out.obsolete.zip out.obsoleteInfos else [] := by
      simp [finalExtra, hr]
    obtain ⟨hperm, hnd2⟩ := rescue_groups_partition _ _ _ _ _ _ hout hk hlen1 hnd1
      (fun x hx q hq => (hcov1 q).mpr ⟨x, hx, hq⟩)
    obtain ⟨hlen2, hev2⟩ := collect_evidence_nodup _ _ _ _ _ _ hp2.collect hk
    have hexs := rescue_extra_spec _ _ _ _ _ hout
    have hsnd : (r.pass1.groups.zip r.pass1.infos).map (·.2) = r.pass1.infos := List.map_snd_zip (by omega)
    have hex_obs : ∀ e ∈ (if isPickedGroup cfg.mode then out.obsolete.zip out.obsoleteInfos else []),
        isObsolete e.1 = true ∧ (e.2.map (·.peptide)).Nodup := by
      intro e he
      split at he
      · obtain ⟨h1, h2⟩ := hexs e he
        rw [hsnd] at h2
        exact ⟨h1, hev1 _ h2⟩
      · simp at he
    refine ⟨by rw [hfin, hg2]; exact hnd2, ?_, by rw [hfin]; exact hlen2,
      by rw [hex]; exact fun e he => (hex_obs e he).1, ?_, ?_⟩
    · intro q
      rw [hfin, hg2, hperm.mem_iff]; exact hcov1 q
    · rw [hfin, hp2.compInfos]
      intro info hinfo
      rcases List.mem_append.mp hinfo with hi | hi
      · exact hev2 info hi
      · obtain ⟨e, he, rfl⟩ := List.mem_map.mp hi
        exact (hex_obs e he).2
    · rw [hfin, hp2.compGroups]
      apply pairwise_regDisjoint_append _ _ (by rw [hg2]; exact hnd2)
      intro g hg
      obtain ⟨e, he, rfl⟩ := List.mem_map.mp hg
      exact (hex_obs e he).1

/-- … and for the ranking of the final pass: ranked groups share no protein (placeholders aside), every
    ranked evidence list holds a peptide once, and a ranked group that is not a placeholder is one of the
    final groups, ranked with exactly the evidence `collect_peptide_scores_per_protein` gave it -/
theorem final_ranking_facts (cfg : Config) (inp : Input) (r : Result) (h : run cfg inp = .ok r)
    (hk : distinctPeptides inp.pil) :
    (r.final.ranking.map (·.group)).Pairwise RegDisjoint ∧
    (∀ x ∈ r.final.ranking, (x.evidence.map (·.peptide)).Nodup) ∧
    (∀ x ∈ r.final.ranking, isObsolete x.group = false →
      ∃ j : Nat, j < r.final.groups.length ∧ r.final.groups[j]? = some x.group ∧
        r.final.infos[j]? = some x.evidence ∧
        x.evidence = inp.pil.filterMap (C05.evFor r.final.groups (razorOf cfg inp) j)) := by
  obtain ⟨hp, -⟩ := final_spec cfg inp r h
  have hf := final_facts cfg inp r h hk
  have hmem : ∀ x ∈ r.final.ranking, ∃ i : Nat, r.final.compGroups[i]? = some x.group ∧
      r.final.compInfos[i]? = some x.evidence := by
    intro x hx
    rw [hp.ranking] at hx
    obtain ⟨h1, -⟩ := C02.survivors_unchanged cfg.mode _ _ _ hp.shuffles x hx
    obtain ⟨i, hi1, hi2, -⟩ := mem_zipItems _ _ _ x h1
    exact ⟨i, hi1, hi2⟩
  refine ⟨?_, ?_, ?_⟩
  · rw [hp.ranking]
    exact ranking_regDisjoint cfg.mode _ _ _ _ _ hp.shuffles hf.comp_groups
  · intro x hx
    obtain ⟨i, -, hi⟩ := hmem x hx
    exact hf.comp_infos_nodup _ (List.mem_of_getElem? hi)
  · intro x hx hobs
    obtain ⟨i, hi1, hi2⟩ := hmem x hx
    rw [hp.compGroups, List.getElem?_append] at hi1
    rw [hp.compInfos, List.getElem?_append, hf.infos_len] at hi2
    by_cases hil : i < r.final.groups.length
    · simp only [hil, if_true] at hi1 hi2
      refine ⟨i, hil, hi1, hi2, ?_⟩
      have := (C05.collect_get _ _ _ _ _ _ hp.collect).2.1 i hil
      rw [hi2] at this
      exact Option.some.inj this
    · exfalso
      simp only [hil, if_false] at hi1
      have hm := List.mem_of_getElem? hi1
      obtain ⟨e, he, heq⟩ := List.mem_map.mp hm
      have := hf.extra_obsolete e he
      rw [heq, hobs] at this
      exact Bool.noConfusion this

/-! ### converse direction (used for non-vacuity examples): a pass / a call succeeds when its stages do -/

theorem runPassFrom_ok (cfg : Config) (inp : Input) (seen : List String) (groups : List (List String))
    (extra : List (List String × List Evidence)) (rs : Bool) (scores : List Rat) (π₁ π₂ : List Nat)
    (infos : List (List Evidence)) (peps : List Rat) (ranking : List C02.Item) (fdrs qvals : List Rat)
    (rows : List C06.RowData)
    (hc : C05.collectEvidence groups inp.pil (razorOf cfg inp) rs = .ok (infos, peps))
    (hev : (infos ++ extra.map (·.2)).all (·.isEmpty) = false)
    (hl : scores.length = (groups ++ extra.map (·.1)).length)
    (hfit : C02.shufflesFit cfg.mode seen
      ⟨zipItems (groups ++ extra.map (·.1)) (infos ++ extra.map (·.2)) scores, π₁, π₂⟩ = true)
    (hrk : (C02.competeFrom cfg.mode seen
      (zipItems (groups ++ extra.map (·.1)) (infos ++ extra.map (·.2)) scores) π₁ π₂).1 = ranking)
    (hne : ranking ≠ [])
    (hf : C01.calcProteinFdrs (ranking.map (·.group)) (ranking.map (·.score)) = .ok (fdrs, qvals))
    (hr : C06.fromProteinGroups (ranking.map (·.group)) (ranking.map (·.evidence)) (ranking.map (·.score)) qvals
      (if rs then some (C17.cutoff (peps.map C17.PepVal.fin) inp.psm) else none) inp.keepAll = .ok rows) :
    ∃ p s, runPassFrom cfg inp seen groups extra rs scores π₁ π₂ = .ok (p, s) ∧
      p.ranking = ranking ∧ p.qvals = qvals ∧ p.rows = rows ∧ p.groups = groups ∧ p.infos = infos := by
  have hne' : ranking.isEmpty = false := by
    cases ranking with
    | nil => exact absurd rfl hne
    | cons _ _ => rfl
  unfold runPassFrom
  simp only [hc, hev, hl, hfit, hrk, hne', hf, hr, ne_eq, not_true_eq_false, if_false, Bool.not_true,
    Bool.false_eq_true]
  exact ⟨_, _, rfl, rfl, rfl, rfl, rfl, rfl⟩

theorem run_ok_single_pass (cfg : Config) (inp : Input) (p : PassOut) (s : List String)
    (hg : cfg.grouping ≠ .rescuedSubset)
    (h : runPassFrom cfg inp [] (firstGrouping cfg inp.pil) [] false inp.scores1 (shuffleAt inp 0) (shuffleAt inp 1)
      = .ok (p, s)) :
    run cfg inp = .ok { pass1 := p, rescueScore := none, rescue := none, pass2 := none, rows := p.rows } := by
  unfold run runFrom
  simp only [h, hg, ne_eq, not_false_eq_true, if_true]

theorem run_ok_rescue (cfg : Config) (inp : Input) (p1 p2 : PassOut) (s1 s2 : List String) (sc cutoff : Rat)
    (out : C04.RescueOut (List Evidence))
    (hg : cfg.grouping = .rescuedSubset)
    (h1 : runPassFrom cfg inp [] (firstGrouping cfg inp.pil) [] false inp.scores1 (shuffleAt inp 0) (shuffleAt inp 1)
      = .ok (p1, s1))
    (hs : C04.rescueScore (p1.rows.map (fun r => (r.score, r.qValue))) inp.thr = some sc)
    (hc : inp.rescueCutoff = some cutoff)
    (ho : C04.rescueGroups (p1.groups.zip p1.infos) inp.pil cutoff inp.cuts = .ok out)
    (h2 : runPassFrom cfg inp [] out.groups
      (if isPickedGroup cfg.mode then out.obsolete.zip out.obsoleteInfos else []) true inp.scores2
      (shuffleAt inp 2) (shuffleAt inp 3) = .ok (p2, s2)) :
    run cfg inp = .ok { pass1 := p1, rescueScore := some sc, rescue := some out, pass2 := some p2, rows := p2.rows } := by
  have hs1 : s1 = [] := runPassFrom_seen _ _ _ _ _ _ _ _ _ _ h1
  subst hs1
  unfold run runFrom
  simp only [h1, hg, ne_eq, not_true_eq_false, if_false, hs, hc, ho, h2]

/-! ### two calls that succeed (non-vacuity of the end-to-end theorems)

`demoCfg1`: protein-level picking without grouping — one pass.  `demoCfg2`: the flagship method
(rescued subset grouping, picked-group competition with leading proteins) — two passes, with a
placeholder group `OBSOLETE__A` appended for the second competition, where it loses against `A`.
Input: target `A` (peptide PEPA, PEP 0.001, score 3) and decoy `REV__B` (PEPB, 0.01, score 2).  The
recorded shuffles are chosen so that every sort finds its input sorted (`mergeSort` does not reduce in the
kernel; `List.mergeSort_of_pairwise` supplies the sorted lists); every other stage is evaluated by the kernel. -/

deriving instance DecidableEq for C04.RescueOut

def demoPil : List PepInfo := [⟨"PEPA", 1/1000, ["A"]⟩, ⟨"PEPB", 1/100, ["REV__B"]⟩]
def demoEvA : Evidence := ⟨1/1000, "PEPA", ["A"]⟩
def demoEvB : Evidence := ⟨1/100, "PEPB", ["REV__B"]⟩
def demoA : C02.Item := ⟨["A"], [demoEvA], 3⟩
def demoB : C02.Item := ⟨["REV__B"], [demoEvB], 2⟩
def demoO : C02.Item := ⟨["OBSOLETE__A"], [demoEvA], 3⟩
def demoRows (q1 q2 : Rat) : List C06.RowData :=
  [{ proteins := ["A"], majority := ["A"], counts := [1], bestPeptide := "PEPA", numberOfProteins := 1,
     qValue := q1, score := 3, reverse := false, contaminant := false },
   { proteins := ["REV__B"], majority := ["REV__B"], counts := [1], bestPeptide := "PEPB",
     numberOfProteins := 1, qValue := q2, score := 2, reverse := true, contaminant := false }]

def demoCfg1 : Config := ⟨.no, false, .picked⟩
def demoInp1 : Input :=
  { pil := demoPil, thr := 1/100, psm := 1/100, keepAll := false, shuffles := [[0, 1], [0, 1]], cuts := [],
    razorKeys := [], scores1 := [3, 2], scores2 := [], rescueCutoff := none }

def demoCfg2 : Config := ⟨.rescuedSubset, false, .pickedGroup .leading⟩
def demoInp2 : Input :=
  { pil := demoPil, thr := 1/100, psm := 1/100, keepAll := false,
    shuffles := [[0, 1], [0, 1], [0, 2, 1], [0, 1]], cuts := [],
    razorKeys := [], scores1 := [3, 2], scores2 := [3, 2, 3], rescueCutoff := some (1/100) }

theorem demo_passOrder (items sorted : List C02.Item) (π : List Nat)
    (h1 : C02.shuffle (items.filter (·.hasEvidence)) π = sorted)
    (h2 : sorted.Pairwise (fun a b => C02.le1 a b = true)) : C02.passOrder items π = sorted := by
  unfold C02.passOrder
  rw [h1]
  exact List.mergeSort_of_pairwise h2

theorem demo_compete (mode : C02.Mode) (items sorted kept : List C02.Item) (π₁ π₂ : List Nat)
    (h1 : C02.shuffle (items.filter (·.hasEvidence)) π₁ = sorted)
    (h2 : sorted.Pairwise (fun a b => C02.le1 a b = true))
    (h3 : C02.pass (C02.strategy mode) C02.contam [] sorted = kept)
    (h4 : C02.shuffle kept π₂ = kept)
    (h5 : kept.Pairwise (fun a b => C02.le2 a b = true))
    (h6 : (C02.isPermOfRange π₁ (items.filter (·.hasEvidence)).length &&
           C02.isPermOfRange π₂ kept.length) = true) :
    C02.shufflesFit mode [] ⟨items, π₁, π₂⟩ = true ∧ (C02.competeFrom mode [] items π₁ π₂).1 = kept := by
  have hk : C02.keptFrom mode [] items π₁ = kept := by
    unfold C02.keptFrom; rw [demo_passOrder items sorted π₁ h1 h2, h3]
  constructor
  · simp only [C02.shufflesFit, hk]; exact h6
  · show (C02.shuffle (C02.keptFrom mode [] items π₁) π₂).mergeSort C02.le2 = kept
    rw [hk, h4]
    exact List.mergeSort_of_pairwise h5

theorem demo_cutoff : C17.cutoff (([1/1000] : List Rat).map C17.PepVal.fin) demoInp2.psm = 1 := by
  unfold C17.cutoff C17.sortAsc
  have : C17.finites (([1/1000] : List Rat).map C17.PepVal.fin) = [1/1000] := by decide +kernel
  rw [this, List.mergeSort_singleton]
  decide +kernel

/-- the one-pass call succeeds: ranking `A`, `REV__B`; q-values (0+1)/(1+1) = 1/2 and (1+1)/(1+1) = 1 -/
theorem demo_run1 : ∃ r, run demoCfg1 demoInp1 = .ok r ∧ r.final.ranking = [demoA, demoB] ∧
    r.final.qvals = [1/2, 1] ∧ r.rows = demoRows (1/2) 1 ∧ r.pass2 = none := by
  obtain ⟨hfit, hrk⟩ := demo_compete .picked [demoA, demoB] [demoA, demoB] [demoA, demoB] [0, 1] [0, 1]
    (by decide +kernel) (by decide +kernel) (by decide +kernel) (by decide +kernel) (by decide +kernel)
    (by decide +kernel)
  obtain ⟨p, s, hp, h1, h2, h3, -, -⟩ := runPassFrom_ok demoCfg1 demoInp1 [] [["A"], ["REV__B"]] [] false
    [3, 2] [0, 1] [0, 1] [[demoEvA], [demoEvB]] [1/1000] [demoA, demoB] [1/2, 1] [1/2, 1] (demoRows (1/2) 1)
    (by decide +kernel) (by decide +kernel) (by decide) hfit hrk (by decide) (by decide +kernel) (by decide +kernel)
  exact ⟨_, run_ok_single_pass demoCfg1 demoInp1 p s (by decide) hp, h1, h2, h3, rfl⟩

/-- the two-pass call succeeds: the rescue stage absorbs `A` (placeholder `OBSOLETE__A`), the second
    competition ranks `A`, `REV__B` and drops the placeholder; the rows are reported with the rescue pass's
    peptide-level cutoff -/
theorem demo_run2 : ∃ r, run demoCfg2 demoInp2 = .ok r ∧ r.final.ranking = [demoA, demoB] ∧
    r.final.qvals = [1/2, 1] ∧ r.rows = demoRows (1/2) 1 ∧
    r.final.compGroups = [["A"], ["REV__B"], ["OBSOLETE__A"]] ∧ r.rescued = true := by
  -- first pass
  obtain ⟨hfit1, hrk1⟩ := demo_compete (.pickedGroup .leading) [demoA, demoB] [demoA, demoB] [demoA, demoB]
    [0, 1] [0, 1]
    (by decide +kernel) (by decide +kernel) (by decide +kernel) (by decide +kernel) (by decide +kernel)
    (by decide +kernel)
  obtain ⟨p1, s1, hp1, -, -, hrows1, hg1, hi1⟩ := runPassFrom_ok demoCfg2 demoInp2 [] [["A"], ["REV__B"]] []
    false [3, 2] [0, 1] [0, 1] [[demoEvA], [demoEvB]] [1/1000] [demoA, demoB] [1/2, 1] [1/2, 1]
    (demoRows (1/2) 1)
    (by decide +kernel) (by decide +kernel) (by decide) hfit1 hrk1 (by decide) (by decide +kernel) (by decide +kernel)
  -- rescue stage
  have hsc : C04.rescueScore (p1.rows.map (fun r => (r.score, r.qValue))) demoInp2.thr = some 2 := by
    rw [hrows1]; decide +kernel
  have hout : C04.rescueGroups (p1.groups.zip p1.infos) demoInp2.pil (1/100) demoInp2.cuts =
      .ok { filtered := [⟨"PEPA", 1/1000, ["A"]⟩], rescued := [["A"]], groups := [["A"], ["REV__B"]],
            obsolete := [["OBSOLETE__A"]], obsoleteInfos := [[demoEvA]] } := by
    rw [hg1, hi1]; decide +kernel
  -- second pass
  obtain ⟨hfit2, hrk2⟩ := demo_compete (.pickedGroup .leading) [demoA, demoB, demoO] [demoA, demoO, demoB]
    [demoA, demoB] [0, 2, 1] [0, 1]
    (by decide +kernel) (by decide +kernel) (by decide +kernel) (by decide +kernel) (by decide +kernel)
    (by decide +kernel)
  obtain ⟨p2, s2, hp2, h1, h2, h3, hg2, hi2⟩ := runPassFrom_ok demoCfg2 demoInp2 [] [["A"], ["REV__B"]]
    [(["OBSOLETE__A"], [demoEvA])] true [3, 2, 3] [0, 2, 1] [0, 1] [[demoEvA], [demoEvB]] [1/1000]
    [demoA, demoB] [1/2, 1] [1/2, 1] (demoRows (1/2) 1)
    (by decide +kernel) (by decide +kernel) (by decide) hfit2 hrk2 (by decide) (by decide +kernel)
    (by rw [demo_cutoff]; decide +kernel)
  have hrun := run_ok_rescue demoCfg2 demoInp2 p1 p2 s1 s2 2 (1/100) _ rfl hp1 hsc rfl hout hp2
  refine ⟨_, hrun, h1, h2, h3, ?_, rfl⟩
  obtain ⟨-, hspec⟩ := runPassFrom_spec _ _ _ _ _ _ _ _ _ _ (runPassFrom_seen _ _ _ _ _ _ _ _ _ _ hp2 ▸ hp2)
  show p2.compGroups = _
  rw [hspec.compGroups, hg2]
  rfl

theorem demo_distinct : distinctPeptides demoInp1.pil ∧ distinctPeptides demoInp2.pil := by
  constructor <;> decide +kernel

end PgFdr.Pipeline
