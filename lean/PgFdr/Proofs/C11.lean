import Mathlib.Tactic.Positivity
import Mathlib.Logic.Relation
import Mathlib.Analysis.SpecialFunctions.Log.Basic
import Mathlib.Algebra.Order.BigOperators.Group.List
import Mathlib.Data.Real.Basic
import Mathlib.Algebra.BigOperators.Group.List.Basic
import Mathlib.Data.List.Nodup
import Mathlib.Tactic.Linarith
import Mathlib.Tactic.Ring
import Mathlib.Tactic.FieldSimp
import Mathlib.Data.Rat.Defs
import Mathlib.Algebra.Order.Field.Basic
import Mathlib.Data.String.Basic
import Mathlib.Data.List.Perm.Basic
import PgFdr.Model.C11

set_option linter.unusedSectionVars false

namespace PgFdr.C11

/-! ### insertion sort -/
section Sorting
variable {α : Type} (le : α → α → Bool)

theorem insertBy_perm (a : α) : ∀ l : List α, (insertBy le a l).Perm (a :: l)
  | [] => by simp [insertBy]
  | b :: r => by
    simp only [insertBy]
    split
    · exact List.Perm.refl _
    · exact ((insertBy_perm a r).cons b).trans (List.Perm.swap a b r)

theorem isort_perm : ∀ l : List α, (isort le l).Perm l
  | [] => by simp [isort]
  | a :: r => by
    simp only [isort]
    exact (insertBy_perm le a _).trans ((isort_perm r).cons a)

variable {le}

theorem insertBy_sorted (htr : ∀ a b c, le a b = true → le b c = true → le a c = true)
    (htot : ∀ a b, le a b = true ∨ le b a = true) (a : α) :
    ∀ l : List α, l.Pairwise (fun x y => le x y = true) → (insertBy le a l).Pairwise (fun x y => le x y = true)
  | [], _ => by simp [insertBy]
  | b :: r, h => by
    simp only [insertBy]
    rw [List.pairwise_cons] at h
    split
    · rename_i hab
      refine List.pairwise_cons.mpr ⟨?_, List.pairwise_cons.mpr h⟩
      intro c hc
      rcases List.mem_cons.mp hc with rfl | hc
      · exact hab
      · exact htr _ _ _ hab (h.1 c hc)
    · rename_i hab
      have hba : le b a = true := by
        rcases htot a b with h1 | h1
        · exact absurd h1 hab
        · exact h1
      refine List.pairwise_cons.mpr ⟨?_, insertBy_sorted htr htot a r h.2⟩
      intro c hc
      have := (insertBy_perm le a r).subset hc
      rcases List.mem_cons.mp this with rfl | hc
      · exact hba
      · exact h.1 c hc

theorem isort_sorted (htr : ∀ a b c, le a b = true → le b c = true → le a c = true)
    (htot : ∀ a b, le a b = true ∨ le b a = true) :
    ∀ l : List α, (isort le l).Pairwise (fun x y => le x y = true)
  | [] => by simp [isort]
  | a :: r => by
    simp only [isort]
    exact insertBy_sorted htr htot a _ (isort_sorted htr htot r)

theorem isort_congr (htr : ∀ a b c, le a b = true → le b c = true → le a c = true)
    (htot : ∀ a b, le a b = true ∨ le b a = true)
    (hanti : ∀ a b, le a b = true → le b a = true → a = b) {l l' : List α} (h : l.Perm l') :
    isort le l = isort le l' := by
  apply List.Perm.eq_of_pairwise (le := fun x y => le x y = true)
  · intro a b _ _ h1 h2; exact hanti a b h1 h2
  · exact isort_sorted htr htot l
  · exact isort_sorted htr htot l'
  · exact (isort_perm le l).trans (h.trans (isort_perm le l').symm)

/-- a sorted permutation of `l` is `isort le l` -/
theorem eq_isort_of_sorted (htr : ∀ a b c, le a b = true → le b c = true → le a c = true)
    (htot : ∀ a b, le a b = true ∨ le b a = true)
    (hanti : ∀ a b, le a b = true → le b a = true → a = b) {l m : List α} (hp : m.Perm l)
    (hs : m.Pairwise (fun x y => le x y = true)) : m = isort le l := by
  apply List.Perm.eq_of_pairwise (le := fun x y => le x y = true)
  · intro a b _ _ h1 h2; exact hanti a b h1 h2
  · exact hs
  · exact isort_sorted htr htot l
  · exact hp.trans (isort_perm le l).symm

end Sorting

/-! ### the sort key is a linear order -/

def LexStep {α : Type} [LinearOrder α] (x y : α) (rest : Prop) : Prop := x < y ∨ (x = y ∧ rest)

theorem LexStep.total {α : Type} [LinearOrder α] {x y : α} {r r' : Prop} (h : x = y → r ∨ r') :
    LexStep x y r ∨ LexStep y x r' := by
  rcases lt_trichotomy x y with h1 | h1 | h1
  · exact Or.inl (Or.inl h1)
  · rcases h h1 with h2 | h2
    · exact Or.inl (Or.inr ⟨h1, h2⟩)
    · exact Or.inr (Or.inr ⟨h1.symm, h2⟩)
  · exact Or.inr (Or.inl h1)

theorem LexStep.trans {α : Type} [LinearOrder α] {x y z : α} {r1 r2 r3 : Prop}
    (h1 : LexStep x y r1) (h2 : LexStep y z r2) (h : r1 → r2 → r3) : LexStep x z r3 := by
  rcases h1 with h1 | ⟨e1, h1⟩ <;> rcases h2 with h2 | ⟨e2, h2⟩
  · exact Or.inl (lt_trans h1 h2)
  · exact Or.inl (e2 ▸ h1)
  · exact Or.inl (e1 ▸ h2)
  · exact Or.inr ⟨e1.trans e2, h h1 h2⟩

theorem LexStep.antisymm {α : Type} [LinearOrder α] {x y : α} {r1 r2 : Prop}
    (h1 : LexStep x y r1) (h2 : LexStep y x r2) : x = y ∧ r1 ∧ r2 := by
  rcases h1 with h1 | ⟨e1, h1⟩ <;> rcases h2 with h2 | ⟨e2, h2⟩
  · exact absurd h1 (not_lt.mpr h2.le)
  · exact absurd h1 (by rw [e2]; exact lt_irrefl _)
  · exact absurd h2 (by rw [e1]; exact lt_irrefl _)
  · exact ⟨e1, h1, h2⟩

theorem pepLe_total : ∀ a b, pepLe a b = true ∨ pepLe b a = true
  | some a, some b => by simp only [pepLe, decide_eq_true_eq]; exact le_total a b
  | none, none => by simp [pepLe]
  | some _, none => by simp [pepLe]
  | none, some _ => by simp [pepLe]

theorem pepLe_trans : ∀ a b c, pepLe a b = true → pepLe b c = true → pepLe a c = true
  | some a, some b, some c => by simp only [pepLe, decide_eq_true_eq]; exact le_trans
  | _, _, none => by intros; cases ‹Option Rat› <;> simp [pepLe]
  | none, some _, _ => by simp [pepLe]
  | _, none, some _ => by simp [pepLe]

theorem pepLe_antisymm : ∀ a b, pepLe a b = true → pepLe b a = true → a = b
  | some a, some b => by
    simp only [pepLe, decide_eq_true_eq]; intro h1 h2; rw [le_antisymm h1 h2]
  | none, none => by simp
  | some _, none => by simp [pepLe]
  | none, some _ => by simp [pepLe]

/-- the propositional reading of `precLe` -/
def PrecLE (a b : Prec) : Prop :=
  LexStep a.peptide b.peptide (LexStep a.charge b.charge (LexStep a.exp b.exp
    (LexStep a.fraction b.fraction (LexStep b.intensity a.intensity (pepLe a.pep b.pep = true)))))

theorem precLe_iff (a b : Prec) : precLe a b = true ↔ PrecLE a b := by
  simp only [precLe, PrecLE, LexStep, Bool.or_eq_true, Bool.and_eq_true, decide_eq_true_eq, beq_iff_eq]
  constructor
  · rintro (h | ⟨h1, h | ⟨h2, h | ⟨h3, h | ⟨h4, h | ⟨h5, h⟩⟩⟩⟩⟩)
    · exact Or.inl h
    · exact Or.inr ⟨h1, Or.inl h⟩
    · exact Or.inr ⟨h1, Or.inr ⟨h2, Or.inl h⟩⟩
    · exact Or.inr ⟨h1, Or.inr ⟨h2, Or.inr ⟨h3, Or.inl h⟩⟩⟩
    · exact Or.inr ⟨h1, Or.inr ⟨h2, Or.inr ⟨h3, Or.inr ⟨h4, Or.inl h⟩⟩⟩⟩
    · exact Or.inr ⟨h1, Or.inr ⟨h2, Or.inr ⟨h3, Or.inr ⟨h4, Or.inr ⟨h5.symm, h⟩⟩⟩⟩⟩
  · rintro (h | ⟨h1, h | ⟨h2, h | ⟨h3, h | ⟨h4, h | ⟨h5, h⟩⟩⟩⟩⟩)
    · exact Or.inl h
    · exact Or.inr ⟨h1, Or.inl h⟩
    · exact Or.inr ⟨h1, Or.inr ⟨h2, Or.inl h⟩⟩
    · exact Or.inr ⟨h1, Or.inr ⟨h2, Or.inr ⟨h3, Or.inl h⟩⟩⟩
    · exact Or.inr ⟨h1, Or.inr ⟨h2, Or.inr ⟨h3, Or.inr ⟨h4, Or.inl h⟩⟩⟩⟩
    · exact Or.inr ⟨h1, Or.inr ⟨h2, Or.inr ⟨h3, Or.inr ⟨h4, Or.inr ⟨h5.symm, h⟩⟩⟩⟩⟩

theorem precLe_total (a b : Prec) : precLe a b = true ∨ precLe b a = true := by
  rw [precLe_iff, precLe_iff]
  refine LexStep.total fun _ => LexStep.total fun _ => LexStep.total fun _ => LexStep.total fun _ => ?_
  exact LexStep.total fun _ => pepLe_total _ _

theorem precLe_trans (a b c : Prec) (h1 : precLe a b = true) (h2 : precLe b c = true) : precLe a c = true := by
  rw [precLe_iff] at *
  refine LexStep.trans h1 h2 fun h1 h2 => LexStep.trans h1 h2 fun h1 h2 => LexStep.trans h1 h2 fun h1 h2 =>
    LexStep.trans h1 h2 fun h1 h2 => ?_
  exact LexStep.trans h2 h1 fun h2 h1 => pepLe_trans _ _ _ h1 h2

theorem precLe_antisymm (a b : Prec) (h1 : precLe a b = true) (h2 : precLe b a = true) : a = b := by
  rw [precLe_iff] at *
  obtain ⟨e1, h1, h2⟩ := LexStep.antisymm h1 h2
  obtain ⟨e2, h1, h2⟩ := LexStep.antisymm h1 h2
  obtain ⟨e3, h1, h2⟩ := LexStep.antisymm h1 h2
  obtain ⟨e4, h1, h2⟩ := LexStep.antisymm h1 h2
  obtain ⟨e5, h1, h2⟩ := LexStep.antisymm h1 h2
  have e6 := pepLe_antisymm _ _ h1 h2
  cases a; cases b; simp_all

/-! ### first precursor per group -/


theorem sameGroup_iff (a b : Prec) : sameGroup a b = true ↔
    a.peptide = b.peptide ∧ a.charge = b.charge ∧ a.exp = b.exp ∧ a.fraction = b.fraction := by
  simp [sameGroup, and_assoc]

theorem sameGroup_refl (a : Prec) : sameGroup a a = true := by simp [sameGroup_iff]
theorem sameGroup_symm {a b : Prec} (h : sameGroup a b = true) : sameGroup b a = true := by
  rw [sameGroup_iff] at *; exact ⟨h.1.symm, h.2.1.symm, h.2.2.1.symm, h.2.2.2.symm⟩
theorem sameGroup_trans {a b c : Prec} (h1 : sameGroup a b = true) (h2 : sameGroup b c = true) :
    sameGroup a c = true := by
  rw [sameGroup_iff] at *
  exact ⟨h1.1.trans h2.1, h1.2.1.trans h2.2.1, h1.2.2.1.trans h2.2.2.1, h1.2.2.2.trans h2.2.2.2⟩

/-- order of the group keys -/
def GLE (a b : Prec) : Prop :=
  LexStep a.peptide b.peptide (LexStep a.charge b.charge (LexStep a.exp b.exp (LexStep a.fraction b.fraction True)))

theorem GLE_of_precLe {a b : Prec} (h : precLe a b = true) : GLE a b := by
  rw [precLe_iff] at h
  rcases h with h | ⟨e1, h | ⟨e2, h | ⟨e3, h | ⟨e4, _⟩⟩⟩⟩
  · exact Or.inl h
  · exact Or.inr ⟨e1, Or.inl h⟩
  · exact Or.inr ⟨e1, Or.inr ⟨e2, Or.inl h⟩⟩
  · exact Or.inr ⟨e1, Or.inr ⟨e2, Or.inr ⟨e3, Or.inl h⟩⟩⟩
  · exact Or.inr ⟨e1, Or.inr ⟨e2, Or.inr ⟨e3, Or.inr ⟨e4, trivial⟩⟩⟩⟩

theorem GLE_antisymm {a b : Prec} (h1 : GLE a b) (h2 : GLE b a) : sameGroup a b = true := by
  obtain ⟨e1, h1, h2⟩ := LexStep.antisymm h1 h2
  obtain ⟨e2, h1, h2⟩ := LexStep.antisymm h1 h2
  obtain ⟨e3, h1, h2⟩ := LexStep.antisymm h1 h2
  obtain ⟨e4, _, _⟩ := LexStep.antisymm h1 h2
  rw [sameGroup_iff]; exact ⟨e1, e2, e3, e4⟩

theorem GLE_congr_left {a c b : Prec} (h : sameGroup a c = true) (hab : GLE a b) : GLE c b := by
  rw [sameGroup_iff] at h
  obtain ⟨e1, e2, e3, e4⟩ := h
  unfold GLE at *
  rw [← e1, ← e2, ← e3, ← e4]; exact hab

/-- members of one group are contiguous in sorted order -/
theorem sameGroup_between {a b c : Prec} (hab : precLe a b = true) (hbc : precLe b c = true)
    (hac : sameGroup a c = true) : sameGroup a b = true := by
  have h1 : GLE c b := GLE_congr_left hac (GLE_of_precLe hab)
  have h2 : sameGroup b c = true := GLE_antisymm (GLE_of_precLe hbc) h1
  exact sameGroup_trans hac (sameGroup_symm h2)

theorem mem_firstsAux : ∀ (L : List Prec) (prev : Option Prec),
    L.Pairwise (fun x y => precLe x y = true) →
    (∀ q, prev = some q → ∀ x ∈ L, precLe q x = true) → ∀ p,
    (p ∈ firstsAux prev L ↔ p ∈ L ∧ (∀ q, prev = some q → sameGroup q p = false) ∧
      ∀ x ∈ L, sameGroup p x = true → precLe p x = true)
  | [], prev, _, _, p => by cases prev <;> simp [firstsAux]
  | a :: r, prev, hs, hprev, p => by
    rw [List.pairwise_cons] at hs
    have hrec := mem_firstsAux r (some a) hs.2 (by intro q hq x hx; cases hq; exact hs.1 x hx) p
    have take : (∀ q, prev = some q → sameGroup q a = false) →
        (p ∈ a :: firstsAux (some a) r ↔ p ∈ a :: r ∧ (∀ q, prev = some q → sameGroup q p = false) ∧
          ∀ x ∈ a :: r, sameGroup p x = true → precLe p x = true) := by
      intro hna
      rw [List.mem_cons, hrec]
      constructor
      · rintro (hpa | ⟨hp, hnp, hmin⟩)
        · rw [hpa]
          refine ⟨List.mem_cons_self, hna, ?_⟩
          intro x hx _
          rcases List.mem_cons.mp hx with hxa | hx
          · rw [hxa]; rcases precLe_total a a with h | h <;> exact h
          · exact hs.1 x hx
        · refine ⟨List.mem_cons_of_mem _ hp, ?_, ?_⟩
          · intro q hq
            by_contra hc
            have hc : sameGroup q p = true := by simpa using hc
            have := sameGroup_between (hprev q hq a List.mem_cons_self) (hs.1 p hp) hc
            rw [hna q hq] at this; exact absurd this (by simp)
          · intro x hx hpx
            rcases List.mem_cons.mp hx with hxa | hx
            · have := hnp a rfl
              rw [hxa] at hpx
              rw [sameGroup_symm hpx] at this; exact absurd this (by simp)
            · exact hmin x hx hpx
      · rintro ⟨hp, hnp, hmin⟩
        rcases List.mem_cons.mp hp with hpa | hp
        · exact Or.inl hpa
        · by_cases hap : sameGroup a p = true
          · left
            exact precLe_antisymm _ _ (hmin a List.mem_cons_self (sameGroup_symm hap)) (hs.1 p hp)
          · right
            refine ⟨hp, ?_, fun x hx => hmin x (List.mem_cons_of_mem _ hx)⟩
            intro q hq; cases hq; simpa using hap
    cases prev with
    | none =>
      simp only [firstsAux]
      exact take (by intro q hq; cases hq)
    | some q =>
      simp only [firstsAux]
      by_cases hqa : sameGroup q a = true
      · simp only [hqa, if_true]
        have hrec' := mem_firstsAux r (some q) hs.2
          (by intro q' hq' x hx; cases hq'; exact hprev q rfl x (List.mem_cons_of_mem _ hx)) p
        rw [hrec']
        constructor
        · rintro ⟨hp, hnp, hmin⟩
          refine ⟨List.mem_cons_of_mem _ hp, hnp, ?_⟩
          intro x hx hpx
          rcases List.mem_cons.mp hx with hxa | hx
          · have := hnp q rfl
            rw [hxa] at hpx
            rw [sameGroup_trans hqa (sameGroup_symm hpx)] at this; exact absurd this (by simp)
          · exact hmin x hx hpx
        · rintro ⟨hp, hnp, hmin⟩
          rcases List.mem_cons.mp hp with hpa | hp
          · have := hnp q rfl; rw [hpa, hqa] at this; exact absurd this (by simp)
          · exact ⟨hp, hnp, fun x hx => hmin x (List.mem_cons_of_mem _ hx)⟩
      · simp only [hqa]
        apply take
        intro q' hq'; cases hq'; simpa using hqa




theorem precLe_refl (a : Prec) : precLe a a = true := by
  rcases precLe_total a a with h | h <;> exact h

theorem sorted_kept (c : Rat) (l : List Prec) :
    (isort precLe (l.filter (keep c))).Pairwise (fun x y => precLe x y = true) :=
  isort_sorted precLe_trans precLe_total _

theorem mem_sorted_kept (c : Rat) (l : List Prec) (p : Prec) :
    p ∈ isort precLe (l.filter (keep c)) ↔ p ∈ l ∧ keep c p = true := by
  rw [(isort_perm precLe _).mem_iff, List.mem_filter]

/-- specification of the selection: the precursors used are exactly the `orderByPEP`-least
    identified, quantified precursors of their (peptide, charge, experiment, fraction) group -/
theorem mem_selected (c : Rat) (l : List Prec) (p : Prec) :
    p ∈ selected c l ↔ (p ∈ l ∧ keep c p = true) ∧
      ∀ q, q ∈ l → keep c q = true → sameGroup p q = true → precLe p q = true := by
  unfold selected
  rw [mem_firstsAux _ none (sorted_kept c l) (by intro q hq; cases hq), mem_sorted_kept]
  constructor
  · rintro ⟨h1, _, h3⟩
    exact ⟨h1, fun q hq hk => h3 q ((mem_sorted_kept c l q).mpr ⟨hq, hk⟩)⟩
  · rintro ⟨h1, h3⟩
    refine ⟨h1, ?_, fun x hx => ?_⟩
    · intro q hq; cases hq
    · have := (mem_sorted_kept c l x).mp hx
      exact h3 x this.1 this.2

theorem firstsAux_pairwise : ∀ (L : List Prec) (prev : Option Prec),
    L.Pairwise (fun x y => precLe x y = true) →
    (∀ q, prev = some q → ∀ x ∈ L, precLe q x = true) →
    (firstsAux prev L).Pairwise (fun x y => sameGroup x y = false)
  | [], prev, _, _ => by cases prev <;> simp [firstsAux]
  | a :: r, prev, hs, hprev => by
    have hs' := List.pairwise_cons.mp hs
    have hprev_a : ∀ q, some a = some q → ∀ x ∈ r, precLe q x = true := by
      intro q hq x hx; cases hq; exact hs'.1 x hx
    have take : ((a :: firstsAux (some a) r).Pairwise (fun x y => sameGroup x y = false)) := by
      refine List.pairwise_cons.mpr ⟨?_, firstsAux_pairwise r (some a) hs'.2 hprev_a⟩
      intro x hx
      exact ((mem_firstsAux r (some a) hs'.2 hprev_a x).mp hx).2.1 a rfl
    cases prev with
    | none => simpa only [firstsAux] using take
    | some q =>
      simp only [firstsAux]
      by_cases hqa : sameGroup q a = true
      · simp only [hqa, if_true]
        exact firstsAux_pairwise r (some q) hs'.2
          (by intro q' hq' x hx; cases hq'; exact hprev q rfl x (List.mem_cons_of_mem _ hx))
      · simp only [hqa]; exact take

theorem selected_pairwise (c : Rat) (l : List Prec) :
    (selected c l).Pairwise (fun x y => sameGroup x y = false) :=
  firstsAux_pairwise _ none (sorted_kept c l) (by intro q hq; cases hq)

theorem selected_nodup (c : Rat) (l : List Prec) : (selected c l).Nodup := by
  refine (selected_pairwise c l).imp ?_
  intro a b h hab
  rw [hab, sameGroup_refl] at h; exact absurd h (by simp)

/-- precursor order does not matter (sorting canonicalises it) -/
theorem selected_perm {l l' : List Prec} (c : Rat) (h : l.Perm l') : selected c l = selected c l' := by
  unfold selected
  rw [isort_congr precLe_trans precLe_total precLe_antisymm (h.filter _)]

/-! ### relabelling the samples -/

def relabel (σ : Nat → Nat) (p : Prec) : Prec := { p with exp := σ p.exp }

theorem keep_relabel (σ : Nat → Nat) (c : Rat) (p : Prec) : keep c (relabel σ p) = keep c p := rfl
theorem pepOk_relabel (σ : Nat → Nat) (c : Rat) (p : Prec) : pepOk c (relabel σ p) = pepOk c p := rfl

theorem relabel_injective {σ : Nat → Nat} (hσ : Function.Injective σ) : Function.Injective (relabel σ) := by
  intro a b h
  cases a; cases b
  simp only [relabel, Prec.mk.injEq] at h ⊢
  exact ⟨h.1, h.2.1, hσ h.2.2.1, h.2.2.2⟩

theorem sameGroup_relabel {σ : Nat → Nat} (hσ : Function.Injective σ) (a b : Prec) :
    sameGroup (relabel σ a) (relabel σ b) = sameGroup a b := by
  rw [Bool.eq_iff_iff, sameGroup_iff, sameGroup_iff]
  simp only [relabel]
  constructor
  · rintro ⟨h1, h2, h3, h4⟩; exact ⟨h1, h2, hσ h3, h4⟩
  · rintro ⟨h1, h2, h3, h4⟩; exact ⟨h1, h2, by rw [h3], h4⟩

theorem precLe_relabel_of_sameGroup (σ : Nat → Nat) {a b : Prec} (h : sameGroup a b = true) :
    precLe (relabel σ a) (relabel σ b) = precLe a b := by
  rw [sameGroup_iff] at h
  obtain ⟨_, _, h3, _⟩ := h
  simp [precLe, relabel, h3]

/-- selection commutes with relabelling the samples, up to the order of the list -/
theorem selected_relabel {σ : Nat → Nat} (hσ : Function.Injective σ) (c : Rat) (l : List Prec) :
    (selected c (l.map (relabel σ))).Perm ((selected c l).map (relabel σ)) := by
  rw [List.perm_ext_iff_of_nodup (selected_nodup _ _) (List.Nodup.map (relabel_injective hσ) (selected_nodup c l))]
  intro p'
  constructor
  · intro h
    obtain ⟨⟨hp', hk⟩, hmin⟩ := (mem_selected _ _ _).mp h
    obtain ⟨p, hp, rfl⟩ := List.mem_map.mp hp'
    refine List.mem_map.mpr ⟨p, (mem_selected c l p).mpr ⟨⟨hp, hk⟩, ?_⟩, rfl⟩
    intro q hq hkq hg
    have := hmin (relabel σ q) (List.mem_map_of_mem hq) hkq (by rw [sameGroup_relabel hσ]; exact hg)
    rwa [precLe_relabel_of_sameGroup σ hg] at this
  · intro h
    obtain ⟨p, hp', rfl⟩ := List.mem_map.mp h
    obtain ⟨⟨hp, hk⟩, hmin⟩ := (mem_selected c l p).mp hp' 
    refine (mem_selected _ _ _).mpr ⟨⟨List.mem_map_of_mem hp, hk⟩, ?_⟩
    intro q' hq' hkq hg
    obtain ⟨q, hq, rfl⟩ := List.mem_map.mp hq'
    rw [sameGroup_relabel hσ] at hg
    rw [precLe_relabel_of_sameGroup σ hg]
    exact hmin q hq hkq hg



/-! ### row keys, cells, columns -/

theorem keyLe_iff (a b : String × Int) : keyLe a b = true ↔ LexStep a.1 b.1 (a.2 ≤ b.2) := by
  simp [keyLe, LexStep]

theorem keyLe_total (a b : String × Int) : keyLe a b = true ∨ keyLe b a = true := by
  rw [keyLe_iff, keyLe_iff]; exact LexStep.total fun _ => le_total _ _

theorem keyLe_trans (a b c : String × Int) (h1 : keyLe a b = true) (h2 : keyLe b c = true) : keyLe a c = true := by
  rw [keyLe_iff] at *; exact LexStep.trans h1 h2 le_trans

theorem keyLe_antisymm (a b : String × Int) (h1 : keyLe a b = true) (h2 : keyLe b a = true) : a = b := by
  rw [keyLe_iff] at *
  obtain ⟨e1, h1, h2⟩ := LexStep.antisymm h1 h2
  exact Prod.ext e1 (le_antisymm h1 h2)

def pkey (p : Prec) : String × Int := (p.peptide, p.charge)

theorem rowKeys_perm {sel sel' : List Prec} (h : sel.Perm sel') : rowKeys sel = rowKeys sel' := by
  unfold rowKeys
  rw [isort_congr keyLe_trans keyLe_total keyLe_antisymm (h.map _)]

theorem cell_perm {sel sel' : List Prec} (h : sel.Perm sel') (k : String × Int) (s : Nat) :
    cell sel k s = cell sel' k s := by
  unfold cell
  exact ((h.filter _).map _).sum_eq

theorem total_perm {sel sel' : List Prec} (h : sel.Perm sel') : total sel = total sel' := by
  unfold total
  exact (h.map _).sum_eq

theorem column_perm {sel sel' : List Prec} (h : sel.Perm sel') (s : Nat) : column sel s = column sel' s := by
  unfold column
  rw [rowKeys_perm h]
  exact List.map_congr_left (fun k _ => cell_perm h k s)

theorem rowKeys_map_relabel (σ : Nat → Nat) (sel : List Prec) :
    rowKeys (sel.map (relabel σ)) = rowKeys sel := by
  unfold rowKeys
  rw [List.map_map]
  rfl

theorem cell_map_relabel {σ : Nat → Nat} (hσ : Function.Injective σ) (sel : List Prec) (k : String × Int) (s : Nat) :
    cell (sel.map (relabel σ)) k (σ s) = cell sel k s := by
  unfold cell
  rw [List.filter_map, List.map_map]
  congr 1
  have : (fun p : Prec => ((p.peptide, p.charge) == k && p.exp == σ s)) ∘ relabel σ =
      fun p : Prec => ((p.peptide, p.charge) == k && p.exp == s) := by
    funext p
    simp only [Function.comp, relabel]
    congr 1
    rw [Bool.eq_iff_iff]; simp only [beq_iff_eq]
    exact ⟨fun h => hσ h, fun h => by rw [h]⟩
  rw [this]
  rfl

theorem total_map_relabel (σ : Nat → Nat) (sel : List Prec) : total (sel.map (relabel σ)) = total sel := by
  unfold total; rw [List.map_map]; rfl

/-- the intensity matrix permutes with the samples -/
theorem column_relabel {σ : Nat → Nat} (hσ : Function.Injective σ) (c : Rat) (l : List Prec) (s : Nat) :
    column (selected c (l.map (relabel σ))) (σ s) = column (selected c l) s := by
  rw [column_perm (selected_relabel hσ c l)]
  unfold column
  rw [rowKeys_map_relabel]
  exact List.map_congr_left (fun k _ => cell_map_relabel hσ _ k s)

theorem total_relabel {σ : Nat → Nat} (hσ : Function.Injective σ) (c : Rat) (l : List Prec) :
    total (selected c (l.map (relabel σ))) = total (selected c l) := by
  rw [total_perm (selected_relabel hσ c l), total_map_relabel]

theorem rowKeys_relabel {σ : Nat → Nat} (hσ : Function.Injective σ) (c : Rat) (l : List Prec) :
    rowKeys (selected c (l.map (relabel σ))) = rowKeys (selected c l) := by
  rw [rowKeys_perm (selected_relabel hσ c l), rowKeys_map_relabel]

theorem sumInt_relabel {σ : Nat → Nat} (hσ : Function.Injective σ) (c : Rat) (l : List Prec) (s : Nat) :
    sumInt c (l.map (relabel σ)) (σ s) = sumInt c l s := by
  unfold sumInt
  rw [List.filter_map, List.map_map]
  congr 1
  have : (fun p : Prec => (pepOk c p && p.exp == σ s)) ∘ relabel σ = fun p : Prec => (pepOk c p && p.exp == s) := by
    funext p
    simp only [Function.comp, relabel, pepOk]
    congr 1
    rw [Bool.eq_iff_iff]; simp only [beq_iff_eq]
    exact ⟨fun h => hσ h, fun h => by rw [h]⟩
  rw [this]
  rfl

theorem pepCount_relabel {σ : Nat → Nat} (hσ : Function.Injective σ) (c : Rat) (l : List Prec) (s : Nat) :
    pepCount c (l.map (relabel σ)) (σ s) = pepCount c l s := by
  unfold pepCount
  rw [List.filter_map, List.map_map]
  have : (fun p : Prec => (pepOk c p && p.exp == σ s)) ∘ relabel σ = fun p : Prec => (pepOk c p && p.exp == s) := by
    funext p
    simp only [Function.comp, relabel, pepOk]
    congr 1
    rw [Bool.eq_iff_iff]; simp only [beq_iff_eq]
    exact ⟨fun h => hσ h, fun h => by rw [h]⟩
  rw [this]
  rfl



/-! ### valid pairs -/

theorem mem_allPairs (n : Nat) (e : Nat × Nat) : e ∈ allPairs n ↔ e.1 < e.2 ∧ e.2 < n := by
  unfold allPairs
  simp only [List.mem_flatMap, List.mem_range, List.mem_map, List.mem_filter, decide_eq_true_eq]
  constructor
  · rintro ⟨i, _, j, ⟨hj, hij⟩, rfl⟩; exact ⟨hij, hj⟩
  · rintro ⟨h1, h2⟩; exact ⟨e.1, by omega, e.2, ⟨h2, h1⟩, rfl⟩

theorem mem_pairs (m n : Nat) (g : Option (List (Nat × Nat))) (ms : Nat) (col : Nat → List Rat) (e : Nat × Nat) :
    e ∈ pairs m n g ms col ↔ e.1 < e.2 ∧ e.2 < n ∧ pairOk m g ms (numValid m n col) col e.1 e.2 = true := by
  unfold pairs
  rw [List.mem_filter, mem_allPairs, and_assoc]

theorem zip_swap' {α β : Type} : ∀ (l₁ : List α) (l₂ : List β), (l₁.zip l₂).map Prod.swap = l₂.zip l₁
  | [], l₂ => by cases l₂ <;> simp
  | _ :: _, [] => by simp
  | a :: l₁, b :: l₂ => by simp [zip_swap' l₁ l₂]

theorem shared_comm (ci cj : List Rat) : shared ci cj = shared cj ci := by
  unfold shared
  rw [← zip_swap' ci cj, List.filter_map, List.length_map]
  congr 1
  apply List.filter_congr
  intro ab _
  simp [Function.comp, Bool.and_comm]

theorem hasEdge_comm (g : List (Nat × Nat)) (i j : Nat) : hasEdge g i j = hasEdge g j i := by
  unfold hasEdge; rw [Bool.or_comm]

/-- whether a pair of samples gets a ratio does not depend on the order of the two samples -/
theorem pairOk_comm (m : Nat) (g : Option (List (Nat × Nat))) (ms nv : Nat) (col : Nat → List Rat) (i j : Nat) :
    pairOk m g ms nv col i j = pairOk m g ms nv col j i := by
  unfold pairOk
  rw [shared_comm (col i) (col j), hasEdge_comm _ i j, Bool.and_comm (validCol m col i)]

theorem map_range_mem {σ : Nat → Nat} {n : Nat} (hp : ((List.range n).map σ).Perm (List.range n)) {s : Nat}
    (hs : s < n) : σ s < n := by
  have : σ s ∈ (List.range n).map σ := List.mem_map_of_mem (List.mem_range.mpr hs)
  exact List.mem_range.mp (hp.subset this)

theorem numValid_relabel {σ : Nat → Nat} {n : Nat} (hp : ((List.range n).map σ).Perm (List.range n))
    (m : Nat) {col col' : Nat → List Rat} (hcol : ∀ s, col' (σ s) = col s) :
    numValid m n col' = numValid m n col := by
  unfold numValid
  rw [← (hp.filter _).length_eq, List.filter_map, List.length_map]
  congr 2
  funext s
  simp [Function.comp, validCol, hcol]

def mapGraph (σ : Nat → Nat) (g : Option (List (Nat × Nat))) : Option (List (Nat × Nat)) :=
  g.map (fun es => es.map (fun e => (σ e.1, σ e.2)))

theorem hasEdge_map {σ : Nat → Nat} (hσ : Function.Injective σ) (es : List (Nat × Nat)) (i j : Nat) :
    hasEdge (es.map (fun e => (σ e.1, σ e.2))) (σ i) (σ j) = hasEdge es i j := by
  have key : ∀ a b : Nat, (es.map (fun e => (σ e.1, σ e.2))).contains (σ a, σ b) = es.contains (a, b) := by
    intro a b
    rw [Bool.eq_iff_iff]
    simp only [List.contains_iff_mem, List.mem_map, Prod.mk.injEq]
    constructor
    · rintro ⟨e, he, h1, h2⟩
      have : e = (a, b) := Prod.ext (hσ h1) (hσ h2)
      rwa [this] at he
    · intro h; exact ⟨(a, b), h, rfl, rfl⟩
  unfold hasEdge
  rw [key, key]

theorem pairOk_relabel {σ : Nat → Nat} (hσ : Function.Injective σ) (m : Nat) (g : Option (List (Nat × Nat)))
    (ms nv : Nat) {col col' : Nat → List Rat} (hcol : ∀ s, col' (σ s) = col s) (i j : Nat) :
    pairOk m (mapGraph σ g) ms nv col' (σ i) (σ j) = pairOk m g ms nv col i j := by
  unfold pairOk validCol
  rw [hcol, hcol]
  cases g with
  | none => simp [mapGraph, fastActive]
  | some es =>
    simp only [mapGraph, Option.map_some, fastActive, Option.isSome_some, Option.getD_some]
    rw [hasEdge_map hσ]

theorem ratio_relabel {σ : Nat → Nat} {col col' : Nat → List Rat} (hcol : ∀ s, col' (σ s) = col s) (i j : Nat) :
    ratio col' (σ i) (σ j) = ratio col i j := by
  unfold ratio; rw [hcol, hcol]

/-- the set of valid sample pairs permutes with the samples (as unordered pairs) -/
theorem pairs_relabel {σ : Nat → Nat} (hσ : Function.Injective σ) {n : Nat}
    (hp : ((List.range n).map σ).Perm (List.range n)) (m : Nat) (g : Option (List (Nat × Nat))) (ms : Nat)
    {col col' : Nat → List Rat} (hcol : ∀ s, col' (σ s) = col s) (i j : Nat)
    (h : (i, j) ∈ pairs m n g ms col) :
    (σ i, σ j) ∈ pairs m n (mapGraph σ g) ms col' ∨ (σ j, σ i) ∈ pairs m n (mapGraph σ g) ms col' := by
  rw [mem_pairs] at h
  obtain ⟨hij, hjn, hok⟩ := h
  simp only at hij hjn hok
  have hin : i < n := by omega
  have hne : σ i ≠ σ j := fun e => by have := hσ e; omega
  have hok' : pairOk m (mapGraph σ g) ms (numValid m n col') col' (σ i) (σ j) = true := by
    rw [numValid_relabel hp m hcol, pairOk_relabel hσ m g ms _ hcol]; exact hok
  rcases Nat.lt_or_gt_of_ne hne with hlt | hgt
  · left; rw [mem_pairs]; exact ⟨hlt, map_range_mem hp hjn, hok'⟩
  · right; rw [mem_pairs]; exact ⟨hgt, map_range_mem hp hin, by rw [pairOk_comm]; exact hok'⟩



/-! ### scaling the input -/

def scaleP (c : Rat) (p : Prec) : Prec := { p with intensity := c * p.intensity }

theorem keep_scaleP {c : Rat} (hc : 0 < c) (cut : Rat) (p : Prec) : keep cut (scaleP c p) = keep cut p := by
  unfold keep
  have h1 : pepOk cut (scaleP c p) = pepOk cut p := rfl
  rw [h1]
  congr 1
  have h : (0 < (scaleP c p).intensity) ↔ 0 < p.intensity := by
    show 0 < c * p.intensity ↔ 0 < p.intensity
    exact ⟨fun h => by by_contra hn; have := mul_nonpos_of_nonneg_of_nonpos hc.le (not_lt.mp hn); linarith,
      fun h => mul_pos hc h⟩
  simp only [h]

theorem sameGroup_scaleP (c : Rat) (a b : Prec) : sameGroup (scaleP c a) (scaleP c b) = sameGroup a b := rfl

theorem precLe_scaleP {c : Rat} (hc : 0 < c) (a b : Prec) : precLe (scaleP c a) (scaleP c b) = precLe a b := by
  rw [Bool.eq_iff_iff, precLe_iff, precLe_iff]
  unfold PrecLE LexStep
  simp only [scaleP]
  have h1 : c * b.intensity < c * a.intensity ↔ b.intensity < a.intensity :=
    ⟨fun h => lt_of_mul_lt_mul_left h hc.le, fun h => mul_lt_mul_of_pos_left h hc⟩
  have h2 : c * b.intensity = c * a.intensity ↔ b.intensity = a.intensity :=
    ⟨fun h => mul_left_cancel₀ hc.ne' h, fun h => by rw [h]⟩
  rw [h1, h2]

theorem firstsAux_map (f : Prec → Prec) (hf : ∀ a b, sameGroup (f a) (f b) = sameGroup a b) :
    ∀ (L : List Prec) (prev : Option Prec), firstsAux (prev.map f) (L.map f) = (firstsAux prev L).map f
  | [], prev => by cases prev <;> simp [firstsAux]
  | a :: r, none => by
    simp only [List.map_cons, Option.map_none, firstsAux]
    rw [← firstsAux_map f hf r (some a)]; rfl
  | a :: r, some q => by
    simp only [List.map_cons, Option.map_some, firstsAux, hf]
    split
    · exact firstsAux_map f hf r (some q)
    · rw [List.map_cons, ← firstsAux_map f hf r (some a)]; rfl

theorem isort_map_scaleP {c : Rat} (hc : 0 < c) (l : List Prec) :
    isort precLe (l.map (scaleP c)) = (isort precLe l).map (scaleP c) := by
  symm
  apply eq_isort_of_sorted precLe_trans precLe_total precLe_antisymm
  · exact (isort_perm precLe l).map _
  · rw [List.pairwise_map]
    exact (isort_sorted precLe_trans precLe_total l).imp (fun h => by rw [precLe_scaleP hc]; exact h)

/-- selection commutes with scaling all intensities by `c > 0` -/
theorem selected_scale {c : Rat} (hc : 0 < c) (cut : Rat) (l : List Prec) :
    selected cut (l.map (scaleP c)) = (selected cut l).map (scaleP c) := by
  unfold selected
  rw [List.filter_map]
  have : (keep cut ∘ scaleP c) = keep cut := by funext p; exact keep_scaleP hc cut p
  rw [this, isort_map_scaleP hc]
  exact firstsAux_map (scaleP c) (sameGroup_scaleP c) _ none

theorem sum_map_mul_left' (c : Rat) : ∀ l : List Rat, (l.map (fun x => c * x)).sum = c * l.sum
  | [] => by simp
  | a :: r => by simp [sum_map_mul_left' c r, mul_add]

theorem rowKeys_map_scaleP (c : Rat) (sel : List Prec) : rowKeys (sel.map (scaleP c)) = rowKeys sel := by
  unfold rowKeys; rw [List.map_map]; rfl

theorem cell_map_scaleP (c : Rat) (sel : List Prec) (k : String × Int) (s : Nat) :
    cell (sel.map (scaleP c)) k s = c * cell sel k s := by
  unfold cell
  rw [List.filter_map, List.map_map, ← sum_map_mul_left', List.map_map]
  rfl

theorem total_map_scaleP (c : Rat) (sel : List Prec) : total (sel.map (scaleP c)) = c * total sel := by
  unfold total
  rw [List.map_map, ← sum_map_mul_left', List.map_map]
  rfl

theorem column_map_scaleP (c : Rat) (sel : List Prec) (s : Nat) :
    column (sel.map (scaleP c)) s = (column sel s).map (fun x => c * x) := by
  unfold column
  rw [rowKeys_map_scaleP, List.map_map]
  exact List.map_congr_left (fun k _ => cell_map_scaleP c sel k s)

theorem nonzeros_scale {c : Rat} (hc : c ≠ 0) (col : List Rat) : nonzeros (col.map (fun x => c * x)) = nonzeros col := by
  unfold nonzeros
  rw [List.filter_map, List.length_map]
  congr 2
  funext x
  simp [Function.comp, hc]

theorem shared_scale {c : Rat} (hc : 0 < c) (ci cj : List Rat) :
    shared (ci.map (fun x => c * x)) (cj.map (fun x => c * x)) = shared ci cj := by
  unfold shared
  rw [List.zip_map, List.filter_map, List.length_map]
  congr 2
  funext ab
  simp only [Function.comp, Prod.map]
  have h : ∀ x : Rat, (0 < c * x) ↔ 0 < x := fun x =>
    ⟨fun h => by by_contra hn; have := mul_nonpos_of_nonneg_of_nonpos hc.le (not_lt.mp hn); linarith,
     fun h => mul_pos hc h⟩
  simp only [h]

theorem ratiosOf_scale {c : Rat} (hc : c ≠ 0) (ci cj : List Rat) :
    ratiosOf (ci.map (fun x => c * x)) (cj.map (fun x => c * x)) = ratiosOf ci cj := by
  unfold ratiosOf
  rw [List.zip_map, List.filterMap_map]
  congr 1
  funext ab
  have h1 : ∀ x : Rat, (c * x == 0) = (x == 0) := by
    intro x; rw [Bool.eq_iff_iff]; simp [hc]
  simp only [Function.comp, Prod.map, h1, mul_div_mul_left _ _ hc]

section ScaleCols
variable {c : Rat} (hc : 0 < c) {col col' : Nat → List Rat} (hcol : ∀ s, col' s = (col s).map (fun x => c * x))
include hc hcol

theorem validCol_scale (m s : Nat) : validCol m col' s = validCol m col s := by
  unfold validCol; rw [hcol, nonzeros_scale hc.ne']

theorem numValid_scale (m n : Nat) : numValid m n col' = numValid m n col := by
  unfold numValid
  congr 2
  funext s
  exact validCol_scale hc hcol m s

theorem pairOk_scale (m : Nat) (g : Option (List (Nat × Nat))) (ms nv i j : Nat) :
    pairOk m g ms nv col' i j = pairOk m g ms nv col i j := by
  unfold pairOk
  rw [validCol_scale hc hcol, validCol_scale hc hcol, hcol, hcol, shared_scale hc]

theorem pairs_scale (m n : Nat) (g : Option (List (Nat × Nat))) (ms : Nat) :
    pairs m n g ms col' = pairs m n g ms col := by
  unfold pairs
  rw [numValid_scale hc hcol]
  congr 1
  funext e
  exact pairOk_scale hc hcol m g ms _ e.1 e.2

theorem ratio_scale (i j : Nat) : ratio col' i j = ratio col i j := by
  unfold ratio; rw [hcol, hcol, ratiosOf_scale hc.ne']

end ScaleCols

theorem sumInt_scale (c cut : Rat) (l : List Prec) (s : Nat) :
    sumInt cut (l.map (scaleP c)) s = c * sumInt cut l s := by
  unfold sumInt
  rw [List.filter_map, List.map_map, ← sum_map_mul_left', List.map_map]
  rfl

theorem pepCount_scale (c cut : Rat) (l : List Prec) (s : Nat) :
    pepCount cut (l.map (scaleP c)) s = pepCount cut l s := by
  unfold pepCount
  rw [List.filter_map, List.map_map]
  rfl

theorem pairEq_scale {c : Rat} (hc : 0 < c) (stab : Bool) (cut : Rat) (l : List Prec)
    {col col' : Nat → List Rat} (hcol : ∀ s, col' s = (col s).map (fun x => c * x)) (e : Nat × Nat) :
    pairEq stab cut (l.map (scaleP c)) col' e = pairEq stab cut l col e := by
  unfold pairEq
  simp only [pepCount_scale, sumInt_scale, ratio_scale hc hcol, mul_div_mul_left _ _ hc.ne']



/-! ### median -/

theorem ratLe_total (a b : Rat) : ratLe a b = true ∨ ratLe b a = true := by
  simp only [ratLe, decide_eq_true_eq]; exact le_total a b
theorem ratLe_trans (a b c : Rat) (h1 : ratLe a b = true) (h2 : ratLe b c = true) : ratLe a c = true := by
  simp only [ratLe, decide_eq_true_eq] at *; exact le_trans h1 h2
theorem ratLe_antisymm (a b : Rat) (h1 : ratLe a b = true) (h2 : ratLe b a = true) : a = b := by
  simp only [ratLe, decide_eq_true_eq] at *; exact le_antisymm h1 h2

/-- the median does not depend on the order of the values -/
theorem median_perm {l l' : List Rat} (h : l.Perm l') : median l = median l' := by
  unfold median
  rw [isort_congr ratLe_trans ratLe_total ratLe_antisymm h]

theorem getD_of_all_eq {q : Rat} : ∀ (l : List Rat) (k : Nat), (∀ x ∈ l, x = q) → k < l.length → l.getD k 0 = q
  | [], k, _, hk => by simp at hk
  | a :: r, 0, h, _ => by simpa using h a List.mem_cons_self
  | a :: r, k + 1, h, hk => by
    simp only [List.getD_cons_succ]
    exact getD_of_all_eq r k (fun x hx => h x (List.mem_cons_of_mem _ hx)) (by simpa using hk)

/-- if all values are equal, the median is that value -/
theorem median_const {q : Rat} {l : List Rat} (hne : l ≠ []) (h : ∀ x ∈ l, x = q) : median l = q := by
  unfold median
  have hall : ∀ x ∈ isort ratLe l, x = q := fun x hx => h x ((isort_perm ratLe l).subset hx)
  have hlen : (isort ratLe l).length = l.length := (isort_perm ratLe l).length_eq
  have hpos : 0 < l.length := List.length_pos_iff.mpr hne
  simp only [hlen]
  rw [if_neg (by omega)]
  split
  · exact getD_of_all_eq _ _ hall (by rw [hlen]; omega)
  · rw [getD_of_all_eq _ _ hall (by rw [hlen]; omega), getD_of_all_eq _ _ hall (by rw [hlen]; omega)]
    ring

theorem mem_ratiosOf {ci cj : List Rat} {x : Rat} (h : x ∈ ratiosOf ci cj) :
    ∃ ab ∈ ci.zip cj, ab.1 ≠ 0 ∧ ab.2 ≠ 0 ∧ x = ab.1 / ab.2 := by
  unfold ratiosOf at h
  obtain ⟨ab, hab, hx⟩ := List.mem_filterMap.mp h
  refine ⟨ab, hab, ?_⟩
  split at hx
  · cases hx
  · rename_i hn
    simp only [Bool.or_eq_true, beq_iff_eq, not_or] at hn
    exact ⟨hn.1, hn.2, by simpa using hx.symm⟩

theorem ratiosOf_ne_nil_of_shared {ci cj : List Rat} (h : 0 < shared ci cj) : ratiosOf ci cj ≠ [] := by
  unfold shared at h
  obtain ⟨ab, hab⟩ := List.exists_mem_of_length_pos h
  rw [List.mem_filter] at hab
  obtain ⟨hmem, hpos⟩ := hab
  simp only [Bool.and_eq_true, decide_eq_true_eq] at hpos
  intro hnil
  have : ab.1 / ab.2 ∈ ratiosOf ci cj := by
    unfold ratiosOf
    refine List.mem_filterMap.mpr ⟨ab, hmem, ?_⟩
    have h1 : ab.1 ≠ 0 := ne_of_gt hpos.1
    have h2 : ab.2 ≠ 0 := ne_of_gt hpos.2
    simp [h1, h2]
  rw [hnil] at this
  exact absurd this (by simp)

/-- consistent data: if every peptide quantified in both samples has the same ratio `q`, the median
    ratio of a valid pair is `q` -/
theorem ratio_of_consistent {col : Nat → List Rat} {i j : Nat} {q : Rat} (hsh : 0 < shared (col i) (col j))
    (h : ∀ ab ∈ (col i).zip (col j), ab.1 ≠ 0 → ab.2 ≠ 0 → ab.1 / ab.2 = q) : ratio col i j = q := by
  unfold ratio
  apply median_const (ratiosOf_ne_nil_of_shared hsh)
  intro x hx
  obtain ⟨ab, hab, h1, h2, rfl⟩ := mem_ratiosOf hx
  exact h ab hab h1 h2



/-! ### after the solve -/
section Final
variable {α : Type} [Field α] [LinearOrder α] [IsStrictOrderedRing α] [inst : DecidableLT α]

theorem vsum_mul_left (n : Nat) (c : α) (v : Nat → α) : vsum n (fun s => c * v s) = c * vsum n v := by
  unfold vsum
  induction (List.range n) with
  | nil => simp
  | cons a r ih => simp only [List.map_cons, List.sum_cons, ih, mul_add]

theorem vsum_nonneg (n : Nat) (v : Nat → α) (h : ∀ s, 0 ≤ v s) : 0 ≤ vsum n v := by
  unfold vsum
  apply List.sum_nonneg
  intro x hx
  obtain ⟨s, _, rfl⟩ := List.mem_map.mp hx
  exact h s

theorem vsum_eq_zero_of_nonneg (n : Nat) (v : Nat → α) (h : ∀ s, 0 ≤ v s) (h0 : vsum n v ≤ 0) :
    ∀ s, s < n → v s = 0 := by
  unfold vsum at h0
  intro s hs
  have hmem : v s ∈ (List.range n).map v := List.mem_map_of_mem (List.mem_range.mpr hs)
  have hle : v s ≤ ((List.range n).map v).sum := by
    apply List.single_le_sum _ _ hmem
    intro x hx
    obtain ⟨t, _, rfl⟩ := List.mem_map.mp hx
    exact h t
  exact le_antisymm (le_trans hle h0) (h s)

theorem scaleEqualSum_apply (n : Nat) (tot : α) (v : Nat → α) (h : 0 < vsum n v) (s : Nat) :
    scaleEqualSum n tot v s = tot / vsum n v * v s := by
  unfold scaleEqualSum; rw [if_pos h]

/-- `_scaleEqualSum` preserves the total whenever something is positive -/
theorem vsum_scaleEqualSum (n : Nat) (tot : α) (v : Nat → α) (h : 0 < vsum n v) :
    vsum n (scaleEqualSum n tot v) = tot := by
  have : scaleEqualSum n tot v = fun s => tot / vsum n v * v s := by
    funext s; exact scaleEqualSum_apply n tot v h s
  rw [this, vsum_mul_left, div_mul_cancel₀ _ h.ne']

theorem zeroed_nonneg (zero : List Nat) (v : Nat → α) (h : ∀ s, 0 ≤ v s) (s : Nat) : 0 ≤ zeroed zero v s := by
  unfold zeroed; split
  · exact le_refl _
  · exact h s

theorem lfq_sum_preserved (n : Nat) (zero : List Nat) (tot : α) (v : Nat → α) (hv : ∀ s, 0 ≤ v s)
    (hpos : ∃ s, s < n ∧ 0 < lfq n zero tot v s) : vsum n (lfq n zero tot v) = tot := by
  unfold lfq
  by_cases h : 0 < vsum n (zeroed zero v)
  · exact vsum_scaleEqualSum n tot _ h
  · exfalso
    obtain ⟨s, hs, hps⟩ := hpos
    unfold lfq scaleEqualSum at hps
    rw [if_neg h] at hps
    have := vsum_eq_zero_of_nonneg n _ (zeroed_nonneg zero v hv) (not_lt.mp h) s hs
    rw [this] at hps
    exact lt_irrefl _ hps

theorem lfq_zero_of_mem (n : Nat) (zero : List Nat) (tot : α) (v : Nat → α) {z : Nat} (hz : z ∈ zero) :
    lfq n zero tot v z = 0 := by
  have hz0 : zeroed zero v z = 0 := by
    unfold zeroed; rw [if_pos (List.contains_iff_mem.mpr hz)]
  unfold lfq scaleEqualSum
  split
  · simp only [hz0, mul_zero]
  · exact hz0

theorem lfq_scale_total (n : Nat) (zero : List Nat) (c tot : α) (v : Nat → α) (hv : ∀ s, 0 ≤ v s)
    (s : Nat) (hs : s < n) : lfq n zero (c * tot) v s = c * lfq n zero tot v s := by
  unfold lfq scaleEqualSum
  split
  · ring
  · rename_i h
    rw [vsum_eq_zero_of_nonneg n _ (zeroed_nonneg zero v hv) (not_lt.mp h) s hs, mul_zero]

end Final

example (n : Nat) (zero : List Nat) (tot : Rat) (v : Nat → Rat) (hv : ∀ s, 0 ≤ v s)
    (hpos : ∃ s, s < n ∧ 0 < lfq n zero tot v s) : vsum n (lfq n zero tot v) = tot :=
  lfq_sum_preserved n zero tot v hv hpos

noncomputable example (n : Nat) (zero : List Nat) (tot : ℝ) (v : Nat → ℝ) (hv : ∀ s, 0 ≤ v s)
    (hpos : ∃ s, s < n ∧ 0 < lfq n zero tot v s) : vsum n (lfq n zero tot v) = tot :=
  lfq_sum_preserved n zero tot v hv hpos



/-! ### the linear system -/

theorem isSeen_iff (ps : List (Nat × Nat)) (s : Nat) : isSeen ps s = true ↔ ∃ e ∈ ps, e.1 = s ∨ e.2 = s := by
  simp [isSeen]

theorem mem_seen (n : Nat) (ps : List (Nat × Nat)) (s : Nat) :
    s ∈ (buildSystem n ps).seen ↔ s < n ∧ ∃ e ∈ ps, e.1 = s ∨ e.2 = s := by
  simp [buildSystem, isSeen_iff]

/-- "samples without enough shared peptides": the zero columns are exactly the samples in no valid pair -/
theorem mem_zeroCols (n : Nat) (ps : List (Nat × Nat)) (s : Nat) :
    s ∈ (buildSystem n ps).zeroCols ↔ s < n ∧ ∀ e ∈ ps, e.1 ≠ s ∧ e.2 ≠ s := by
  simp only [buildSystem, List.mem_filter, List.mem_range, Bool.not_eq_true', Bool.eq_false_iff, ne_eq,
    isSeen_iff, not_exists, not_and, not_or]

theorem seen_nodup (n : Nat) (ps : List (Nat × Nat)) : (buildSystem n ps).seen.Nodup :=
  (List.nodup_range).filter _

/-! ### stage B, specified -/

/-- right-hand side of one equation: `w · log(summed-intensity ratio) + (1 - w) · log(median ratio)` -/
noncomputable def rhs (q : PairEq) : ℝ :=
  (q.w : ℝ) * Real.log (q.sratio : ℝ) + (1 - (q.w : ℝ)) * Real.log (q.ratio : ℝ)

/-- the objective `lsqr` minimises for the system of `_buildLinearSystem`: one residual per valid pair,
    the anchor row over the samples that occur in a pair, one row `y z = 0` per other sample -/
noncomputable def objective (eqs : List PairEq) (sys : System) (y : Nat → ℝ) : ℝ :=
  (eqs.map (fun q => (y q.i - y q.j - rhs q) ^ 2)).sum + ((sys.seen.map y).sum) ^ 2 +
    (sys.zeroCols.map (fun z => (y z) ^ 2)).sum

/-- `y` is a least-squares solution (what `scipy.sparse.linalg.lsqr` is specified to return) -/
def IsLeastSquares (eqs : List PairEq) (sys : System) (y : Nat → ℝ) : Prop :=
  ∀ z, objective eqs sys y ≤ objective eqs sys z

/-- samples linked by a chain of valid pairs -/
def Linked (eqs : List PairEq) : Nat → Nat → Prop :=
  Relation.ReflTransGen (fun i j => ∃ q ∈ eqs, (q.i = i ∧ q.j = j) ∨ (q.i = j ∧ q.j = i))

theorem sum_sq_nonneg {β : Type} (l : List β) (f : β → ℝ) : 0 ≤ (l.map (fun q => (f q) ^ 2)).sum := by
  apply List.sum_nonneg
  intro x hx
  obtain ⟨q, _, rfl⟩ := List.mem_map.mp hx
  positivity

theorem sum_sq_eq_zero {β : Type} : ∀ (l : List β) (f : β → ℝ), (l.map (fun q => (f q) ^ 2)).sum = 0 →
    ∀ q ∈ l, f q = 0
  | [], _, _, q, hq => by simp at hq
  | a :: r, f, h, q, hq => by
    simp only [List.map_cons, List.sum_cons] at h
    have h1 : 0 ≤ (f a) ^ 2 := by positivity
    have h2 := sum_sq_nonneg r f
    rcases List.mem_cons.mp hq with rfl | hq
    · have : (f q) ^ 2 = 0 := by linarith
      exact pow_eq_zero_iff (two_ne_zero) |>.mp this
    · exact sum_sq_eq_zero r f (by linarith) q hq

theorem objective_nonneg (eqs : List PairEq) (sys : System) (y : Nat → ℝ) : 0 ≤ objective eqs sys y := by
  unfold objective
  have h1 := sum_sq_nonneg eqs (fun q => y q.i - y q.j - rhs q)
  have h2 := sum_sq_nonneg sys.zeroCols y
  have h3 : 0 ≤ ((sys.seen.map y).sum) ^ 2 := by positivity
  linarith

theorem sum_map_sub_const (m : ℝ) (x : Nat → ℝ) : ∀ l : List Nat,
    (l.map (fun v => x v - m)).sum = (l.map x).sum - (l.length : ℝ) * m
  | [] => by simp
  | a :: r => by
    simp only [List.map_cons, List.sum_cons, List.length_cons, sum_map_sub_const m x r]
    push_cast; ring

/-- the truth, centred on the samples that occur in a pair and 0 elsewhere -/
noncomputable def centred (sys : System) (x : Nat → ℝ) : Nat → ℝ :=
  fun v => if v ∈ sys.seen then x v - ((sys.seen.map x).sum) / (sys.seen.length : ℝ) else 0

/-- on consistent right-hand sides the centred truth has zero residual -/
theorem objective_centred (n : Nat) (eqs : List PairEq) (hlt : ∀ q ∈ eqs, q.i < n ∧ q.j < n)
    (x : Nat → ℝ) (hcons : ∀ q ∈ eqs, rhs q = x q.i - x q.j) :
    objective eqs (buildSystem n (eqs.map (fun q => (q.i, q.j))))
      (centred (buildSystem n (eqs.map (fun q => (q.i, q.j)))) x) = 0 := by
  set sys := buildSystem n (eqs.map (fun q => (q.i, q.j))) with hsys
  set m : ℝ := ((sys.seen.map x).sum) / (sys.seen.length : ℝ) with hm
  have hxb : centred sys x = fun v => if v ∈ sys.seen then x v - m else 0 := rfl
  rw [hxb]
  have hseen : ∀ q ∈ eqs, q.i ∈ sys.seen ∧ q.j ∈ sys.seen := by
    intro q hq
    have := hlt q hq
    constructor
    · rw [hsys, mem_seen]; exact ⟨this.1, (q.i, q.j), List.mem_map_of_mem (f := fun q : PairEq => (q.i, q.j)) hq, Or.inl rfl⟩
    · rw [hsys, mem_seen]; exact ⟨this.2, (q.i, q.j), List.mem_map_of_mem (f := fun q : PairEq => (q.i, q.j)) hq, Or.inr rfl⟩
  unfold objective
  have h1 : (eqs.map (fun q => ((fun v => if v ∈ sys.seen then x v - m else 0) q.i -
      (fun v => if v ∈ sys.seen then x v - m else 0) q.j - rhs q) ^ 2)).sum = 0 := by
    apply List.sum_eq_zero
    intro t ht
    obtain ⟨q, hq, rfl⟩ := List.mem_map.mp ht
    have hs := hseen q hq
    simp only [hs.1, hs.2, if_true, hcons q hq]
    ring
  have h2 : (sys.seen.map (fun v => if v ∈ sys.seen then x v - m else 0)).sum = 0 := by
    have : sys.seen.map (fun v => if v ∈ sys.seen then x v - m else 0) = sys.seen.map (fun v => x v - m) := by
      apply List.map_congr_left
      intro v hv; simp only [hv, if_true]
    rw [this, sum_map_sub_const]
    by_cases h0 : sys.seen.length = 0
    · have : sys.seen = [] := List.length_eq_zero_iff.mp h0
      simp [this]
    · have hne : (sys.seen.length : ℝ) ≠ 0 := by exact_mod_cast h0
      rw [hm]
      field_simp
      ring
  have h3 : (sys.zeroCols.map (fun z => ((fun v => if v ∈ sys.seen then x v - m else 0) z) ^ 2)).sum = 0 := by
    apply List.sum_eq_zero
    intro t ht
    obtain ⟨z, hz, rfl⟩ := List.mem_map.mp ht
    have hzn : z ∉ sys.seen := by
      rw [hsys, mem_zeroCols] at hz
      rw [hsys, mem_seen]
      rintro ⟨_, e, he, h⟩
      have := hz.2 e he
      rcases h with h | h
      · exact this.1 h
      · exact this.2 h
    simp only [hzn, if_false]; ring
  rw [h1, h2, h3]; ring

/-- so a least-squares solution exists on consistent data (non-vacuity of `IsLeastSquares`) -/
theorem centred_isLeastSquares (n : Nat) (eqs : List PairEq) (hlt : ∀ q ∈ eqs, q.i < n ∧ q.j < n)
    (x : Nat → ℝ) (hcons : ∀ q ∈ eqs, rhs q = x q.i - x q.j) :
    IsLeastSquares eqs (buildSystem n (eqs.map (fun q => (q.i, q.j))))
      (centred (buildSystem n (eqs.map (fun q => (q.i, q.j)))) x) := by
  intro z
  rw [objective_centred n eqs hlt x hcons]
  exact objective_nonneg _ _ _

/-- C11: if the right-hand sides are consistent with one abundance per sample (`rhs q = x i − x j`),
    every least-squares solution reproduces the differences of `x` between linked samples -/
theorem consistent_recovery_aux (n : Nat) (eqs : List PairEq) (hlt : ∀ q ∈ eqs, q.i < n ∧ q.j < n)
    (x y : Nat → ℝ) (hcons : ∀ q ∈ eqs, rhs q = x q.i - x q.j)
    (hls : IsLeastSquares eqs (buildSystem n (eqs.map (fun q => (q.i, q.j)))) y)
    (i j : Nat) (hij : Linked eqs i j) : y i - y j = x i - x j := by
  have hF0 := objective_centred n eqs hlt x hcons
  set sys := buildSystem n (eqs.map (fun q => (q.i, q.j))) with hsys
  set xb := centred sys x
  have hFy : objective eqs sys y = 0 := le_antisymm (hF0 ▸ hls xb) (objective_nonneg _ _ _)
  have hsum : (eqs.map (fun q => (y q.i - y q.j - rhs q) ^ 2)).sum = 0 := by
    unfold objective at hFy
    have h1 := sum_sq_nonneg eqs (fun q => y q.i - y q.j - rhs q)
    have h2 := sum_sq_nonneg sys.zeroCols y
    have h3 : 0 ≤ ((sys.seen.map y).sum) ^ 2 := by positivity
    linarith
  have hedge : ∀ q ∈ eqs, y q.i - y q.j = x q.i - x q.j := by
    intro q hq
    have := sum_sq_eq_zero eqs (fun q => y q.i - y q.j - rhs q) hsum q hq
    rw [hcons q hq] at this
    linarith
  induction hij with
  | refl => ring
  | @tail k l _ hstep ih =>
    obtain ⟨q, hq, h | h⟩ := hstep
    · have := hedge q hq; rw [h.1, h.2] at this; linarith
    · have := hedge q hq; rw [h.1, h.2] at this; linarith



theorem Linked.incident_right {eqs : List PairEq} {a b : Nat} (h : Linked eqs a b) (hne : a ≠ b) :
    ∃ q ∈ eqs, q.i = b ∨ q.j = b := by
  induction h with
  | refl => exact absurd rfl hne
  | @tail k l _ hstep _ =>
    obtain ⟨q, hq, h | h⟩ := hstep
    · exact ⟨q, hq, Or.inr h.2⟩
    · exact ⟨q, hq, Or.inl h.1⟩

theorem Linked.symm {eqs : List PairEq} {a b : Nat} (h : Linked eqs a b) : Linked eqs b a := by
  induction h with
  | refl => exact Relation.ReflTransGen.refl
  | @tail k l _ hstep ih =>
    refine Relation.ReflTransGen.head ?_ ih
    obtain ⟨q, hq, h | h⟩ := hstep
    · exact ⟨q, hq, Or.inr h⟩
    · exact ⟨q, hq, Or.inl h⟩

theorem vsum_congr {α : Type} [Zero α] [Add α] (n : Nat) {v w : Nat → α} (h : ∀ s, s < n → v s = w s) :
    vsum n v = vsum n w := by
  unfold vsum
  congr 1
  exact List.map_congr_left (fun s hs => h s (List.mem_range.mp hs))

theorem vsum_pos (n : Nat) (hn : 0 < n) (v : Nat → ℝ) (h : ∀ s, 0 < v s) : 0 < vsum n v := by
  unfold vsum
  cases n with
  | zero => omega
  | succ k =>
    rw [List.range_succ, List.map_append, List.sum_append]
    have : 0 ≤ ((List.range k).map v).sum := by
      apply List.sum_nonneg
      intro x hx; obtain ⟨s, _, rfl⟩ := List.mem_map.mp hx; exact (h s).le
    have := h k
    simp only [List.map_cons, List.map_nil, List.sum_cons, List.sum_nil, add_zero]
    linarith

/-- "… the LFQ intensities are proportional to the sample factors": with all `n ≥ 2` samples linked and
    right-hand sides `log g i − log g j`, any least-squares solution gives `lfq s = total · g s / Σ g` -/
theorem consistent_lfq_aux (n : Nat) (hn : 2 ≤ n) (eqs : List PairEq) (hlt : ∀ q ∈ eqs, q.i < n ∧ q.j < n)
    (g : Nat → ℝ) (hg : ∀ s, 0 < g s) (y : Nat → ℝ)
    (hcons : ∀ q ∈ eqs, rhs q = Real.log (g q.i) - Real.log (g q.j))
    (hls : IsLeastSquares eqs (buildSystem n (eqs.map (fun q => (q.i, q.j)))) y)
    (i0 : Nat) (hconn : ∀ s, s < n → Linked eqs i0 s) (tot : ℝ) (s : Nat) (hs : s < n) :
    lfq n (buildSystem n (eqs.map (fun q => (q.i, q.j)))).zeroCols tot (fun t => Real.exp (y t)) s =
      tot * g s / vsum n g := by
  -- every sample occurs in a pair
  have hinc : ∀ t, t < n → ∃ q ∈ eqs, q.i = t ∨ q.j = t := by
    intro t ht
    by_cases hti : t = i0
    · let u := if i0 = 0 then 1 else 0
      have hu : u < n := by simp only [u]; split <;> omega
      have hne : u ≠ i0 := by simp only [u]; split <;> omega
      have := (hconn u hu).symm.incident_right hne
      rw [hti]; exact this
    · exact (hconn t ht).incident_right (fun h => hti h.symm)
  have hz : (buildSystem n (eqs.map (fun q => (q.i, q.j)))).zeroCols = [] := by
    rw [List.eq_nil_iff_forall_not_mem]
    intro z hz
    rw [mem_zeroCols] at hz
    obtain ⟨q, hq, h⟩ := hinc z hz.1
    have := hz.2 (q.i, q.j) (List.mem_map_of_mem (f := fun q : PairEq => (q.i, q.j)) hq)
    rcases h with h | h
    · exact this.1 h
    · exact this.2 h
  rw [hz]
  -- exp y = K · g
  have hdiff : ∀ t, t < n → y t - y i0 = Real.log (g t) - Real.log (g i0) := by
    intro t ht
    exact consistent_recovery_aux n eqs hlt (fun v => Real.log (g v)) y hcons hls t i0 (hconn t ht).symm
  set K : ℝ := Real.exp (y i0 - Real.log (g i0)) with hK
  have hKpos : 0 < K := Real.exp_pos _
  have hexp : ∀ t, t < n → Real.exp (y t) = K * g t := by
    intro t ht
    have : y t = Real.log (g t) + (y i0 - Real.log (g i0)) := by linarith [hdiff t ht]
    rw [this, Real.exp_add, Real.exp_log (hg t), hK]; ring
  have hzeroed : zeroed ([] : List Nat) (fun t => Real.exp (y t)) = fun t => Real.exp (y t) := by
    funext t; simp [zeroed]
  unfold lfq
  rw [hzeroed]
  have hsum : vsum n (fun t => Real.exp (y t)) = K * vsum n g := by
    rw [vsum_congr n hexp, vsum_mul_left]
  have hgpos : 0 < vsum n g := vsum_pos n (by omega) g hg
  have hpos : 0 < vsum n (fun t => Real.exp (y t)) := by rw [hsum]; exact mul_pos hKpos hgpos
  rw [scaleEqualSum_apply n tot _ hpos s, hsum, hexp s hs]
  field_simp



/-! ### `nub` and the counts -/

theorem mem_nub {α : Type} [BEq α] [LawfulBEq α] : ∀ (l : List α) (x : α), x ∈ nub l ↔ x ∈ l
  | [], x => by simp [nub]
  | a :: r, x => by
    simp only [nub, List.mem_cons, List.mem_filter, mem_nub r x, Bool.not_eq_true', beq_eq_false_iff_ne, ne_eq]
    constructor
    · rintro (h | ⟨h, _⟩)
      · exact Or.inl h
      · exact Or.inr h
    · intro h
      by_cases hxa : x = a
      · exact Or.inl hxa
      · rcases h with h | h
        · exact Or.inl h
        · exact Or.inr ⟨h, hxa⟩

theorem nodup_nub {α : Type} [BEq α] [LawfulBEq α] : ∀ (l : List α), (nub l).Nodup
  | [] => by simp [nub]
  | a :: r => by
    simp only [nub, List.nodup_cons, List.mem_filter, Bool.not_eq_true', beq_eq_false_iff_ne, ne_eq,
      not_true_eq_false, and_false, not_false_eq_true, true_and]
    exact (nodup_nub r).filter _

theorem nub_length_perm {α : Type} [BEq α] [LawfulBEq α] {l l' : List α} (h : l.Perm l') :
    (nub l).length = (nub l').length := by
  apply List.Perm.length_eq
  rw [List.perm_ext_iff_of_nodup (nodup_nub l) (nodup_nub l')]
  intro x
  rw [mem_nub, mem_nub, h.mem_iff]

theorem sumInt_perm {l l' : List Prec} (c : Rat) (h : l.Perm l') (s : Nat) : sumInt c l s = sumInt c l' s := by
  unfold sumInt; exact ((h.filter _).map _).sum_eq

theorem pepCount_perm {l l' : List Prec} (c : Rat) (h : l.Perm l') (s : Nat) : pepCount c l s = pepCount c l' s := by
  unfold pepCount; exact nub_length_perm ((h.filter _).map _)

theorem pairEq_perm {l l' : List Prec} (stab : Bool) (c : Rat) (h : l.Perm l') (col : Nat → List Rat) (e : Nat × Nat) :
    pairEq stab c l col e = pairEq stab c l' col e := by
  unfold pairEq
  simp only [pepCount_perm c h, sumInt_perm c h]

/-- the whole of stage A is independent of the order of the precursor list -/
theorem stageA_perm (o : Opts) {l l' : List Prec} (h : l.Perm l') : stageA o l = stageA o l' := by
  unfold stageA
  simp only [selected_perm o.cutoff h]
  congr 1
  exact List.map_congr_left (fun e _ => pairEq_perm o.stab o.cutoff h _ e)

/-! ### facts about the equations of `stageA` -/

theorem stageA_eqs_pairs (o : Opts) (l : List Prec) :
    (stageA o l).eqs.map (fun q => (q.i, q.j)) =
      pairs o.minRatios o.n o.graph o.minSamples (column (selected o.cutoff l)) := by
  unfold stageA
  simp only [List.map_map]
  conv_rhs => rw [← List.map_id (pairs _ _ _ _ _)]
  apply List.map_congr_left
  intro e _
  simp [pairEq]

theorem stageA_system (o : Opts) (l : List Prec) :
    (stageA o l).system = buildSystem o.n ((stageA o l).eqs.map (fun q => (q.i, q.j))) := by
  rw [stageA_eqs_pairs]; rfl

theorem stageA_eq_mem (o : Opts) (l : List Prec) (q : PairEq) (hq : q ∈ (stageA o l).eqs) :
    q.i < q.j ∧ q.j < o.n ∧
    pairOk o.minRatios o.graph o.minSamples (numValid o.minRatios o.n (column (selected o.cutoff l)))
      (column (selected o.cutoff l)) q.i q.j = true ∧
    q.ratio = ratio (column (selected o.cutoff l)) q.i q.j ∧ (o.stab = false → q.w = 0) := by
  unfold stageA at hq
  simp only [List.mem_map] at hq
  obtain ⟨e, he, rfl⟩ := hq
  rw [mem_pairs] at he
  refine ⟨he.1, he.2.1, he.2.2, rfl, ?_⟩
  intro hs
  simp [pairEq, hs]



theorem zip_map_same {α β γ : Type} (f : α → β) (g : α → γ) : ∀ l : List α,
    (l.map f).zip (l.map g) = l.map (fun a => (f a, g a))
  | [] => rfl
  | a :: r => by simp [zip_map_same f g r]

/-- consistent data in cell form: every quantified cell is `f k · g s` -/
theorem ratio_of_consistent_cells (sel : List Prec) (n : Nat) (f : String × Int → Rat) (g : Nat → Rat)
    (hf : ∀ k, f k ≠ 0) (i j : Nat) (hi : i < n) (hj : j < n)
    (hc : ∀ k ∈ rowKeys sel, ∀ s, s < n → cell sel k s = 0 ∨ cell sel k s = f k * g s)
    (hsh : 0 < shared (column sel i) (column sel j)) : ratio (column sel) i j = g i / g j := by
  apply ratio_of_consistent hsh
  intro ab hab h1 h2
  unfold column at hab
  rw [zip_map_same] at hab
  obtain ⟨k, hk, rfl⟩ := List.mem_map.mp hab
  simp only at h1 h2 ⊢
  rcases hc k hk i hi with h | h
  · exact absurd h h1
  · rcases hc k hk j hj with h' | h'
    · exact absurd h' h2
    · rw [h, h', mul_div_mul_left _ _ (hf k)]

theorem shared_pos_of_pairOk {m : Nat} (hm : 1 ≤ m) {g : Option (List (Nat × Nat))} {ms nv : Nat}
    {col : Nat → List Rat} {i j : Nat} (h : pairOk m g ms nv col i j = true) : 0 < shared (col i) (col j) := by
  unfold pairOk at h
  simp only [Bool.and_eq_true, decide_eq_true_eq] at h
  omega



/-! ### orientation of a pair: the median of the inverse ratios -/

def ratioFn (ab : Rat × Rat) : Option Rat := if ab.1 == 0 || ab.2 == 0 then none else some (ab.1 / ab.2)

theorem ratiosOf_eq (ci cj : List Rat) : ratiosOf ci cj = (ci.zip cj).filterMap ratioFn := rfl

theorem filterMap_ratio_swap : ∀ L : List (Rat × Rat),
    (L.map Prod.swap).filterMap ratioFn = (L.filterMap ratioFn).map (fun x => x⁻¹)
  | [] => rfl
  | ab :: r => by
    simp only [List.map_cons, List.filterMap_cons, filterMap_ratio_swap r]
    by_cases h : (ab.1 == 0 || ab.2 == 0) = true
    · have h1 : ratioFn ab = none := by simp only [ratioFn, h, if_true]
      have h2 : ratioFn ab.swap = none := by
        simp only [ratioFn, Prod.fst_swap, Prod.snd_swap]; rw [Bool.or_comm, h]; rfl
      rw [h1, h2]
    · have h1 : ratioFn ab = some (ab.1 / ab.2) := by simp only [ratioFn, h]; rfl
      have h2 : ratioFn ab.swap = some (ab.2 / ab.1) := by
        simp only [ratioFn, Prod.fst_swap, Prod.snd_swap]; rw [Bool.or_comm]; simp only [h]; rfl
      rw [h1, h2]
      simp only [List.map_cons, inv_div]

theorem ratiosOf_swap (ci cj : List Rat) : ratiosOf cj ci = (ratiosOf ci cj).map (fun x => x⁻¹) := by
  rw [ratiosOf_eq, ratiosOf_eq, ← zip_swap' ci cj, filterMap_ratio_swap]

theorem ratiosOf_pos {ci cj : List Rat} (hi : ∀ x ∈ ci, 0 ≤ x) (hj : ∀ x ∈ cj, 0 ≤ x) :
    ∀ x ∈ ratiosOf ci cj, 0 < x := by
  intro x hx
  obtain ⟨ab, hab, h1, h2, rfl⟩ := mem_ratiosOf hx
  have hm := List.of_mem_zip hab
  exact div_pos (lt_of_le_of_ne (hi _ hm.1) (Ne.symm h1)) (lt_of_le_of_ne (hj _ hm.2) (Ne.symm h2))

theorem length_ratiosOf {ci cj : List Rat} (hi : ∀ x ∈ ci, 0 ≤ x) (hj : ∀ x ∈ cj, 0 ≤ x) :
    (ratiosOf ci cj).length = shared ci cj := by
  have key : ∀ L : List (Rat × Rat), (∀ ab ∈ L, 0 ≤ ab.1 ∧ 0 ≤ ab.2) →
      (L.filterMap ratioFn).length = (L.filter (fun ab => decide (0 < ab.1) && decide (0 < ab.2))).length := by
    intro L
    induction L with
    | nil => intro _; rfl
    | cons ab r ih =>
      intro h
      have hab := h ab List.mem_cons_self
      have ih' := ih (fun x hx => h x (List.mem_cons_of_mem _ hx))
      simp only [List.filterMap_cons, List.filter_cons]
      by_cases h0 : (ab.1 == 0 || ab.2 == 0) = true
      · have : (decide (0 < ab.1) && decide (0 < ab.2)) = false := by
          simp only [Bool.or_eq_true, beq_iff_eq] at h0
          rcases h0 with h0 | h0 <;> simp [h0]
        simp only [ratioFn, h0, if_true, this, ih']
        try simp
      · have : (decide (0 < ab.1) && decide (0 < ab.2)) = true := by
          simp only [Bool.or_eq_true, beq_iff_eq, not_or] at h0
          simp only [Bool.and_eq_true, decide_eq_true_eq]
          exact ⟨lt_of_le_of_ne hab.1 (Ne.symm h0.1), lt_of_le_of_ne hab.2 (Ne.symm h0.2)⟩
        simp only [ratioFn, h0, this, if_true, List.length_cons]
        first | exact ih' | (simp; exact ih')
  rw [ratiosOf_eq, shared]
  apply key
  intro ab hab
  have hm := List.of_mem_zip hab
  exact ⟨hi _ hm.1, hj _ hm.2⟩

theorem getD_map_inv (s : List Rat) (k : Nat) : (s.map (fun x => x⁻¹)).getD k 0 = (s.getD k 0)⁻¹ := by
  simp only [List.getD_eq_getElem?_getD, List.getElem?_map]
  cases s[k]? <;> simp

/-- for an ODD number of positive values the median of the inverses is the inverse of the median -/
theorem median_inv_of_odd {l : List Rat} (hpos : ∀ x ∈ l, 0 < x) (hodd : l.length % 2 = 1) :
    median (l.map (fun x => x⁻¹)) = (median l)⁻¹ := by
  have hs := isort_sorted ratLe_trans ratLe_total l
  have hperm := isort_perm ratLe l
  set s := isort ratLe l with hsdef
  have hspos : ∀ x ∈ s, 0 < x := fun x hx => hpos x (hperm.subset hx)
  have hT : isort ratLe (l.map (fun x => x⁻¹)) = (s.map (fun x => x⁻¹)).reverse := by
    symm
    apply eq_isort_of_sorted ratLe_trans ratLe_total ratLe_antisymm
    · exact (List.reverse_perm _).trans (hperm.map _)
    · rw [List.pairwise_reverse, List.pairwise_map]
      refine hs.imp_of_mem ?_
      intro a b ha hb hab
      simp only [ratLe, decide_eq_true_eq] at hab ⊢
      exact inv_anti₀ (hspos a ha) hab
  have hlen : s.length = l.length := hperm.length_eq
  unfold median
  rw [hT, ← hsdef]
  simp only [List.length_reverse, List.length_map, hlen]
  have hn0 : ¬ l.length = 0 := by omega
  rw [if_neg hn0, if_pos hodd, if_neg hn0, if_pos hodd]
  rw [List.getD_eq_getElem?_getD, List.getElem?_reverse (by simp only [List.length_map, hlen]; omega)]
  simp only [List.length_map, hlen]
  have : l.length - 1 - l.length / 2 = l.length / 2 := by omega
  rw [this, ← List.getD_eq_getElem?_getD, getD_map_inv]

/-- with an odd number of shared peptides the median ratio of the flipped pair is the inverse, i.e. the
    orientation of the pair does not matter -/
theorem ratio_swap_of_odd {col : Nat → List Rat} {i j : Nat} (hi : ∀ x ∈ col i, 0 ≤ x) (hj : ∀ x ∈ col j, 0 ≤ x)
    (hodd : shared (col i) (col j) % 2 = 1) : ratio col j i = (ratio col i j)⁻¹ := by
  unfold ratio
  rw [ratiosOf_swap (col i) (col j)]
  exact median_inv_of_odd (ratiosOf_pos hi hj) (by rw [length_ratiosOf hi hj]; exact hodd)

theorem cell_nonneg (c : Rat) (l : List Prec) (k : String × Int) (s : Nat) : 0 ≤ cell (selected c l) k s := by
  unfold cell
  apply List.sum_nonneg
  intro x hx
  obtain ⟨p, hp, rfl⟩ := List.mem_map.mp hx
  have hp' := (List.mem_filter.mp hp).1
  have hk := ((mem_selected c l p).mp hp').1.2
  unfold keep at hk
  simp only [Bool.and_eq_true, decide_eq_true_eq] at hk
  exact hk.1.le

theorem column_nonneg (c : Rat) (l : List Prec) (s : Nat) : ∀ x ∈ column (selected c l) s, 0 ≤ x := by
  intro x hx
  unfold column at hx
  obtain ⟨k, _, rfl⟩ := List.mem_map.mp hx
  exact cell_nonneg c l k s

/-- on consistent data without stabilisation the right-hand sides of stage A's system are
    `log g i − log g j` -/
theorem rhs_of_consistent (o : Opts) (l : List Prec) (hstab : o.stab = false) (hm : 1 ≤ o.minRatios)
    (f : String × Int → Rat) (g : Nat → Rat) (hf : ∀ k, f k ≠ 0) (hg : ∀ s, 0 < g s)
    (hc : ∀ k ∈ rowKeys (selected o.cutoff l), ∀ s, s < o.n →
      cell (selected o.cutoff l) k s = 0 ∨ cell (selected o.cutoff l) k s = f k * g s) :
    ∀ q ∈ (stageA o l).eqs, rhs q = Real.log ((g q.i : ℝ)) - Real.log ((g q.j : ℝ)) := by
  intro q hq
  obtain ⟨h1, h2, hok, hr, hw⟩ := stageA_eq_mem o l q hq
  have hratio : q.ratio = g q.i / g q.j := by
    rw [hr]
    exact ratio_of_consistent_cells _ o.n f g hf q.i q.j (by omega) h2 hc (shared_pos_of_pairOk hm hok)
  unfold rhs
  rw [hw hstab, hratio]
  have h1 : ((g q.i : ℚ) : ℝ) ≠ 0 := by exact_mod_cast (hg q.i).ne'
  have h2 : ((g q.j : ℚ) : ℝ) ≠ 0 := by exact_mod_cast (hg q.j).ne'
  push_cast
  rw [Real.log_div h1 h2]
  ring



/-! ### the total is the sum of the matrix -/

theorem sum_indicator {β : Type} [DecidableEq β] (x : Rat) (a : β) : ∀ (K : List β), K.Nodup → a ∈ K →
    (K.map (fun k => if k = a then x else 0)).sum = x
  | [], _, h => by simp at h
  | b :: r, hnd, h => by
    rw [List.nodup_cons] at hnd
    simp only [List.map_cons, List.sum_cons]
    by_cases hba : b = a
    · have hz : (r.map (fun k => if k = a then x else 0)).sum = 0 := by
        apply List.sum_eq_zero
        intro t ht
        obtain ⟨k, hk, rfl⟩ := List.mem_map.mp ht
        have : k ≠ a := fun e => hnd.1 (hba ▸ e ▸ hk)
        simp [this]
      simp [hba, hz]
    · have ha : a ∈ r := by
        rcases List.mem_cons.mp h with h | h
        · exact absurd h.symm hba
        · exact h
      simp [hba, sum_indicator x a r hnd.2 ha]

theorem sum_map_add {β : Type} (f g : β → Rat) : ∀ l : List β,
    (l.map (fun k => f k + g k)).sum = (l.map f).sum + (l.map g).sum
  | [] => by simp
  | a :: r => by simp only [List.map_cons, List.sum_cons, sum_map_add f g r]; ring

theorem cell_cons (p : Prec) (r : List Prec) (k : String × Int) (s : Nat) :
    cell (p :: r) k s = (if (p.peptide, p.charge) = k ∧ p.exp = s then p.intensity else 0) + cell r k s := by
  unfold cell
  simp only [List.filter_cons]
  by_cases h : (p.peptide, p.charge) = k ∧ p.exp = s
  · simp [h]
  · have : ((p.peptide, p.charge) == k && p.exp == s) = false := by
      rw [Bool.eq_false_iff]; intro hc; apply h; simpa using hc
    simp [this, h]

theorem matrix_sum_aux (n : Nat) (K : List (String × Int)) (hK : K.Nodup) : ∀ sel : List Prec,
    (∀ p ∈ sel, (p.peptide, p.charge) ∈ K ∧ p.exp < n) →
    (K.map (fun k => ((List.range n).map (fun s => cell sel k s)).sum)).sum = total sel
  | [], _ => by
    have : ∀ k s, cell [] k s = 0 := fun k s => rfl
    simp [this, total]
  | p :: r, h => by
    have hp := h p List.mem_cons_self
    have ih := matrix_sum_aux n K hK r (fun q hq => h q (List.mem_cons_of_mem _ hq))
    simp only [cell_cons, sum_map_add]
    rw [ih]
    have h1 : ∀ k, ((List.range n).map
        (fun s => if (p.peptide, p.charge) = k ∧ p.exp = s then p.intensity else 0)).sum =
        if k = (p.peptide, p.charge) then p.intensity else 0 := by
      intro k
      by_cases hk : k = (p.peptide, p.charge)
      · subst hk
        simp only [true_and, if_true]
        have : (fun s => if p.exp = s then p.intensity else (0 : Rat)) = fun s => if s = p.exp then p.intensity else 0 := by
          funext s; by_cases e : s = p.exp <;> simp [e, eq_comm]
        rw [this]
        exact sum_indicator p.intensity p.exp _ List.nodup_range (List.mem_range.mpr hp.2)
      · have hk' : ¬ (p.peptide, p.charge) = k := fun e => hk e.symm
        simp [hk, hk']
    simp only [h1]
    rw [sum_indicator p.intensity _ K hK hp.1]
    simp [total]

theorem mem_rowKeys (sel : List Prec) (k : String × Int) :
    k ∈ rowKeys sel ↔ ∃ p ∈ sel, (p.peptide, p.charge) = k := by
  unfold rowKeys
  rw [mem_nub, (isort_perm keyLe _).mem_iff, List.mem_map]

/-- the total intensity is the sum of all entries of the intensity matrix (samples `< n`) -/
theorem matrix_sum (n : Nat) (sel : List Prec) (hn : ∀ p ∈ sel, p.exp < n) :
    ((rowKeys sel).map (fun k => ((List.range n).map (fun s => cell sel k s)).sum)).sum = total sel :=
  matrix_sum_aux n (rowKeys sel) (nodup_nub _) sel
    (fun p hp => ⟨(mem_rowKeys sel _).mpr ⟨p, hp, rfl⟩, hn p hp⟩)



/-! ### stage B under relabelling and under flipping the orientation of a pair -/

/-- the same equation with the two samples exchanged: inverse ratios -/
def flipEq (q : PairEq) : PairEq :=
  { i := q.j, j := q.i, ratio := q.ratio⁻¹, w := q.w, sratio := q.sratio⁻¹ }

def relabelEq (σ : Nat → Nat) (q : PairEq) : PairEq := { q with i := σ q.i, j := σ q.j }

theorem rhs_flipEq (q : PairEq) : rhs (flipEq q) = - rhs q := by
  unfold rhs flipEq
  simp only [Rat.cast_inv, Real.log_inv]
  ring

theorem rhs_relabelEq (σ : Nat → Nat) (q : PairEq) : rhs (relabelEq σ q) = rhs q := rfl

/-- flipping an equation does not change its squared residual -/
theorem residual_flipEq (q : PairEq) (y : Nat → ℝ) :
    (y (flipEq q).i - y (flipEq q).j - rhs (flipEq q)) ^ 2 = (y q.i - y q.j - rhs q) ^ 2 := by
  rw [rhs_flipEq]
  show (y q.j - y q.i - -rhs q) ^ 2 = _
  ring

/-- the objective does not depend on the orientation in which each pair is written, as long as the
    flipped pair carries the inverse ratios -/
theorem objective_flip (eqs : List PairEq) (flip : PairEq → Bool) (sys : System) (y : Nat → ℝ) :
    objective (eqs.map (fun q => if flip q then flipEq q else q)) sys y = objective eqs sys y := by
  unfold objective
  rw [List.map_map]
  congr 3
  apply List.map_congr_left
  intro q _
  simp only [Function.comp]
  split
  · exact residual_flipEq q y
  · rfl

/-- the objective does not depend on the order of the equations -/
theorem objective_perm {eqs eqs' : List PairEq} (h : eqs.Perm eqs') (sys : System) (y : Nat → ℝ) :
    objective eqs sys y = objective eqs' sys y := by
  unfold objective
  rw [(h.map _).sum_eq]

def relabelSys (σ : Nat → Nat) (sys : System) : System :=
  { pairs := sys.pairs.map (fun e => (σ e.1, σ e.2)), seen := sys.seen.map σ, zeroCols := sys.zeroCols.map σ }

/-- relabelling the samples: the objective of the relabelled system at the relabelled vector is the
    objective of the original system -/
theorem objective_relabel (σ : Nat → Nat) (eqs : List PairEq) (sys : System) (y y' : Nat → ℝ)
    (hy : ∀ s, y' (σ s) = y s) :
    objective (eqs.map (relabelEq σ)) (relabelSys σ sys) y' = objective eqs sys y := by
  unfold objective relabelSys
  simp only [List.map_map]
  congr 2
  · congr 1
    apply List.map_congr_left
    intro q _
    simp only [Function.comp, relabelEq, hy]
    rfl
  · congr 2
    apply List.map_congr_left
    intro s _
    simp only [Function.comp, hy]
  · apply List.map_congr_left
    intro s _
    simp only [Function.comp, hy]



/-! ### the valid pairs of the relabelled input, as a list -/

theorem allPairs_nodup (n : Nat) : (allPairs n).Nodup := by
  unfold allPairs
  rw [List.nodup_flatMap]
  constructor
  · intro i _
    refine List.Nodup.map ?_ (List.nodup_range.filter _)
    intro a b h; exact (Prod.mk.inj h).2
  · refine List.nodup_range.imp ?_
    intro a b hab
    simp only [Function.onFun, List.disjoint_left, List.mem_map, List.mem_filter]
    rintro e ⟨j, _, rfl⟩ ⟨j', _, h⟩
    exact hab (Prod.mk.inj h).1.symm

theorem pairs_nodup (m n : Nat) (g : Option (List (Nat × Nat))) (ms : Nat) (col : Nat → List Rat) :
    (pairs m n g ms col).Nodup := (allPairs_nodup n).filter _

/-- a pair written with the smaller index first -/
def orientPair (e : Nat × Nat) : Nat × Nat := if e.1 < e.2 then e else (e.2, e.1)

def mapPair (σ : Nat → Nat) (e : Nat × Nat) : Nat × Nat := (σ e.1, σ e.2)

theorem range_surj {σ : Nat → Nat} {n : Nat} (hp : ((List.range n).map σ).Perm (List.range n)) {a : Nat}
    (ha : a < n) : ∃ i, i < n ∧ σ i = a := by
  have : a ∈ (List.range n).map σ := hp.symm.subset (List.mem_range.mpr ha)
  obtain ⟨i, hi, rfl⟩ := List.mem_map.mp this
  exact ⟨i, List.mem_range.mp hi, rfl⟩

theorem pairs_relabel_perm {σ : Nat → Nat} (hσ : Function.Injective σ) {n : Nat}
    (hp : ((List.range n).map σ).Perm (List.range n)) (m : Nat) (g : Option (List (Nat × Nat))) (ms : Nat)
    {col col' : Nat → List Rat} (hcol : ∀ s, col' (σ s) = col s) :
    (pairs m n (mapGraph σ g) ms col').Perm ((pairs m n g ms col).map (fun e => orientPair (mapPair σ e))) := by
  have hinj : ∀ e ∈ pairs m n g ms col, ∀ e' ∈ pairs m n g ms col,
      orientPair (mapPair σ e) = orientPair (mapPair σ e') → e = e' := by
    intro e he e' he' h
    have h1 := ((mem_pairs _ _ _ _ _ _).mp he).1
    have h2 := ((mem_pairs _ _ _ _ _ _).mp he').1
    unfold orientPair mapPair at h
    simp only at h
    split at h <;> split at h
    · have := Prod.mk.inj h; exact Prod.ext (hσ this.1) (hσ this.2)
    · have := Prod.mk.inj h
      have a1 := hσ this.1; have a2 := hσ this.2; omega
    · have := Prod.mk.inj h
      have a1 := hσ this.1; have a2 := hσ this.2; omega
    · have := Prod.mk.inj h; exact Prod.ext (hσ this.2) (hσ this.1)
  rw [List.perm_ext_iff_of_nodup (pairs_nodup _ _ _ _ _) (List.Nodup.map_on hinj (pairs_nodup _ _ _ _ _))]
  intro x
  constructor
  · intro hx
    obtain ⟨hlt, hn, hok⟩ := (mem_pairs _ _ _ _ _ _).mp hx
    obtain ⟨i, hi, hia⟩ := range_surj hp (show x.1 < n by omega)
    obtain ⟨j, hj, hjb⟩ := range_surj hp hn
    have hne : i ≠ j := fun e => by rw [e, hjb] at hia; omega
    have hok' : pairOk m g ms (numValid m n col) col i j = true := by
      rw [← pairOk_relabel hσ m g ms _ hcol, ← numValid_relabel hp m hcol, hia, hjb]; exact hok
    apply List.mem_map.mpr
    rcases Nat.lt_or_gt_of_ne hne with h | h
    · refine ⟨(i, j), (mem_pairs _ _ _ _ _ _).mpr ⟨h, hj, hok'⟩, ?_⟩
      unfold orientPair mapPair
      simp only [hia, hjb, hlt, if_true]
    · refine ⟨(j, i), (mem_pairs _ _ _ _ _ _).mpr ⟨h, hi, by rw [pairOk_comm]; exact hok'⟩, ?_⟩
      unfold orientPair mapPair
      simp only [hia, hjb]
      rw [if_neg (by omega)]
  · intro hx
    obtain ⟨e, he, rfl⟩ := List.mem_map.mp hx
    rcases pairs_relabel hσ hp m g ms hcol e.1 e.2 he with h | h
    · have hlt := ((mem_pairs _ _ _ _ _ _).mp h).1
      unfold orientPair mapPair
      simp only at hlt ⊢
      rw [if_pos hlt]; exact h
    · have hlt := ((mem_pairs _ _ _ _ _ _).mp h).1
      unfold orientPair mapPair
      simp only at hlt ⊢
      rw [if_neg (by omega)]; exact h



theorem maxRatio_comm (a b : Nat) : maxRatio a b = maxRatio b a := by
  unfold maxRatio
  rcases Nat.lt_trichotomy a b with h | h | h
  · rw [if_pos h, if_neg (by omega)]
  · subst h; rfl
  · rw [if_neg (by omega), if_pos h]

theorem stabWeight_comm (a b : Nat) : stabWeight a b = stabWeight b a := by
  unfold stabWeight
  rw [maxRatio_comm a b]
  simp only [or_comm]

/-- an equation written with the smaller sample index first -/
def orientEq (q : PairEq) : PairEq := if q.i < q.j then q else flipEq q

/-- the equation of the relabelled input for the (re-oriented) image of a valid pair is the relabelled,
    re-oriented equation — provided the median ratio of a pair whose orientation flips is antisymmetric -/
theorem pairEq_relabel {σ : Nat → Nat} (hσ : Function.Injective σ) (stab : Bool) (c : Rat) (l : List Prec)
    {col col' : Nat → List Rat} (hcol : ∀ s, col' (σ s) = col s) (e : Nat × Nat)
    (hanti : σ e.2 < σ e.1 → ratio col e.2 e.1 = (ratio col e.1 e.2)⁻¹) (hne : σ e.1 ≠ σ e.2) :
    pairEq stab c (l.map (relabel σ)) col' (orientPair (mapPair σ e)) =
      orientEq (relabelEq σ (pairEq stab c l col e)) := by
  unfold orientPair mapPair orientEq
  simp only
  by_cases h : σ e.1 < σ e.2
  · rw [if_pos h]
    have h' : (relabelEq σ (pairEq stab c l col e)).i < (relabelEq σ (pairEq stab c l col e)).j := h
    rw [if_pos h']
    unfold pairEq relabelEq
    simp only [pepCount_relabel hσ, sumInt_relabel hσ, ratio_relabel hcol]
  · rw [if_neg h]
    have h' : ¬ (relabelEq σ (pairEq stab c l col e)).i < (relabelEq σ (pairEq stab c l col e)).j := h
    rw [if_neg h']
    have hlt : σ e.2 < σ e.1 := by omega
    unfold pairEq relabelEq flipEq
    simp only [pepCount_relabel hσ, sumInt_relabel hσ, ratio_relabel hcol, hanti hlt,
      stabWeight_comm (pepCount c l e.2) (pepCount c l e.1)]
    congr 1
    cases stab
    · simp
    · simp only [if_true]
      split
      · simp
      · rw [inv_div]



/-- the options of the relabelled run: the FastLFQ graph is transported -/
def relabelOpts (σ : Nat → Nat) (o : Opts) : Opts := { o with graph := mapGraph σ o.graph }

theorem stageA_eqs_def (o : Opts) (l : List Prec) : (stageA o l).eqs =
    (pairs o.minRatios o.n o.graph o.minSamples (column (selected o.cutoff l))).map
      (pairEq o.stab o.cutoff l (column (selected o.cutoff l))) := rfl

/-- the equations of the relabelled input are, up to order, the relabelled equations written with the
    smaller index first — if the median ratio of every pair whose orientation flips is antisymmetric -/
theorem eqs_relabel_perm {σ : Nat → Nat} (hσ : Function.Injective σ) (o : Opts)
    (hp : ((List.range o.n).map σ).Perm (List.range o.n)) (l : List Prec)
    (hanti : ∀ e ∈ pairs o.minRatios o.n o.graph o.minSamples (column (selected o.cutoff l)),
      σ e.2 < σ e.1 → ratio (column (selected o.cutoff l)) e.2 e.1 = (ratio (column (selected o.cutoff l)) e.1 e.2)⁻¹) :
    (stageA (relabelOpts σ o) (l.map (relabel σ))).eqs.Perm
      (((stageA o l).eqs.map (relabelEq σ)).map (fun q => if !(decide (q.i < q.j)) then flipEq q else q)) := by
  have hcol : ∀ s, column (selected o.cutoff (l.map (relabel σ))) (σ s) = column (selected o.cutoff l) s :=
    fun s => column_relabel hσ o.cutoff l s
  rw [stageA_eqs_def, stageA_eqs_def]
  simp only [relabelOpts, List.map_map]
  refine ((pairs_relabel_perm hσ hp o.minRatios o.graph o.minSamples hcol).map _).trans ?_
  rw [List.map_map]
  apply List.Perm.of_eq
  apply List.map_congr_left
  intro e he
  have hlt := ((mem_pairs _ _ _ _ _ _).mp he).1
  have hne : σ e.1 ≠ σ e.2 := fun h => by have := hσ h; omega
  simp only [Function.comp]
  rw [pairEq_relabel hσ o.stab o.cutoff l hcol e (hanti e he) hne]
  unfold orientEq
  by_cases h : (relabelEq σ (pairEq o.stab o.cutoff l (column (selected o.cutoff l)) e)).i <
      (relabelEq σ (pairEq o.stab o.cutoff l (column (selected o.cutoff l)) e)).j
  · simp [h]
  · simp [h]

theorem objective_sys_perm (eqs : List PairEq) {sys sys' : System} (h1 : sys.seen.Perm sys'.seen)
    (h2 : sys.zeroCols.Perm sys'.zeroCols) (y : Nat → ℝ) : objective eqs sys y = objective eqs sys' y := by
  unfold objective
  rw [(h1.map y).sum_eq, (h2.map _).sum_eq]

theorem incident_relabel {σ : Nat → Nat} (hσ : Function.Injective σ) {n : Nat}
    (hp : ((List.range n).map σ).Perm (List.range n)) (m : Nat) (g : Option (List (Nat × Nat))) (ms : Nat)
    {col col' : Nat → List Rat} (hcol : ∀ s, col' (σ s) = col s) (s : Nat) :
    (∃ e' ∈ pairs m n (mapGraph σ g) ms col', e'.1 = σ s ∨ e'.2 = σ s) ↔
      (∃ e ∈ pairs m n g ms col, e.1 = s ∨ e.2 = s) := by
  have hperm := pairs_relabel_perm hσ hp m g ms hcol
  constructor
  · rintro ⟨e', he', h⟩
    obtain ⟨e, he, rfl⟩ := List.mem_map.mp (hperm.subset he')
    refine ⟨e, he, ?_⟩
    unfold orientPair mapPair at h
    simp only at h
    split at h
    · rcases h with h | h
      · exact Or.inl (hσ h)
      · exact Or.inr (hσ h)
    · rcases h with h | h
      · exact Or.inr (hσ h)
      · exact Or.inl (hσ h)
  · rintro ⟨e, he, h⟩
    refine ⟨orientPair (mapPair σ e), hperm.symm.subset (List.mem_map_of_mem he), ?_⟩
    unfold orientPair mapPair
    simp only
    split
    · rcases h with h | h
      · exact Or.inl (by rw [h])
      · exact Or.inr (by rw [h])
    · rcases h with h | h
      · exact Or.inr (by rw [h])
      · exact Or.inl (by rw [h])

theorem lt_of_map_lt {σ : Nat → Nat} (hσ : Function.Injective σ) {n : Nat}
    (hp : ((List.range n).map σ).Perm (List.range n)) {s : Nat} (h : σ s < n) : s < n := by
  obtain ⟨i, hi, hia⟩ := range_surj hp h
  have := hσ hia
  omega

theorem seen_relabel_perm {σ : Nat → Nat} (hσ : Function.Injective σ) {n : Nat}
    (hp : ((List.range n).map σ).Perm (List.range n)) (m : Nat) (g : Option (List (Nat × Nat))) (ms : Nat)
    {col col' : Nat → List Rat} (hcol : ∀ s, col' (σ s) = col s) :
    ((buildSystem n (pairs m n g ms col)).seen.map σ).Perm (buildSystem n (pairs m n (mapGraph σ g) ms col')).seen := by
  rw [List.perm_ext_iff_of_nodup (List.Nodup.map hσ (seen_nodup _ _)) (seen_nodup _ _)]
  intro x
  rw [List.mem_map, mem_seen]
  constructor
  · rintro ⟨s, hs, rfl⟩
    rw [mem_seen] at hs
    exact ⟨map_range_mem hp hs.1, (incident_relabel hσ hp m g ms hcol s).mpr hs.2⟩
  · rintro ⟨hx, hinc⟩
    obtain ⟨s, hs, rfl⟩ := range_surj hp hx
    exact ⟨s, (mem_seen _ _ _).mpr ⟨hs, (incident_relabel hσ hp m g ms hcol s).mp hinc⟩, rfl⟩

theorem zeroCols_nodup (n : Nat) (ps : List (Nat × Nat)) : (buildSystem n ps).zeroCols.Nodup :=
  (List.nodup_range).filter _

theorem mem_zeroCols' (n : Nat) (ps : List (Nat × Nat)) (s : Nat) :
    s ∈ (buildSystem n ps).zeroCols ↔ s < n ∧ ¬ ∃ e ∈ ps, e.1 = s ∨ e.2 = s := by
  rw [mem_zeroCols]
  constructor
  · rintro ⟨h1, h2⟩
    refine ⟨h1, ?_⟩
    rintro ⟨e, he, h⟩
    rcases h with h | h
    · exact (h2 e he).1 h
    · exact (h2 e he).2 h
  · rintro ⟨h1, h2⟩
    exact ⟨h1, fun e he => ⟨fun h => h2 ⟨e, he, Or.inl h⟩, fun h => h2 ⟨e, he, Or.inr h⟩⟩⟩

theorem zeroCols_relabel_perm {σ : Nat → Nat} (hσ : Function.Injective σ) {n : Nat}
    (hp : ((List.range n).map σ).Perm (List.range n)) (m : Nat) (g : Option (List (Nat × Nat))) (ms : Nat)
    {col col' : Nat → List Rat} (hcol : ∀ s, col' (σ s) = col s) :
    ((buildSystem n (pairs m n g ms col)).zeroCols.map σ).Perm
      (buildSystem n (pairs m n (mapGraph σ g) ms col')).zeroCols := by
  rw [List.perm_ext_iff_of_nodup (List.Nodup.map hσ (zeroCols_nodup _ _)) (zeroCols_nodup _ _)]
  intro x
  rw [List.mem_map, mem_zeroCols']
  constructor
  · rintro ⟨s, hs, rfl⟩
    rw [mem_zeroCols'] at hs
    exact ⟨map_range_mem hp hs.1, fun h => hs.2 ((incident_relabel hσ hp m g ms hcol s).mp h)⟩
  · rintro ⟨hx, hinc⟩
    obtain ⟨s, hs, rfl⟩ := range_surj hp hx
    exact ⟨s, (mem_zeroCols' _ _ _).mpr ⟨hs, fun h => hinc ((incident_relabel hσ hp m g ms hcol s).mpr h)⟩, rfl⟩

/-- the least-squares objective of the relabelled input at the relabelled vector equals the original
    objective (median ratios of flipped pairs antisymmetric) -/
theorem objective_stageA_relabel {σ : Nat → Nat} (hσ : Function.Injective σ) (o : Opts)
    (hp : ((List.range o.n).map σ).Perm (List.range o.n)) (l : List Prec)
    (hanti : ∀ e ∈ pairs o.minRatios o.n o.graph o.minSamples (column (selected o.cutoff l)),
      σ e.2 < σ e.1 → ratio (column (selected o.cutoff l)) e.2 e.1 = (ratio (column (selected o.cutoff l)) e.1 e.2)⁻¹)
    (w w' : Nat → ℝ) (hw : ∀ s, w' (σ s) = w s) :
    objective (stageA (relabelOpts σ o) (l.map (relabel σ))).eqs
        (stageA (relabelOpts σ o) (l.map (relabel σ))).system w' =
      objective (stageA o l).eqs (stageA o l).system w := by
  have hcol : ∀ s, column (selected o.cutoff (l.map (relabel σ))) (σ s) = column (selected o.cutoff l) s :=
    fun s => column_relabel hσ o.cutoff l s
  rw [objective_perm (eqs_relabel_perm hσ o hp l hanti), objective_flip]
  have hsys : objective ((stageA o l).eqs.map (relabelEq σ))
      (stageA (relabelOpts σ o) (l.map (relabel σ))).system w' =
      objective ((stageA o l).eqs.map (relabelEq σ)) (relabelSys σ (stageA o l).system) w' := by
    symm
    apply objective_sys_perm
    · exact seen_relabel_perm hσ hp o.minRatios o.graph o.minSamples hcol
    · exact zeroCols_relabel_perm hσ hp o.minRatios o.graph o.minSamples hcol
  rw [hsys, objective_relabel σ _ _ w w' hw]



/-- a least-squares solution of the original system, relabelled, is a least-squares solution of the
    system of the relabelled input -/
theorem isLeastSquares_relabel {σ : Nat → Nat} (hσ : Function.Injective σ) (o : Opts)
    (hp : ((List.range o.n).map σ).Perm (List.range o.n)) (l : List Prec)
    (hanti : ∀ e ∈ pairs o.minRatios o.n o.graph o.minSamples (column (selected o.cutoff l)),
      σ e.2 < σ e.1 → ratio (column (selected o.cutoff l)) e.2 e.1 = (ratio (column (selected o.cutoff l)) e.1 e.2)⁻¹)
    (y y' : Nat → ℝ) (hy : ∀ s, y' (σ s) = y s)
    (hls : IsLeastSquares (stageA o l).eqs (stageA o l).system y) :
    IsLeastSquares (stageA (relabelOpts σ o) (l.map (relabel σ))).eqs
      (stageA (relabelOpts σ o) (l.map (relabel σ))).system y' := by
  intro z'
  rw [objective_stageA_relabel hσ o hp l hanti y y' hy,
    objective_stageA_relabel hσ o hp l hanti (fun s => z' (σ s)) z' (fun _ => rfl)]
  exact hls _

section FinalRelabel
variable {α : Type} [Field α] [LinearOrder α] [IsStrictOrderedRing α] [inst : DecidableLT α]

theorem vsum_relabel {σ : Nat → Nat} {n : Nat} (hp : ((List.range n).map σ).Perm (List.range n))
    (f f' : Nat → α) (h : ∀ s, f' (σ s) = f s) : vsum n f' = vsum n f := by
  unfold vsum
  rw [← (hp.map f').sum_eq, List.map_map]
  congr 1
  apply List.map_congr_left
  intro s _
  exact h s

theorem zeroed_relabel {σ : Nat → Nat} (hσ : Function.Injective σ) {zero zero' : List Nat}
    (hz : (zero.map σ).Perm zero') (v v' : Nat → α) (hv : ∀ s, v' (σ s) = v s) (s : Nat) :
    zeroed zero' v' (σ s) = zeroed zero v s := by
  unfold zeroed
  have : zero'.contains (σ s) = zero.contains s := by
    rw [Bool.eq_iff_iff]
    simp only [List.contains_iff_mem]
    rw [← hz.mem_iff, List.mem_map]
    constructor
    · rintro ⟨t, ht, h⟩; rwa [← hσ h]
    · intro h; exact ⟨s, h, rfl⟩
  rw [this, hv]

/-- zeroing + `_scaleEqualSum` permute with the samples -/
theorem lfq_relabel {σ : Nat → Nat} (hσ : Function.Injective σ) {n : Nat}
    (hp : ((List.range n).map σ).Perm (List.range n)) {zero zero' : List Nat} (hz : (zero.map σ).Perm zero')
    (tot : α) (v v' : Nat → α) (hv : ∀ s, v' (σ s) = v s) (s : Nat) :
    lfq n zero' tot v' (σ s) = lfq n zero tot v s := by
  have hzs := zeroed_relabel (α := α) hσ hz v v' hv
  have hsum : vsum n (zeroed zero' v') = vsum n (zeroed zero v) := vsum_relabel hp _ _ hzs
  unfold lfq scaleEqualSum
  rw [hsum]
  split
  · show tot / vsum n (zeroed zero v) * zeroed zero' v' (σ s) = tot / vsum n (zeroed zero v) * zeroed zero v s
    rw [hzs]
  · exact hzs s

end FinalRelabel

/-! ## The written table: selection on rows, SILAC channels, fractions, header names (model section "The written table") -/

/-! ### stage A with a given selection -/

theorem stageA_eq_with (o : Opts) (l : List Prec) : stageA o l = stageAWith o (selected o.cutoff l) l := rfl

theorem stageAWith_eqs_pairs (o : Opts) (sel lstab : List Prec) :
    (stageAWith o sel lstab).eqs.map (fun q => (q.i, q.j)) =
      pairs o.minRatios o.n o.graph o.minSamples (column sel) := by
  unfold stageAWith
  simp only [List.map_map]
  conv_rhs => rw [← List.map_id (pairs _ _ _ _ _)]
  apply List.map_congr_left
  intro e _
  simp [pairEq]

theorem stageAWith_system (o : Opts) (sel lstab : List Prec) :
    (stageAWith o sel lstab).system = buildSystem o.n ((stageAWith o sel lstab).eqs.map (fun q => (q.i, q.j))) := by
  rw [stageAWith_eqs_pairs]; rfl

theorem stageAWith_eq_mem (o : Opts) (sel lstab : List Prec) (q : PairEq) (hq : q ∈ (stageAWith o sel lstab).eqs) :
    q.i < q.j ∧ q.j < o.n ∧
    pairOk o.minRatios o.graph o.minSamples (numValid o.minRatios o.n (column sel)) (column sel) q.i q.j = true ∧
    q.ratio = ratio (column sel) q.i q.j ∧ (o.stab = false → q.w = 0) := by
  unfold stageAWith at hq
  simp only [List.mem_map] at hq
  obtain ⟨e, he, rfl⟩ := hq
  rw [mem_pairs] at he
  refine ⟨he.1, he.2.1, he.2.2, rfl, ?_⟩
  intro hs
  simp [pairEq, hs]

theorem rhs_of_consistent_with (o : Opts) (sel lstab : List Prec) (hstab : o.stab = false) (hm : 1 ≤ o.minRatios)
    (f : String × Int → Rat) (g : Nat → Rat) (hf : ∀ k, f k ≠ 0) (hg : ∀ s, 0 < g s)
    (hc : ∀ k ∈ rowKeys sel, ∀ s, s < o.n → cell sel k s = 0 ∨ cell sel k s = f k * g s) :
    ∀ q ∈ (stageAWith o sel lstab).eqs, rhs q = Real.log ((g q.i : ℝ)) - Real.log ((g q.j : ℝ)) := by
  intro q hq
  obtain ⟨h1, h2, hok, hr, hw⟩ := stageAWith_eq_mem o sel lstab q hq
  have hratio : q.ratio = g q.i / g q.j := by
    rw [hr]
    exact ratio_of_consistent_cells _ o.n f g hf q.i q.j (by omega) h2 hc (shared_pos_of_pairOk hm hok)
  unfold rhs
  rw [hw hstab, hratio]
  have h1 : ((g q.i : ℚ) : ℝ) ≠ 0 := by exact_mod_cast (hg q.i).ne'
  have h2 : ((g q.j : ℚ) : ℝ) ≠ 0 := by exact_mod_cast (hg q.j).ne'
  push_cast
  rw [Real.log_div h1 h2]
  ring

theorem consistent_lfq_with (o : Opts) (sel lstab : List Prec) (hn : 2 ≤ o.n) (hstab : o.stab = false)
    (hm : 1 ≤ o.minRatios) (f : String × Int → Rat) (g : Nat → Rat) (hf : ∀ k, f k ≠ 0)
    (hg : ∀ s, 0 < g s)
    (hc : ∀ k ∈ rowKeys sel, ∀ s, s < o.n → cell sel k s = 0 ∨ cell sel k s = f k * g s)
    (y : Nat → ℝ) (hls : IsLeastSquares (stageAWith o sel lstab).eqs (stageAWith o sel lstab).system y)
    (i0 : Nat) (hconn : ∀ s, s < o.n → Linked (stageAWith o sel lstab).eqs i0 s)
    (s : Nat) (hs : s < o.n) :
    lfq o.n (stageAWith o sel lstab).system.zeroCols ((stageAWith o sel lstab).total : ℝ) (fun t => Real.exp (y t)) s =
      ((stageAWith o sel lstab).total : ℝ) * (g s : ℝ) / vsum o.n (fun t => (g t : ℝ)) := by
  have hlt : ∀ q ∈ (stageAWith o sel lstab).eqs, q.i < o.n ∧ q.j < o.n := by
    intro q hq
    have := stageAWith_eq_mem o sel lstab q hq
    omega
  have hcons := rhs_of_consistent_with o sel lstab hstab hm f g hf hg hc
  rw [stageAWith_system] at hls ⊢
  exact consistent_lfq_aux o.n hn _ hlt (fun t => (g t : ℝ)) (fun t => by exact_mod_cast hg t) y hcons hls
    i0 hconn _ s hs

/-! ### selection on rows = selection on their base fields -/

theorem insertBy_map_base (a : Row) : ∀ l : List Row,
    (insertBy rowLe a l).map Row.base = insertBy precLe a.base (l.map Row.base)
  | [] => rfl
  | b :: r => by
    have ih := insertBy_map_base a r
    by_cases h : precLe a.base b.base = true
    · have h' : rowLe a b = true := h
      simp [insertBy, h, h']
    · have h' : ¬ rowLe a b = true := h
      simp [insertBy, h, h', ih]

theorem isort_map_base : ∀ l : List Row, (isort rowLe l).map Row.base = isort precLe (l.map Row.base)
  | [] => rfl
  | a :: r => by simp [isort, insertBy_map_base, isort_map_base r]

theorem firstsAuxR_map_base : ∀ (l : List Row) (prev : Option Row),
    (firstsAuxR prev l).map Row.base = firstsAux (prev.map Row.base) (l.map Row.base)
  | [], prev => by cases prev <;> rfl
  | p :: r, none => by simp [firstsAuxR, firstsAux, firstsAuxR_map_base r (some p)]
  | p :: r, some q => by
    simp only [firstsAuxR, firstsAux, List.map_cons, Option.map_some]
    split
    · exact firstsAuxR_map_base r (some q)
    · simp [firstsAuxR_map_base r (some p)]

theorem selectedRows_base (c : Rat) (l : List Row) :
    (selectedRows c l).map Row.base = selected c (l.map Row.base) := by
  unfold selectedRows selected
  rw [firstsAuxR_map_base, isort_map_base, List.filter_map]
  rfl


theorem mem_of_mem_firstsAuxR : ∀ (L : List Row) (prev : Option Row) (x : Row), x ∈ firstsAuxR prev L → x ∈ L
  | [], prev, x, hx => by cases prev <;> simp [firstsAuxR] at hx
  | a :: L, none, x, hx => by
    simp only [firstsAuxR, List.mem_cons] at hx
    rcases hx with rfl | hx
    · exact List.mem_cons_self
    · exact List.mem_cons_of_mem _ (mem_of_mem_firstsAuxR L _ x hx)
  | a :: L, some q, x, hx => by
    simp only [firstsAuxR] at hx
    split at hx
    · exact List.mem_cons_of_mem _ (mem_of_mem_firstsAuxR L _ x hx)
    · rw [List.mem_cons] at hx
      rcases hx with rfl | hx
      · exact List.mem_cons_self
      · exact List.mem_cons_of_mem _ (mem_of_mem_firstsAuxR L _ x hx)

/-- the selection only drops rows -/
theorem mem_of_mem_selectedRows (c : Rat) (l : List Row) (r : Row) (h : r ∈ selectedRows c l) :
    r ∈ l ∧ keep c r.base = true := by
  have h2 := mem_of_mem_firstsAuxR _ none r h
  rw [(isort_perm rowLe _).mem_iff] at h2
  exact List.mem_filter.mp h2

/-! ### label-free tables: nothing new -/

theorem flatMap_expandRow_zero (rs : List Row) : rs.flatMap (expandRow 0) = rs.map Row.base := by
  induction rs with
  | nil => rfl
  | cons r rs ih => simp [List.flatMap_cons, expandRow, ih]

theorem tableStageA_labelfree (o : Opts) (rows : List Row) :
    tableStageA o 0 rows = stageA o ((retainIdentified o.cutoff rows).map Row.base) := by
  unfold tableStageA tableSel tableStab
  rw [flatMap_expandRow_zero, flatMap_expandRow_zero, selectedRows_base, stageA_eq_with]
  have : ({ o with n := numSamples o.n 0 } : Opts) = o := by
    cases o; simp [numSamples]
  rw [this]

/-! ### SILAC: what the cell of a labelled sample holds -/

theorem cell_nil (k : String × Int) (s : Nat) : cell [] k s = 0 := rfl

theorem cell_append (a b : List Prec) (k : String × Int) (s : Nat) : cell (a ++ b) k s = cell a k s + cell b k s := by
  unfold cell
  rw [List.filter_append, List.map_append, List.sum_append]

theorem total_append (a b : List Prec) : total (a ++ b) = total a + total b := by
  unfold total
  rw [List.map_append, List.sum_append]

theorem cell_flatMap (f : Row → List Prec) (k : String × Int) (s : Nat) : ∀ rs : List Row,
    cell (rs.flatMap f) k s = (rs.map (fun r => cell (f r) k s)).sum
  | [] => rfl
  | r :: rs => by simp [List.flatMap_cons, cell_append, cell_flatMap f k s rs]

theorem total_flatMap (f : Row → List Prec) : ∀ rs : List Row,
    total (rs.flatMap f) = (rs.map (fun r => total (f r))).sum
  | [] => rfl
  | r :: rs => by simp [List.flatMap_cons, total_append, total_flatMap f rs]

/-- the entries of one precursor: channel `c` (counted from the offset `c0`) goes to sample `e * C + c` -/
theorem cell_expandFrom (b : Prec) (C : Nat) (k : String × Int) (e c : Nat) (hc : c < C) :
    ∀ (xs : List Rat) (c0 : Nat), c0 + xs.length ≤ C →
      cell (expandFrom b C c0 xs) k (e * C + c) =
        if (b.peptide, b.charge) = k ∧ b.exp = e ∧ c0 ≤ c then xs.getD (c - c0) 0 else 0
  | [], c0, _ => by simp [expandFrom, cell_nil]
  | x :: xs, c0, h => by
    have hlen : c0 + 1 + xs.length ≤ C := by simp at h; omega
    have ih := cell_expandFrom b C k e c hc xs (c0 + 1) hlen
    have hc0 : c0 < C := by simp at h; omega
    rw [expandFrom, cell_cons, ih]
    simp only
    have hidx : b.exp * C + c0 = e * C + c ↔ b.exp = e ∧ c0 = c := by
      constructor
      · intro heq
        have h1 : (b.exp * C + c0) / C = (e * C + c) / C := by rw [heq]
        have h2 : (b.exp * C + c0) % C = (e * C + c) % C := by rw [heq]
        rw [Nat.mul_comm b.exp, Nat.mul_comm e, Nat.mul_add_div (by omega), Nat.mul_add_div (by omega),
          Nat.div_eq_of_lt hc0, Nat.div_eq_of_lt hc] at h1
        rw [Nat.mul_comm b.exp, Nat.mul_comm e, Nat.mul_add_mod, Nat.mul_add_mod,
          Nat.mod_eq_of_lt hc0, Nat.mod_eq_of_lt hc] at h2
        omega
      · rintro ⟨rfl, rfl⟩; rfl
    by_cases hk : (b.peptide, b.charge) = k
    · by_cases he : b.exp = e
      · rcases Nat.lt_trichotomy c0 c with hlt | heq | hgt
        · have hne : c0 ≠ c := by omega
          have hsub : c - c0 = (c - (c0 + 1)) + 1 := by omega
          simp [hk, he, hne, hlt.le, Nat.succ_le_of_lt hlt, hsub]
        · subst heq
          have : b.exp * C + c0 = e * C + c0 := by rw [he]
          simp [hk, he]
        · have hne : c0 ≠ c := by omega
          have h1 : ¬ c0 ≤ c := by omega
          have h2 : ¬ c0 + 1 ≤ c := by omega
          simp [hk, he, hne, h1, h2]
      · have : ¬ (b.exp * C + c0 = e * C + c) := by rw [hidx]; tauto
        simp [hk, he, this]
    · simp [hk]


theorem cell_expandRow_silac {C : Nat} (hC : 0 < C) (r : Row) (hlen : r.silac.length ≤ C) (k : String × Int)
    (e c : Nat) (hc : c < C) :
    cell (expandRow C r) k (e * C + c) =
      if (r.base.peptide, r.base.charge) = k ∧ r.base.exp = e then r.silac.getD c 0 else 0 := by
  unfold expandRow
  rw [if_neg (by omega), cell_expandFrom r.base C k e c hc r.silac 0 (by omega)]
  simp

/-- SILAC: the cell of row key `k` in the column of the labelled sample (experiment `e`, channel `c`) is the sum of
    the channel-`c` intensities of the given rows of that key and experiment -/
theorem cell_silac {C : Nat} (hC : 0 < C) (rs : List Row) (hlen : ∀ r ∈ rs, r.silac.length ≤ C)
    (k : String × Int) (e c : Nat) (hc : c < C) :
    cell (rs.flatMap (expandRow C)) k (e * C + c) =
      ((rs.filter (fun r => (r.base.peptide, r.base.charge) == k && r.base.exp == e)).map
        (fun r => r.silac.getD c 0)).sum := by
  rw [cell_flatMap]
  induction rs with
  | nil => rfl
  | cons r rs ih =>
    have ih' := ih (fun x hx => hlen x (List.mem_cons_of_mem _ hx))
    rw [List.map_cons, List.sum_cons, ih', cell_expandRow_silac hC r (hlen r List.mem_cons_self) k e c hc,
      List.filter_cons]
    by_cases h : (r.base.peptide, r.base.charge) = k ∧ r.base.exp = e
    · simp [h]
    · have : ((r.base.peptide, r.base.charge) == k && r.base.exp == e) = false := by
        rw [Bool.eq_false_iff]; intro hc'; apply h; simpa using hc'
      simp [h, this]

theorem total_expandFrom (b : Prec) (C : Nat) : ∀ (xs : List Rat) (c0 : Nat), total (expandFrom b C c0 xs) = xs.sum
  | [], _ => rfl
  | x :: xs, c0 => by
    have ih := total_expandFrom b C xs (c0 + 1)
    unfold total at ih ⊢
    simp [expandFrom, ih]

/-- SILAC: `totalIntensity` is the sum of all channel intensities of the given rows -/
theorem total_silac {C : Nat} (hC : 0 < C) (rs : List Row) :
    total (rs.flatMap (expandRow C)) = (rs.map (fun r => r.silac.sum)).sum := by
  rw [total_flatMap]
  congr 1
  apply List.map_congr_left
  intro r _
  unfold expandRow
  rw [if_neg (by omega), total_expandFrom]

theorem mem_expandFrom (b : Prec) (C : Nat) (p : Prec) : ∀ (xs : List Rat) (c0 : Nat), p ∈ expandFrom b C c0 xs →
    p.peptide = b.peptide ∧ p.charge = b.charge ∧ p.fraction = b.fraction ∧ p.pep = b.pep ∧
      ∃ c, c0 ≤ c ∧ c < c0 + xs.length ∧ p.exp = b.exp * C + c ∧ p.intensity = xs.getD (c - c0) 0
  | [], _, h => by simp [expandFrom] at h
  | x :: xs, c0, h => by
    rw [expandFrom, List.mem_cons] at h
    rcases h with rfl | h
    · exact ⟨rfl, rfl, rfl, rfl, c0, le_refl _, by simp, rfl, by simp⟩
    · obtain ⟨h1, h2, h3, h4, c, hc1, hc2, hc3, hc4⟩ := mem_expandFrom b C p xs (c0 + 1) h
      refine ⟨h1, h2, h3, h4, c, by omega, by simp; omega, hc3, ?_⟩
      have : c - c0 = (c - (c0 + 1)) + 1 := by omega
      rw [hc4, this, List.getD_cons_succ]

/-- every entry of the expanded rows is a sample `< n * max 1 C` -/
theorem exp_lt_of_mem_expandRow {n C : Nat} (r : Row) (hn : r.base.exp < n) (hlen : r.silac.length ≤ C) (p : Prec)
    (hp : p ∈ expandRow C r) : p.exp < numSamples n C := by
  unfold expandRow at hp
  unfold numSamples
  by_cases hC : C = 0
  · subst hC
    simp at hp
    subst hp
    simpa using hn
  · rw [if_neg hC] at hp
    obtain ⟨_, _, _, _, c, _, hc2, hc3, _⟩ := mem_expandFrom r.base C p r.silac 0 hp
    have hmax : max 1 C = C := by omega
    rw [hmax, hc3]
    have : (r.base.exp + 1) * C ≤ n * C := Nat.mul_le_mul_right C hn
    have h2 : (r.base.exp + 1) * C = r.base.exp * C + C := by ring
    omega


/-! ### header names and values: the same enumeration of the samples -/

/-- position `i * C + c` of a concatenation of blocks of length `C` is position `c` of block `i` -/
theorem getElem?_flatMap_block {α β : Type} (f : α → List β) (C : Nat) : ∀ (l : List α),
    (∀ a ∈ l, (f a).length = C) → ∀ (i c : Nat), c < C →
      (l.flatMap f)[i * C + c]? = (l[i]?).bind (fun a => (f a)[c]?)
  | [], _, i, c, _ => by simp
  | a :: l, hlen, 0, c, hc => by
    have h : c < (f a).length := by rw [hlen a List.mem_cons_self]; exact hc
    simp [List.flatMap_cons, List.getElem?_append_left h]
  | a :: l, hlen, i + 1, c, hc => by
    have ha : (f a).length = C := hlen a List.mem_cons_self
    have ih := getElem?_flatMap_block f C l (fun x hx => hlen x (List.mem_cons_of_mem _ hx)) i c hc
    have hidx : (i + 1) * C + c = (f a).length + (i * C + c) := by rw [ha]; ring
    rw [List.flatMap_cons, hidx, List.getElem?_append_right (by omega)]
    simpa using ih

theorem length_flatMap_block {α β : Type} (f : α → List β) (C : Nat) : ∀ (l : List α),
    (∀ a ∈ l, (f a).length = C) → (l.flatMap f).length = l.length * C
  | [], _ => by simp
  | a :: l, hlen => by
    have ih := length_flatMap_block f C l (fun x hx => hlen x (List.mem_cons_of_mem _ hx))
    rw [List.flatMap_cons, List.length_append, ih, hlen a List.mem_cons_self, List.length_cons]
    ring

/-- the header block of one experiment -/
def headerBlock (chans : List (List Char)) (e : List Char) : List (List Char) :=
  if chans.isEmpty then [lfqHeader none e] else chans.map (fun c => lfqHeader (some c) e)

theorem lfqHeaders_eq (chans exps : List (List Char)) : lfqHeaders chans exps = exps.flatMap (headerBlock chans) := rfl

theorem length_headerBlock (chans : List (List Char)) (e : List Char) :
    (headerBlock chans e).length = max 1 chans.length := by
  unfold headerBlock
  cases chans with
  | nil => rfl
  | cons c cs => simp

/-- no value without a header and no header without a value -/
theorem length_lfqHeaders (chans exps : List (List Char)) :
    (lfqHeaders chans exps).length = numSamples exps.length chans.length := by
  rw [lfqHeaders_eq, length_flatMap_block _ _ exps (fun a _ => length_headerBlock chans a)]
  rfl

theorem length_lfqValues {α : Type} (n C : Nat) (v : Nat → α) : (lfqValues n C v).length = numSamples n C := by
  simp [lfqValues]

theorem getElem?_lfqValues {α : Type} (n C : Nat) (v : Nat → α) (s : Nat) (hs : s < numSamples n C) :
    (lfqValues n C v)[s]? = some (v s) := by
  simp [lfqValues, hs]

/-- the header at position `e * max 1 C + c` names experiment `e`, channel `c` -/
theorem getElem?_lfqHeaders (chans exps : List (List Char)) (e c : Nat) (he : e < exps.length)
    (hc : c < max 1 chans.length) :
    (lfqHeaders chans exps)[e * max 1 chans.length + c]? =
      some (if chans.isEmpty then lfqHeader none (exps.getD e []) else lfqHeader (some (chans.getD c [])) (exps.getD e [])) := by
  rw [lfqHeaders_eq, getElem?_flatMap_block _ _ exps (fun a _ => length_headerBlock chans a) e c hc]
  rw [List.getElem?_eq_getElem he]
  simp only [Option.bind_some, List.getD_eq_getElem?_getD, List.getElem?_eq_getElem he, Option.getD_some]
  unfold headerBlock
  cases chans with
  | nil =>
    have : c = 0 := by simp at hc; omega
    subst this
    simp
  | cons ch cs =>
    have hc' : c < (ch :: cs).length := by simp at hc ⊢; omega
    have hm : (List.map (fun c => lfqHeader (some c) exps[e]) (ch :: cs))[c]? =
        some (lfqHeader (some (ch :: cs)[c]) exps[e]) := by
      rw [List.getElem?_map, List.getElem?_eq_getElem hc']; rfl
    simpa [List.getElem?_eq_getElem hc'] using hm

/-- "the value under the header `LFQ Intensity <channel> <experiment>`" by POSITION: header list and value list are
    the same experiment-major enumeration of the samples, so the pair at position `e * max 1 C + c` is
    (name of sample (e, c), value of sample `e * max 1 C + c`) -/
theorem getElem?_namedColumns {α : Type} (chans exps : List (List Char)) (v : Nat → α) (e c : Nat)
    (he : e < exps.length) (hc : c < max 1 chans.length) :
    (namedColumns chans exps v)[e * max 1 chans.length + c]? =
      some (if chans.isEmpty then lfqHeader none (exps.getD e []) else lfqHeader (some (chans.getD c [])) (exps.getD e []),
            v (e * max 1 chans.length + c)) := by
  unfold namedColumns
  have hs : e * max 1 chans.length + c < numSamples exps.length chans.length := by
    unfold numSamples
    have : (e + 1) * max 1 chans.length ≤ exps.length * max 1 chans.length := Nat.mul_le_mul_right _ he
    have h2 : (e + 1) * max 1 chans.length = e * max 1 chans.length + max 1 chans.length := by ring
    omega
  rw [List.getElem?_zip_eq_some]
  exact ⟨getElem?_lfqHeaders chans exps e c he hc, getElem?_lfqValues _ _ v _ hs⟩


/-! ### reading the table back BY HEADER NAME -/

theorem lfqHeader_some_inj {a b : Char} {e e' : List Char}
    (h : lfqHeader (some [a]) e = lfqHeader (some [b]) e') : a = b ∧ e = e' := by
  unfold lfqHeader at h
  have h2 := List.append_cancel_left h
  simp at h2
  exact h2

theorem lfqHeader_none_inj {e e' : List Char} (h : lfqHeader none e = lfqHeader none e') : e = e' := by
  unfold lfqHeader at h
  exact List.append_cancel_left h

/-- distinct experiment names and distinct one-letter channel names give distinct header names -/
theorem nodup_lfqHeaders (chans exps : List (List Char)) (hexp : exps.Nodup) (hch : chans.Nodup)
    (h1 : ∀ c ∈ chans, c.length = 1) : (lfqHeaders chans exps).Nodup := by
  rw [lfqHeaders_eq, List.nodup_flatMap]
  constructor
  · intro e _
    unfold headerBlock
    split
    · simp
    · apply List.Nodup.map_on _ hch
      intro c hc c' hc' heq
      obtain ⟨a, rfl⟩ := List.length_eq_one_iff.mp (h1 c hc)
      obtain ⟨b, rfl⟩ := List.length_eq_one_iff.mp (h1 c' hc')
      rw [(lfqHeader_some_inj heq).1]
  · apply List.Pairwise.imp_of_mem _ hexp
    intro e e' _ _ hne
    unfold Function.onFun
    rw [List.disjoint_left]
    intro x hx hx'
    apply hne
    unfold headerBlock at hx hx'
    split at hx
    · rename_i hemp
      simp only [hemp, if_true, List.mem_singleton] at hx hx'
      subst hx
      exact lfqHeader_none_inj hx'
    · rename_i hemp
      simp [hemp] at hx'
      obtain ⟨c, hc, rfl⟩ := List.mem_map.mp hx
      obtain ⟨c', hc', heq⟩ := hx'
      obtain ⟨a, rfl⟩ := List.length_eq_one_iff.mp (h1 c hc)
      obtain ⟨b, rfl⟩ := List.length_eq_one_iff.mp (h1 c' hc')
      exact ((lfqHeader_some_inj heq).2).symm

theorem lookup_of_getElem? {α β : Type} [BEq α] [LawfulBEq α] : ∀ (l : List (α × β)) (k : Nat) (a : α) (b : β),
    (l.map Prod.fst).Nodup → l[k]? = some (a, b) → l.lookup a = some b
  | [], k, a, b, _, h => by simp at h
  | (a', b') :: l, 0, a, b, _, h => by
    simp at h
    obtain ⟨rfl, rfl⟩ := h
    simp [List.lookup]
  | (a', b') :: l, k + 1, a, b, hnd, h => by
    simp only [List.getElem?_cons_succ] at h
    rw [List.map_cons, List.nodup_cons] at hnd
    have hne : (a == a') = false := by
      rw [beq_eq_false_iff_ne]
      rintro rfl
      apply hnd.1
      exact List.mem_map.mpr ⟨(a, b), List.mem_of_getElem? h, rfl⟩
    rw [List.lookup, hne]
    exact lookup_of_getElem? l k a b hnd.2 h

theorem map_fst_namedColumns {α : Type} (chans exps : List (List Char)) (v : Nat → α) :
    (namedColumns chans exps v).map Prod.fst = lfqHeaders chans exps := by
  unfold namedColumns
  apply List.map_fst_zip
  rw [length_lfqHeaders, length_lfqValues]

theorem map_snd_namedColumns {α : Type} (chans exps : List (List Char)) (v : Nat → α) :
    (namedColumns chans exps v).map Prod.snd = lfqValues exps.length chans.length v := by
  unfold namedColumns
  apply List.map_snd_zip
  rw [length_lfqHeaders, length_lfqValues]


/-! ### fractions: the cell is the sum over the fractions of the best row of each fraction -/

theorem rmax_eq_left {a b : Rat} (h : b ≤ a) : rmax a b = a := by
  unfold rmax
  split
  · exact le_antisymm h ‹_›
  · rfl

theorem rmax_eq_right {a b : Rat} (h : a ≤ b) : rmax a b = b := by
  unfold rmax; rw [if_pos h]

theorem le_maxOf : ∀ (L : List Rat) (y : Rat), y ∈ L → y ≤ maxOf L
  | x :: xs, y, h => by
    rw [List.mem_cons] at h
    unfold maxOf rmax
    rcases h with rfl | h
    · split
      · assumption
      · exact le_refl _
    · have := le_maxOf xs y h
      split
      · exact this
      · exact le_trans this (le_of_lt (not_le.mp ‹_›))

theorem maxOf_nonneg : ∀ (L : List Rat), 0 ≤ maxOf L
  | [] => le_refl _
  | x :: xs => by
    have := maxOf_nonneg xs
    unfold maxOf rmax
    split
    · exact this
    · exact le_trans this (le_of_lt (not_le.mp ‹_›))

theorem maxOf_eq : ∀ (L : List Rat) (x : Rat), x ∈ L → (∀ y ∈ L, y ≤ x) → 0 ≤ x → maxOf L = x
  | [], x, h, _, _ => by cases h
  | z :: zs, x, h, hmax, h0 => by
    apply le_antisymm
    · unfold maxOf rmax
      split
      · -- maxOf zs ≤ x
        cases zs with
        | nil => exact h0
        | cons w ws =>
          -- every element of the tail is ≤ x, and the maximum of a non-empty list is one of its elements or 0
          have : ∀ (M : List Rat), (∀ y ∈ M, y ≤ x) → maxOf M ≤ x := by
            intro M
            induction M with
            | nil => intro _; exact h0
            | cons m ms ih =>
              intro hM
              unfold maxOf rmax
              split
              · exact ih (fun y hy => hM y (List.mem_cons_of_mem _ hy))
              · exact hM m List.mem_cons_self
          exact this _ (fun y hy => hmax y (List.mem_cons_of_mem _ hy))
      · exact hmax z List.mem_cons_self
    · exact le_maxOf _ _ h

/-- existence of a least element of a non-empty list for a total, transitive `le` -/
theorem exists_min {α : Type} (le : α → α → Bool) (htot : ∀ a b, le a b = true ∨ le b a = true)
    (htr : ∀ a b c, le a b = true → le b c = true → le a c = true) :
    ∀ (L : List α), L ≠ [] → ∃ m ∈ L, ∀ q ∈ L, le m q = true
  | [], h => absurd rfl h
  | [a], _ => ⟨a, List.mem_cons_self, fun q hq => by
      rw [List.mem_singleton] at hq; subst hq; rcases htot q q with h | h <;> exact h⟩
  | a :: b :: r, _ => by
    obtain ⟨m, hm, hmin⟩ := exists_min le htot htr (b :: r) (by simp)
    rcases htot a m with h | h
    · refine ⟨a, List.mem_cons_self, fun q hq => ?_⟩
      rw [List.mem_cons] at hq
      rcases hq with rfl | hq
      · rcases htot q q with h' | h' <;> exact h'
      · exact htr _ _ _ h (hmin q hq)
    · refine ⟨m, List.mem_cons_of_mem _ hm, fun q hq => ?_⟩
      rw [List.mem_cons] at hq
      rcases hq with rfl | hq
      · exact h
      · exact hmin q hq

theorem inCell_iff (k : String × Int) (s : Nat) (p : Prec) :
    inCell k s p = true ↔ (p.peptide, p.charge) = k ∧ p.exp = s := by
  simp [inCell]

/-- within one group the `orderByPEP`-least precursor has the highest intensity -/
theorem intensity_le_of_precLe {p q : Prec} (hg : sameGroup p q = true) (h : precLe p q = true) :
    q.intensity ≤ p.intensity := by
  rw [sameGroup_iff] at hg
  rw [precLe_iff] at h
  obtain ⟨e1, e2, e3, e4⟩ := hg
  rcases h with h | ⟨_, h | ⟨_, h | ⟨_, h | ⟨_, h | ⟨h, _⟩⟩⟩⟩⟩
  · exact absurd e1 (ne_of_lt h)
  · exact absurd e2 (ne_of_lt h)
  · exact absurd e3 (ne_of_lt h)
  · exact absurd e4 (ne_of_lt h)
  · exact le_of_lt h
  · exact le_of_eq h

/-- every group with an identified, quantified precursor has a selected representative -/
theorem exists_selected_of_kept (c : Rat) (l : List Prec) (q : Prec) (hq : q ∈ l) (hk : keep c q = true) :
    ∃ m ∈ selected c l, sameGroup m q = true := by
  let G := l.filter (fun p => keep c p && sameGroup q p)
  have hqG : q ∈ G := List.mem_filter.mpr ⟨hq, by simp [hk, sameGroup_refl]⟩
  obtain ⟨m, hm, hmin⟩ := exists_min precLe precLe_total precLe_trans G (List.ne_nil_of_mem hqG)
  have hm' := List.mem_filter.mp hm
  simp only [Bool.and_eq_true] at hm'
  refine ⟨m, (mem_selected c l m).mpr ⟨⟨hm'.1, hm'.2.1⟩, fun x hx hkx hg => ?_⟩, sameGroup_symm hm'.2.2⟩
  apply hmin
  exact List.mem_filter.mpr ⟨hx, by simp [hkx, sameGroup_trans hm'.2.2 hg]⟩

/-- "MaxLFQ sums a precursor's intensity over the fractions of an experiment": the cell of (precursor `k`,
    sample `s`) of the selected intensity matrix is `aggregateFractions` — for every fraction in which the precursor
    has an identified, quantified row, the highest intensity among these rows, summed over the fractions -/
theorem cell_eq_aggregateFractions (c : Rat) (l : List Prec) (k : String × Int) (s : Nat) :
    cell (selected c l) k s = aggregateFractions c l k s := by
  let S := (selected c l).filter (inCell k s)
  have hcell : cell (selected c l) k s = (S.map (·.intensity)).sum := rfl
  -- (1) each selected precursor of the cell carries the best intensity of its fraction
  have hbest : ∀ p ∈ S, p.intensity = groupBest c l k s p.fraction := by
    intro p hp
    obtain ⟨hsel, hin⟩ := List.mem_filter.mp hp
    obtain ⟨⟨hpl, hpk⟩, hleast⟩ := (mem_selected c l p).mp hsel
    symm
    unfold groupBest
    apply maxOf_eq
    · exact List.mem_map.mpr ⟨p, List.mem_filter.mpr ⟨hpl, by simp [hpk, hin]⟩, rfl⟩
    · intro y hy
      obtain ⟨q, hq, rfl⟩ := List.mem_map.mp hy
      obtain ⟨hql, hq2⟩ := List.mem_filter.mp hq
      simp only [Bool.and_eq_true, beq_iff_eq] at hq2
      have hg : sameGroup p q = true := by
        rw [sameGroup_iff]
        have h1 := (inCell_iff k s p).mp hin
        have h2 := (inCell_iff k s q).mp hq2.1.2
        have h3 : (p.peptide, p.charge) = (q.peptide, q.charge) := h1.1.trans h2.1.symm
        exact ⟨(Prod.mk.inj h3).1, (Prod.mk.inj h3).2, h1.2.trans h2.2.symm, hq2.2.symm⟩
      exact intensity_le_of_precLe hg (hleast q hql hq2.1.1 hg)
    · unfold keep at hpk
      simp only [Bool.and_eq_true, decide_eq_true_eq] at hpk
      exact le_of_lt hpk.1
  -- (2) one selected precursor per fraction
  have hnd : (S.map (·.fraction)).Nodup := by
    unfold List.Nodup
    rw [List.pairwise_map]
    have hpw := (selected_pairwise c l).filter (inCell k s)
    refine List.Pairwise.imp_of_mem ?_ hpw
    intro a b ha hb hab heq
    have h1 := (inCell_iff k s a).mp (List.mem_filter.mp ha).2
    have h2 := (inCell_iff k s b).mp (List.mem_filter.mp hb).2
    have h3 : (a.peptide, a.charge) = (b.peptide, b.charge) := h1.1.trans h2.1.symm
    have : sameGroup a b = true := by
      rw [sameGroup_iff]
      exact ⟨(Prod.mk.inj h3).1, (Prod.mk.inj h3).2, h1.2.trans h2.2.symm, heq⟩
    rw [this] at hab
    exact absurd hab (by simp)
  -- (3) every fraction with an identified, quantified row is represented
  have hmem : ∀ f, f ∈ S.map (·.fraction) ↔ f ∈ fractionsOf c l k s := by
    intro f
    unfold fractionsOf
    rw [mem_nub]
    constructor
    · intro hf
      obtain ⟨p, hp, rfl⟩ := List.mem_map.mp hf
      obtain ⟨hsel, hin⟩ := List.mem_filter.mp hp
      obtain ⟨⟨hpl, hpk⟩, _⟩ := (mem_selected c l p).mp hsel
      exact List.mem_map.mpr ⟨p, List.mem_filter.mpr ⟨hpl, by simp [hpk, hin]⟩, rfl⟩
    · intro hf
      obtain ⟨q, hq, rfl⟩ := List.mem_map.mp hf
      obtain ⟨hql, hq2⟩ := List.mem_filter.mp hq
      simp only [Bool.and_eq_true] at hq2
      obtain ⟨m, hm, hg⟩ := exists_selected_of_kept c l q hql hq2.1
      rw [sameGroup_iff] at hg
      have hq3 := (inCell_iff k s q).mp hq2.2
      refine List.mem_map.mpr ⟨m, List.mem_filter.mpr ⟨hm, ?_⟩, hg.2.2.2⟩
      rw [inCell_iff]
      refine ⟨?_, hg.2.2.1.trans hq3.2⟩
      rw [← hq3.1, hg.1, hg.2.1]
  have hperm : (S.map (·.fraction)).Perm (fractionsOf c l k s) :=
    (List.perm_ext_iff_of_nodup hnd (nodup_nub _)).mpr hmem
  rw [hcell]
  unfold aggregateFractions
  rw [← (hperm.map (groupBest c l k s)).sum_eq, List.map_map]
  congr 1
  apply List.map_congr_left
  intro p hp
  exact hbest p hp


/-- the total is preserved through the aggregation over fractions: summing `aggregateFractions` over all
    precursors and samples gives the total intensity the LFQ intensities are scaled to -/
theorem sum_aggregateFractions (c : Rat) (l : List Prec) (n : Nat) (hn : ∀ p ∈ l, p.exp < n) :
    ((rowKeys (selected c l)).map (fun k => ((List.range n).map (fun s => aggregateFractions c l k s)).sum)).sum =
      total (selected c l) := by
  rw [← matrix_sum n (selected c l) (fun p hp => hn p ((mem_selected c l p).mp hp).1.1)]
  congr 1
  apply List.map_congr_left
  intro k _
  congr 1
  apply List.map_congr_left
  intro s _
  exact (cell_eq_aggregateFractions c l k s).symm

/-! ### channel names, experiment list -/

theorem silacChannels_spec {C : Nat} {chans : List (List Char)} (h : silacChannels C = some chans) :
    chans.length = C ∧ chans.Nodup ∧ ∀ c ∈ chans, c.length = 1 := by
  rcases C with _ | _ | _ | _ | n
  · simp [silacChannels] at h; subst h; simp
  · simp [silacChannels] at h
  · simp [silacChannels] at h; subst h; decide
  · simp [silacChannels] at h; subst h; decide
  · simp [silacChannels] at h

theorem experimentsOf_nodup (d : Option Design) (rows : List EvRow) : (experimentsOf d rows).Nodup := by
  unfold experimentsOf
  cases d <;> exact nodup_nub _

theorem experiment_names_nodup (d : Option Design) (rows : List EvRow) :
    ((experimentsOf d rows).map String.toList).Nodup :=
  (experimentsOf_nodup d rows).map (fun _ _ h => String.toList_inj.mp h)

end PgFdr.C11
