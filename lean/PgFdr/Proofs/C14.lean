import PgFdr.Proofs.C02
import Mathlib.GroupTheory.Perm.Basic
import Mathlib.Data.Fintype.Perm
import Mathlib.Data.Fintype.Card
import Mathlib.Data.List.FinRange
import Mathlib.Data.List.Permutation
import Mathlib.Algebra.BigOperators.Group.Finset.Basic

/-!
Helper lemmas for C14: stability of the two sorts on whole tie classes, and the counting argument
for the order a uniformly drawn shuffle induces on a tie class (DESIGN-lean-scratch §14.1, §14.15).
-/
namespace PgFdr.C14
open PgFdr.C02

/-- a stable sort leaves every class of mutually equivalent elements in its original order -/
theorem mergeSort_filter_class {α : Type} (le : α → α → Bool)
    (htrans : ∀ a b c, le a b = true → le b c = true → le a c = true)
    (htotal : ∀ a b, (le a b || le b a) = true)
    (p : α → Bool) (hp : ∀ a b, p a = true → p b = true → le a b = true) (l : List α) :
    (l.mergeSort le).filter p = l.filter p := by
  have hsub : (l.filter p).Sublist (l.mergeSort le) := by
    apply List.sublist_mergeSort htrans htotal
    · apply List.pairwise_of_forall_mem_list
      intro a ha b hb
      exact hp a b (List.mem_filter.mp ha).2 (List.mem_filter.mp hb).2
    · exact List.filter_sublist
  have h2 : (l.filter p).Sublist ((l.mergeSort le).filter p) := by
    have := hsub.filter p
    rwa [List.filter_filter, show (fun a => p a && p a) = p from by funext a; simp] at this
  have hlen : ((l.mergeSort le).filter p).length = (l.filter p).length :=
    ((List.mergeSort_perm l le).filter p).length_eq
  exact (h2.eq_of_length hlen.symm).symm

/-! ### counting: all relative orders of a tie class are induced by equally many shuffles -/
open Equiv

variable {n : ℕ}

/-- items of the tie class `S`, in the order in which the shuffle `σ` lists them
    (`σ i` is the item placed at position `i`) -/
def induced (S : Fin n → Bool) (σ : Perm (Fin n)) : List (Fin n) :=
  ((List.finRange n).map σ).filter S

/-- a permutation of `Fin n` as the index list `np.random.shuffle` is modelled with -/
def permList (σ : Perm (Fin n)) : List Nat := (List.finRange n).map (fun i => (σ i).val)

theorem filter_map_comm {α : Type} (S : α → Bool) (ρ : α → α) (hρ : ∀ x, S (ρ x) = S x) :
    ∀ l : List α, (l.map ρ).filter S = (l.filter S).map ρ := by
  intro l
  induction l with
  | nil => rfl
  | cons a l ih =>
    simp only [List.map_cons, List.filter_cons, hρ a]
    split <;> simp [ih]

theorem induced_mul (S : Fin n → Bool) (ρ σ : Perm (Fin n)) (hρ : ∀ x, S (ρ x) = S x) :
    induced S (ρ * σ) = (induced S σ).map ρ := by
  unfold induced
  rw [← filter_map_comm S ρ hρ, List.map_map]
  rfl

theorem shuffle_permList {α : Type} (x : List α) (σ : Perm (Fin x.length)) :
    shuffle x (permList σ) = (List.finRange x.length).map (fun i => x[σ i]) := by
  unfold shuffle permList
  rw [List.filterMap_map]
  rw [← List.filterMap_eq_map]
  congr 1
  funext i
  simp

/-- the index list of a permutation is a well-formed shuffle -/
theorem permList_perm (σ : Perm (Fin n)) : (permList σ).Perm (List.range n) := by
  unfold permList
  have h1 : ((List.finRange n).map σ).Perm (List.finRange n) := by
    apply (List.perm_ext_iff_of_nodup ?_ (List.nodup_finRange n)).mpr
    · intro a; simp
      exact ⟨σ.symm a, by simp⟩
    · exact (List.nodup_finRange n).map σ.injective
  have := h1.map (fun i : Fin n => i.val)
  rw [List.map_map] at this
  simp only [List.map_coe_finRange_eq_range] at this
  exact this

theorem shuffle_cons_zero_succ {α : Type} (a : α) (l : List α) (τ : List Nat) :
    shuffle (a :: l) (0 :: τ.map (· + 1)) = a :: shuffle l τ := by
  simp [shuffle, List.filterMap_map]

theorem range_succ_succ (n : Nat) :
    List.range (n + 2) = 0 :: 1 :: (List.range n).map (· + 2) := by
  rw [List.range_succ_eq_map, List.range_succ_eq_map]
  simp [Function.comp_def]

/-- any rearrangement of a list is a `shuffle` of it with a well-formed index list -/
theorem exists_shuffle_of_perm {α : Type} {l₁ l₂ : List α} (h : l₁.Perm l₂) :
    ∃ τ, τ.Perm (List.range l₂.length) ∧ l₁ = shuffle l₂ τ := by
  induction h with
  | nil => exact ⟨[], by simp, rfl⟩
  | cons a _ ih =>
    obtain ⟨τ, hτ, rfl⟩ := ih
    refine ⟨0 :: τ.map (· + 1), ?_, (shuffle_cons_zero_succ a _ τ).symm⟩
    rw [List.length_cons, List.range_succ_eq_map]
    exact (hτ.map _).cons 0
  | swap a b l =>
    refine ⟨1 :: 0 :: (List.range l.length).map (· + 2), ?_, ?_⟩
    · simp only [List.length_cons]
      rw [range_succ_succ]
      exact List.Perm.swap _ _ _
    · simp only [shuffle, List.filterMap_cons, List.filterMap_map, Function.comp_def]
      simp only [List.getElem?_cons_succ, List.getElem?_cons_zero]
      rw [filterMap_range_getElem?]
  | trans h₁ h₂ ih₁ ih₂ =>
    obtain ⟨τ₁, hτ₁, rfl⟩ := ih₁
    obtain ⟨τ₂, hτ₂, rfl⟩ := ih₂
    rename_i l₃
    have hlt : ∀ t ∈ τ₂, t < l₃.length := fun t ht => List.mem_range.mp (hτ₂.subset ht)
    refine ⟨τ₁.filterMap (fun i => τ₂[i]?), ?_, shuffle_shuffle l₃ τ₂ τ₁ hlt⟩
    have hlen : (shuffle l₃ τ₂).length = τ₂.length := by
      rw [(shuffle_perm l₃ τ₂ hτ₂).length_eq, hτ₂.length_eq, List.length_range]
    rw [hlen] at hτ₁
    exact (shuffle_perm τ₂ τ₁ hτ₁).trans hτ₂

/-- composing with a fixed well-formed `τ` is injective on index lists -/
theorem compose_injective (τ : List Nat) (hnd : τ.Nodup) :
    ∀ (π π' : List Nat), (∀ i ∈ π, i < τ.length) → (∀ i ∈ π', i < τ.length) →
      π.filterMap (fun i => τ[i]?) = π'.filterMap (fun i => τ[i]?) → π = π' := by
  intro π
  induction π with
  | nil =>
    intro π' _ h' h
    cases π' with
    | nil => rfl
    | cons j π'' =>
      have hj := h' j (by simp)
      simp [List.getElem?_eq_getElem hj] at h
  | cons i π ih =>
    intro π' hπ h' h
    have hi := hπ i (by simp)
    cases π' with
    | nil => simp [List.getElem?_eq_getElem hi] at h
    | cons j π'' =>
      have hj := h' j (by simp)
      simp only [List.filterMap_cons, List.getElem?_eq_getElem hi, List.getElem?_eq_getElem hj,
        List.cons.injEq] at h
      have hij : i = j := (List.Nodup.getElem_inj_iff hnd).mp h.1
      rw [hij, ih π'' (fun k hk => hπ k (by simp [hk])) (fun k hk => h' k (by simp [hk])) h.2]

/-! ### all `k!` relative orders of a tie class are induced by `n!/k!` shuffles each (audit B8) -/

/-- two arrangements of the same duplicate-free list differ by a relabelling of the elements that
    fixes everything outside the list -/
theorem exists_relabel {α : Type} [DecidableEq α] {o o' : List α} (h : o.Perm o') (hnd : o.Nodup) :
    ∃ ρ : Perm α, o.map ρ = o' ∧ ∀ x, x ∉ o → ρ x = x := by
  induction h with
  | nil => exact ⟨1, rfl, fun _ _ => rfl⟩
  | cons a _ ih =>
    obtain ⟨ρ, hρ, hfix⟩ := ih (List.nodup_cons.mp hnd).2
    refine ⟨ρ, ?_, fun x hx => hfix x (fun h => hx (List.mem_cons_of_mem _ h))⟩
    simp [hρ, hfix a (List.nodup_cons.mp hnd).1]
  | swap a b l =>
    have hb : b ∉ a :: l := (List.nodup_cons.mp hnd).1
    have ha : a ∉ l := (List.nodup_cons.mp (List.nodup_cons.mp hnd).2).1
    have hbl : b ∉ l := fun h => hb (List.mem_cons_of_mem _ h)
    refine ⟨swap a b, ?_, ?_⟩
    · have : l.map (swap a b) = l := by
        conv_rhs => rw [← List.map_id l]
        apply List.map_congr_left
        intro x hx
        exact swap_apply_of_ne_of_ne (fun h => ha (h ▸ hx)) (fun h => hbl (h ▸ hx))
      simp [this]
    · intro x hx
      simp only [List.mem_cons, not_or] at hx
      exact swap_apply_of_ne_of_ne hx.2.1 hx.1
  | trans h₁ _ ih₁ ih₂ =>
    obtain ⟨ρ₁, h1, f1⟩ := ih₁ hnd
    obtain ⟨ρ₂, h2, f2⟩ := ih₂ (h₁.nodup_iff.mp hnd)
    refine ⟨ρ₂ * ρ₁, ?_, ?_⟩
    · rw [← h2, ← h1, List.map_map]; rfl
    · intro x hx
      simp [f1 x hx, f2 x (fun h => hx (h₁.mem_iff.mpr h))]

/-- the tie class `S` as the list of its positions, in increasing order -/
def cls (S : Fin n → Bool) : List (Fin n) := (List.finRange n).filter S

theorem cls_nodup (S : Fin n → Bool) : (cls S).Nodup := (List.nodup_finRange n).filter _

theorem mem_cls (S : Fin n → Bool) (x : Fin n) : x ∈ cls S ↔ S x = true := by
  simp [cls]

theorem map_perm_finRange (σ : Perm (Fin n)) : ((List.finRange n).map σ).Perm (List.finRange n) := by
  apply (List.perm_ext_iff_of_nodup ?_ (List.nodup_finRange n)).mpr
  · intro a; simp
    exact ⟨σ.symm a, by simp⟩
  · exact (List.nodup_finRange n).map σ.injective

/-- whatever the shuffle, it lists exactly the members of the class, each once -/
theorem induced_perm_cls (S : Fin n → Bool) (σ : Perm (Fin n)) : (induced S σ).Perm (cls S) :=
  (map_perm_finRange σ).filter S

theorem card_induced_map (S : Fin n → Bool) (ρ : Perm (Fin n)) (hρ : ∀ x, S (ρ x) = S x)
    (o : List (Fin n)) :
    Fintype.card {σ : Perm (Fin n) // induced S σ = o} =
      Fintype.card {σ : Perm (Fin n) // induced S σ = o.map ρ} := by
  apply Fintype.card_congr
  refine
    { toFun := fun σ => ⟨ρ * σ.1, by rw [induced_mul S ρ σ.1 hρ, σ.2]⟩
      invFun := fun σ => ⟨ρ⁻¹ * σ.1, ?_⟩
      left_inv := fun σ => by ext; simp
      right_inv := fun σ => by ext; simp }
  have hρ' : ∀ x, S (ρ⁻¹ x) = S x := by
    intro x
    have := hρ (ρ⁻¹ x)
    simp at this
    exact this.symm
  rw [induced_mul S ρ⁻¹ σ.1 hρ', σ.2, List.map_map]
  have : (⇑ρ⁻¹ ∘ ⇑ρ) = id := by funext x; simp
  rw [this, List.map_id]

/-- transitivity: any two orders of the class are exchanged by a class-preserving relabelling, so
    they are induced by the same number of shuffles -/
theorem card_induced_eq (S : Fin n → Bool) (o o' : List (Fin n)) (ho : o.Perm (cls S))
    (ho' : o'.Perm (cls S)) :
    Fintype.card {σ : Perm (Fin n) // induced S σ = o} =
      Fintype.card {σ : Perm (Fin n) // induced S σ = o'} := by
  have hnd : o.Nodup := ho.nodup_iff.mpr (cls_nodup S)
  obtain ⟨ρ, hmap, hfix⟩ := exists_relabel (ho.trans ho'.symm) hnd
  have hρ : ∀ x, S (ρ x) = S x := by
    intro x
    by_cases hx : x ∈ o
    · have h1 : S x = true := (mem_cls S x).mp (ho.mem_iff.mp hx)
      have h2 : ρ x ∈ o' := hmap ▸ List.mem_map_of_mem hx
      rw [h1, (mem_cls S _).mp (ho'.mem_iff.mp h2)]
    · rw [hfix x hx]
  rw [card_induced_map S ρ hρ o, hmap]

/-- the counting core: (number of shuffles inducing `o`) · k! = n! -/
theorem card_induced_mul (S : Fin n → Bool) (o : List (Fin n)) (ho : o.Perm (cls S)) :
    Fintype.card {σ : Perm (Fin n) // induced S σ = o} * (cls S).length.factorial = n.factorial := by
  classical
  have key := Finset.card_eq_sum_card_fiberwise (f := induced S)
    (s := (Finset.univ : Finset (Perm (Fin n)))) (t := (cls S).permutations.toFinset)
    (fun σ _ => by simp [List.mem_permutations, induced_perm_cls])
  rw [Finset.sum_const_nat (m := Fintype.card {σ : Perm (Fin n) // induced S σ = o})] at key
  · rw [List.toFinset_card_of_nodup (List.nodup_permutations _ (cls_nodup S)),
      List.length_permutations, Finset.card_univ, Fintype.card_perm, Fintype.card_fin] at key
    rw [key, Nat.mul_comm]
  · intro b hb
    rw [List.mem_toFinset, List.mem_permutations] at hb
    rw [card_induced_eq S o b ho hb, Fintype.card_subtype]


theorem card_induced_div (S : Fin n → Bool) (o : List (Fin n)) (ho : o.Perm (cls S)) :
    Fintype.card {σ : Perm (Fin n) // induced S σ = o} = n.factorial / o.length.factorial := by
  rw [ho.length_eq]
  exact (Nat.div_eq_of_eq_mul_left (Nat.factorial_pos _) (card_induced_mul S o ho).symm).symm

/-! ### index lists and permutations -/

theorem permList_injective : Function.Injective (permList (n := n)) := by
  intro σ σ' h
  unfold permList at h
  ext i
  exact (List.map_inj_left.mp h) i (List.mem_finRange i)

/-- every well-formed recorded shuffle (an index list that is a rearrangement of `range n`) is the
    index list of a permutation of `Fin n` -/
theorem exists_permList_eq (π : List Nat) (hπ : π.Perm (List.range n)) :
    ∃ σ : Perm (Fin n), permList σ = π := by
  have hlen : π.length = n := by rw [hπ.length_eq, List.length_range]
  subst hlen
  have hlt : ∀ i (h : i < π.length), π[i] < π.length :=
    fun i h => List.mem_range.mp (hπ.subset (List.getElem_mem h))
  have hnd : π.Nodup := hπ.nodup_iff.mpr List.nodup_range
  let f : Fin π.length → Fin π.length := fun i => ⟨π[i.val], hlt _ i.isLt⟩
  have hinj : Function.Injective f := by
    intro i j hij
    have h := Fin.mk.inj_iff.mp hij
    exact Fin.ext ((List.Nodup.getElem_inj_iff hnd).mp h)
  refine ⟨Equiv.ofBijective f (Finite.injective_iff_bijective.mp hinj), ?_⟩
  unfold permList
  apply List.ext_getElem
  · simp
  · intro i h1 h2
    simp [f]

/-! ### from positions to the executed `shuffle` -/

theorem shuffle_map {α β : Type} (f : α → β) (l : List α) (τ : List Nat) :
    shuffle (l.map f) τ = (shuffle l τ).map f := by
  unfold shuffle
  rw [List.map_filterMap]
  congr 1
  funext i
  simp

theorem shuffle_filter_induced {α : Type} (x : List α) (p : α → Bool) (σ : Perm (Fin x.length)) :
    (shuffle x (permList σ)).filter p = (induced (fun i => p x[i]) σ).map (fun i => x[i]) := by
  rw [shuffle_permList]
  unfold induced
  rw [List.filter_map, List.filter_map, List.map_map]
  rfl

theorem cls_map_get {α : Type} (x : List α) (p : α → Bool) :
    (cls (fun i : Fin x.length => p x[i])).map (fun i => x[i]) = x.filter p := by
  unfold cls
  have h : x = (List.finRange x.length).map (fun i => x[i]) := by
    apply List.ext_getElem <;> simp
  conv_rhs => rw [h, List.filter_map]
  rfl

theorem map_eq_map_of_injOn {α β : Type} (f : α → β) :
    ∀ l₁ l₂ : List α, (∀ a ∈ l₁, ∀ b ∈ l₂, f a = f b → a = b) → l₁.map f = l₂.map f → l₁ = l₂ := by
  intro l₁
  induction l₁ with
  | nil => intro l₂ _ h; cases l₂ with
    | nil => rfl
    | cons _ _ => simp at h
  | cons a l₁ ih =>
    intro l₂ hinj h
    cases l₂ with
    | nil => simp at h
    | cons b l₂ =>
      simp only [List.map_cons, List.cons.injEq] at h
      rw [hinj a (by simp) b (by simp) h.1,
        ih l₂ (fun a' ha' b' hb' => hinj a' (by simp [ha']) b' (by simp [hb'])) h.2]

/-- counting for the executed `shuffle`: every duplicate-free arrangement `r` of the members of a
    class `p` of the list `x` is what `(shuffle x π).filter p` shows for exactly `n!/k!` of the `n!`
    shuffles `π` -/
theorem card_shuffle_filter_mul {α : Type} [DecidableEq α] (x : List α) (p : α → Bool) (r : List α)
    (hr : r.Perm (x.filter p)) (hnd : r.Nodup) :
    Fintype.card {σ : Perm (Fin x.length) // (shuffle x (permList σ)).filter p = r} *
      r.length.factorial = x.length.factorial := by
  let S : Fin x.length → Bool := fun i => p x[i]
  let g : Fin x.length → α := fun i => x[i]
  have hcls : (cls S).map g = x.filter p := cls_map_get x p
  obtain ⟨τ, hτ, hrτ⟩ := exists_shuffle_of_perm (hcls ▸ hr)
  rw [shuffle_map] at hrτ
  rw [List.length_map] at hτ
  have ho : (shuffle (cls S) τ).Perm (cls S) := shuffle_perm _ τ hτ
  have hginj : ∀ a ∈ cls S, ∀ b ∈ cls S, g a = g b → a = b := by
    apply List.inj_on_of_nodup_map
    rw [hcls]
    exact hr.nodup_iff.mp hnd
  have hlen : r.length = (cls S).length := by
    rw [hrτ, List.length_map, ho.length_eq]
  rw [hlen, ← card_induced_mul S (shuffle (cls S) τ) ho]
  congr 1
  apply Fintype.card_congr
  apply Equiv.subtypeEquivRight
  intro σ
  rw [shuffle_filter_induced, hrτ]
  constructor
  · intro h
    apply map_eq_map_of_injOn g _ _ _ h
    intro a ha b hb
    exact hginj a ((induced_perm_cls S σ).mem_iff.mp ha) b (ho.mem_iff.mp hb)
  · intro h
    show (induced S σ).map g = _
    rw [h]

theorem card_shuffle_filter_div {α : Type} [DecidableEq α] (x : List α) (p : α → Bool) (r : List α)
    (hr : r.Perm (x.filter p)) (hnd : r.Nodup) :
    Fintype.card {σ : Perm (Fin x.length) // (shuffle x (permList σ)).filter p = r} =
      x.length.factorial / r.length.factorial :=
  (Nat.div_eq_of_eq_mul_left (Nat.factorial_pos _) (card_shuffle_filter_mul x p r hr hnd).symm).symm

/-! ### a tied twin pair in the greedy pass -/
section Twin
variable {G K : Type} [DecidableEq K]

theorem pass_blocked (st : Strategy G K) (contam : G → Bool) (b : G) :
    ∀ (l : List G) (seen : List K), (∃ k ∈ st.key b, k ∈ seen) → b ∉ pass st contam seen l := by
  intro l
  induction l with
  | nil => intro _ _; simp [pass]
  | cons x l ih =>
    intro seen hb
    simp only [pass]
    split
    · exact ih seen hb
    · rename_i hc
      obtain ⟨k, hk, hks⟩ := hb
      intro hmem
      rcases List.mem_cons.mp hmem with rfl | hmem
      · apply hc
        simp only [Bool.or_eq_true]
        left
        simp only [isSeen, List.any_eq_true, decide_eq_true_eq]
        exact ⟨k, hk, hks⟩
      · exact ih _ ⟨k, hk, List.mem_append_left _ hks⟩ hmem

/-- two groups `a`, `b` that exclude each other and that no other group of the list interferes with:
    when `a` stands before `b` in the pass list, `a` is accepted and `b` is not -/
theorem pass_twin [DecidableEq G] (st : Strategy G K) (contam : G → Bool) (a b : G) (hab : a ≠ b)
    (hca : contam a = false) (hblock : ∃ k ∈ st.key b, k ∈ st.marks a) :
    ∀ (l : List G) (seen : List K), (∀ k ∈ seen, k ∉ st.key a) →
      (∀ x ∈ l, x ≠ a → x ≠ b → ∀ k ∈ st.marks x, k ∉ st.key a) →
      l.filter (fun x => decide (x = a) || decide (x = b)) = [a, b] →
      a ∈ pass st contam seen l ∧ b ∉ pass st contam seen l := by
  intro l
  induction l with
  | nil => intro _ _ _ h; simp at h
  | cons x l ih =>
    intro seen hseen hfree hf
    by_cases hxa : x = a
    · subst hxa
      have hns : isSeen seen (st.key x) = false := (not_isSeen_iff seen _).mpr (fun k hk hks => hseen k hks hk)
      simp only [pass, hns, hca, Bool.or_self, Bool.false_eq_true, if_false]
      refine ⟨List.mem_cons_self, ?_⟩
      intro hmem
      rcases List.mem_cons.mp hmem with h | hmem
      · exact hab h.symm
      · obtain ⟨k, hk, hkm⟩ := hblock
        exact pass_blocked st contam b l _ ⟨k, hk, List.mem_append_right _ hkm⟩ hmem
    · by_cases hxb : x = b
      · subst hxb
        simp at hf
        exact absurd hf.1.symm hab
      · have hf' : l.filter (fun x => decide (x = a) || decide (x = b)) = [a, b] := by
          rw [List.filter_cons] at hf
          simpa [hxa, hxb] using hf
        have hfree' : ∀ y ∈ l, y ≠ a → y ≠ b → ∀ k ∈ st.marks y, k ∉ st.key a :=
          fun y hy => hfree y (List.mem_cons_of_mem _ hy)
        simp only [pass]
        split
        · exact ih seen hseen hfree' hf'
        · have hseen' : ∀ k ∈ seen ++ st.marks x, k ∉ st.key a := by
            intro k hk
            rcases List.mem_append.mp hk with h | h
            · exact hseen k h
            · exact hfree x List.mem_cons_self hxa hxb k h
          obtain ⟨h1, h2⟩ := ih _ hseen' hfree' hf'
          refine ⟨List.mem_cons_of_mem _ h1, ?_⟩
          intro hmem
          rcases List.mem_cons.mp hmem with h | hmem
          · exact hxb h.symm
          · exact h2 hmem

end Twin

end PgFdr.C14
