import PgFdr.Proofs.C02
import Mathlib.GroupTheory.Perm.Basic
import Mathlib.Data.Fintype.Perm
import Mathlib.Data.Fintype.Card
import Mathlib.Data.List.FinRange

/-!
Helper lemmas for C14: stability of the two sorts on whole tie classes, and the counting argument
for the order a uniformly drawn shuffle induces on a tie class (DESIGN-lean-scratch §14.1, §14.15).
-/
namespace PgFdr.C14
open PgFdr.C02

/-- a stable sort leaves every class of mutually equivalent elements in its original order -/
theorem mergeSort_filter_class {α : Type} (le : α → α → Bool)
    (htrans : ∀ a b c, le a b = true → le b c = true → le a c = true)
    (htotal : ∀ a b, (le a b || le b a) = true)
    (p : α → Bool) (hp : ∀ a b, p a = true → p b = true → le a b = true) (l : List α) :
    (l.mergeSort le).filter p = l.filter p := by
  have hsub : (l.filter p).Sublist (l.mergeSort le) := by
    apply List.sublist_mergeSort htrans htotal
    · apply List.pairwise_of_forall_mem_list
      intro a ha b hb
      exact hp a b (List.mem_filter.mp ha).2 (List.mem_filter.mp hb).2
    · exact List.filter_sublist
  have h2 : (l.filter p).Sublist ((l.mergeSort le).filter p) := by
    have := hsub.filter p
    rwa [List.filter_filter, show (fun a => p a && p a) = p from by funext a; simp] at this
  have hlen : ((l.mergeSort le).filter p).length = (l.filter p).length :=
    ((List.mergeSort_perm l le).filter p).length_eq
  exact (h2.eq_of_length hlen.symm).symm

/-! ### counting: all relative orders of a tie class are induced by equally many shuffles -/
open Equiv

variable {n : ℕ}

/-- items of the tie class `S`, in the order in which the shuffle `σ` lists them
    (`σ i` is the item placed at position `i`) -/
def induced (S : Fin n → Bool) (σ : Perm (Fin n)) : List (Fin n) :=
  ((List.finRange n).map σ).filter S

/-- a permutation of `Fin n` as the index list `np.random.shuffle` is modelled with -/
def permList (σ : Perm (Fin n)) : List Nat := (List.finRange n).map (fun i => (σ i).val)

theorem filter_map_comm {α : Type} (S : α → Bool) (ρ : α → α) (hρ : ∀ x, S (ρ x) = S x) :
    ∀ l : List α, (l.map ρ).filter S = (l.filter S).map ρ := by
  intro l
  induction l with
  | nil => rfl
  | cons a l ih =>
    simp only [List.map_cons, List.filter_cons, hρ a]
    split <;> simp [ih]

theorem induced_mul (S : Fin n → Bool) (ρ σ : Perm (Fin n)) (hρ : ∀ x, S (ρ x) = S x) :
    induced S (ρ * σ) = (induced S σ).map ρ := by
  unfold induced
  rw [← filter_map_comm S ρ hρ, List.map_map]
  rfl

theorem shuffle_permList {α : Type} (x : List α) (σ : Perm (Fin x.length)) :
    shuffle x (permList σ) = (List.finRange x.length).map (fun i => x[σ i]) := by
  unfold shuffle permList
  rw [List.filterMap_map]
  rw [← List.filterMap_eq_map]
  congr 1
  funext i
  simp

/-- the index list of a permutation is a well-formed shuffle -/
theorem permList_perm (σ : Perm (Fin n)) : (permList σ).Perm (List.range n) := by
  unfold permList
  have h1 : ((List.finRange n).map σ).Perm (List.finRange n) := by
    apply (List.perm_ext_iff_of_nodup ?_ (List.nodup_finRange n)).mpr
    · intro a; simp
      exact ⟨σ.symm a, by simp⟩
    · exact (List.nodup_finRange n).map σ.injective
  have := h1.map (fun i : Fin n => i.val)
  rw [List.map_map] at this
  simp only [List.map_coe_finRange_eq_range] at this
  exact this

end PgFdr.C14
