import PgFdr.Proofs.C02
import Mathlib.GroupTheory.Perm.Basic
import Mathlib.Data.Fintype.Perm
import Mathlib.Data.Fintype.Card
import Mathlib.Data.List.FinRange

/-!
Helper lemmas for C14: stability of the two sorts on whole tie classes, and the counting argument
for the order a uniformly drawn shuffle induces on a tie class (DESIGN-lean-scratch §14.1, §14.15).
-/
namespace PgFdr.C14
open PgFdr.C02

/-- a stable sort leaves every class of mutually equivalent elements in its original order -/
theorem mergeSort_filter_class {α : Type} (le : α → α → Bool)
    (htrans : ∀ a b c, le a b = true → le b c = true → le a c = true)
    (htotal : ∀ a b, (le a b || le b a) = true)
    (p : α → Bool) (hp : ∀ a b, p a = true → p b = true → le a b = true) (l : List α) :
    (l.mergeSort le).filter p = l.filter p := by
  have hsub : (l.filter p).Sublist (l.mergeSort le) := by
    apply List.sublist_mergeSort htrans htotal
    · apply List.pairwise_of_forall_mem_list
      intro a ha b hb
      exact hp a b (List.mem_filter.mp ha).2 (List.mem_filter.mp hb).2
    · exact List.filter_sublist
  have h2 : (l.filter p).Sublist ((l.mergeSort le).filter p) := by
    have := hsub.filter p
    rwa [List.filter_filter, show (fun a => p a && p a) = p from by funext a; simp] at this
  have hlen : ((l.mergeSort le).filter p).length = (l.filter p).length :=
    ((List.mergeSort_perm l le).filter p).length_eq
  exact (h2.eq_of_length hlen.symm).symm

/-! ### counting: all relative orders of a tie class are induced by equally many shuffles -/
open Equiv

variable {n : ℕ}

/-- items of the tie class `S`, in the order in which the shuffle `σ` lists them
    (`σ i` is the item placed at position `i`) -/
def induced (S : Fin n → Bool) (σ : Perm (Fin n)) : List (Fin n) :=
  ((List.finRange n).map σ).filter S

/-- a permutation of `Fin n` as the index list `np.random.shuffle` is modelled with -/
def permList (σ : Perm (Fin n)) : List Nat := (List.finRange n).map (fun i => (σ i).val)

theorem filter_map_comm {α : Type} (S : α → Bool) (ρ : α → α) (hρ : ∀ x, S (ρ x) = S x) :
    ∀ l : List α, (l.map ρ).filter S = (l.filter S).map ρ := by
  intro l
  induction l with
  | nil => rfl
  | cons a l ih =>
    simp only [List.map_cons, List.filter_cons, hρ a]
    split <;> simp [ih]

theorem induced_mul (S : Fin n → Bool) (ρ σ : Perm (Fin n)) (hρ : ∀ x, S (ρ x) = S x) :
    induced S (ρ * σ) = (induced S σ).map ρ := by
  unfold induced
  rw [← filter_map_comm S ρ hρ, List.map_map]
  rfl

theorem shuffle_permList {α : Type} (x : List α) (σ : Perm (Fin x.length)) :
    shuffle x (permList σ) = (List.finRange x.length).map (fun i => x[σ i]) := by
  unfold shuffle permList
  rw [List.filterMap_map]
  rw [← List.filterMap_eq_map]
  congr 1
  funext i
  simp

/-- the index list of a permutation is a well-formed shuffle -/
theorem permList_perm (σ : Perm (Fin n)) : (permList σ).Perm (List.range n) := by
  unfold permList
  have h1 : ((List.finRange n).map σ).Perm (List.finRange n) := by
    apply (List.perm_ext_iff_of_nodup ?_ (List.nodup_finRange n)).mpr
    · intro a; simp
      exact ⟨σ.symm a, by simp⟩
    · exact (List.nodup_finRange n).map σ.injective
  have := h1.map (fun i : Fin n => i.val)
  rw [List.map_map] at this
  simp only [List.map_coe_finRange_eq_range] at this
  exact this

theorem shuffle_cons_zero_succ {α : Type} (a : α) (l : List α) (τ : List Nat) :
    shuffle (a :: l) (0 :: τ.map (· + 1)) = a :: shuffle l τ := by
  simp [shuffle, List.filterMap_map]

theorem range_succ_succ (n : Nat) :
    List.range (n + 2) = 0 :: 1 :: (List.range n).map (· + 2) := by
  rw [List.range_succ_eq_map, List.range_succ_eq_map]
  simp [Function.comp_def]

/-- any rearrangement of a list is a `shuffle` of it with a well-formed index list -/
theorem exists_shuffle_of_perm {α : Type} {l₁ l₂ : List α} (h : l₁.Perm l₂) :
    ∃ τ, τ.Perm (List.range l₂.length) ∧ l₁ = shuffle l₂ τ := by
  induction h with
  | nil => exact ⟨[], by simp, rfl⟩
  | cons a _ ih =>
    obtain ⟨τ, hτ, rfl⟩ := ih
    refine ⟨0 :: τ.map (· + 1), ?_, (shuffle_cons_zero_succ a _ τ).symm⟩
    rw [List.length_cons, List.range_succ_eq_map]
    exact (hτ.map _).cons 0
  | swap a b l =>
    refine ⟨1 :: 0 :: (List.range l.length).map (· + 2), ?_, ?_⟩
    · simp only [List.length_cons]
      rw [range_succ_succ]
      exact List.Perm.swap _ _ _
    · simp only [shuffle, List.filterMap_cons, List.filterMap_map, Function.comp_def]
      simp only [List.getElem?_cons_succ, List.getElem?_cons_zero]
      rw [filterMap_range_getElem?]
  | trans h₁ h₂ ih₁ ih₂ =>
    obtain ⟨τ₁, hτ₁, rfl⟩ := ih₁
    obtain ⟨τ₂, hτ₂, rfl⟩ := ih₂
    rename_i l₃
    have hlt : ∀ t ∈ τ₂, t < l₃.length := fun t ht => List.mem_range.mp (hτ₂.subset ht)
    refine ⟨τ₁.filterMap (fun i => τ₂[i]?), ?_, shuffle_shuffle l₃ τ₂ τ₁ hlt⟩
    have hlen : (shuffle l₃ τ₂).length = τ₂.length := by
      rw [(shuffle_perm l₃ τ₂ hτ₂).length_eq, hτ₂.length_eq, List.length_range]
    rw [hlen] at hτ₁
    exact (shuffle_perm τ₂ τ₁ hτ₁).trans hτ₂

/-- composing with a fixed well-formed `τ` is injective on index lists -/
theorem compose_injective (τ : List Nat) (hnd : τ.Nodup) :
    ∀ (π π' : List Nat), (∀ i ∈ π, i < τ.length) → (∀ i ∈ π', i < τ.length) →
      π.filterMap (fun i => τ[i]?) = π'.filterMap (fun i => τ[i]?) → π = π' := by
  intro π
  induction π with
  | nil =>
    intro π' _ h' h
    cases π' with
    | nil => rfl
    | cons j π'' =>
      have hj := h' j (by simp)
      simp [List.getElem?_eq_getElem hj] at h
  | cons i π ih =>
    intro π' hπ h' h
    have hi := hπ i (by simp)
    cases π' with
    | nil => simp [List.getElem?_eq_getElem hi] at h
    | cons j π'' =>
      have hj := h' j (by simp)
      simp only [List.filterMap_cons, List.getElem?_eq_getElem hi, List.getElem?_eq_getElem hj,
        List.cons.injEq] at h
      have hij : i = j := (List.Nodup.getElem_inj_iff hnd).mp h.1
      rw [hij, ih π'' (fun k hk => hπ k (by simp [hk])) (fun k hk => h' k (by simp [hk])) h.2]

end PgFdr.C14
