import PgFdr.Model.C13
namespace PgFdr.C13

/-! ### csv: the reader inverts the writer -/

theorem isNl_quote : isNl quote = false := by decide
theorem isNl_delim : isNl delim = false := by decide
theorem quote_ne_delim : quote ≠ delim := by decide

theorem foldl_step_escape (f : List Char) : ∀ (s : PS), s.st = .inQuoted →
    (escape f).foldl step s = { s with field := s.field ++ f } := by
  induction f with
  | nil => intro s _; simp [escape]
  | cons c r ih =>
    intro s h
    obtain ⟨st, field, fields, rows⟩ := s
    simp only at h; subst h
    by_cases hc : c = quote
    · subst hc
      simp only [escape, if_true, List.foldl_cons]
      have : step (step ⟨.inQuoted, field, fields, rows⟩ quote) quote
          = ⟨.inQuoted, field ++ [quote], fields, rows⟩ := by simp [step]
      rw [this, ih _ rfl]; simp
    · simp only [escape, if_neg hc, List.foldl_cons]
      have : step ⟨.inQuoted, field, fields, rows⟩ c = ⟨.inQuoted, field ++ [c], fields, rows⟩ := by
        simp [step, hc]
      rw [this, ih _ rfl]; simp

theorem foldl_step_plain (f : List Char) : ∀ (s : PS), s.st = .inField →
    (∀ c ∈ f, c ≠ delim ∧ isNl c = false) →
    f.foldl step s = { s with field := s.field ++ f } := by
  induction f with
  | nil => intro s _ _; simp
  | cons c r ih =>
    intro s h hp
    obtain ⟨st, field, fields, rows⟩ := s
    simp only at h; subst h
    have hc := hp c (by simp)
    have : step ⟨.inField, field, fields, rows⟩ c = ⟨.inField, field ++ [c], fields, rows⟩ := by
      simp [step, hc.1, hc.2]
    simp only [List.foldl_cons]
    rw [this, ih _ rfl (fun x hx => hp x (by simp [hx]))]; simp

theorem needsQuote_false (f : List Char) (h : needsQuote f = false) :
    ∀ c ∈ f, c ≠ delim ∧ c ≠ quote ∧ isNl c = false := by
  intro c hc
  simp only [needsQuote, List.any_eq_false] at h
  have := h c hc
  simp only [Bool.or_eq_true, beq_iff_eq, not_or] at this
  refine ⟨this.1.1, this.1.2, ?_⟩
  simpa using this.2

/-- the state after a field `f` followed by the delimiter / the line end -/
def closeField (s : PS) (f : String) (d : Char) : PS :=
  if d = delim then { st := .startField, field := [], fields := s.fields ++ [f], rows := s.rows }
  else endRecord { s with field := [], fields := s.fields ++ [f] } d

theorem field_step (f : String) (d : Char) (hd : d = delim ∨ d = '\r') (s : PS) (hf : s.field = [])
    (hs : s.st = .startField ∨ (s.st = .startRecord ∧ (f.toList ≠ [] ∨ d = delim))) :
    (fmtField f.toList ++ [d]).foldl step s = closeField s f d := by
  obtain ⟨st, field, fields, rows⟩ := s
  simp only at hf hs; subst hf
  have hdq : d ≠ quote := by rcases hd with h | h <;> subst h <;> decide
  by_cases hq : needsQuote f.toList = true
  · -- quoted
    simp only [fmtField, hq, if_true, List.cons_append, List.foldl_cons, List.append_assoc, List.foldl_append]
    have h1 : step ⟨st, [], fields, rows⟩ quote = ⟨.inQuoted, [], fields, rows⟩ := by
      rcases hs with h | ⟨h, _⟩ <;> subst h <;> simp [step, stepStartField, isNl_quote]
    rw [h1, foldl_step_escape _ _ rfl]
    simp only [List.nil_append, List.foldl_nil]
    have h2 : step ⟨.inQuoted, f.toList, fields, rows⟩ quote = ⟨.quoteInQuoted, f.toList, fields, rows⟩ := by
      simp [step]
    rw [h2]
    rcases hd with h | h <;> subst h <;> simp [step, closeField, saveField, endRecord, String.ofList_toList, isNl, delim, quote]
  · have hq' : needsQuote f.toList = false := by simpa using hq
    have hpl := needsQuote_false _ hq'
    simp only [fmtField, hq', Bool.false_eq_true, if_false]
    cases hfl : f.toList with
    | nil =>
      have hfe : f = "" := by
        have := String.ofList_toList (s := f); rw [hfl] at this; exact this.symm
      subst hfe
      simp only [List.nil_append, List.foldl_cons, List.foldl_nil]
      rcases hs with h | ⟨h, h2⟩
      · subst h
        rcases hd with h | h <;> subst h <;> simp [step, stepStartField, closeField, saveField, endRecord, isNl, delim, quote]
      · subst h
        rcases h2 with h2 | h2
        · exact absurd hfl h2
        · subst h2; simp [step, stepStartField, closeField, saveField, isNl, delim, quote]
    | cons c r =>
      rw [hfl] at hpl
      have hc := hpl c (by simp)
      simp only [List.cons_append, List.foldl_cons, List.foldl_append]
      have h1 : step ⟨st, [], fields, rows⟩ c = ⟨.inField, [c], fields, rows⟩ := by
        rcases hs with h | ⟨h, _⟩ <;> subst h <;> simp [step, stepStartField, hc.1, hc.2.1, hc.2.2]
      rw [h1, foldl_step_plain r _ rfl (fun x hx => ⟨(hpl x (by simp [hx])).1, (hpl x (by simp [hx])).2.2⟩)]
      have hfs : String.ofList (c :: r) = f := by rw [← hfl, String.ofList_toList]
      simp only [List.foldl_nil]
      rcases hd with h | h <;> subst h <;> simp [step, closeField, saveField, endRecord, hfs, isNl, delim]


theorem fields_step : ∀ (fs : List String) (f : String) (s : PS) (rest : List Char), s.field = [] →
    (s.st = .startField ∨ (s.st = .startRecord ∧ f :: fs ≠ [""])) →
    (fmtFields (f :: fs) ++ '\r' :: '\n' :: rest).foldl step s
      = rest.foldl step { st := .startRecord, field := [], fields := [], rows := s.rows ++ [s.fields ++ f :: fs] } := by
  intro fs
  induction fs with
  | nil =>
    intro f s rest hf hs
    have hsplit : fmtFields [f] ++ '\r' :: '\n' :: rest = (fmtField f.toList ++ ['\r']) ++ '\n' :: rest := by
      simp [fmtFields]
    rw [hsplit, List.foldl_append, field_step f '\r' (Or.inr rfl) s hf]
    · simp [closeField, endRecord, step, delim]
    · rcases hs with h | ⟨h, h2⟩
      · exact Or.inl h
      · refine Or.inr ⟨h, Or.inl ?_⟩
        intro h3
        apply h2
        have := String.ofList_toList (s := f); rw [h3] at this
        rw [← this]
  | cons g gs ih =>
    intro f s rest hf hs
    have hsplit : fmtFields (f :: g :: gs) ++ '\r' :: '\n' :: rest
        = (fmtField f.toList ++ [delim]) ++ (fmtFields (g :: gs) ++ '\r' :: '\n' :: rest) := by
      simp [fmtFields]
    rw [hsplit, List.foldl_append, field_step f delim (Or.inl rfl) s hf]
    · rw [ih g _ rest (by simp [closeField]) (Or.inl (by simp [closeField]))]
      simp [closeField]
    · rcases hs with h | ⟨h, _⟩
      · exact Or.inl h
      · exact Or.inr ⟨h, Or.inr rfl⟩

theorem record_step (fs : List String) (rows : List (List String)) (rest : List Char) :
    (formatRow fs ++ rest).foldl step { st := .startRecord, field := [], fields := [], rows := rows }
      = rest.foldl step { st := .startRecord, field := [], fields := [], rows := rows ++ [fs] } := by
  by_cases h1 : fs = [""]
  · subst h1
    simp [formatRow, step, stepStartField, saveField, endRecord, isNl, quote, delim]
  · cases fs with
    | nil => simp [formatRow, fmtFields, step, endRecord, isNl]
    | cons f fs =>
      simp only [formatRow, if_neg h1, List.append_assoc, List.cons_append, List.nil_append]
      rw [fields_step fs f _ rest rfl (Or.inr ⟨rfl, h1⟩)]
      simp

theorem foldl_formatRows (rows : List (List String)) : ∀ (acc : List (List String)) (rest : List Char),
    (formatRows rows ++ rest).foldl step { st := .startRecord, field := [], fields := [], rows := acc }
      = rest.foldl step { st := .startRecord, field := [], fields := [], rows := acc ++ rows } := by
  induction rows with
  | nil => intro acc rest; simp [formatRows]
  | cons r rs ih =>
    intro acc rest
    have : formatRows (r :: rs) ++ rest = formatRow r ++ (formatRows rs ++ rest) := by
      simp [formatRows]
    rw [this, record_step, ih]; simp

/-- the reader inverts the writer on every list of records -/
theorem parseText_formatRows (rows : List (List String)) : parseText (formatRows rows) = rows := by
  have := foldl_formatRows rows [] []
  simp only [List.append_nil, List.nil_append, List.foldl_nil] at this
  simp [parseText, PS.init, this, finish]


/-! ### headers -/

theorem appendHeaders_spec : ∀ (new hs out : List String), appendHeaders hs new = .ok out →
    out = hs ++ new ∧ new.Nodup ∧ (∀ h ∈ new, h ∉ hs) := by
  intro new
  induction new with
  | nil => intro hs out h; simp [appendHeaders] at h; subst h; simp
  | cons a r ih =>
    intro hs out h
    simp only [appendHeaders] at h
    split at h
    · cases h
    · rename_i hnot
      obtain ⟨h1, h2, h3⟩ := ih _ _ h
      refine ⟨by simp [h1], ?_, ?_⟩
      · rw [List.nodup_cons]
        refine ⟨fun ha => h3 a ha (by simp), h2⟩
      · intro x hx
        rcases List.mem_cons.mp hx with rfl | hx
        · exact hnot
        · intro hm; exact h3 x hx (by simp [hm])

theorem appendHeaders_nodup (new hs out : List String) (h : appendHeaders hs new = .ok out)
    (hn : hs.Nodup) : out.Nodup := by
  obtain ⟨h1, h2, h3⟩ := appendHeaders_spec _ _ _ h
  subst h1
  rw [List.nodup_append]
  exact ⟨hn, h2, fun a ha b hb hab => h3 b hb (hab ▸ ha)⟩

/-! ### helper lemmas on lists -/

theorem nodup_of_map {α β} (f : α → β) : ∀ (l : List α), (l.map f).Nodup → l.Nodup := by
  intro l
  induction l with
  | nil => intro _; exact List.nodup_nil
  | cons a l ih =>
    intro h
    simp only [List.map_cons, List.nodup_cons] at h ⊢
    exact ⟨fun ha => h.1 (List.mem_map_of_mem ha), ih h.2⟩

theorem nodup_of_flatMap {α β} (f : α → List β) (hne : ∀ a, f a ≠ []) :
    ∀ (l : List α), (l.flatMap f).Nodup → l.Nodup := by
  intro l
  induction l with
  | nil => intro _; exact List.nodup_nil
  | cons a l ih =>
    intro h
    simp only [List.flatMap_cons, List.nodup_append] at h
    rw [List.nodup_cons]
    refine ⟨?_, ih h.2.1⟩
    intro ha
    cases hfa : f a with
    | nil => exact hne a hfa
    | cons b t =>
      have hb1 : b ∈ f a := by simp [hfa]
      have hb2 : b ∈ l.flatMap f := List.mem_flatMap.mpr ⟨a, ha, hb1⟩
      exact h.2.2 b hb1 b hb2 rfl

theorem length_flatMap_const {α β} (f : α → List β) (k : Nat) (hk : ∀ a, (f a).length = k) :
    ∀ (l : List α), (l.flatMap f).length = l.length * k := by
  intro l
  induction l with
  | nil => simp
  | cons a l ih => simp [List.flatMap_cons, ih, hk, Nat.add_mul, Nat.add_comm]

theorem countDistinct_nodup : ∀ (l : List String), l.Nodup → countDistinct l = l.length := by
  intro l
  induction l with
  | nil => intro _; rfl
  | cons a l ih =>
    intro h
    rw [List.nodup_cons] at h
    simp [countDistinct, h.1, ih h.2]

theorem length_flatten_replicate {α} (n k : Nat) (x : α) :
    (List.replicate n (List.replicate k x)).flatten.length = n * k := by
  induction n with
  | zero => simp
  | succ n _ => simp [List.replicate_succ, Nat.add_mul, Nat.add_comm]

theorem silacChannels_cases (s : Int) (ch : List String) (h : silacChannels s = .ok ch) :
    (s ≤ 0 ∧ ch = []) ∨ (s > 0 ∧ ch ≠ []) := by
  unfold silacChannels at h
  split at h
  · cases h; right; exact ⟨by omega, by simp⟩
  · split at h
    · cases h; right; exact ⟨by omega, by simp⟩
    · split at h
      · cases h
      · cases h; left; exact ⟨by omega, rfl⟩

/-! ### one arity lemma per generator: as many values per row as headers -/

theorem arity_annotations (ctx : Ctx) (r : Row) (new : List String)
    (h : Gen.hdrs ctx .annotations = .ok new) : (Gen.vals ctx r .annotations).length = new.length := by
  simp only [Gen.hdrs] at h; cases h; rfl

theorem arity_diannAnnotations (ctx : Ctx) (r : Row) (new : List String)
    (h : Gen.hdrs ctx .diannAnnotations = .ok new) : (Gen.vals ctx r .diannAnnotations).length = new.length := by
  simp only [Gen.hdrs] at h; cases h; rfl

theorem arity_evidenceIds (ctx : Ctx) (r : Row) (new : List String)
    (h : Gen.hdrs ctx .evidenceIds = .ok new) : (Gen.vals ctx r .evidenceIds).length = new.length := by
  simp only [Gen.hdrs] at h; cases h; rfl

theorem arity_uniqueCounts (ctx : Ctx) (r : Row) (new : List String)
    (h : Gen.hdrs ctx .uniqueCounts = .ok new) (hn : new.Nodup) :
    (Gen.vals ctx r .uniqueCounts).length = new.length := by
  simp only [Gen.hdrs] at h; cases h
  rw [List.nodup_cons] at hn
  have := countDistinct_nodup _ (nodup_of_map _ _ hn.2)
  simp [Gen.vals, this]

theorem arity_idType (ctx : Ctx) (r : Row) (new : List String)
    (h : Gen.hdrs ctx .idType = .ok new) (hn : new.Nodup) :
    (Gen.vals ctx r .idType).length = new.length := by
  simp only [Gen.hdrs] at h; cases h
  have := countDistinct_nodup _ (nodup_of_map _ _ hn)
  simp [Gen.vals, this]

theorem arity_coverage (ctx : Ctx) (r : Row) (new : List String)
    (h : Gen.hdrs ctx .coverage = .ok new) (hn : new.Nodup) :
    (Gen.vals ctx r .coverage).length = new.length := by
  simp only [Gen.hdrs] at h; cases h
  rw [List.nodup_append] at hn
  have := countDistinct_nodup _ (nodup_of_map _ _ hn.2.1)
  simp [Gen.vals, this]

theorem arity_sumIbaq (ctx : Ctx) (r : Row) (new : List String)
    (h : Gen.hdrs ctx .sumIbaq = .ok new) (hn : new.Nodup) :
    (Gen.vals ctx r .sumIbaq).length = new.length := by
  simp only [Gen.hdrs] at h
  cases hch : silacChannels ctx.silac with
  | error e => rw [hch] at h; cases h
  | ok ch =>
    rw [hch] at h
    simp only [bind, Except.bind, pure, Except.pure] at h
    cases h
    have hsub : (ctx.experiments.flatMap (fun e => ("Intensity " ++ e) :: ch.map (fun c => "Intensity " ++ c ++ " " ++ e))).Nodup := by
      rw [List.nodup_append] at hn
      have h1 := hn.1
      rw [List.nodup_append] at h1
      have h2 := h1.1
      rw [List.nodup_append] at h2
      exact h2.2.1
    have hexp := nodup_of_flatMap _ (by intro a; simp) _ hsub
    have hcd := countDistinct_nodup _ hexp
    have hl1 := length_flatMap_const (fun e => ("Intensity " ++ e) :: ch.map (fun c => "Intensity " ++ c ++ " " ++ e))
      (1 + ch.length) (by intro a; simp [Nat.add_comm]) ctx.experiments
    have hl2 := length_flatMap_const (fun e => ("iBAQ " ++ e) :: ch.map (fun c => "iBAQ " ++ c ++ " " ++ e))
      (1 + ch.length) (by intro a; simp [Nat.add_comm]) ctx.experiments
    simp only [Gen.vals, hch, hcd, List.length_append, List.length_replicate, List.length_cons, List.length_nil, hl1, hl2]

theorem arity_lfq (ctx : Ctx) (r : Row) (new : List String)
    (h : Gen.hdrs ctx .lfq = .ok new) (hn : new.Nodup) :
    (Gen.vals ctx r .lfq).length = new.length := by
  simp only [Gen.hdrs] at h
  cases hch : silacChannels ctx.silac with
  | error e => rw [hch] at h; cases h
  | ok ch =>
    rw [hch] at h
    simp only [bind, Except.bind, pure, Except.pure] at h
    cases h
    rcases silacChannels_cases _ _ hch with ⟨hs, hc⟩ | ⟨hs, hc⟩
    · have hns : ¬ ctx.silac > 0 := by omega
      subst hc
      simp only [hns, if_false] at hn ⊢
      have hexp := nodup_of_flatMap _ (by intro a; simp) _ hn
      have hcd := countDistinct_nodup _ hexp
      have hl := length_flatMap_const (fun e => ["LFQ Intensity " ++ e]) 1 (by intro a; simp) ctx.experiments
      simp [Gen.vals, hch, hcd, hl]
    · simp only [hs, if_true] at hn ⊢
      have hexp := nodup_of_flatMap _ (by intro a; simpa using hc) _ hn
      have hcd := countDistinct_nodup _ hexp
      have hl := length_flatMap_const (fun e => ch.map (fun c => "LFQ Intensity " ++ c ++ " " ++ e)) ch.length
        (by intro a; simp) ctx.experiments
      have hpos : 1 ≤ ch.length := by
        cases ch with
        | nil => exact absurd rfl hc
        | cons _ _ => simp
      simp only [Gen.vals, hch, hcd, hl, List.length_replicate, Nat.max_eq_right hpos]

theorem arity_tmt (ctx : Ctx) (r : Row) (new : List String)
    (h : Gen.hdrs ctx .tmt = .ok new) (hn : new.Nodup) (hv : Gen.valid ctx .tmt = true) :
    (Gen.vals ctx r .tmt).length = new.length := by
  simp only [Gen.hdrs] at h; cases h
  have ht : ctx.tmt > 0 := by simpa [Gen.valid] using hv
  have hne : tmtChannelNames ctx.tmt ≠ [] := by
    have : 0 < ctx.tmt.toNat := by omega
    intro h0
    have hl := congrArg List.length h0
    simp [tmtChannelNames] at hl
    omega
  have hexp := nodup_of_flatMap _ (by intro a; simp [hne]) _ hn
  have hcd := countDistinct_nodup _ hexp
  have hl := length_flatMap_const (fun e =>
      (tmtChannelNames ctx.tmt).map (fun i => "Reporter intensity corrected " ++ i ++ " " ++ e)
      ++ (tmtChannelNames ctx.tmt).map (fun i => "Reporter intensity " ++ i ++ " " ++ e)
      ++ (tmtChannelNames ctx.tmt).map (fun i => "Reporter intensity count " ++ i ++ " " ++ e))
    (ctx.tmt.toNat * 3) (by intro a; simp [tmtChannelNames]; omega) ctx.experiments
  simp only [Gen.vals, hcd, length_flatten_replicate, hl]

/-- every generator adds as many values to a row as it adds headers (whenever `append_header` accepted
    them all, i.e. they are pairwise distinct) -/
theorem arity (g : Gen) (ctx : Ctx) (r : Row) (new : List String) (hv : g.valid ctx = true)
    (h : g.hdrs ctx = .ok new) (hn : new.Nodup) : (g.vals ctx r).length = new.length := by
  cases g with
  | annotations => exact arity_annotations ctx r new h
  | diannAnnotations => exact arity_diannAnnotations ctx r new h
  | uniqueCounts => exact arity_uniqueCounts ctx r new h hn
  | idType => exact arity_idType ctx r new h hn
  | sumIbaq => exact arity_sumIbaq ctx r new h hn
  | lfq => exact arity_lfq ctx r new h hn
  | coverage => exact arity_coverage ctx r new h hn
  | tmt => exact arity_tmt ctx r new h hn hv
  | triqler => simp [Gen.hdrs] at h
  | evidenceIds => exact arity_evidenceIds ctx r new h


/-! ### the table invariant -/

/-- headers start with the nine base headers, are pairwise distinct, and every row has one cell per header -/
def Table.Inv (t : Table) : Prop :=
  (∃ ex, t.headers = baseHeaders ++ ex) ∧ t.headers.Nodup ∧ ∀ r ∈ t.rows, 9 + r.extra.length = t.headers.length

theorem baseHeaders_nodup : baseHeaders.Nodup := by decide
theorem baseHeaders_length : baseHeaders.length = 9 := by decide

theorem init_inv (rows : List Row) (h : ∀ r ∈ rows, r.extra = []) : (Table.init rows).Inv := by
  refine ⟨⟨[], by simp [Table.init]⟩, baseHeaders_nodup, ?_⟩
  intro r hr
  simp [Table.init, h r hr, baseHeaders_length]

theorem applyGen_inv (ctx : Ctx) (t t' : Table) (g : Gen) (h : applyGen ctx t g = .ok t') (hi : t.Inv) :
    t'.Inv := by
  unfold applyGen at h
  split at h
  · cases h; exact hi
  · rename_i hv
    have hv' : g.valid ctx = true := by simpa using hv
    cases hh : g.hdrs ctx with
    | error e => rw [hh] at h; cases h
    | ok new =>
      rw [hh] at h
      simp only [bind, Except.bind] at h
      cases ha : appendHeaders t.headers new with
      | error e => rw [ha] at h; cases h
      | ok hs =>
        rw [ha] at h
        simp only [pure, Except.pure] at h
        cases h
        obtain ⟨h1, h2, _⟩ := appendHeaders_spec _ _ _ ha
        obtain ⟨⟨ex, hex⟩, hnd, hrows⟩ := hi
        refine ⟨⟨ex ++ new, by simp [h1, hex]⟩, appendHeaders_nodup _ _ _ ha hnd, ?_⟩
        intro r hr
        simp only [List.mem_map] at hr
        obtain ⟨r0, hr0, rfl⟩ := hr
        have := hrows r0 hr0
        simp only [List.length_append, arity g ctx r0 new hv' hh h2, h1]
        omega

theorem applyAll_inv (ctx : Ctx) : ∀ (gs : List Gen) (t t' : Table), applyAll ctx t gs = .ok t' → t.Inv → t'.Inv := by
  intro gs
  induction gs with
  | nil => intro t t' h hi; simp only [applyAll] at h; cases h; exact hi
  | cons g gs ih =>
    intro t t' h hi
    simp only [applyAll, bind, Except.bind] at h
    cases hg : applyGen ctx t g with
    | error e => rw [hg] at h; cases h
    | ok t1 =>
      rw [hg] at h
      exact ih t1 t' h (applyGen_inv ctx t t1 g hg hi)

theorem appendQuantColumns_inv (w : Writer) (ctx : Ctx) (rows : List Row) (t : Table)
    (hrows : ∀ r ∈ rows, r.extra = []) (h : w.appendQuantColumns ctx (Table.init rows) = .ok t) : t.Inv := by
  cases w with
  | minimal => exact applyAll_inv ctx _ _ _ h (init_inv rows hrows)
  | diann =>
    refine applyAll_inv ctx _ _ _ h ?_
    exact init_inv (rows.filter (fun r => decide (r.nprec > 0))) (fun r hr => hrows r (List.mem_filter.mp hr).1)
  | maxquant b =>
    refine applyAll_inv ctx _ _ _ h ?_
    exact init_inv (rows.filter (fun r => decide (r.nprec > 0))) (fun r hr => hrows r (List.mem_filter.mp hr).1)

/-! ### header dictionaries -/

theorem dictInsert_keys (d : List (String × String)) (kv : String × String) :
    (dictInsert d kv).map Prod.fst = if kv.1 ∈ d.map Prod.fst then d.map Prod.fst else d.map Prod.fst ++ [kv.1] := by
  induction d with
  | nil => simp [dictInsert]
  | cons a d ih =>
    obtain ⟨k, v⟩ := a
    obtain ⟨k', v'⟩ := kv
    simp only [dictInsert]
    by_cases hk : k = k'
    · subst hk; simp
    · simp only [if_neg hk, List.map_cons, ih, List.mem_cons]
      have hk' : ¬ k' = k := fun h => hk h.symm
      by_cases hm : k' ∈ d.map Prod.fst
      · simp [hm]
      · simp [hm, hk']

theorem dictInsert_keys_nodup (d : List (String × String)) (kv : String × String)
    (h : (d.map Prod.fst).Nodup) : ((dictInsert d kv).map Prod.fst).Nodup := by
  rw [dictInsert_keys]
  split
  · exact h
  · rename_i hm
    rw [List.nodup_append]
    refine ⟨h, by simp, ?_⟩
    intro a ha b hb hab
    simp at hb; subst hb; subst hab; exact hm ha

theorem foldl_dictInsert_keys_nodup (ps : List (String × String)) : ∀ (d : List (String × String)),
    (d.map Prod.fst).Nodup → ((ps.foldl dictInsert d).map Prod.fst).Nodup := by
  induction ps with
  | nil => intro d h; exact h
  | cons p ps ih => intro d h; exact ih _ (dictInsert_keys_nodup d p h)

/-- the keys of a Python dict are pairwise distinct -/
theorem dictOfPairs_keys_nodup (ps : List (String × String)) : ((dictOfPairs ps).map Prod.fst).Nodup :=
  foldl_dictInsert_keys_nodup ps [] List.nodup_nil

theorem dictInsert_new (d : List (String × String)) (kv : String × String) (h : kv.1 ∉ d.map Prod.fst) :
    dictInsert d kv = d ++ [kv] := by
  induction d with
  | nil => simp [dictInsert]
  | cons a d ih =>
    obtain ⟨k, v⟩ := a
    obtain ⟨k', v'⟩ := kv
    simp only [List.map_cons, List.mem_cons, not_or] at h
    have hk : ¬ k = k' := fun e => h.1 e.symm
    simp only [dictInsert, if_neg hk, List.cons_append]
    rw [ih h.2]

theorem foldl_dictInsert_identity (l : List String) : ∀ (d : List (String × String)),
    (d.map Prod.fst ++ l).Nodup → (l.map (fun x => (x, x))).foldl dictInsert d = d ++ l.map (fun x => (x, x)) := by
  induction l with
  | nil => intro d _; simp
  | cons a l ih =>
    intro d h
    have ha : a ∉ d.map Prod.fst := by
      intro hm
      rw [List.nodup_append] at h
      exact h.2.2 a hm a (by simp) rfl
    simp only [List.map_cons, List.foldl_cons]
    rw [dictInsert_new d (a, a) ha, ih]
    · simp
    · simpa using h

/-- `{x: x for x in headers}` over distinct headers lists them once each, in order -/
theorem dictOfPairs_identity (l : List String) (h : l.Nodup) :
    dictOfPairs (l.map (fun x => (x, x))) = l.map (fun x => (x, x)) := by
  have := foldl_dictInsert_identity l [] (by simpa using h)
  simpa [dictOfPairs] using this

/-! ### selecting columns through a header dict -/

theorem selectRow_length (headers out : List String) : ∀ (vs sel : List String),
    selectRow headers out vs = .ok sel → sel.length = vs.length := by
  intro vs
  induction vs with
  | nil => intro sel h; simp [selectRow] at h; subst h; rfl
  | cons v vs ih =>
    intro sel h
    simp only [selectRow] at h
    split at h
    · split at h
      · cases hr : selectRow headers out vs with
        | error e => rw [hr] at h; cases h
        | ok rest =>
          rw [hr] at h
          simp only [bind, Except.bind, pure, Except.pure] at h
          cases h
          simp [ih rest hr]
      · cases h
    · cases h

theorem selectRow_suffix (hs out : List String) (hn : hs.Nodup) (hl : out.length = hs.length) :
    ∀ (vs pre : List String), hs = pre ++ vs → selectRow hs out vs = .ok (out.drop pre.length) := by
  intro vs
  induction vs with
  | nil =>
    intro pre h
    have : pre.length = out.length := by rw [hl, h]; simp
    simp [selectRow, this]
  | cons v vs ih =>
    intro pre h
    have hmem : v ∈ hs := by rw [h]; simp
    have hnotpre : v ∉ pre := by
      intro hm
      rw [h, List.nodup_append] at hn
      exact hn.2.2 v hm v (by simp) rfl
    have hidx : hs.idxOf v = pre.length := by
      rw [h, List.idxOf_append]
      simp [hnotpre]
    have hlt : pre.length < out.length := by rw [hl, h]; simp
    simp only [selectRow, hmem, if_true, hidx, List.getElem?_eq_getElem hlt]
    rw [ih (pre ++ [v]) (by simp [h])]
    simp only [bind, Except.bind, pure, Except.pure, List.length_append, List.length_cons, List.length_nil]
    rw [← List.drop_eq_getElem_cons hlt]

theorem selectRow_identity (hs out : List String) (hn : hs.Nodup) (hl : out.length = hs.length) :
    selectRow hs out hs = .ok out := by
  have := selectRow_suffix hs out hn hl hs [] rfl
  simpa using this


/-! ### writing -/

theorem outRows_none (t : Table) : ∀ (rows : List Row), outRows t none rows = .ok (rows.map Row.toList) := by
  intro rows
  induction rows with
  | nil => rfl
  | cons r rs ih => simp [outRows, ih, bind, Except.bind, pure, Except.pure]

theorem outRows_some_spec (t : Table) (d : List (String × String)) : ∀ (rows : List Row) (body : List (List String)),
    outRows t (some d) rows = .ok body → body.length = rows.length ∧ ∀ r ∈ body, r.length = d.length := by
  intro rows
  induction rows with
  | nil => intro body h; simp [outRows] at h; subst h; simp
  | cons r rs ih =>
    intro body h
    simp only [outRows, bind, Except.bind] at h
    cases hs : selectRow t.headers r.toList (d.map Prod.snd) with
    | error e => rw [hs] at h; cases h
    | ok o =>
      rw [hs] at h
      cases hr : outRows t (some d) rs with
      | error e => rw [hr] at h; cases h
      | ok rest =>
        rw [hr] at h
        simp only [pure, Except.pure] at h
        cases h
        obtain ⟨h1, h2⟩ := ih rest hr
        refine ⟨by simp [h1], ?_⟩
        intro x hx
        rcases List.mem_cons.mp hx with rfl | hx
        · simpa using selectRow_length _ _ _ _ hs
        · exact h2 x hx

theorem outRows_identity (t : Table) (hi : t.Inv) : ∀ (rows : List Row), (∀ r ∈ rows, r ∈ t.rows) →
    outRows t (some (t.headers.map (fun x => (x, x)))) rows = .ok (rows.map Row.toList) := by
  intro rows
  induction rows with
  | nil => intro _; rfl
  | cons r rs ih =>
    intro hm
    have hl : r.toList.length = t.headers.length := by
      have := hi.2.2 r (hm r (by simp))
      simp [Row.toList]; omega
    have hsel : selectRow t.headers r.toList ((t.headers.map (fun x => (x, x))).map Prod.snd) = .ok r.toList := by
      have : (t.headers.map (fun x => (x, x))).map Prod.snd = t.headers := by simp [Function.comp_def]
      rw [this]; exact selectRow_identity _ _ hi.2.1 hl
    simp only [outRows, hsel, ih (fun x hx => hm x (by simp [hx])), bind, Except.bind, pure, Except.pure, List.map_cons]

/-- the records a writer without a DIA-NN style dict hands to csv are the header list and the rows -/
theorem writeRecords_identity (t : Table) (hi : t.Inv) :
    writeRecords t (some (dictOfPairs (t.headers.map (fun x => (x, x))))) = .ok (t.headers :: t.rows.map Row.toList) := by
  rw [dictOfPairs_identity _ hi.2.1]
  simp [writeRecords, outRows_identity t hi t.rows (fun _ h => h), bind, Except.bind, pure, Except.pure, Function.comp_def]

theorem writeRecords_none (t : Table) : writeRecords t none = .ok (t.headers :: t.rows.map Row.toList) := by
  simp [writeRecords, outRows_none, bind, Except.bind, pure, Except.pure]

theorem writeTable_eq (t : Table) (dict : Option (List (String × String))) (text : List Char)
    (h : writeTable t dict = .ok text) : ∃ recs, writeRecords t dict = .ok recs ∧ text = formatRows recs := by
  unfold writeTable at h
  cases hr : writeRecords t dict with
  | error e => rw [hr] at h; cases h
  | ok recs =>
    rw [hr] at h
    simp only [bind, Except.bind, pure, Except.pure] at h
    cases h
    exact ⟨recs, rfl, rfl⟩

theorem headerDict_nondiann (w : Writer) (hw : w ≠ .diann) (ctx : Ctx) (t : Table) :
    w.headerDict ctx t = dictOfPairs (t.headers.map (fun x => (x, x))) := by
  cases w with
  | diann => exact absurd rfl hw
  | minimal => rfl
  | maxquant b => rfl

/-! ### reading back -/

theorem getField_base (ex row : List String) (x : String) (i : Nat) (hx : x ∈ baseHeaders)
    (hi : (baseHeaders ++ ex).idxOf x = i) (v : String) (hv : row[i]? = some v) :
    getField (baseHeaders ++ []) (baseHeaders ++ ex) row x = .ok v := by
  have h2 : x ∈ baseHeaders ++ ex := by simp [hx]
  simp [getField, hx, h2, hi, hv]

/-- the re-read row: the base fields of `r` with the numbers `n`, `q`, `s` Python makes of its number cells -/
def Row.toMq (r : Row) (n : Int) (q s : FVal) : MqRow :=
  { proteinIds := r.proteinIds, majorityProteinIds := r.majorityProteinIds,
    peptideCountsUnique := r.peptideCountsUnique, numberOfProteins := n, qValue := q, score := s,
    reverse := r.reverse, potentialContaminant := r.potentialContaminant, extra := [] }

theorem parseMqRow_toList (pint : String → Option Int) (pfloat : String → Option FVal) (ex : List String) (r : Row)
    (n : Int) (q s : FVal) (hn : pint r.numberOfProteins = some n) (hq : pfloat r.qValue = some q)
    (hs : pfloat r.score = some s) :
    parseMqRow pint pfloat (baseHeaders ++ ex) [] r.toList
      = .ok (r.toMq n q s) := by
  have e0 := getField_base ex r.toList "Protein IDs" 0 (by decide) (by simp [baseHeaders, Generated.writers_base_PROTEIN_GROUP_HEADERS]) r.proteinIds (by simp [Row.toList])
  have e1 := getField_base ex r.toList "Majority protein IDs" 1 (by decide) (by simp [baseHeaders, Generated.writers_base_PROTEIN_GROUP_HEADERS, List.idxOf_cons]) r.majorityProteinIds (by simp [Row.toList])
  have e2 := getField_base ex r.toList "Peptide counts (unique)" 2 (by decide) (by simp [baseHeaders, Generated.writers_base_PROTEIN_GROUP_HEADERS, List.idxOf_cons]) r.peptideCountsUnique (by simp [Row.toList])
  have e4 := getField_base ex r.toList "Number of proteins" 4 (by decide) (by simp [baseHeaders, Generated.writers_base_PROTEIN_GROUP_HEADERS, List.idxOf_cons]) r.numberOfProteins (by simp [Row.toList])
  have e5 := getField_base ex r.toList "Q-value" 5 (by decide) (by simp [baseHeaders, Generated.writers_base_PROTEIN_GROUP_HEADERS, List.idxOf_cons]) r.qValue (by simp [Row.toList])
  have e6 := getField_base ex r.toList "Score" 6 (by decide) (by simp [baseHeaders, Generated.writers_base_PROTEIN_GROUP_HEADERS, List.idxOf_cons]) r.score (by simp [Row.toList])
  have e7 := getField_base ex r.toList "Reverse" 7 (by decide) (by simp [baseHeaders, Generated.writers_base_PROTEIN_GROUP_HEADERS, List.idxOf_cons]) r.reverse (by simp [Row.toList])
  have e8 := getField_base ex r.toList "Potential contaminant" 8 (by decide) (by simp [baseHeaders, Generated.writers_base_PROTEIN_GROUP_HEADERS, List.idxOf_cons]) r.potentialContaminant (by simp [Row.toList])
  simp only [Row.toMq, parseMqRow, e0, e1, e2, e4, e5, e6, e7, e8, toNum, hn, hq, hs, getFields, bind, Except.bind, pure, Except.pure]

/-- what `parse_mq_protein_groups_file` makes of a written row, given Python's `int` / `float` of its cells -/
def Row.reread (pint : String → Option Int) (pfloat : String → Option FVal) (r : Row) : Option MqRow :=
  match pint r.numberOfProteins, pfloat r.qValue, pfloat r.score with
  | some n, some q, some s => some (r.toMq n q s)
  | _, _, _ => none

theorem parseMqRows_toList (pint : String → Option Int) (pfloat : String → Option FVal) (ex : List String) :
    ∀ (rows : List Row), (∀ r ∈ rows, (r.reread pint pfloat).isSome) →
    ∃ ms, parseMqRows pint pfloat (baseHeaders ++ ex) [] (rows.map Row.toList) = .ok ms
      ∧ ms.map some = rows.map (Row.reread pint pfloat) := by
  intro rows
  induction rows with
  | nil => intro _; exact ⟨[], rfl, rfl⟩
  | cons r rs ih =>
    intro h
    obtain ⟨ms, h1, h2⟩ := ih (fun x hx => h x (by simp [hx]))
    have hr := h r (by simp)
    unfold Row.reread at hr
    cases hn : pint r.numberOfProteins with
    | none => simp [hn] at hr
    | some n =>
      cases hq : pfloat r.qValue with
      | none => simp [hn, hq] at hr
      | some q =>
        cases hs : pfloat r.score with
        | none => simp [hn, hq, hs] at hr
        | some s =>
          refine ⟨r.toMq n q s :: ms, ?_, ?_⟩
          · simp only [List.map_cons, parseMqRows, parseMqRow_toList pint pfloat ex r n q s hn hq hs, h1, bind, Except.bind, pure, Except.pure]
          · simp [h2, Row.reread, hn, hq, hs]

/-! ### the FDR filter -/

/-- the row test of the filter tool -/
def keepRow (pfloat : String → Option FVal) (cutoff : FVal) (qcol : Nat) (r : List String) : Bool :=
  match r[qcol]? with
  | some f => match pfloat f with
    | some v => v.le cutoff
    | none => false
  | none => false

theorem filterRows_spec (pfloat : String → Option FVal) (cutoff : FVal) (qcol : Nat) :
    ∀ (rows kept : List (List String)), filterRows pfloat cutoff qcol rows = .ok kept →
      kept = rows.filter (keepRow pfloat cutoff qcol) := by
  intro rows
  induction rows with
  | nil => intro kept h; simp [filterRows] at h; subst h; rfl
  | cons r rs ih =>
    intro kept h
    simp only [filterRows] at h
    cases hq : r[qcol]? with
    | none => rw [hq] at h; cases h
    | some f =>
      rw [hq] at h
      simp only at h
      cases hf : pfloat f with
      | none => rw [hf] at h; cases h
      | some v =>
        rw [hf] at h
        simp only at h
        cases hr : filterRows pfloat cutoff qcol rs with
        | error e => rw [hr] at h; cases h
        | ok rest =>
          rw [hr] at h
          simp only [bind, Except.bind, pure, Except.pure] at h
          cases h
          have := ih rest hr
          simp only [List.filter_cons, keepRow, hq, hf]
          split <;> simp [this]

theorem filterRows_total (pfloat : String → Option FVal) (cutoff : FVal) (qcol : Nat) :
    ∀ (rows : List (List String)), (∀ r ∈ rows, ∃ f, r[qcol]? = some f ∧ (pfloat f).isSome) →
      ∃ kept, filterRows pfloat cutoff qcol rows = .ok kept := by
  intro rows
  induction rows with
  | nil => intro _; exact ⟨[], rfl⟩
  | cons r rs ih =>
    intro h
    obtain ⟨kept, hk⟩ := ih (fun x hx => h x (by simp [hx]))
    obtain ⟨f, hf, hp⟩ := h r (by simp)
    cases hv : pfloat f with
    | none => simp [hv] at hp
    | some v =>
      refine ⟨if v.le cutoff then r :: kept else kept, ?_⟩
      simp [filterRows, hf, hv, hk, bind, Except.bind, pure, Except.pure]


/-! ### `remove_column` -/

theorem applyOps_gens (ctx : Ctx) : ∀ (gs : List Gen) (t : Table),
    applyOps ctx t (gs.map Op.gen) = applyAll ctx t gs := by
  intro gs
  induction gs with
  | nil => intro t; rfl
  | cons g gs ih =>
    intro t
    simp only [List.map_cons, applyOps, applyAll, applyOp]
    cases applyGen ctx t g with
    | error e => rfl
    | ok t1 => simp only [bind, Except.bind]; exact ih t1

theorem delColumn_spec (k : Nat) (n : Nat) : ∀ (rows out : List Row), (∀ r ∈ rows, r.extra.length = n) → k < n →
    delColumn (k : Int) rows = .ok out → ∀ r ∈ out, r.extra.length = n - 1 := by
  intro rows
  induction rows with
  | nil => intro out _ _ h; simp [delColumn] at h; subst h; simp
  | cons r rs ih =>
    intro out hl hk h
    simp only [delColumn, bind, Except.bind] at h
    cases hd : pyDel r.extra (k : Int) with
    | error e => rw [hd] at h; cases h
    | ok ex =>
      rw [hd] at h
      cases hr : delColumn (k : Int) rs with
      | error e => rw [hr] at h; cases h
      | ok rest =>
        rw [hr] at h
        simp only [pure, Except.pure] at h
        cases h
        intro x hx
        rcases List.mem_cons.mp hx with rfl | hx
        · have hlen := hl r (by simp)
          unfold pyDel at hd
          have hneg : ¬ ((k : Int) < 0) := by omega
          simp only [hneg, if_false] at hd
          split at hd
          · cases hd
            simp [List.length_eraseIdx, hlen, hk]
          · cases hd
        · exact ih rest (fun y hy => hl y (by simp [hy])) hk hr x hx

theorem removeColumn_inv (t t' : Table) (header : String) (hi : t.Inv) (hb : header ∉ baseHeaders)
    (h : removeColumn t header = .ok t') : t'.Inv := by
  unfold removeColumn at h
  split at h
  · rename_i hmem
    obtain ⟨⟨ex, hex⟩, hnd, hrows⟩ := hi
    have hmex : header ∈ ex := by
      rw [hex] at hmem
      rcases List.mem_append.mp hmem with h1 | h1
      · exact absurd h1 hb
      · exact h1
    have hidx : t.headers.idxOf header = 9 + ex.idxOf header := by
      rw [hex, List.idxOf_append]
      simp [hb, baseHeaders_length, Nat.add_comm]
    have hk : ex.idxOf header < ex.length := List.idxOf_lt_length_iff.mpr hmex
    have hcast : ((t.headers.idxOf header : Nat) : Int) - (baseHeaders.length : Int) = ((ex.idxOf header : Nat) : Int) := by
      rw [hidx, baseHeaders_length]; omega
    simp only [hcast] at h
    cases hd : delColumn ((ex.idxOf header : Nat) : Int) t.rows with
    | error e => rw [hd] at h; cases h
    | ok rows =>
      rw [hd] at h
      simp only [bind, Except.bind, pure, Except.pure] at h
      cases h
      have hlen : ∀ r ∈ t.rows, r.extra.length = ex.length := by
        intro r hr
        have := hrows r hr
        rw [hex] at this
        simp [baseHeaders_length] at this
        omega
      have hout := delColumn_spec _ _ _ _ hlen hk hd
      have hhead : t.headers.eraseIdx (t.headers.idxOf header) = baseHeaders ++ ex.eraseIdx (ex.idxOf header) := by
        rw [hidx, hex, List.eraseIdx_append_of_length_le (by simp [baseHeaders_length])]
        simp [baseHeaders_length]
      refine ⟨⟨_, hhead⟩, ?_, ?_⟩
      · exact List.Nodup.sublist (List.eraseIdx_sublist _ _) hnd
      · intro r hr
        simp only
        rw [hout r hr, hhead]
        simp [baseHeaders_length, List.length_eraseIdx, hk]
  · cases h; exact hi

theorem applyOps_inv (ctx : Ctx) : ∀ (ops : List Op) (t t' : Table),
    (∀ h, Op.remove h ∈ ops → h ∉ baseHeaders) → applyOps ctx t ops = .ok t' → t.Inv → t'.Inv := by
  intro ops
  induction ops with
  | nil => intro t t' _ h hi; simp only [applyOps] at h; cases h; exact hi
  | cons o os ih =>
    intro t t' hrem h hi
    simp only [applyOps, bind, Except.bind] at h
    cases ho : applyOp ctx t o with
    | error e => rw [ho] at h; cases h
    | ok t1 =>
      rw [ho] at h
      refine ih t1 t' (fun x hx => hrem x (by simp [hx])) h ?_
      cases o with
      | gen g => exact applyGen_inv ctx t t1 g ho hi
      | remove hd => exact removeColumn_inv t t1 hd hi (hrem hd (by simp)) ho


/-- records without a field that needs quoting are written as their fields joined by tabs -/
theorem fmtFields_plain : ∀ (fs : List String), (∀ f ∈ fs, needsQuote f.toList = false) →
    fmtFields fs = List.intercalate [delim] (fs.map String.toList) := by
  intro fs
  induction fs with
  | nil => intro _; rfl
  | cons f fs ih =>
    intro h
    cases fs with
    | nil => simp [fmtFields, fmtField, h f (by simp), List.intercalate]
    | cons g gs =>
      have := ih (fun x hx => h x (by simp [hx]))
      simp only [fmtFields, fmtField, h f (by simp), Bool.false_eq_true, if_false, this]
      simp [List.intercalate]

end PgFdr.C13
