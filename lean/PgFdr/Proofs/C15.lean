import PgFdr.Model.C15

/-! Helper lemmas for C15 (the rescoring merge). -/
namespace PgFdr.C15

/-! ### `mapM` in `Except` -/

theorem mapM_ok_map {α β ε} (f : α → Except ε β) (g : α → β) (hfg : ∀ a b, f a = .ok b → g a = b) :
    ∀ (l : List α) (out : List β), l.mapM f = .ok out → out = l.map g := by
  intro l
  induction l with
  | nil => intro out h; simp [pure, Except.pure] at h; simp [h]
  | cons a l ih =>
    intro out h
    rw [List.mapM_cons] at h
    cases hfa : f a with
    | error e => rw [hfa] at h; simp [bind, Except.bind] at h
    | ok b =>
      rw [hfa] at h
      cases hl : l.mapM f with
      | error e => rw [hl] at h; simp [bind, Except.bind] at h
      | ok bs =>
        rw [hl] at h
        simp [bind, Except.bind, pure, Except.pure] at h
        subst h
        simp [hfg a b hfa, ih bs hl]

theorem mapM_ok_all {α β ε} (f : α → Except ε β) :
    ∀ (l : List α) (out : List β), l.mapM f = .ok out → ∀ a ∈ l, ∃ b, f a = .ok b := by
  intro l
  induction l with
  | nil => intro out _ a ha; simp at ha
  | cons a l ih =>
    intro out h
    rw [List.mapM_cons] at h
    cases hfa : f a with
    | error e => rw [hfa] at h; simp [bind, Except.bind] at h
    | ok b =>
      rw [hfa] at h
      cases hl : l.mapM f with
      | error e => rw [hl] at h; simp [bind, Except.bind] at h
      | ok bs =>
        intro x hx
        rcases List.mem_cons.mp hx with rfl | hx
        · exact ⟨b, hfa⟩
        · exact ih bs hl x hx

/-! ### insertion-ordered dicts -/

theorem lookupKV_insertKV {κ ν} [DecidableEq κ] (k k' : κ) (v : ν) (l : List (κ × ν)) :
    lookupKV k' (insertKV k v l) = if k = k' then some v else lookupKV k' l := by
  induction l with
  | nil => simp [insertKV, lookupKV]
  | cons e t ih =>
    obtain ⟨k0, v0⟩ := e
    by_cases h0 : k0 = k
    · subst h0
      by_cases h1 : k0 = k' <;> simp [insertKV, lookupKV, h1]
    · by_cases h1 : k0 = k'
      · subst h1
        have : ¬ k = k0 := fun h => h0 h.symm
        simp [insertKV, lookupKV, h0, this]
      · simp [insertKV, lookupKV, h0, h1, ih]

theorem insertKV_ne_nil {κ ν} [DecidableEq κ] (k : κ) (v : ν) (l : List (κ × ν)) : insertKV k v l ≠ [] := by
  cases l with
  | nil => simp [insertKV]
  | cons e t =>
    obtain ⟨k0, v0⟩ := e
    by_cases h : k0 = k <;> simp [insertKV, h]

theorem lookupRes_insertRes (res : Results) (r raw : String) (k key : Key) (v : Val) :
    lookupRes (insertRes res r k v) raw key =
      if r = raw ∧ k = key then some v else lookupRes res raw key := by
  unfold lookupRes insertRes
  rw [lookupKV_insertKV]
  by_cases hr : r = raw
  · subst hr
    simp only [if_true, true_and]
    rw [lookupKV_insertKV]
    by_cases hk : k = key
    · simp [hk]
    · simp only [hk, if_false]
      cases lookupKV r res <;> simp [lookupKV]
  · simp [hr]

theorem foldl_insertParsed_ne_nil (parsed : List ParsedResult) (init : Results) (h : parsed ≠ [] ∨ init ≠ []) :
    parsed.foldl insertParsed init ≠ [] := by
  induction parsed generalizing init with
  | nil => simpa using h
  | cons p ps ih =>
    simp only [List.foldl_cons]
    apply ih
    right
    exact insertKV_ne_nil _ _ _

/-- the dictionary built row by row answers with the LAST row carrying the key -/
theorem lookupRes_foldl (parsed : List ParsedResult) (init : Results) (raw : String) (key : Key) :
    lookupRes (parsed.foldl insertParsed init) raw key =
      match parsed.reverse.find? (fun q => decide (q.raw = raw ∧ (q.scan, q.modSeq) = key)) with
      | some q => some q.val
      | none => lookupRes init raw key := by
  induction parsed generalizing init with
  | nil => simp
  | cons p ps ih =>
    simp only [List.foldl_cons, List.reverse_cons, List.find?_append]
    rw [ih]
    cases hf : ps.reverse.find? (fun q => decide (q.raw = raw ∧ (q.scan, q.modSeq) = key)) with
    | some q => simp
    | none =>
      simp only [Option.none_or, List.find?_cons, List.find?_nil]
      unfold insertParsed
      rw [lookupRes_insertRes]
      by_cases hp : p.raw = raw ∧ (p.scan, p.modSeq) = key
      · simp [hp]
      · simp [hp]

/-- `rule` in terms of the two-level lookup -/
theorem rule_eq_lookupRes (res : Results) (sc pc : Nat) (row : Row) (p : Psm)
    (hinner : ∀ raw inner, lookupKV raw res = some inner → inner ≠ []) :
    rule res sc pc row p =
      if res.isEmpty then some row
      else match p.scan with
        | none => some row
        | some scan => (lookupRes res p.raw (scan, p.modSeq)).map (fun v => (row.set sc v.1).set pc v.2) := by
  unfold rule lookupRes
  split
  · rfl
  · cases hs : p.scan with
    | none => rfl
    | some scan =>
      simp only
      cases hl : lookupKV p.raw res with
      | none => rfl
      | some inner =>
        have hne := hinner _ _ hl
        have : inner.isEmpty = false := by cases inner <;> simp_all
        simp only [this]
        cases lookupKV (scan, p.modSeq) inner with
        | none => simp
        | some v => obtain ⟨s, e⟩ := v; simp

theorem lookupKV_mem {κ ν} [DecidableEq κ] (k : κ) (v : ν) (l : List (κ × ν)) (h : lookupKV k l = some v) :
    (k, v) ∈ l := by
  induction l with
  | nil => simp [lookupKV] at h
  | cons e t ih =>
    obtain ⟨k0, v0⟩ := e
    by_cases h0 : k0 = k
    · simp [lookupKV, h0] at h; subst h0; subst h; simp
    · simp [lookupKV, h0] at h; exact List.mem_cons_of_mem _ (ih h)

theorem mem_insertKV {κ ν} [DecidableEq κ] (k : κ) (v : ν) (l : List (κ × ν)) (e : κ × ν)
    (h : e ∈ insertKV k v l) : e = (k, v) ∨ e ∈ l := by
  induction l with
  | nil => simp [insertKV] at h; exact Or.inl h
  | cons e0 t ih =>
    obtain ⟨k0, v0⟩ := e0
    by_cases h0 : k0 = k
    · simp [insertKV, h0] at h
      rcases h with h | h
      · left; exact h
      · right; exact List.mem_cons_of_mem _ h
    · simp [insertKV, h0] at h
      rcases h with h | h
      · right; rw [h]; exact List.mem_cons_self
      · rcases ih h with h | h
        · left; exact h
        · right; exact List.mem_cons_of_mem _ h

/-- no inner dictionary of a built results dictionary is empty -/
theorem foldl_inner_ne_nil (parsed : List ParsedResult) (init : Results)
    (hinit : ∀ e ∈ init, e.2 ≠ []) : ∀ e ∈ parsed.foldl insertParsed init, e.2 ≠ [] := by
  induction parsed generalizing init with
  | nil => simpa using hinit
  | cons p ps ih =>
    simp only [List.foldl_cons]
    apply ih
    intro e he
    unfold insertParsed insertRes at he
    rcases mem_insertKV _ _ _ _ he with h | h
    · rw [h]; exact insertKV_ne_nil _ _ _
    · exact hinit e h

/-! ### columns, rows, files -/

theorem colIdx_nil (name : String) : colIdx [] name = .error "missing_column" := rfl

theorem cols_ok_ne_nil (hdr : Row) (c : Cols) (h : cols hdr = .ok c) : hdr ≠ [] := by
  intro hnil
  subst hnil
  simp [cols, colIdx_nil, bind, Except.bind] at h

theorem processRow_rowRule (res : Results) (hdrOrig : Row) (c : Cols) (hc : cols (hdrOrig.map lower) = .ok c)
    (row : Row) (o : Option Row) (h : processRow res c row = .ok o) : rowRule res hdrOrig row = o := by
  unfold rowRule
  rw [hc]
  show (match psmOf c row with
    | .error _ => none
    | .ok p => rule res c.score c.pep row p) = o
  unfold processRow at h
  cases hp : psmOf c row with
  | error e => rw [hp] at h; simp [bind, Except.bind] at h
  | ok p =>
    rw [hp] at h
    simp [bind, Except.bind, pure, Except.pure] at h
    exact h

theorem filterMap_id_map {α β} (g : α → Option β) (l : List α) : (l.map g).filterMap id = l.filterMap g := by
  induction l with
  | nil => rfl
  | cons a l ih => simp [List.filterMap_cons, ih]

theorem updateSingle_ok (res : Results) (file : List Row) (fh : Row) (o : List Row) (h' : Row)
    (h : updateSingle res file fh = .ok (o, h')) :
    ∃ hdr rows, file = hdr :: rows ∧ h' = hdr.map lower ∧ h' ≠ [] ∧
      (∃ c, cols (hdr.map lower) = .ok c ∧ ∀ r ∈ rows, ∃ p, psmOf c r = .ok p) ∧
      o = (if fh.isEmpty then [hdr] else []) ++ rows.filterMap (rowRule res hdr) := by
  cases file with
  | nil => simp [updateSingle] at h
  | cons hdr rows =>
    refine ⟨hdr, rows, rfl, ?_⟩
    unfold updateSingle at h
    simp only at h
    cases hc : cols (hdr.map lower) with
    | error e => rw [hc] at h; simp [bind, Except.bind] at h
    | ok c =>
      rw [hc] at h
      cases hm : rows.mapM (processRow res c) with
      | error e => simp [bind, Except.bind, hm] at h
      | ok outs =>
        simp only [bind, Except.bind, hm, pure, Except.pure, Except.ok.injEq, Prod.mk.injEq] at h
        obtain ⟨ho, hh⟩ := h
        refine ⟨hh.symm, ?_, ⟨c, rfl, ?_⟩, ?_⟩
        · rw [← hh]; exact cols_ok_ne_nil _ c hc
        · intro r hr
          obtain ⟨b, hb⟩ := mapM_ok_all _ _ _ hm r hr
          unfold processRow at hb
          cases hp : psmOf c r with
          | error e => rw [hp] at hb; simp [bind, Except.bind] at hb
          | ok p => exact ⟨p, rfl⟩
        · have := mapM_ok_map (processRow res c) (rowRule res hdr)
            (fun a b hab => processRow_rowRule res hdr c hc a b hab) rows outs hm
          rw [← ho, this, filterMap_id_map]

/-- every file of a successful merge has a header that resolves and rows that parse -/
def FileOk (f : List Row) : Prop :=
  ∃ hdr rows c, f = hdr :: rows ∧ cols (hdr.map lower) = .ok c ∧ ∀ r ∈ rows, ∃ p, psmOf c r = .ok p

theorem mergeAux_ok (res : Results) : ∀ (files : List (List Row)) (fh : Row) (out : List Row),
    mergeAux res files fh = .ok out →
    (∀ f ∈ files, FileOk f) ∧
    out = (if fh.isEmpty then (files.head?.map (fun f => f.headD [])).toList else []) ++
          files.flatMap (fun f => f.tail.filterMap (rowRule res (f.headD []))) := by
  intro files
  induction files with
  | nil =>
    intro fh out h
    simp [mergeAux, pure, Except.pure] at h
    subst h
    simp
  | cons f fs ih =>
    intro fh out h
    unfold mergeAux at h
    cases hu : updateSingle res f fh with
    | error e => rw [hu] at h; simp [bind, Except.bind] at h
    | ok oh =>
      obtain ⟨o, h'⟩ := oh
      rw [hu] at h
      cases hr : mergeAux res fs h' with
      | error e => simp [bind, Except.bind, hr] at h
      | ok r =>
        simp only [bind, Except.bind, hr, pure, Except.pure, Except.ok.injEq] at h
        obtain ⟨hdr, rows, hf, hh', hne, ⟨c, hc, hrows⟩, ho⟩ := updateSingle_ok res f fh o h' hu
        obtain ⟨hall, hrest⟩ := ih h' r hr
        have hfalse : h'.isEmpty = false := by
          cases h' with
          | nil => exact absurd rfl hne
          | cons a b => rfl
        rw [hfalse] at hrest
        constructor
        · intro g hg
          rcases List.mem_cons.mp hg with rfl | hg
          · exact ⟨hdr, rows, c, hf, hc, hrows⟩
          · exact hall g hg
        · rw [← h, ho, hrest, hf]
          by_cases hfh : fh.isEmpty <;> simp [hfh, List.flatMap_cons]

theorem flatMap_congr' {α β} (l : List α) (f g : α → List β) (h : ∀ a ∈ l, f a = g a) :
    l.flatMap f = l.flatMap g := by
  induction l with
  | nil => rfl
  | cons a l ih =>
    simp only [List.flatMap_cons]
    rw [h a (by simp), ih (fun x hx => h x (by simp [hx]))]

/-- decidable equality of results, for the closed examples in `Props/C15.lean` -/
instance {ε α} [DecidableEq ε] [DecidableEq α] : DecidableEq (Except ε α)
  | .ok a, .ok b => if h : a = b then isTrue (by rw [h]) else isFalse (fun e => h (by injection e))
  | .error a, .error b => if h : a = b then isTrue (by rw [h]) else isFalse (fun e => h (by injection e))
  | .ok _, .error _ => isFalse (fun e => by injection e)
  | .error _, .ok _ => isFalse (fun e => by injection e)

/-! ### Python `split` / `join` -/

theorem splitOn_ne_nil (sep : Char) (s : List Char) : splitOn sep s ≠ [] := by
  cases s with
  | nil => simp [splitOn]
  | cons c cs =>
    unfold splitOn
    split
    · simp
    · split <;> simp

theorem join_splitOn (sep : Char) (s : List Char) : joinChars sep (splitOn sep s) = s := by
  induction s with
  | nil => simp [splitOn, joinChars]
  | cons c cs ih =>
    unfold splitOn
    split
    · rename_i h
      subst h
      have hne := splitOn_ne_nil c cs
      cases hs : splitOn c cs with
      | nil => exact absurd hs hne
      | cons x xs => rw [hs] at ih; simp [joinChars, ih]
    · cases hs : splitOn sep cs with
      | nil => exact absurd hs (splitOn_ne_nil sep cs)
      | cons x xs =>
        rw [hs] at ih
        simp only
        cases xs with
        | nil => simp [joinChars] at ih ⊢; exact ih
        | cons y ys => simp [joinChars] at ih ⊢; exact ih

theorem splitOn_no_sep (sep : Char) (s : List Char) (h : sep ∉ s) : splitOn sep s = [s] := by
  induction s with
  | nil => rfl
  | cons c cs ih =>
    have hc : ¬ c = sep := fun e => h (by simp [e])
    have hcs : sep ∉ cs := fun e => h (List.mem_cons_of_mem _ e)
    unfold splitOn
    simp [hc, ih hcs]

theorem splitOn_append_sep (sep : Char) (s t : List Char) :
    splitOn sep (s ++ sep :: t) = splitOn sep s ++ splitOn sep t := by
  induction s with
  | nil => simp [splitOn]
  | cons c cs ih =>
    by_cases hc : c = sep
    · simp only [List.cons_append]
      rw [splitOn, splitOn]
      simp [hc, ih]
    · simp only [List.cons_append]
      rw [splitOn, ih]
      conv => rhs; rw [splitOn]
      simp only [hc, if_false]
      cases hs : splitOn sep cs with
      | nil => exact absurd hs (splitOn_ne_nil sep cs)
      | cons x xs => simp

/-! ### the classification of evidence rows (round 5: seeded C15-h) -/

theorem bind_ok {ε α β} (x : Except ε α) (f : α → Except ε β) (b : β) (h : (x >>= f) = .ok b) :
    ∃ a, x = .ok a ∧ f a = .ok b := by
  cases x with
  | error e => simp [bind, Except.bind] at h
  | ok a => exact ⟨a, rfl, h⟩

theorem field_ok (row : Row) (i : Nat) (x : String) (h : field row i = .ok x) : row[i]? = some x := by
  unfold field at h
  cases hr : row[i]? with
  | none => rw [hr] at h; simp at h
  | some y => rw [hr] at h; simp at h; rw [h]

/-- what `psmOf` reads, cell by cell -/
theorem psmOf_ok (c : Cols) (row : Row) (p : Psm) (h : psmOf c row = .ok p) :
    ∃ scanF pepF, row[c.scan]? = some scanF ∧ scanOfCell scanF = .ok p.scan ∧
      row[c.raw]? = some p.raw ∧ row[c.modSeq]? = some pepF ∧ p.modSeq = slice 1 1 pepF ∧
      (∃ s, row[c.score]? = some s) ∧ (∃ e, row[c.pep]? = some e) := by
  unfold psmOf at h
  obtain ⟨scanF, h1, h⟩ := bind_ok _ _ _ h
  obtain ⟨scan, h2, h⟩ := bind_ok _ _ _ h
  obtain ⟨_, _, h⟩ := bind_ok _ _ _ h
  obtain ⟨raw, h3, h⟩ := bind_ok _ _ _ h
  obtain ⟨s, h4, h⟩ := bind_ok _ _ _ h
  obtain ⟨e, h5, h⟩ := bind_ok _ _ _ h
  obtain ⟨pepF, h6, h⟩ := bind_ok _ _ _ h
  obtain ⟨_, _, h⟩ := bind_ok _ _ _ h
  obtain ⟨_, _, h⟩ := bind_ok _ _ _ h
  obtain ⟨_, _, h⟩ := bind_ok _ _ _ h
  simp only [pure, Except.pure, Except.ok.injEq] at h
  subst h
  exact ⟨scanF, pepF, field_ok _ _ _ h1, h2, field_ok _ _ _ h3, field_ok _ _ _ h6, rfl,
    ⟨s, field_ok _ _ _ h4⟩, ⟨e, field_ok _ _ _ h5⟩⟩

theorem scanOfCell_none (f : String) (h : scanOfCell f = .ok none) :
    f.isEmpty = true ∨ parseInt? f.toList = some (-1) := by
  unfold scanOfCell at h
  split at h
  · left; assumption
  · right
    split at h
    · simp at h
    · rename_i i hi
      simp only [Except.ok.injEq] at h
      split at h
      · rename_i h1; rw [hi, h1]
      · simp at h

theorem scanOfCell_some (f : String) (n : Int) (h : scanOfCell f = .ok (some n)) :
    f.isEmpty = false ∧ parseInt? f.toList = some n ∧ n ≠ -1 := by
  unfold scanOfCell at h
  split at h
  · simp at h
  · rename_i he
    split at h
    · simp at h
    · rename_i i hi
      simp only [Except.ok.injEq] at h
      split at h
      · simp at h
      · rename_i h1
        simp at h; subst h
        exact ⟨by simpa using he, hi, h1⟩

theorem psmOf_scan_none_iff (c : Cols) (row : Row) (p : Psm) (h : psmOf c row = .ok p) :
    p.scan = none ↔ isMbrRow c row = true := by
  obtain ⟨scanF, pepF, h1, h2, _⟩ := psmOf_ok c row p h
  unfold isMbrRow
  rw [h1]
  simp only [Bool.or_eq_true, beq_iff_eq]
  constructor
  · intro hn
    rw [hn] at h2
    exact scanOfCell_none _ h2
  · intro hm
    cases hs : p.scan with
    | none => rfl
    | some n =>
      rw [hs] at h2
      obtain ⟨a, b, c'⟩ := scanOfCell_some _ _ h2
      rcases hm with hm | hm
      · rw [a] at hm; cases hm
      · rw [b] at hm; simp at hm; exact absurd hm c'

theorem indexOf?_get (name : String) : ∀ (l : List String) (i : Nat), indexOf? name l = some i → l[i]? = some name := by
  intro l
  induction l with
  | nil => intro i h; simp [indexOf?] at h
  | cons a t ih =>
    intro i h
    unfold indexOf? at h
    split at h
    · rename_i ha; simp at h; subst h; simp [ha]
    · cases ht : indexOf? name t with
      | none => rw [ht] at h; simp at h
      | some j =>
        rw [ht] at h; simp at h; subst h
        simpa using ih j ht

theorem indexOf?_ne (a b : String) (l : List String) (i j : Nat) (hab : a ≠ b)
    (ha : indexOf? a l = some i) (hb : indexOf? b l = some j) : i ≠ j := by
  intro hij
  subst hij
  have h1 := indexOf?_get a l i ha
  have h2 := indexOf?_get b l i hb
  rw [h1] at h2
  exact hab (Option.some.inj h2)

theorem colIdx_ok (hdr : Row) (name : String) (i : Nat) (h : colIdx hdr name = .ok i) : indexOf? name hdr = some i := by
  unfold colIdx at h
  cases hi : indexOf? name hdr with
  | none => rw [hi] at h; simp at h
  | some j => rw [hi] at h; simp at h; rw [h]

/-- the resolved columns, by name -/
theorem cols_ok (hdr : Row) (c : Cols) (h : cols hdr = .ok c) :
    indexOf? "score" hdr = some c.score ∧ indexOf? "pep" hdr = some c.pep ∧ indexOf? "raw file" hdr = some c.raw ∧
    (indexOf? "ms/ms scan number" hdr = some c.scan ∨ indexOf? "scan number" hdr = some c.scan) ∧
    indexOf? "modified sequence" hdr = some c.modSeq ∧ indexOf? "type" hdr = some c.idType ∧
    indexOf? "reverse" hdr = some c.reverse ∧ indexOf? "potential contaminant" hdr = some c.contaminant ∧
    c.labeling = indexOf? "labeling state" hdr := by
  unfold cols at h
  obtain ⟨score, h1, h⟩ := bind_ok _ _ _ h
  obtain ⟨pep, h2, h⟩ := bind_ok _ _ _ h
  obtain ⟨raw, h3, h⟩ := bind_ok _ _ _ h
  cases hm : indexOf? "ms/ms scan number" hdr with
  | some i =>
    simp only [hm] at h
    obtain ⟨scan, h4, h⟩ := bind_ok _ _ _ h
    obtain ⟨modSeq, h5, h⟩ := bind_ok _ _ _ h
    obtain ⟨idType, h6, h⟩ := bind_ok _ _ _ h
    obtain ⟨reverse, h7, h⟩ := bind_ok _ _ _ h
    obtain ⟨contaminant, h8, h⟩ := bind_ok _ _ _ h
    simp only [pure, Except.pure, Except.ok.injEq] at h h4
    subst h; subst h4
    exact ⟨colIdx_ok _ _ _ h1, colIdx_ok _ _ _ h2, colIdx_ok _ _ _ h3, Or.inl rfl, colIdx_ok _ _ _ h5, colIdx_ok _ _ _ h6,
      colIdx_ok _ _ _ h7, colIdx_ok _ _ _ h8, rfl⟩
  | none =>
    simp only [hm] at h
    obtain ⟨scan, h4, h⟩ := bind_ok _ _ _ h
    obtain ⟨modSeq, h5, h⟩ := bind_ok _ _ _ h
    obtain ⟨idType, h6, h⟩ := bind_ok _ _ _ h
    obtain ⟨reverse, h7, h⟩ := bind_ok _ _ _ h
    obtain ⟨contaminant, h8, h⟩ := bind_ok _ _ _ h
    simp only [pure, Except.pure, Except.ok.injEq] at h
    subst h
    exact ⟨colIdx_ok _ _ _ h1, colIdx_ok _ _ _ h2, colIdx_ok _ _ _ h3, Or.inr (colIdx_ok _ _ _ h4), colIdx_ok _ _ _ h5,
      colIdx_ok _ _ _ h6, colIdx_ok _ _ _ h7, colIdx_ok _ _ _ h8, rfl⟩

/-- the `Type` column is none of the columns the matching reads -/
theorem cols_type_distinct (hdr : Row) (c : Cols) (h : cols hdr = .ok c) :
    c.idType ≠ c.score ∧ c.idType ≠ c.pep ∧ c.idType ≠ c.raw ∧ c.idType ≠ c.scan ∧ c.idType ≠ c.modSeq ∧
    c.idType ≠ c.reverse ∧ c.idType ≠ c.contaminant ∧ c.labeling ≠ some c.idType := by
  obtain ⟨h1, h2, h3, h4, h5, h6, h7, h8, h9⟩ := cols_ok hdr c h
  refine ⟨indexOf?_ne _ _ hdr _ _ (by decide) h6 h1, indexOf?_ne _ _ hdr _ _ (by decide) h6 h2,
    indexOf?_ne _ _ hdr _ _ (by decide) h6 h3, ?_, indexOf?_ne _ _ hdr _ _ (by decide) h6 h5,
    indexOf?_ne _ _ hdr _ _ (by decide) h6 h7, indexOf?_ne _ _ hdr _ _ (by decide) h6 h8, ?_⟩
  · rcases h4 with h4 | h4
    · exact indexOf?_ne _ _ hdr _ _ (by decide) h6 h4
    · exact indexOf?_ne _ _ hdr _ _ (by decide) h6 h4
  · rw [h9]; intro hl
    exact indexOf?_ne _ _ hdr _ _ (by decide) h6 hl rfl

theorem field_set_ne (row : Row) (i j : Nat) (t : String) (h : i ≠ j) : field (row.set i t) j = field row j := by
  unfold field
  rw [List.getElem?_set_ne h]

theorem field_set_self_bind {β} (row : Row) (i : Nat) (t : String) (k : Except String β) :
    (field (row.set i t) i >>= fun _ => k) = (field row i >>= fun _ => k) := by
  unfold field
  by_cases hi : i < row.length
  · rw [List.getElem?_set_self (by simpa using hi)]
    have : row[i]? = some row[i] := List.getElem?_eq_getElem hi
    rw [this]; rfl
  · have h1 : row[i]? = none := by simp; omega
    have h2 : (row.set i t)[i]? = none := by simp; omega
    rw [h1, h2]

theorem checkLabeling_set (c : Cols) (row : Row) (i : Nat) (t : String) (h : c.labeling ≠ some i) :
    checkLabeling c (row.set i t) = checkLabeling c row := by
  unfold checkLabeling
  cases hl : c.labeling with
  | none => rfl
  | some l =>
    have : i ≠ l := by intro e; subst e; exact h hl
    simp only [List.getElem?_set_ne this]

/-- the classification and the lookup key of a row do not depend on its `Type` cell -/
theorem psmOf_set_type (hdr : Row) (c : Cols) (hc : cols hdr = .ok c) (row : Row) (t : String) :
    psmOf c (row.set c.idType t) = psmOf c row := by
  obtain ⟨d1, d2, d3, d4, d5, d6, d7, d8⟩ := cols_type_distinct hdr c hc
  unfold psmOf
  rw [field_set_ne _ _ _ _ d4, checkLabeling_set _ _ _ _ d8, field_set_ne _ _ _ _ d3, field_set_ne _ _ _ _ d1,
    field_set_ne _ _ _ _ d2, field_set_ne _ _ _ _ d5, field_set_ne _ _ _ _ d6, field_set_ne _ _ _ _ d7]
  congr 1; funext scanF
  congr 1; funext scan
  congr 1; funext _
  congr 1; funext raw
  congr 1; funext _
  congr 1; funext _
  congr 1; funext pepF
  congr 1; funext _
  congr 1; funext _
  exact field_set_self_bind row c.idType t _

theorem rule_set_other (res : Results) (sc pc i : Nat) (t : String) (row : Row) (p : Psm) (h1 : i ≠ sc) (h2 : i ≠ pc) :
    rule res sc pc (row.set i t) p = (rule res sc pc row p).map (fun r => r.set i t) := by
  unfold rule
  split
  · rfl
  · split
    · rfl
    · split
      · rfl
      · split
        · rfl
        · split
          · rfl
          · simp only [Option.map_some]
            rw [List.set_comm t _ h1, List.set_comm t _ h2]

/-! ### Round 6: column layouts of the result files -/

theorem mapM_replace {α β ε} (g : α → Except ε β) (a a' : α) (h : g a = g a') (before after : List α) :
    (before ++ a :: after).mapM g = (before ++ a' :: after).mapM g := by
  induction before with
  | nil => simp [List.mapM_cons, h]
  | cons b bs ih => simp [List.mapM_cons, ih]

theorem mapM_zip_congr {α β ε} (g g' : α → Except ε β) : ∀ (l l' : List α), l.length = l'.length →
    (∀ p ∈ l.zip l', g p.1 = g' p.2) → l.mapM g = l'.mapM g'
  | [], [], _, _ => rfl
  | [], _ :: _, hl, _ => by simp at hl
  | _ :: _, [], hl, _ => by simp at hl
  | a :: l, a' :: l', hl, h => by
    have h1 : g a = g' a' := h (a, a') (by simp)
    have ih := mapM_zip_congr g g' l l' (by simpa using hl) (fun p hp => h p (by simp [hp]))
    simp [List.mapM_cons, h1, ih]

theorem field_congr (r r' : Row) (i i' : Nat) (h : r[i]? = r'[i']?) : field r i = field r' i' := by
  unfold field; rw [h]

theorem filenameCell_readable (c : PercCols) (r : Row) (h : ∀ f, c.filename = some f → f < r.length) :
    ∃ v, filenameCell c r = .ok v := by
  unfold filenameCell
  cases hf : c.filename with
  | none => exact ⟨"", rfl⟩
  | some f =>
    have := h f hf
    refine ⟨r[f], ?_⟩
    simp [field, List.getElem?_eq_getElem this]


theorem rowCells_andromeda_congr (c c' : PercCols) (r r' : Row) (h : SameReadCells c c' r r') :
    (do let x ← rowCells c r; pure x.andromeda : Except String ResultRow) =
    (do let x ← rowCells c' r'; pure x.andromeda) := by
  obtain ⟨hid, hpe, hsc, hpp, hf, hf'⟩ := h
  obtain ⟨v, hv⟩ := filenameCell_readable c r hf
  obtain ⟨v', hv'⟩ := filenameCell_readable c' r' hf'
  unfold rowCells
  rw [field_congr r r' _ _ hid, field_congr r r' _ _ hpe, field_congr r r' _ _ hsc, field_congr r r' _ _ hpp, hv, hv']
  cases field r' c'.peptide <;> cases field r' c'.score <;> cases field r' c'.pep <;> cases field r' c'.id <;> rfl

theorem parseResultRow_eq_andromedaKey (r : ResultRow) :
    parseResultRow r = (andromedaKey r.psmId r.peptide).map (parsedOfKey · (r.score, r.pep)) := by
  unfold parseResultRow andromedaKey
  simp only []
  split
  · rfl
  · split <;> rfl


end PgFdr.C15
