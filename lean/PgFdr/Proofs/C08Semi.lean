import PgFdr.Proofs.C08

/-! Helper lemmas for C08, part 4: semi-specific digestion.

The loop of `semi_specific_digest` visits every index `i ≤ n`; the *events* are the entries of the site list
`E = sitesOf c Z` (Met pseudo-site, enzymatic sites, `n`).  Before index `i` the window `starts` is
`win c E (below E i)` — the same windows as in `full_digest` — and the two branches are reduced to
`zfull_digest_set_eq` used as a black box (with the window `[1, n]`). -/
namespace PgFdr.C08
open PgFdr.Generated

/-! ## sorted lists and ranks -/

theorem lt_of_lt_below (E : List Nat) (hs : E.Pairwise (· < ·)) (x t : Nat) (h : t < below E x) :
    ∃ ht : t < E.length, E[t] < x := by
  have hlen : t < E.length := Nat.lt_of_lt_of_le h (below_le_length E x)
  refine ⟨hlen, ?_⟩
  rcases Nat.lt_or_ge E[t] x with hlt | hx
  · exact hlt
  · have := below_mono E x E[t] hx
    rw [below_getElem E hs t hlen] at this
    omega

theorem below_of_mem (E : List Nat) (hs : E.Pairwise (· < ·)) (x : Nat) (hx : x ∈ E) :
    ∃ ht : below E x < E.length, E[below E x] = x ∧ below E (x + 1) = below E x + 1 := by
  obtain ⟨t, ht, rfl⟩ := List.getElem_of_mem hx
  have h1 := below_getElem E hs t ht
  have h2 := below_getElem_succ E hs t ht
  refine ⟨by omega, ?_, by omega⟩
  simp only [h1]

theorem below_succ_of_not_mem (E : List Nat) (x : Nat) (hx : x ∉ E) : below E (x + 1) = below E x := by
  unfold below
  congr 1
  apply List.filter_congr
  intro z hz
  have : z ≠ x := fun e => hx (e ▸ hz)
  simp only [decide_eq_decide]
  omega

/-- the first entry that is `≥ x` sits at index `below E x` -/
theorem below_first_ge (E : List Nat) (hs : E.Pairwise (· < ·)) (x e : Nat) (he : e ∈ E) (hxe : x ≤ e) :
    ∃ ht : below E x < E.length, x ≤ E[below E x] := by
  obtain ⟨t, ht, rfl⟩ := List.getElem_of_mem he
  have h1 : below E x ≤ t := by
    have := below_mono E x E[t] hxe
    rwa [below_getElem E hs t ht] at this
  have hlt : below E x < E.length := by omega
  refine ⟨hlt, ?_⟩
  rcases Nat.lt_or_ge E[below E x] x with hlt' | hge
  · have hlt'' : E[below E x] + 1 ≤ x := by omega
    have := below_mono E _ x hlt''
    rw [below_getElem_succ E hs _ hlt] at this
    omega
  · exact hge

theorem inner_mono (Z : List Nat) (a a' b : Nat) (h : a ≤ a') : inner Z a' b ≤ inner Z a b := by
  unfold inner
  induction Z with
  | nil => simp
  | cons z Z ih =>
    simp only [List.filter_cons]
    by_cases h1 : a' ≤ z
    · have h2 : a ≤ z := by omega
      by_cases h3 : z < b - 1 <;> simp [h1, h2, h3] <;> omega
    · by_cases h2 : a ≤ z <;> by_cases h3 : z < b - 1 <;> simp [h1, h2, h3] <;> omega

/-- `inner` only looks at the sites in `[a, b - 1)` -/
theorem inner_congr_end (Z : List Nat) (a b b' : Nat) (h : ∀ z ∈ Z, a ≤ z → (z < b - 1 ↔ z < b' - 1)) :
    inner Z a b = inner Z a b' := by
  unfold inner
  congr 1
  apply List.filter_congr
  intro z hz
  by_cases ha : a ≤ z
  · have := h z hz ha
    simp only [ha, decide_true, Bool.true_and, decide_eq_decide]
    exact this
  · simp [ha]

theorem inner_congr_start (Z : List Nat) (a a' b : Nat) (h : ∀ z ∈ Z, z < b - 1 → (a ≤ z ↔ a' ≤ z)) :
    inner Z a b = inner Z a' b := by
  unfold inner
  congr 1
  apply List.filter_congr
  intro z hz
  by_cases hb : z < b - 1
  · have := h z hz hb
    simp only [hb, decide_true, Bool.and_true, decide_eq_decide]
    exact this
  · simp [hb]

theorem lo_congr (c c' : Cfg) (h1 : c'.mc = c.mc) (h2 : c'.met = c.met) (k : Nat) : lo c' k = lo c k := by
  rw [lo_closed, lo_closed, h1, h2]

/-! ## the event list and the loop invariant -/

def siteList (c : Cfg) (site : Nat → Bool) : List Nat := (List.range c.n).filter site

def events (c : Cfg) (site : Nat → Bool) : List Nat := sitesOf c (siteList c site)

def isEvent (c : Cfg) (site : Nat → Bool) (i : Nat) : Bool := i == c.n || site i || (i == 0 && c.met)

theorem siteList_sorted (c : Cfg) (site : Nat → Bool) : (siteList c site).Pairwise (· < ·) :=
  (range_pairwise_lt _).filter _

theorem mem_siteList (c : Cfg) (site : Nat → Bool) (z : Nat) : z ∈ siteList c site ↔ z < c.n ∧ site z = true := by
  simp [siteList]

theorem mem_events (c : Cfg) (site : Nat → Bool) (i : Nat) :
    i ∈ events c site ↔ (c.met = true ∧ i = 0) ∨ (i < c.n ∧ site i = true) ∨ i = c.n := by
  unfold events sitesOf
  cases hm : c.met <;> simp [mem_siteList]

theorem mem_events_iff_isEvent (c : Cfg) (site : Nat → Bool) (i : Nat) (hi : i ≤ c.n) :
    i ∈ events c site ↔ isEvent c site i = true := by
  rw [mem_events]
  unfold isEvent
  simp only [Bool.or_eq_true, Bool.and_eq_true, beq_iff_eq]
  constructor
  · rintro (⟨h1, h2⟩ | ⟨_, h2⟩ | h)
    · exact Or.inr ⟨h2, h1⟩
    · exact Or.inl (Or.inr h2)
    · exact Or.inl (Or.inl h)
  · rintro ((h | h) | ⟨h1, h2⟩)
    · exact Or.inr (Or.inr h)
    · rcases Nat.lt_or_ge i c.n with hlt | hge
      · exact Or.inr (Or.inl ⟨hlt, h⟩)
      · exact Or.inr (Or.inr (by omega))
    · exact Or.inl ⟨h2, h1⟩

theorem events_sorted (c : Cfg) (site : Nat → Bool) (hn : 1 ≤ c.n) (hmet : c.met = true → site 0 = false) :
    (events c site).Pairwise (· < ·) := by
  unfold events sitesOf
  have hZn : ((siteList c site) ++ [c.n]).Pairwise (· < ·) := by
    rw [List.pairwise_append]
    refine ⟨siteList_sorted c site, by simp, ?_⟩
    intro a ha b hb
    simp only [List.mem_singleton] at hb
    subst hb
    exact ((mem_siteList c site a).mp ha).1
  cases hm : c.met
  · simpa using hZn
  · show List.Pairwise (· < ·) (0 :: (siteList c site ++ [c.n]))
    rw [List.pairwise_cons]
    refine ⟨?_, hZn⟩
    intro a ha
    rcases List.mem_append.mp ha with ha | ha
    · have := (mem_siteList c site a).mp ha
      rcases Nat.eq_zero_or_pos a with h0 | hpos
      · subst h0; rw [hmet hm] at this; simp at this
      · exact hpos
    · simp only [List.mem_singleton] at ha; omega

theorem n_mem_events (c : Cfg) (site : Nat → Bool) : c.n ∈ events c site := by
  rw [mem_events]; exact Or.inr (Or.inr rfl)

/-- the window after index `i < n` -/
theorem semiStep_snd (c : Cfg) (site : Nat → Bool) (hs : (events c site).Pairwise (· < ·)) (i : Nat) (hi : i < c.n) :
    (semiStep c site (win c (events c site) (below (events c site) i)) i).2 =
      win c (events c site) (below (events c site) (i + 1)) := by
  have hin : (i == c.n) = false := by simp; omega
  by_cases he : isEvent c site i = true
  · have hmem := (mem_events_iff_isEvent c site i (by omega)).mpr he
    obtain ⟨hk, hEk, hsucc⟩ := below_of_mem _ hs i hmem
    have hcond : (i == c.n || site i || (i == 0 && c.met)) = true := he
    rw [hsucc, ← next_win c _ _ hk i (by rw [List.getElem?_eq_getElem hk, hEk])]
    unfold semiStep next
    rw [if_pos hcond]
    simp only [hin, Bool.or_false, decide_eq_true_eq]
  · have hmem : i ∉ events c site := fun h => he ((mem_events_iff_isEvent c site i (by omega)).mp h)
    have hcond : (i == c.n || site i || (i == 0 && c.met)) = false := by
      simpa [isEvent] using he
    rw [below_succ_of_not_mem _ i hmem]
    unfold semiStep
    rw [if_neg (by rw [hcond]; simp)]

theorem semiGo_spec (c : Cfg) (site : Nat → Bool) (hs : (events c site).Pairwise (· < ·)) :
    ∀ (m i : Nat), i + m = c.n + 1 →
      semiGo c site (List.range' i m) (win c (events c site) (below (events c site) i)) =
        (List.range' i m).flatMap
          (fun i => (semiStep c site (win c (events c site) (below (events c site) i)) i).1) := by
  intro m
  induction m with
  | zero => intro i _; simp [semiGo]
  | succ m ih =>
    intro i him
    rw [List.range'_succ, semiGo, List.flatMap_cons]
    congr 1
    cases m with
    | zero => simp [semiGo]
    | succ m =>
      rw [semiStep_snd c site hs i (by omega)]
      exact ih (i + 1) (by omega)

/-- the pairs `semi_specific_digest` emits: at every index from that index's window -/
theorem mem_semiGo (c : Cfg) (site : Nat → Bool) (hs : (events c site).Pairwise (· < ·)) (p : Nat × Nat) :
    p ∈ semiGo c site (List.range (c.n + 1)) [0] ↔
      ∃ i, i ≤ c.n ∧ p ∈ (semiStep c site (win c (events c site) (below (events c site) i)) i).1 := by
  have h0 : win c (events c site) (below (events c site) 0) = [0] := by
    simp [below_zero, win, lo, allStarts]
  have := semiGo_spec c site hs (c.n + 1) 0 (by omega)
  rw [h0] at this
  rw [List.range_eq_range', this]
  simp only [List.mem_flatMap, List.mem_range'_1]
  constructor
  · rintro ⟨i, ⟨_, hi⟩, hp⟩; exact ⟨i, by omega, hp⟩
  · rintro ⟨i, hi, hp⟩; exact ⟨i, ⟨by omega, by omega⟩, hp⟩

/-! ## windows: order facts -/

theorem allStarts_sorted (E : List Nat) (hs : E.Pairwise (· < ·)) : (allStarts E).Pairwise (· < ·) := by
  unfold allStarts
  rw [List.pairwise_cons]
  refine ⟨?_, ?_⟩
  · intro a ha
    simp only [List.mem_map] at ha
    obtain ⟨e, _, rfl⟩ := ha
    omega
  · rw [List.pairwise_map]
    exact hs.imp (by intro a b h; omega)

theorem win_sorted (c : Cfg) (E : List Nat) (hs : E.Pairwise (· < ·)) (k : Nat) : (win c E k).Pairwise (· < ·) := by
  unfold win
  exact ((allStarts_sorted E hs).sublist ((List.drop_sublist _ _).trans (List.take_sublist _ _)))

theorem headD_le_of_mem (l : List Nat) (hp : l.Pairwise (· < ·)) (x : Nat) (hx : x ∈ l) : l.headD 0 ≤ x := by
  cases l with
  | nil => simp at hx
  | cons h t =>
    simp only [List.headD_cons]
    rcases List.mem_cons.mp hx with rfl | hx
    · exact Nat.le_refl _
    · exact Nat.le_of_lt ((List.pairwise_cons.mp hp).1 x hx)

theorem win_ne_nil (c : Cfg) (E : List Nat) (k : Nat) (hk : k < E.length) : win c E k ≠ [] := by
  intro h
  have hl : (win c E k).length = 0 := by rw [h]; rfl
  unfold win at hl
  have := lo_le c k
  simp [List.length_drop, List.length_take, allStarts_length] at hl
  omega

theorem headD_mem (l : List Nat) (h : l ≠ []) : l.headD 0 ∈ l := by
  cases l with
  | nil => exact absurd rfl h
  | cons a t => simp

theorem lo_mono_succ (c : Cfg) (k : Nat) : lo c k ≤ lo c (k + 1) := by
  simp only [lo]
  split <;> omega

/-- every start in the window before index `i` is `≤ i` -/
theorem win_le (c : Cfg) (E : List Nat) (hs : E.Pairwise (· < ·)) (i : Nat) (hk : below E i < E.length)
    (s : Nat) (h : s ∈ win c E (below E i)) : s ≤ i := by
  obtain ⟨j, _, hj2, hj3⟩ := (mem_win c E _ hk s).mp h
  cases j with
  | zero => simp [allStarts] at hj3; omega
  | succ t =>
    rw [allStarts_succ] at hj3
    obtain ⟨ht, hlt⟩ := lt_of_lt_below E hs i t (by omega)
    rw [List.getElem?_eq_getElem ht] at hj3
    simp at hj3; omega

theorem win_succ_subset (c : Cfg) (E : List Nat) (k : Nat) (hk : k + 1 < E.length) (s : Nat)
    (h : s ∈ win c E (k + 1)) (hne : (allStarts E)[k + 1]? ≠ some s) : s ∈ win c E k := by
  obtain ⟨j, hj1, hj2, hj3⟩ := (mem_win c E _ hk s).mp h
  have hjk : j ≠ k + 1 := by
    intro e; subst e; exact hne hj3
  exact (mem_win c E k (by omega) s).mpr ⟨j, Nat.le_trans (lo_mono_succ c k) hj1, by omega, hj3⟩

theorem index_unique (E : List Nat) (hs : E.Pairwise (· < ·)) (k k' : Nat) (hk : k < E.length) (hk' : k' < E.length)
    (h : E[k] = E[k']) : k = k' := by
  rcases Nat.lt_trichotomy k k' with hlt | heq | hgt
  · have := List.pairwise_iff_getElem.mp hs k k' hk hk' hlt; omega
  · exact heq
  · have := List.pairwise_iff_getElem.mp hs k' k hk' hk hgt; omega

theorem sorted_mono (E : List Nat) (hs : E.Pairwise (· < ·)) (k k' : Nat) (hk' : k' < E.length) (h : k ≤ k') :
    E[k]'(by omega) ≤ E[k'] := by
  rcases Nat.lt_or_ge k k' with hlt | hge
  · exact Nat.le_of_lt (List.pairwise_iff_getElem.mp hs k k' (by omega) hk' hlt)
  · have : k = k' := by omega
    subst this; exact Nat.le_refl _

/-! ## `full_digest` as a black box -/

/-- the configuration with the widest window: every pair of the window is emitted -/
def wide (c : Cfg) : Cfg := { c with minL := 1, maxL := c.n }

theorem sitesOf_wide (c : Cfg) (Z : List Nat) : sitesOf (wide c) Z = sitesOf c Z := rfl

/-- soundness side: a start of the window at an event, left of the event's end, forms a valid pair -/
theorem win_valid (c : Cfg) (Z : List Nat) (hn1 : 1 ≤ c.n) (hs : Z.Pairwise (· < ·)) (hn : ∀ z ∈ Z, z < c.n)
    (k i s : Nat) (hk : (sitesOf c Z)[k]? = some i) (hsw : s ∈ win c (sitesOf c Z) k) (hlt : s < min (i + 1) c.n) :
    ZValid (wide c) Z s (min (i + 1) c.n) := by
  have hklen : k < (sitesOf c Z).length := (List.getElem?_eq_some_iff.mp hk).1
  obtain ⟨j, hj1, hj2, hj3⟩ := (mem_win c _ k hklen s).mp hsw
  apply (zfull_digest_set_eq (wide c) Z hn1 (Nat.le_refl 1) hs hn s _).mp
  refine ⟨s, i, ?_, rfl, rfl⟩
  rw [mem_go, sitesOf_wide]
  refine ⟨k, j, hk, ?_, hj2, hj3, ?_, ?_⟩
  · rw [lo_congr c (wide c) rfl rfl]; exact hj1
  · simp only [wide]; omega
  · simp only [wide]; omega

/-- completeness side: a valid pair sits in the window of some event with that end -/
theorem valid_win (c : Cfg) (Z : List Nat) (hn1 : 1 ≤ c.n) (hs : Z.Pairwise (· < ·)) (hn : ∀ z ∈ Z, z < c.n)
    (a b : Nat) (h : ZValid (wide c) Z a b) :
    ∃ k i, (sitesOf c Z)[k]? = some i ∧ min (i + 1) c.n = b ∧ a ∈ win c (sitesOf c Z) k := by
  obtain ⟨s, i, hmem, rfl, rfl⟩ := (zfull_digest_set_eq (wide c) Z hn1 (Nat.le_refl 1) hs hn a b).mpr h
  rw [mem_go, sitesOf_wide] at hmem
  obtain ⟨k, j, hk, hj1, hj2, hj3, _, _⟩ := hmem
  have hklen : k < (sitesOf c Z).length := (List.getElem?_eq_some_iff.mp hk).1
  refine ⟨k, i, hk, rfl, (mem_win c _ k hklen a).mpr ⟨j, ?_, hj2, hj3⟩⟩
  rw [← lo_congr c (wide c) rfl rfl]; exact hj1

/-! ## what one iteration emits -/

theorem mem_step_event (c : Cfg) (site : Nat → Bool) (st : List Nat) (i : Nat) (p : Nat × Nat)
    (h : isEvent c site i = true) :
    p ∈ (semiStep c site st i).1 ↔ p.2 = i ∧ st.headD 0 ≤ p.1 ∧ p.1 < min (i + 1) c.n ∧
      accepted c (((min i (c.n - 1) : Nat) : Int) - (p.1 : Int) + 1) = true := by
  have hcond : (i == c.n || site i || (i == 0 && c.met)) = true := h
  unfold semiStep
  rw [if_pos hcond]
  simp only [List.mem_filterMap, List.mem_range'_1]
  constructor
  · rintro ⟨j, ⟨hj1, hj2⟩, hp⟩
    split at hp
    · rename_i hacc
      simp only [Option.some.injEq] at hp
      subst hp
      exact ⟨rfl, hj1, by omega, hacc⟩
    · simp at hp
  · rintro ⟨h1, h2, h3, h4⟩
    refine ⟨p.1, ⟨h2, by omega⟩, ?_⟩
    rw [if_pos h4]
    obtain ⟨a, b⟩ := p
    simp only at h1
    subst h1; rfl

theorem mem_step_nonevent (c : Cfg) (site : Nat → Bool) (st : List Nat) (i : Nat) (p : Nat × Nat)
    (h : isEvent c site i = false) :
    p ∈ (semiStep c site st i).1 ↔ p.2 = i ∧ p.1 ∈ st ∧ accepted c ((i : Int) - (p.1 : Int) + 1) = true ∧
      (i + 1) ∉ st := by
  have hcond : ¬ (i == c.n || site i || (i == 0 && c.met)) = true := by
    have : (i == c.n || site i || (i == 0 && c.met)) = false := h
    rw [this]; simp
  unfold semiStep
  rw [if_neg hcond]
  simp only [List.mem_filterMap]
  constructor
  · rintro ⟨s, hs, hp⟩
    split at hp
    · rename_i hacc
      simp only [Option.some.injEq] at hp
      subst hp
      simp only [Bool.and_eq_true, Bool.not_eq_true', List.contains_eq_mem, decide_eq_false_iff_not] at hacc
      exact ⟨rfl, hs, hacc.1, hacc.2⟩
    · simp at hp
  · rintro ⟨h1, h2, h3, h4⟩
    refine ⟨p.1, h2, ?_⟩
    have : (accepted c ((i : Int) - (p.1 : Int) + 1) && !st.contains (i + 1)) = true := by
      simp only [Bool.and_eq_true, Bool.not_eq_true', List.contains_eq_mem, decide_eq_false_iff_not]
      exact ⟨h3, h4⟩
    rw [if_pos this]
    obtain ⟨a, b⟩ := p
    simp only at h1
    subst h1; rfl

/-! ## the declarative rule on the site list, semi-specific -/

structure ZValidSemi (c : Cfg) (Z : List Nat) (a b : Nat) : Prop where
  lt : a < b
  le : b ≤ c.n
  minL : c.minL ≤ b - a
  maxL : b - a ≤ c.maxL
  term : ZTerm Z c.n c.met a ∨ ZTerm Z c.n c.met b
  budget : inner Z a b ≤ c.mc

def SemiEmitted (c : Cfg) (site : Nat → Bool) (a b : Nat) : Prop :=
  ∃ p, p ∈ semiGo c site (List.range (c.n + 1)) [0] ∧ a = p.1 ∧ b = min (p.2 + 1) c.n

section Semi
variable (c : Cfg) (site : Nat → Bool) (hn1 : 1 ≤ c.n) (hmet : c.met = true → site 0 = false)
include hn1 hmet

omit hmet in
theorem zterm_event (i : Nat) (hi : i ∈ events c site) :
    ZTerm (siteList c site) c.n c.met (min (i + 1) c.n) := by
  rcases (mem_events c site i).mp hi with ⟨hm, h0⟩ | ⟨hlt, hsite⟩ | hn
  · subst h0
    right; right; right
    exact ⟨hm, by omega⟩
  · by_cases hend : i + 1 ≤ c.n - 1
    · right; right; left
      exact ⟨i, (mem_siteList c site i).mpr ⟨hlt, hsite⟩, by omega, by omega⟩
    · right; left; omega
  · right; left; omega

/-- a non-event index `i < n`: the next event, and the sites counted up to `i + 1` and up to the end of
    that event are the same -/
theorem next_event (i : Nat) (hi : i < c.n) (hne : i ∉ events c site) :
    ∃ hk : below (events c site) i < (events c site).length,
      i < (events c site)[below (events c site) i] ∧
      ∀ a, inner (siteList c site) a (i + 1) =
        inner (siteList c site) a (min ((events c site)[below (events c site) i] + 1) c.n) := by
  have hEs := events_sorted c site hn1 hmet
  obtain ⟨hk, hge⟩ := below_first_ge _ hEs i c.n (n_mem_events c site) (by omega)
  have hmem : (events c site)[below (events c site) i] ∈ events c site := List.getElem_mem hk
  have hlt : i < (events c site)[below (events c site) i] := by
    rcases Nat.lt_or_ge i (events c site)[below (events c site) i] with h | h
    · exact h
    · have : (events c site)[below (events c site) i] = i := by omega
      exact absurd (this ▸ hmem) hne
  refine ⟨hk, hlt, ?_⟩
  intro a
  apply inner_congr_end
  intro z hz _
  constructor
  · intro h; omega
  · intro h
    have hzE : z ∈ events c site := by
      rw [mem_events]
      exact Or.inr (Or.inl ((mem_siteList c site z).mp hz))
    obtain ⟨t, ht, hzt⟩ := List.getElem_of_mem hzE
    have htk : t < below (events c site) i := by
      rcases Nat.lt_or_ge t (below (events c site) i) with h' | h'
      · exact h'
      · have := sorted_mono _ hEs _ t ht h'
        omega
    obtain ⟨_, hlt'⟩ := lt_of_lt_below _ hEs i t htk
    omega

theorem zsemi_sound (a b : Nat) (h : SemiEmitted c site a b) : ZValidSemi c (siteList c site) a b := by
  have hEs := events_sorted c site hn1 hmet
  have hZs := siteList_sorted c site
  have hZn : ∀ z ∈ siteList c site, z < c.n := fun z hz => ((mem_siteList c site z).mp hz).1
  obtain ⟨p, hp, rfl, rfl⟩ := h
  obtain ⟨i, hi, hstep⟩ := (mem_semiGo c site hEs p).mp hp
  by_cases he : isEvent c site i = true
  · -- enzymatic C-terminus
    have hmem := (mem_events_iff_isEvent c site i hi).mpr he
    obtain ⟨hk, hEk, _⟩ := below_of_mem _ hEs i hmem
    obtain ⟨h1, h2, h3, h4⟩ := (mem_step_event c site _ i p he).mp hstep
    rw [h1]
    have hk' : (sitesOf c (siteList c site))[below (events c site) i]? = some i := by
      show (events c site)[below (events c site) i]? = some i
      rw [List.getElem?_eq_getElem hk, hEk]
    have hhead := headD_mem _ (win_ne_nil c (events c site) _ hk)
    have hv := win_valid c (siteList c site) hn1 hZs hZn _ i _ hk' hhead (by omega)
    simp only [accepted, Bool.and_eq_true, decide_eq_true_eq] at h4
    refine ⟨h3, Nat.min_le_right _ _, by omega, by omega, Or.inr hv.termB, ?_⟩
    exact Nat.le_trans (inner_mono _ _ _ _ h2) hv.budget
  · -- non-enzymatic C-terminus
    have he' : isEvent c site i = false := by simpa using he
    have hnm : i ∉ events c site := fun hm => he ((mem_events_iff_isEvent c site i hi).mp hm)
    have hin : i < c.n := by
      rcases Nat.lt_or_ge i c.n with h | h
      · exact h
      · have : i = c.n := by omega
        exact absurd (this ▸ n_mem_events c site) hnm
    obtain ⟨h1, h2, h3, _⟩ := (mem_step_nonevent c site _ i p he').mp hstep
    rw [h1]
    obtain ⟨hk, hlt, hinner⟩ := next_event c site hn1 hmet i hin hnm
    have hle := win_le c _ hEs i hk p.1 h2
    have hk' : (sitesOf c (siteList c site))[below (events c site) i]? = some (events c site)[below (events c site) i] :=
      List.getElem?_eq_getElem hk
    have hv := win_valid c (siteList c site) hn1 hZs hZn _ _ _ hk' h2 (by omega)
    simp only [accepted, Bool.and_eq_true, decide_eq_true_eq] at h3
    have hb : min (i + 1) c.n = i + 1 := by omega
    rw [hb]
    refine ⟨by omega, by omega, by omega, by omega, Or.inl hv.termA, ?_⟩
    rw [hinner]; exact hv.budget

omit hn1 hmet in
/-- the last terminus at or before `j`: no enzymatic site lies in between -/
theorem last_terminus (j : Nat) (hj : j < c.n) :
    ∃ a', a' ≤ j ∧ ZTerm (siteList c site) c.n c.met a' ∧ ∀ z ∈ siteList c site, ¬ (a' ≤ z ∧ z < j) := by
  induction j with
  | zero => exact ⟨0, Nat.le_refl _, Or.inl rfl, by intro z _ h; omega⟩
  | succ j ih =>
    by_cases hjZ : j ∈ siteList c site
    · refine ⟨j + 1, Nat.le_refl _, ?_, by intro z _ h; omega⟩
      right; right; left
      exact ⟨j, hjZ, rfl, by omega⟩
    · obtain ⟨a', h1, h2, h3⟩ := ih (by omega)
      refine ⟨a', by omega, h2, ?_⟩
      intro z hz h
      by_cases hzj : z = j
      · subst hzj; exact hjZ hz
      · exact h3 z hz ⟨h.1, by omega⟩

theorem zsemi_complete (a b : Nat) (hv : ZValidSemi c (siteList c site) a b) : SemiEmitted c site a b := by
  have hEs := events_sorted c site hn1 hmet
  have hZs := siteList_sorted c site
  have hZn : ∀ z ∈ siteList c site, z < c.n := fun z hz => ((mem_siteList c site z).mp hz).1
  obtain ⟨hlt, hle, hminL, hmaxL, hterm, hbud⟩ := hv
  have hEle : ∀ i ∈ events c site, i ≤ c.n := by
    intro i hi
    rcases (mem_events c site i).mp hi with ⟨_, h0⟩ | ⟨h, _⟩ | h <;> omega
  by_cases htb : ZTerm (siteList c site) c.n c.met b
  · -- enzymatic C-terminus: emitted at an event
    obtain ⟨a', ha1, ha2, ha3⟩ := last_terminus c site a (by omega)
    have hinn : inner (siteList c site) a' b = inner (siteList c site) a b := by
      apply inner_congr_start
      intro z hz _
      constructor
      · intro h
        rcases Nat.lt_or_ge z a with h' | h'
        · exact absurd ⟨h, h'⟩ (ha3 z hz)
        · exact h'
      · intro h; omega
    have hV : ZValid (wide c) (siteList c site) a' b :=
      ⟨by omega, hle, by simp only [wide]; omega, by simp only [wide]; omega, ha2, htb, by rw [hinn]; exact hbud⟩
    obtain ⟨k, i, hk, hib, hwin⟩ := valid_win c (siteList c site) hn1 hZs hZn a' b hV
    have hklen : k < (events c site).length := (List.getElem?_eq_some_iff.mp hk).1
    have hEk : (events c site)[k] = i := by
      have := hk
      rw [show sitesOf c (siteList c site) = events c site from rfl, List.getElem?_eq_getElem hklen] at this
      exact Option.some.inj this
    have hiE : i ∈ events c site := hEk ▸ List.getElem_mem hklen
    have hile := hEle i hiE
    have hbel : below (events c site) i = k := by rw [← hEk]; exact below_getElem _ hEs k hklen
    have hev := (mem_events_iff_isEvent c site i hile).mp hiE
    refine ⟨(a, i), ?_, rfl, hib.symm⟩
    rw [mem_semiGo c site hEs]
    refine ⟨i, hile, ?_⟩
    rw [mem_step_event c site _ i _ hev, hbel]
    refine ⟨rfl, ?_, by simp only; omega, ?_⟩
    · exact Nat.le_trans (headD_le_of_mem _ (win_sorted c _ hEs k) a' hwin) ha1
    · simp only [accepted, Bool.and_eq_true, decide_eq_true_eq]
      omega
  · -- non-enzymatic C-terminus: emitted at the non-event index b - 1 from an enzymatic start
    have hta : ZTerm (siteList c site) c.n c.met a := by
      rcases hterm with h | h
      · exact h
      · exact absurd h htb
    have hb1 : 1 ≤ b := by omega
    have hnm : b - 1 ∉ events c site := by
      intro hm
      apply htb
      rcases (mem_events c site (b - 1)).mp hm with ⟨hmt, h0⟩ | ⟨hl, hsite⟩ | hn
      · right; right; right; exact ⟨hmt, by omega⟩
      · by_cases hend : b ≤ c.n - 1
        · right; right; left
          exact ⟨b - 1, (mem_siteList c site _).mpr ⟨hl, hsite⟩, by omega, hend⟩
        · right; left; omega
      · omega
    have hin : b - 1 < c.n := by omega
    obtain ⟨hk, hlt', hinner⟩ := next_event c site hn1 hmet (b - 1) hin hnm
    generalize hkdef : below (events c site) (b - 1) = k at hk hlt' hinner
    have hb' : b - 1 + 1 = b := by omega
    rw [hb'] at hinner
    have hiE : (events c site)[k] ∈ events c site := List.getElem_mem hk
    have hV : ZValid (wide c) (siteList c site) a (min ((events c site)[k] + 1) c.n) :=
      ⟨by omega, Nat.min_le_right _ _, by simp only [wide]; omega, by simp only [wide]; omega, hta,
        zterm_event c site hn1 _ hiE, by rw [← hinner]; exact hbud⟩
    obtain ⟨k', i', hk', hib, hwin⟩ := valid_win c (siteList c site) hn1 hZs hZn a _ hV
    have hk'len : k' < (events c site).length := (List.getElem?_eq_some_iff.mp hk').1
    have hEk' : (events c site)[k'] = i' := by
      have := hk'
      rw [show sitesOf c (siteList c site) = events c site from rfl, List.getElem?_eq_getElem hk'len] at this
      exact Option.some.inj this
    have hi'E : i' ∈ events c site := hEk' ▸ List.getElem_mem hk'len
    have hwk : a ∈ win c (events c site) k := by
      by_cases hsame : i' = (events c site)[k]
      · have : k' = k := index_unique _ hEs k' k hk'len hk (by rw [hEk', hsame])
        rw [← this]; exact hwin
      · have h1 := hEle i' hi'E
        have h2 := hEle _ hiE
        rcases Nat.lt_or_ge (events c site)[k] i' with hlt2 | hge2
        · -- the event n - 1 followed by the event n
          have hkk : k < k' := by
            rcases Nat.lt_or_ge k k' with h | h
            · exact h
            · have := sorted_mono _ hEs k' k hk h
              omega
          have hk1 : k' = k + 1 := by
            rcases Nat.lt_or_ge (k + 1) k' with h | h
            · have h3 := List.pairwise_iff_getElem.mp hEs k (k + 1) hk (by omega) (by omega)
              have h4 := List.pairwise_iff_getElem.mp hEs (k + 1) k' (by omega) hk'len h
              omega
            · omega
          subst hk1
          apply win_succ_subset c _ k hk'len a hwin
          rw [allStarts_succ, List.getElem?_eq_getElem hk]
          simp only [Option.map_some, ne_eq, Option.some.injEq]
          omega
        · -- impossible: an event n - 1 ≥ b - 1 before the first event ≥ b - 1
          exfalso
          have hkk : k' < k := by
            rcases Nat.lt_or_ge k' k with h | h
            · exact h
            · have := sorted_mono _ hEs k k' hk'len h
              omega
          obtain ⟨_, hlt3⟩ := lt_of_lt_below _ hEs (b - 1) k' (by omega)
          omega
    refine ⟨(a, b - 1), ?_, rfl, by simp only; omega⟩
    rw [mem_semiGo c site hEs]
    refine ⟨b - 1, by omega, ?_⟩
    have hev : isEvent c site (b - 1) = false := by
      cases h : isEvent c site (b - 1)
      · rfl
      · exact absurd ((mem_events_iff_isEvent c site (b - 1) (by omega)).mpr h) hnm
    rw [mem_step_nonevent c site _ _ _ hev, hkdef]
    refine ⟨rfl, hwk, ?_, ?_⟩
    · simp only [accepted, Bool.and_eq_true, decide_eq_true_eq]
      omega
    · intro hmem
      have := win_le c _ hEs (b - 1) (by rw [hkdef]; exact hk) (b - 1 + 1) (by rw [hkdef]; exact hmem)
      omega

/-- C08, `semi_specific_digest` (repaired Met handling): the loop emits exactly the index pairs of the
    declarative rule -/
theorem zsemi_set_eq (a b : Nat) : SemiEmitted c site a b ↔ ZValidSemi c (siteList c site) a b :=
  ⟨zsemi_sound c site hn1 hmet a b, zsemi_complete c site hn1 hmet a b⟩

end Semi

/-! ## bridge to residues and strings -/

theorem semiSite_eq_enz (r : EnzymeRule) (seq : List Char) (i : Nat) (hi : i < seq.length) :
    semiSite r seq i = enz r seq i := by
  have h1 : min (seq.length - 1) i = i := by omega
  unfold semiSite isEnzymatic enz resAt
  simp only [h1]
  cases hp : r.pre.contains (seq.getD i ' ')
  · cases hq : r.post.contains (seq.getD (min (seq.length - 1) (i + 1)) ' ')
    · simp
    · have : r.post ≠ [] := by
        intro e; rw [e] at hq; simp at hq
      simp [this]
  · have : r.pre ≠ [] := by
      intro e; rw [e] at hp; simp at hp
    cases hq : r.post.contains (seq.getD (min (seq.length - 1) (i + 1)) ' ')
    · simp [this]
    · have h2 : r.post ≠ [] := by
        intro e; rw [e] at hq; simp at hq
      simp [this, h2]

theorem siteList_semi (r : EnzymeRule) (seq : List Char) (minL maxL mc : Nat) (met : Bool) :
    siteList (semiCfg r seq minL maxL mc met) (semiSite r seq) = sitesZ r seq := by
  unfold siteList sitesZ semiCfg
  apply List.filter_congr
  intro i hi
  exact semiSite_eq_enz r seq i (by simpa using hi)

theorem semiMet_site (r : EnzymeRule) (seq : List Char) (minL maxL mc : Nat) (met : Bool) :
    (semiCfg r seq minL maxL mc met).met = true → semiSite r seq 0 = false := by
  simp only [semiCfg, semiMet, Bool.and_eq_true, Bool.not_eq_true']
  intro h; exact h.2

theorem zterm_semi_iff_terminus (r : EnzymeRule) (seq : List Char) (hne : seq ≠ []) (met : Bool) (x : Nat) :
    ZTerm (sitesZ r seq) seq.length (semiMet r seq met) x ↔ Terminus r met seq x := by
  unfold ZTerm Terminus MetSite
  rw [siteCut_iff_site]
  have hn : 1 ≤ seq.length := by
    cases seq with
    | nil => exact absurd rfl hne
    | cons _ _ => simp
  constructor
  · rintro (h | h | h | ⟨hm, h1⟩)
    · exact Or.inl h
    · exact Or.inr (Or.inl h)
    · exact Or.inr (Or.inr (Or.inl h))
    · simp only [semiMet, Bool.and_eq_true, beq_iff_eq] at hm
      exact Or.inr (Or.inr (Or.inr ⟨hm.1.1, hm.1.2, h1⟩))
  · rintro (h | h | h | ⟨hm, hh, h1⟩)
    · exact Or.inl h
    · exact Or.inr (Or.inl h)
    · exact Or.inr (Or.inr (Or.inl h))
    · cases hs : semiSite r seq 0
      · refine Or.inr (Or.inr (Or.inr ⟨?_, h1⟩))
        simp [semiMet, hm, hh, hs]
      · by_cases hn2 : seq.length = 1
        · exact Or.inr (Or.inl (by omega))
        · refine Or.inr (Or.inr (Or.inl ?_))
          rw [← siteCut_iff_site]
          refine ⟨0, ?_, by omega, by omega⟩
          simp only [sitesZ, List.mem_filter, List.mem_range]
          refine ⟨by omega, ?_⟩
          rw [← semiSite_eq_enz r seq 0 (by omega)]; exact hs

theorem zvalidSemi_iff_valid (r : EnzymeRule) (seq : List Char) (hne : seq ≠ []) (minL maxL mc : Nat) (met : Bool)
    (a b : Nat) :
    ZValidSemi (semiCfg r seq minL maxL mc met) (sitesZ r seq) a b ↔ Valid .semi r minL maxL mc met seq a b := by
  constructor
  · rintro ⟨h1, h2, h3, h4, h5, h6⟩
    simp only [semiCfg] at h2 h3 h4 h5 h6
    refine ⟨h1, h2, h3, h4, ?_, ?_⟩
    · rcases h5 with h | h
      · exact Or.inl ((zterm_semi_iff_terminus r seq hne met a).mp h)
      · exact Or.inr ((zterm_semi_iff_terminus r seq hne met b).mp h)
    · intro _
      rw [← inner_eq_innerSites r seq a b h2]; exact h6
  · rintro ⟨h1, h2, h3, h4, h5, h6⟩
    refine ⟨h1, h2, h3, h4, ?_, ?_⟩
    · simp only [semiCfg]
      rcases h5 with h | h
      · exact Or.inl ((zterm_semi_iff_terminus r seq hne met a).mpr h)
      · exact Or.inr ((zterm_semi_iff_terminus r seq hne met b).mpr h)
    · simp only [semiCfg]
      rw [inner_eq_innerSites r seq a b h2]; exact h6 (by decide)

theorem mem_semiPeptides (r : EnzymeRule) (seq : List Char) (minL maxL mc : Nat) (met : Bool) (x : List Char) :
    x ∈ (semiPairs r seq minL maxL mc met).map (fun p => slice seq p.1 (p.2 + 1)) ↔
      ∃ a b, SemiEmitted (semiCfg r seq minL maxL mc met) (semiSite r seq) a b ∧ x = slice seq a b := by
  simp only [List.mem_map, semiPairs, SemiEmitted]
  constructor
  · rintro ⟨p, hmem, rfl⟩
    refine ⟨p.1, min (p.2 + 1) seq.length, ⟨p, hmem, rfl, rfl⟩, ?_⟩
    exact slice_clamp seq p.1 (p.2 + 1)
  · rintro ⟨a, b, ⟨p, hmem, rfl, rfl⟩, rfl⟩
    exact ⟨p, hmem, slice_clamp seq p.1 (p.2 + 1)⟩

end PgFdr.C08
