import Mathlib.Logic.Relation
import Mathlib.Data.List.Nodup
import Mathlib.Data.List.Perm.Subperm
import Mathlib.Data.List.Perm.Basic
import Mathlib.Tactic.Tauto
import PgFdr.Model.C04

/-! Helper lemmas for C04 (rescue regrouping). -/
namespace PgFdr.C04

/-! ### `dedup`, `isort`, `sortDedup`, `collect` -/

theorem mem_dedup (l : List String) (x : String) : x ∈ dedup l ↔ x ∈ l := by
  induction l with
  | nil => simp [dedup]
  | cons a r ih =>
    simp only [dedup]
    split
    · rename_i h
      rw [ih]; constructor
      · intro hx; exact List.mem_cons_of_mem _ hx
      · intro hx
        rcases List.mem_cons.mp hx with rfl | hx
        · exact h
        · exact hx
    · simp [ih]

theorem nodup_dedup (l : List String) : (dedup l).Nodup := by
  induction l with
  | nil => simp [dedup]
  | cons a r ih =>
    simp only [dedup]
    split
    · exact ih
    · rename_i h
      exact List.nodup_cons.mpr ⟨fun hm => h ((mem_dedup r a).mp hm), ih⟩

theorem ins_perm (a : String) (l : List String) : (ins a l).Perm (a :: l) := by
  induction l with
  | nil => simp [ins]
  | cons b r ih =>
    simp only [ins]
    split
    · exact List.Perm.refl _
    · exact (List.Perm.cons b ih).trans (List.Perm.swap a b r)

theorem isort_perm (l : List String) : (isort l).Perm l := by
  induction l with
  | nil => simp [isort]
  | cons a r ih => exact (ins_perm a (isort r)).trans (List.Perm.cons a ih)

theorem mem_sortDedup (l : List String) (x : String) : x ∈ sortDedup l ↔ x ∈ l := by
  unfold sortDedup
  rw [(isort_perm _).mem_iff, mem_dedup]

theorem nodup_sortDedup (l : List String) : (sortDedup l).Nodup :=
  (isort_perm _).nodup_iff.mpr (nodup_dedup l)

theorem collect_ok {α β : Type} (f : α → Except String (List β)) :
    ∀ (l : List α) (r : List β), collect f l = .ok r →
      ∀ b ∈ r, ∃ a ∈ l, ∃ x, f a = .ok x ∧ b ∈ x := by
  intro l
  induction l with
  | nil => intro r h b hb; simp [collect] at h; subst h; simp at hb
  | cons a t ih =>
    intro r h b hb
    simp only [collect] at h
    cases hfa : f a with
    | error e => rw [hfa] at h; simp at h
    | ok x =>
      rw [hfa] at h
      cases hct : collect f t with
      | error e => rw [hct] at h; simp at h
      | ok y =>
        rw [hct] at h
        simp only [Except.ok.injEq] at h
        subst h
        rcases List.mem_append.mp hb with hb | hb
        · exact ⟨a, List.mem_cons_self, x, hfa, hb⟩
        · obtain ⟨a', ha', x', hx', hbx⟩ := ih y hct b hb
          exact ⟨a', List.mem_cons_of_mem _ ha', x', hx', hbx⟩

/-! ### the index -/

theorem idxOf_lt : ∀ (N : Groups) (p : String) (i : Nat), idxOf N p = some i → i < N.length := by
  intro N
  induction N with
  | nil => intro p i h; simp [idxOf] at h
  | cons g rest ih =>
    intro p i h
    cases hr : idxOf rest p with
    | some k =>
      simp only [idxOf, hr, Option.some.injEq] at h; subst h
      have := ih p k hr
      simp; omega
    | none =>
      simp only [idxOf, hr] at h
      by_cases hm : p ∈ g
      · simp only [hm, if_true, Option.some.injEq] at h; subst h; simp
      · simp [hm] at h

theorem idxOf_mem : ∀ (N : Groups) (p : String) (i : Nat), idxOf N p = some i → p ∈ N.getD i [] := by
  intro N
  induction N with
  | nil => intro p i h; simp [idxOf] at h
  | cons g rest ih =>
    intro p i h
    cases hr : idxOf rest p with
    | some k =>
      simp only [idxOf, hr, Option.some.injEq] at h; subst h
      simpa using ih p k hr
    | none =>
      simp only [idxOf, hr] at h
      by_cases hm : p ∈ g
      · simp only [hm, if_true, Option.some.injEq] at h; subst h; simpa using hm
      · simp [hm] at h

theorem idxOf_none : ∀ (N : Groups) (p : String), idxOf N p = none ↔ p ∉ N.flatten := by
  intro N
  induction N with
  | nil => intro p; simp [idxOf]
  | cons g rest ih =>
    intro p
    simp only [idxOf, List.flatten_cons, List.mem_append, not_or]
    cases hr : idxOf rest p with
    | some k =>
      have : ¬ (p ∉ rest.flatten) := by rw [← ih p, hr]; simp
      simp only [reduceCtorEq, false_iff, not_and]
      intro _; exact this
    | none =>
      have : p ∉ rest.flatten := (ih p).mp hr
      by_cases hm : p ∈ g
      · simp [hm]
      · simp [hm, this]

theorem idxOf_isSome (N : Groups) (p : String) : (idxOf N p).isSome ↔ p ∈ N.flatten := by
  rw [← not_iff_not, ← idxOf_none]
  cases idxOf N p <;> simp

/-- in a partition the index is *the* position of the group holding the protein -/
theorem idxOf_eq_of_nodup : ∀ (N : Groups), N.flatten.Nodup → ∀ (i : Nat) (g : List String) (p : String),
    N[i]? = some g → p ∈ g → idxOf N p = some i := by
  intro N
  induction N with
  | nil => intro _ i g p h; simp at h
  | cons g0 rest ih =>
    intro hnd i g p hi hp
    rw [List.flatten_cons, List.nodup_append] at hnd
    obtain ⟨_, hrest, hdisj⟩ := hnd
    simp only [idxOf]
    cases i with
    | zero =>
      simp only [List.getElem?_cons_zero, Option.some.injEq] at hi; subst hi
      have : idxOf rest p = none := by
        rw [idxOf_none]; intro hm; exact hdisj p hp p hm rfl
      rw [this]; simp [hp]
    | succ k =>
      simp only [List.getElem?_cons_succ] at hi
      rw [ih hrest k g p hi hp]

theorem getD_of_getElem? {α : Type} (l : List α) (i : Nat) (x d : α) (h : l[i]? = some x) : l.getD i d = x := by
  simp [List.getD, h]

theorem getElem?_of_lt_getD (N : Groups) (i : Nat) (h : i < N.length) : N[i]? = some (N.getD i []) := by
  simp [List.getD, List.getElem?_eq_getElem h]

theorem leaderOf_of_nodup (N : Groups) (hnd : N.flatten.Nodup) (i : Nat) (g : List String) (p h : String)
    (hi : N[i]? = some g) (hp : p ∈ g) (hh : g.head? = some h) : leaderOf N p = some h := by
  unfold leaderOf
  rw [idxOf_eq_of_nodup N hnd i g p hi hp]
  simp only
  rw [getD_of_getElem? N i g [] hi]; exact hh

/-! ### the protein nodes -/

theorem mem_protNodesAux (ident : List Nat) : ∀ (N : Groups) (k : Nat) (x : String),
    x ∈ protNodesAux ident k N ↔ ∃ j g, N[j]? = some g ∧ g.head? = some x ∧ (k + j) ∉ ident := by
  intro N
  induction N with
  | nil => intro k x; simp [protNodesAux]
  | cons g0 rest ih =>
    intro k x
    have shift : (∃ j g, rest[j]? = some g ∧ g.head? = some x ∧ (k + 1 + j) ∉ ident) ↔
        ∃ j g, (g0 :: rest)[j + 1]? = some g ∧ g.head? = some x ∧ (k + (j + 1)) ∉ ident := by
      constructor
      · rintro ⟨j, g, h1, h2, h3⟩; exact ⟨j, g, by simpa using h1, h2, by rwa [show k + (j + 1) = k + 1 + j by omega]⟩
      · rintro ⟨j, g, h1, h2, h3⟩; exact ⟨j, g, by simpa using h1, h2, by rwa [show k + 1 + j = k + (j + 1) by omega]⟩
    have split0 : (∃ j g, (g0 :: rest)[j]? = some g ∧ g.head? = some x ∧ (k + j) ∉ ident) ↔
        (g0.head? = some x ∧ k ∉ ident) ∨
          ∃ j g, (g0 :: rest)[j + 1]? = some g ∧ g.head? = some x ∧ (k + (j + 1)) ∉ ident := by
      constructor
      · rintro ⟨j, g, h1, h2, h3⟩
        cases j with
        | zero => left; simp only [List.getElem?_cons_zero, Option.some.injEq] at h1; subst h1; exact ⟨h2, by simpa using h3⟩
        | succ j => right; exact ⟨j, g, h1, h2, h3⟩
      · rintro (⟨h2, h3⟩ | ⟨j, g, h1, h2, h3⟩)
        · exact ⟨0, g0, by simp, h2, by simpa using h3⟩
        · exact ⟨j + 1, g, h1, h2, h3⟩
    rw [split0, ← shift, ← ih (k + 1) x]
    simp only [protNodesAux]
    by_cases hk : k ∈ ident
    · simp [hk]
    · cases g0 with
      | nil => simp [hk]
      | cons p t =>
        simp only [hk, if_false, List.mem_cons, List.head?_cons, Option.some.injEq, not_false_eq_true, and_true]
        constructor
        · rintro (h | h)
          · exact Or.inl h.symm
          · exact Or.inr h
        · rintro (h | h)
          · exact Or.inl h.symm
          · exact Or.inr h

theorem mem_protNodes (N : Groups) (f : List PepInfo) (x : String) :
    x ∈ protNodes N f ↔ ∃ j g, N[j]? = some g ∧ g.head? = some x ∧ j ∉ identifiedIdxs N f := by
  unfold protNodes
  rw [mem_protNodesAux]
  simp

/-- a protein node is the leader of a group that has no peptide of its own, and (in a partition)
    the index sends it to that group -/
theorem protNode_spec (N : Groups) (f : List PepInfo) (hnd : N.flatten.Nodup) (x : String)
    (hx : x ∈ protNodes N f) :
    ∃ i, idxOf N x = some i ∧ i < N.length ∧ (N.getD i []).head? = some x ∧ i ∉ identifiedIdxs N f := by
  obtain ⟨j, g, hj, hh, hid⟩ := (mem_protNodes N f x).mp hx
  have hxg : x ∈ g := by
    cases g with
    | nil => simp at hh
    | cons a t => simp only [List.head?_cons, Option.some.injEq] at hh; subst hh; simp
  refine ⟨j, idxOf_eq_of_nodup N hnd j g x hj hxg, ?_, ?_, hid⟩
  · by_contra hlt
    rw [List.getElem?_eq_none (by omega)] at hj; simp at hj
  · rw [getD_of_getElem? N j g [] hj]; exact hh

/-- two protein nodes with the same index are equal -/
theorem protNode_idx_inj (N : Groups) (f : List PepInfo) (hnd : N.flatten.Nodup) (x y : String)
    (hx : x ∈ protNodes N f) (hy : y ∈ protNodes N f) (h : idxOf N x = idxOf N y) : x = y := by
  obtain ⟨i, hi, _, hhx, _⟩ := protNode_spec N f hnd x hx
  obtain ⟨j, hj, _, hhy, _⟩ := protNode_spec N f hnd y hy
  rw [hi, hj] at h
  simp only [Option.some.injEq] at h; subst h
  rw [hhx] at hhy; simpa using hhy

/-! ### connected components -/

/-- adjacency relation of the bipartite graph -/
def Adj (es : List (String × String)) (a b : String) : Prop := b ∈ adj es a

/-- connected in the bipartite graph: a path of (group leader, shared peptide) incidences -/
def Conn (es : List (String × String)) (a b : String) : Prop := Relation.ReflTransGen (Adj es) a b

theorem mem_adj (es : List (String × String)) (a b : String) :
    b ∈ adj es a ↔ (a, b) ∈ es ∨ (b, a) ∈ es := by
  unfold adj
  simp only [List.mem_filterMap]
  constructor
  · rintro ⟨⟨e1, e2⟩, he, h⟩
    by_cases h1 : e1 = a
    · simp only [h1, if_true, Option.some.injEq] at h; subst h1; subst h; exact Or.inl he
    · simp only [h1, if_false] at h
      by_cases h2 : e2 = a
      · simp only [h2, if_true, Option.some.injEq] at h; subst h2; subst h; exact Or.inr he
      · simp [h2] at h
  · rintro (h | h)
    · exact ⟨(a, b), h, by simp⟩
    · refine ⟨(b, a), h, ?_⟩
      by_cases hba : b = a
      · simp [hba]
      · simp [hba]

theorem adj_symm (es : List (String × String)) (a b : String) : Adj es a b → Adj es b a := by
  unfold Adj; rw [mem_adj, mem_adj]; tauto

theorem conn_symm (es : List (String × String)) (a b : String) (h : Conn es a b) : Conn es b a := by
  unfold Conn at *
  induction h with
  | refl => exact Relation.ReflTransGen.refl
  | tail _ hstep ih => exact Relation.ReflTransGen.head (adj_symm es _ _ hstep) ih

theorem conn_trans (es : List (String × String)) (a b c : String) (h1 : Conn es a b) (h2 : Conn es b c) :
    Conn es a c := Relation.ReflTransGen.trans h1 h2

theorem mem_adjIn (es : List (String × String)) (nodes : List String) (a b : String) :
    b ∈ adjIn es nodes a ↔ a ∈ nodes ∧ b ∈ nodes ∧ b ∈ adj es a := by
  unfold adjIn
  by_cases ha : a ∈ nodes
  · simp [ha, List.mem_filter]; tauto
  · simp [ha]

theorem fresh_sound (ad : String → List String) (S : List String) (x : String) (hx : x ∈ fresh ad S) :
    (∃ a ∈ S, x ∈ ad a) ∧ x ∉ S := by
  simp only [fresh, mem_dedup, List.mem_filter, List.mem_flatMap, decide_eq_true_eq] at hx
  exact hx

theorem mem_fresh (ad : String → List String) (S : List String) (x : String) :
    x ∈ fresh ad S ↔ (∃ a ∈ S, x ∈ ad a) ∧ x ∉ S := by
  simp only [fresh, mem_dedup, List.mem_filter, List.mem_flatMap, decide_eq_true_eq]

/-- everything collected is reachable from the start set, along `ad` -/
theorem iter_sound (ad : String → List String) : ∀ (k : Nat) (S : List String) (x : String), x ∈ iter ad k S →
    ∃ s ∈ S, Relation.ReflTransGen (fun a b => b ∈ ad a) s x := by
  intro k
  induction k with
  | zero => intro S x hx; exact ⟨x, hx, Relation.ReflTransGen.refl⟩
  | succ k ih =>
    intro S x hx
    simp only [iter] at hx
    split at hx
    · exact ⟨x, hx, Relation.ReflTransGen.refl⟩
    · obtain ⟨s, hs, hsx⟩ := ih _ x hx
      rcases List.mem_append.mp hs with hs | hs
      · exact ⟨s, hs, hsx⟩
      · obtain ⟨⟨a, ha, has⟩, _⟩ := fresh_sound ad S s hs
        exact ⟨a, ha, Relation.ReflTransGen.head has hsx⟩

theorem iter_mono (ad : String → List String) : ∀ (k : Nat) (S : List String), ∀ x ∈ S, x ∈ iter ad k S := by
  intro k
  induction k with
  | zero => intro S x hx; exact hx
  | succ k ih =>
    intro S x hx
    simp only [iter]
    split
    · exact hx
    · exact ih _ x (List.mem_append_left _ hx)

theorem rtg_adjIn_sub (es : List (String × String)) (nodes : List String) (s x : String)
    (h : Relation.ReflTransGen (fun a b => b ∈ adjIn es nodes a) s x) :
    Conn es s x ∧ (s ∈ nodes → x ∈ nodes) := by
  induction h with
  | refl => exact ⟨Relation.ReflTransGen.refl, id⟩
  | tail _ hstep ih =>
    rw [mem_adjIn] at hstep
    exact ⟨Relation.ReflTransGen.tail ih.1 hstep.2.2, fun _ => hstep.2.1⟩

/-- members of a component are in the node set and connected to its seed -/
theorem component_sound (es : List (String × String)) (nodes : List String) (s x : String)
    (hx : x ∈ component es nodes s) : Conn es s x ∧ (s ∈ nodes → x ∈ nodes) := by
  obtain ⟨s', hs', hr⟩ := iter_sound _ _ _ x hx
  simp only [List.mem_singleton] at hs'; subst hs'
  exact rtg_adjIn_sub es nodes _ x hr

theorem seed_mem_component (es : List (String × String)) (nodes : List String) (s : String) :
    s ∈ component es nodes s := iter_mono _ _ _ s (by simp)

theorem compsAux_spec (es : List (String × String)) (nodes : List String) :
    ∀ (k : Nat) (l : List String) (c : List String), c ∈ compsAux es nodes k l →
      ∃ s ∈ l, c = component es nodes s := by
  intro k
  induction k with
  | zero => intro l c h; simp [compsAux] at h
  | succ k ih =>
    intro l c h
    cases l with
    | nil => simp [compsAux] at h
    | cons s rest =>
      simp only [compsAux, List.mem_cons] at h
      rcases h with h | h
      · exact ⟨s, by simp, h⟩
      · obtain ⟨s', hs', hc⟩ := ih _ c h
        exact ⟨s', List.mem_cons_of_mem _ (List.mem_filter.mp hs').1, hc⟩

theorem comps_spec (es : List (String × String)) (nodes : List String) (c : List String)
    (h : c ∈ comps es nodes) : ∃ s ∈ nodes, c = component es nodes s :=
  compsAux_spec es nodes _ _ c h

/-- members of one component of a sub-graph lie in the sub-graph and are pairwise connected -/
theorem comps_sound (es : List (String × String)) (nodes : List String) (c : List String)
    (h : c ∈ comps es nodes) : (∀ x ∈ c, x ∈ nodes) ∧ (∀ x ∈ c, ∀ y ∈ c, Conn es x y) ∧ c ≠ [] := by
  obtain ⟨s, hs, rfl⟩ := comps_spec es nodes c h
  refine ⟨fun x hx => (component_sound es nodes s x hx).2 hs, ?_, ?_⟩
  · intro x hx y hy
    exact conn_trans es x s y (conn_symm es s x (component_sound es nodes s x hx).1)
      (component_sound es nodes s y hy).1
  · exact List.ne_nil_of_mem (seed_mem_component es nodes s)

/-! ### the decoupling tree -/

/-- what `splitLoop` returns is the initial `best` or the components of the sub-graph without an accepted cut -/
theorem splitLoop_spec (es : List (String × String)) (nodes B : List String) (cuts : CutMap) :
    ∀ (ps : List (String × String)) (seen best subs : List (List String)),
      splitLoop es nodes B cuts ps seen best = .ok subs →
      subs = best ∨ ∃ cut : List String, cut ≠ [] ∧ (∀ x ∈ cut, x ∈ B) ∧
        subs = comps es (nodes.filter (fun x => decide (x ∉ cut))) ∧
        (∀ c ∈ subs, c.length ≠ 1) := by
  intro ps
  induction ps with
  | nil => intro seen best subs h; simp only [splitLoop, Except.ok.injEq] at h; exact Or.inl h.symm
  | cons st rest ih =>
    intro seen best subs h
    obtain ⟨s, t⟩ := st
    simp only [splitLoop] at h
    cases hl : List.lookup (sortDedup nodes, s, t) cuts with
    | none => simp [hl] at h
    | some cut0 =>
      simp only [hl] at h
      by_cases hne : sortDedup cut0 = []
      · simp [hne] at h
      · simp only [hne, if_false] at h
        by_cases hacc : ((sortDedup cut0).all (fun x => decide (x ∈ B)) && !(seen.contains (sortDedup cut0))) = true
        · simp only [hacc, if_true] at h
          have hB : ∀ x ∈ sortDedup cut0, x ∈ B := by
            simp only [Bool.and_eq_true, List.all_eq_true, decide_eq_true_eq] at hacc
            exact hacc.1
          by_cases hall : (comps es (nodes.filter (fun x => decide (x ∉ sortDedup cut0)))).all (fun c => c.length != 1) = true
          · simp only [hall, if_true] at h
            have hlen : ∀ c ∈ comps es (nodes.filter (fun x => decide (x ∉ sortDedup cut0))), c.length ≠ 1 := by
              simp only [List.all_eq_true, bne_iff_ne] at hall; exact hall
            by_cases h1 : (sortDedup cut0).length = 1
            · simp only [h1, if_true, Except.ok.injEq] at h
              subst h
              exact Or.inr ⟨sortDedup cut0, hne, hB, rfl, hlen⟩
            · simp only [h1, if_false] at h
              rcases ih _ _ _ h with h' | h'
              · subst h'
                exact Or.inr ⟨sortDedup cut0, hne, hB, rfl, hlen⟩
              · exact Or.inr h'
          · simp only [hall] at h
            exact ih _ _ _ h
        · simp only [hacc] at h
          exact ih _ _ _ h

/-- facts about every leaf below a sub-graph -/
theorem decouple_spec (es : List (String × String)) (cuts : CutMap) (isProt : String → Bool) :
    ∀ (fuel : Nat) (nodes : List String) (lvs : List (List String)),
      decouple es cuts isProt fuel nodes = .ok lvs →
      ∀ leaf ∈ lvs, leaf.Nodup ∧ (∀ x ∈ leaf, isProt x = true) ∧ (∀ x ∈ leaf, x ∈ nodes) := by
  intro fuel
  induction fuel with
  | zero => intro nodes lvs h; simp [decouple] at h
  | succ fuel ih =>
    intro nodes lvs h leaf hleaf
    simp only [decouple] at h
    have hA : (sortDedup (nodes.filter isProt)).Nodup ∧
        (∀ x ∈ sortDedup (nodes.filter isProt), isProt x = true) ∧
        (∀ x ∈ sortDedup (nodes.filter isProt), x ∈ nodes) := by
      refine ⟨nodup_sortDedup _, ?_, ?_⟩
      · intro x hx; rw [mem_sortDedup] at hx; exact (List.mem_filter.mp hx).2
      · intro x hx; rw [mem_sortDedup] at hx; exact (List.mem_filter.mp hx).1
    by_cases hlen : (sortDedup (nodes.filter isProt)).length ≤ 1
    · simp only [hlen, if_true, Except.ok.injEq] at h
      subst h
      simp only [List.mem_singleton] at hleaf; subst hleaf
      exact hA
    · simp only [hlen, if_false] at h
      cases hs : splitLoop es nodes (sortDedup (nodes.filter (fun x => !isProt x))) cuts
          (pairs (sortDedup (nodes.filter isProt))) [] [] with
      | error e => simp [hs] at h
      | ok subs =>
        simp only [hs] at h
        cases subs with
        | nil =>
          simp only [Except.ok.injEq] at h
          subst h
          simp only [List.mem_singleton] at hleaf; subst hleaf
          exact hA
        | cons s0 subs =>
          simp only at h
          obtain ⟨c, hc, x, hx, hlx⟩ := collect_ok _ _ _ h leaf hleaf
          obtain ⟨h1, h2, h3⟩ := ih c x hx leaf hlx
          refine ⟨h1, h2, ?_⟩
          rcases splitLoop_spec es nodes _ cuts _ _ _ _ hs with hb | ⟨cut, _, _, hsub, _⟩
          · simp at hb
          · rw [hsub] at hc
            intro y hy
            exact (List.mem_filter.mp ((comps_sound es _ c hc).1 y (h3 y hy))).1

end PgFdr.C04
